import GrafeoModel.Model.Sparql
import GrafeoModel.Props.C13

/-!
# C13, second sentence — a SPARQL query returns exactly the solutions that evaluating it over the
triple set yields

`Model/Sparql.lean` has the standard algebra (`transStd`, `eval`, `specSelect`, `specCount`,
`specUpdate`) and the model of what `sparql_translator.rs` + `planner_rdf.rs` + the operators of
`grafeo-core` do (`transCode`, `exec`, `execSelect`, `execCount`, `execUpdate`), plus — in
`namespace Old` — the model of the code before the repairs of this round. The statement "the
planner's answer is the algebra's answer for every triple set and every query of the core grammar"
is still **false** for the code as it is, because the engine's columns hold the lexical forms of
terms (strings), not terms. Every way in which it fails is a witness theorem (`w_*`, decided by
evaluation on the term pool of stream `sparql` and replayed on the real code by
`corpus/C13/sparql.ops`); the defects that have been repaired are regression witnesses about the
old model (`Old.w_*`) together with `r_*`: the same instance is answered correctly now. The
strongest statements that hold are the `*_partial` theorems — for every store reachable by any
sequence of inserts / removes / clears, with or without object index, every iteration order of
the primary hash set, and every query that satisfies an explicit decidable condition:

* `c13_sparql_pattern_partial` (core: `exec_perm_eval`): the empty group, BGPs (a variable may
  occur twice in a pattern), joins on shared variables, FILTER, OPTIONAL (left join), UNION with
  any variable sets — the rows of the physical plan, read as solutions, are a permutation of the
  algebra's solutions (`wfPat`; lexical forms pairwise different; `=` is term identity);
* `transCode_eq` (full): for *every* group the translator's plan is the standard translation with
  the condition of each OPTIONAL moved into its right operand (`normalize`); `eval_transCode`: the
  two evaluate alike when no such condition reads a variable of the left operand (`scopeOk`);
* `c13_sparql_select_partial` (projection, DISTINCT), `c13_sparql_order_partial` (ORDER BY with
  total keys, then projection / DISTINCT / OFFSET / LIMIT: the same *sequence*),
  `c13_sparql_slice_partial` (OFFSET / LIMIT without ORDER BY: right size, sub-multiset),
  `c13_sparql_count_partial` (COUNT(\*), COUNT(?x) without GROUP BY);
* `c13_sparql_insert_data_partial`, `c13_sparql_delete_data_partial`,
  `c13_sparql_delete_where_partial`, `c13_sparql_modify_partial`: the resulting set of triples is
  the specification's;
* `nv_*`: each of them applies to a concrete non-trivial instance.
-/

namespace Grafeo.Sparql
open Grafeo.Rdf

/-! ## reading a physical row as a solution -/

def cellVal : Cell → Option Nat
  | .str l => some l
  | _ => none

/-- the value a row gives to variable `v` under the column names `cols` -/
def lookupCol : List Nat → Row → Nat → Option Nat
  | c :: cs, x :: xs, v => if c = v then cellVal x else lookupCol cs xs v
  | _, _, _ => none

/-- a row as a solution over the variables `0 … n-1` (values are lexical forms) -/
def toSol (n : Nat) (cols : List Nat) (row : Row) : Sol := (List.range n).map (lookupCol cols row)

/-- a solution of the algebra as the engine can show it: every term by its lexical form -/
def lexSol (env : Env) (μ : Sol) : Sol := μ.map (Option.map env.lex)

/-! ## list helpers -/

theorem flatMap_perm_pointwise {α β : Type} (l : List α) (f g : α → List β)
    (h : ∀ a ∈ l, (f a).Perm (g a)) : (l.flatMap f).Perm (l.flatMap g) := by
  induction l with
  | nil => exact List.Perm.refl _
  | cons x xs ih =>
    simp only [List.flatMap_cons]
    exact List.Perm.append (h x List.mem_cons_self) (ih (fun a ha => h a (List.mem_cons_of_mem _ ha)))

theorem flatMap_congr' {α β : Type} (l : List α) (f g : α → List β)
    (h : ∀ a ∈ l, f a = g a) : l.flatMap f = l.flatMap g := by
  induction l with
  | nil => rfl
  | cons x xs ih =>
    simp only [List.flatMap_cons]
    rw [h x List.mem_cons_self, ih (fun a ha => h a (List.mem_cons_of_mem _ ha))]

theorem filter_map_eq_filterMap {α β : Type} (l : List α) (p : α → Bool) (f : α → β) :
    (l.filter p).map f = l.filterMap (fun a => if p a then some (f a) else none) := by
  induction l with
  | nil => rfl
  | cons x xs ih =>
    simp only [List.filter_cons, List.filterMap_cons]
    cases hp : p x <;> simp [ih]

theorem filterMap_congr' {α β : Type} (l : List α) (f g : α → Option β)
    (h : ∀ a ∈ l, f a = g a) : l.filterMap f = l.filterMap g := by
  induction l with
  | nil => rfl
  | cons x xs ih =>
    simp only [List.filterMap_cons]
    rw [h x List.mem_cons_self, ih (fun a ha => h a (List.mem_cons_of_mem _ ha))]

/-! ## chunks -/

theorem chunksAux_flatten {α : Type} (k : Nat) (hk : 0 < k) (fuel : Nat) (l : List α)
    (h : l.length ≤ fuel) : (chunksAux k fuel l).flatten = l := by
  induction fuel generalizing l with
  | zero =>
    have : l = [] := List.eq_nil_of_length_eq_zero (Nat.le_zero.mp h)
    subst this
    simp [chunksAux]
  | succ f ih =>
    unfold chunksAux
    cases l with
    | nil => simp
    | cons x xs =>
      simp only [List.isEmpty_cons, Bool.false_eq_true, if_false, List.flatten_cons]
      rw [ih]
      · exact List.take_append_drop k (x :: xs)
      · simp only [List.length_drop, List.length_cons] at *
        omega

theorem chunksOf_flatten {α : Type} (k : Nat) (hk : 0 < k) (l : List α) : (chunksOf k l).flatten = l :=
  chunksAux_flatten k hk l.length l (Nat.le_refl _)

theorem chunksOf_flatMap {α β : Type} (k : Nat) (hk : 0 < k) (l : List α) (f : α → β) :
    (chunksOf k l).flatMap (fun c => c.map f) = l.map f := by
  have : (chunksOf k l).flatMap (fun c => c.map f) = ((chunksOf k l).flatten).map f := by
    rw [List.flatten_eq_flatMap, List.map_flatMap]
    rfl
  rw [this, chunksOf_flatten k hk]

theorem selRows_allSel (rows : List Row) : selRows (allSel rows) = rows := by
  induction rows with
  | nil => rfl
  | cons r rs ih =>
    simp only [allSel, selRows, List.map_cons, List.filter_cons, if_true] at *
    rw [ih]

theorem selRows_rebuild (rows : List Row) : selRows (rebuild rows) = rows := selRows_allSel rows

theorem rows_rebuild_chunks (k : Nat) (hk : 0 < k) (X : List Row) :
    ((chunksOf k X).map rebuild).flatMap selRows = X := by
  rw [List.flatMap_map]
  have : (fun a => selRows (rebuild a)) = fun (c : List Row) => c.map id := by
    funext a
    simp [selRows_rebuild]
  rw [this, chunksOf_flatMap k hk]
  simp

theorem rows_scanT (env : Env) (st : Store) (full : List Triple) (tp : TP) :
    (scanT env st full tp).rows =
      ((findIn st full (tpPattern env tp)).filter fun t => sameTerm [] (tpBinds tp t)).map (scanRow env tp) := by
  simp only [scanT, Table.rows, List.flatMap_map]
  have : (fun a => selRows (allSel a)) = fun (c : List Row) => c.map id := by
    funext a
    simp [selRows_allSel]
  rw [this, chunksOf_flatMap scanChunk (by decide)]
  simp

theorem rows_nlJoin (left : Bool) (ta tb : Table) :
    (nlJoin left ta tb).rows =
      ta.rows.flatMap (joinOne left (sharedPairs ta.cols tb.cols) (keepRight ta.cols tb.cols) tb.rows) := by
  simp only [nlJoin, Table.rows, List.flatMap_assoc]
  apply flatMap_congr'
  intro c _
  rw [rows_rebuild_chunks joinChunk (by decide)]

theorem selRows_filterChunk (env : Env) (cols : List Nat) (e : Expr) (c : Chunk) :
    selRows (filterChunk env cols e c) = (selRows c).filter (passes env cols e) := by
  induction c with
  | nil => rfl
  | cons br rest ih =>
    obtain ⟨b, r⟩ := br
    simp only [filterChunk, selRows, List.map_cons, List.filter_cons] at *
    cases b <;> cases hp : passes env cols e r <;> simp [hp, ih]

theorem selRows_of_not_anySel (c : Chunk) (h : anySel c = false) : selRows c = [] := by
  induction c with
  | nil => rfl
  | cons br rest ih =>
    obtain ⟨b, r⟩ := br
    simp only [anySel, List.any_cons, Bool.or_eq_false_iff] at h
    simp only [selRows, List.filter_cons, h.1]
    exact ih h.2

theorem flatMap_filter_anySel (cs : List Chunk) : (cs.filter anySel).flatMap selRows = cs.flatMap selRows := by
  induction cs with
  | nil => rfl
  | cons c rest ih =>
    simp only [List.filter_cons, List.flatMap_cons]
    cases h : anySel c
    · simp [selRows_of_not_anySel c h, ih]
    · simp [ih]

theorem rows_filterT (env : Env) (e : Expr) (t : Table) :
    (filterT env e t).rows = t.rows.filter (passes env t.cols e) := by
  simp only [filterT, Table.rows]
  rw [flatMap_filter_anySel, List.flatMap_map]
  induction t.chunks with
  | nil => rfl
  | cons c rest ih =>
    simp only [List.flatMap_cons, List.filter_append, selRows_filterChunk] at *
    rw [ih]

theorem findIn_perm (b : Bool) (ops : List Op) (full : List Triple) (pat : Pattern)
    (h : full.Perm (run b ops).triples) :
    (findIn (run b ops) full pat).Perm ((run b ops).triples.filter pat.matches) := by
  rw [← c13_find_eq_filter]
  unfold findIn Store.find
  cases pat.s with
  | some s => exact List.Perm.refl _
  | none =>
    cases pat.p with
    | some p => exact List.Perm.refl _
    | none =>
      cases pat.o with
      | some o =>
        simp only
        split
        · exact List.Perm.refl _
        · exact h.filter _
      | none => exact h.filter _

/-! ### solutions as vectors -/

theorem Sol.get_eq (μ : Sol) (v : Nat) : μ.get v = (μ[v]?).getD none := rfl

theorem sol_ext {n : Nat} (a b : Sol) (ha : a.length = n) (hb : b.length = n)
    (h : ∀ v, v < n → a.get v = b.get v) : a = b := by
  apply List.ext_getElem (by omega)
  intro i h1 h2
  have := h i (by omega)
  simp only [Sol.get, List.getElem?_eq_getElem h1, List.getElem?_eq_getElem h2, Option.getD_some] at this
  exact this

theorem toSol_length (n : Nat) (cols : List Nat) (row : Row) : (toSol n cols row).length = n := by
  simp [toSol]

theorem toSol_get (n : Nat) (cols : List Nat) (row : Row) (v : Nat) (hv : v < n) :
    (toSol n cols row).get v = lookupCol cols row v := by
  simp [toSol, Sol.get, hv]

theorem lexSol_length (env : Env) (μ : Sol) : (lexSol env μ).length = μ.length := by
  simp [lexSol]

theorem lexSol_get (env : Env) (μ : Sol) (v : Nat) : (lexSol env μ).get v = (μ.get v).map env.lex := by
  simp only [lexSol, Sol.get, List.getElem?_map]
  cases μ[v]? <;> simp

theorem emptySol_length (n : Nat) : (emptySol n).length = n := by simp [emptySol]

theorem emptySol_get (n v : Nat) : (emptySol n).get v = none := by
  simp only [emptySol, Sol.get, List.getElem?_replicate]
  split <;> simp

theorem set_get (μ : Sol) (v w x : Nat) :
    Sol.get (μ.set v (some x)) w = if v = w ∧ v < μ.length then some x else μ.get w := by
  simp only [Sol.get, List.getElem?_set]
  by_cases h : v = w
  · subst h
    by_cases h2 : v < μ.length
    · simp [h2]
    · simp [h2]
  · simp [h]

/-! ### a triple pattern against a triple: the scan and `matchTP` -/

/-- sequential binding, as `matchTP` does it -/
def bindAll (μ : Sol) : List (Nat × Nat) → Option Sol
  | [] => some μ
  | b :: rest => (bindVar μ b.1 b.2).bind fun μ' => bindAll μ' rest

def constOk (pt : PT) (x : Nat) : Bool :=
  match pt with
  | .const c => c == x
  | .var _ => true

def constsOk (tp : TP) (t : Triple) : Bool := constOk tp.s t.s && constOk tp.p t.p && constOk tp.o t.o

theorem bindAll_append (μ : Sol) (a b : List (Nat × Nat)) :
    bindAll μ (a ++ b) = (bindAll μ a).bind fun μ' => bindAll μ' b := by
  induction a generalizing μ with
  | nil => rfl
  | cons x xs ih =>
    simp only [List.cons_append, bindAll]
    cases bindVar μ x.1 x.2 with
    | none => rfl
    | some μ' => simp [ih]

theorem bindPT_eq (μ : Sol) (pt : PT) (x : Nat) :
    bindPT μ pt x = if constOk pt x then bindAll μ (ptBind pt x) else none := by
  cases pt with
  | const c =>
    simp only [bindPT, constOk, ptBind, bindAll, beq_iff_eq]
  | var v =>
    simp only [bindPT, constOk, ptBind, bindAll, if_true]
    cases bindVar μ v x <;> rfl

theorem matchTP_eq (n : Nat) (tp : TP) (t : Triple) :
    matchTP n tp t = if constsOk tp t then bindAll (emptySol n) (tpBinds tp t) else none := by
  simp only [matchTP, bindPT_eq, constsOk, tpBinds, bindAll_append]
  cases constOk tp.s t.s <;> cases constOk tp.p t.p <;> cases constOk tp.o t.o <;> simp
  all_goals
    cases bindAll (emptySol n) (ptBind tp.s t.s) <;> simp
  all_goals
    rename_i μ
    cases bindAll μ (ptBind tp.p t.p) <;> simp

def lookupB (bs : List (Nat × Nat)) (w : Nat) : Option Nat := (bs.find? fun s => s.1 == w).map (·.2)

/-- the solution binds exactly what the list says -/
def Rep (μ : Sol) (seen : List (Nat × Nat)) : Prop := ∀ w, μ.get w = lookupB seen w

theorem lookupB_append_single (seen : List (Nat × Nat)) (v x w : Nat) (h : lookupB seen v = none) :
    lookupB (seen ++ [(v, x)]) w = if v = w then some x else lookupB seen w := by
  simp only [lookupB, List.find?_append]
  by_cases hvw : v = w
  · subst hvw
    simp only [lookupB, Option.map_eq_none_iff] at h
    simp [h]
  · simp only [if_neg hvw]
    cases hf : seen.find? (fun s => s.1 == w) with
    | some s => simp
    | none => simp [hvw]

theorem bindAll_spec (n : Nat) (bs : List (Nat × Nat)) (μ : Sol) (seen : List (Nat × Nat))
    (hlen : μ.length = n) (hlt : ∀ b ∈ bs, b.1 < n) (hrep : Rep μ seen) :
    if sameTerm seen bs = true then
      ∃ μ', bindAll μ bs = some μ' ∧ μ'.length = n ∧ Rep μ' (seen ++ firstBinds seen bs)
    else bindAll μ bs = none := by
  induction bs generalizing μ seen with
  | nil =>
    simp only [sameTerm, if_true, bindAll, firstBinds, List.append_nil]
    exact ⟨μ, rfl, hlen, hrep⟩
  | cons b rest ih =>
    obtain ⟨v, x⟩ := b
    have hv : v < n := hlt (v, x) List.mem_cons_self
    have hrest : ∀ b ∈ rest, b.1 < n := fun b hb => hlt b (List.mem_cons_of_mem _ hb)
    have hget := hrep v
    cases hf : seen.find? (fun s => s.1 == v) with
    | some s =>
      simp only [sameTerm, firstBinds, bindAll, hf]
      have hany : (seen.any fun s => s.1 == v) = true := by
        rw [List.any_eq_true]
        exact ⟨s, List.mem_of_find?_eq_some hf, (List.find?_eq_some_iff_append.mp hf).1⟩
      simp only [lookupB, hf, Option.map_some] at hget
      simp only [hany, if_true, bindVar, hget]
      by_cases hsx : s.2 = x
      · simp only [hsx, beq_self_eq_true, Bool.true_and, if_true, Option.bind_some]
        exact ih μ seen hlen hrest hrep
      · have : (s.2 == x) = false := beq_eq_false_iff_ne.mpr hsx
        simp [this, hsx]
    | none =>
      simp only [sameTerm, firstBinds, bindAll, hf]
      have hany : (seen.any fun s => s.1 == v) = false := by
        rw [List.any_eq_false]
        intro s hs
        have := List.find?_eq_none.mp hf s hs
        simpa using this
      simp only [lookupB, hf, Option.map_none] at hget
      simp only [hany, Bool.false_eq_true, if_false, bindVar, hget, Option.bind_some]
      have hrep' : Rep (μ.set v (some x)) (seen ++ [(v, x)]) := by
        intro w
        rw [set_get, lookupB_append_single seen v x w (by simp [lookupB, hf]), hrep w]
        by_cases hvw : v = w
        · subst hvw
          rw [if_pos ⟨rfl, by omega⟩, if_pos rfl]
        · rw [if_neg (fun h => hvw h.1), if_neg hvw]
      have := ih (μ.set v (some x)) (seen ++ [(v, x)]) (by simp [hlen]) hrest hrep'
      simpa [List.append_assoc] using this

theorem firstBinds_keys (seen bs : List (Nat × Nat)) :
    (firstBinds seen bs).map (·.1) = firstKeys (seen.map (·.1)) (bs.map (·.1)) := by
  induction bs generalizing seen with
  | nil => rfl
  | cons b rest ih =>
    have hc : (seen.any fun s => s.1 == b.1) = (seen.map (·.1)).contains b.1 := by
      induction seen with
      | nil => rfl
      | cons s ss ihs =>
        simp only [List.any_cons, List.map_cons, List.contains_cons, ihs]
        congr 1
        exact Bool.beq_comm
    simp only [firstBinds, List.map_cons, firstKeys, hc]
    split
    · exact ih seen
    · simp only [List.map_cons, ih, List.map_append, List.map_nil]

theorem tpBinds_keys (tp : TP) (t : Triple) : (tpBinds tp t).map (·.1) = tpCols tp := by
  obtain ⟨s, p, o⟩ := tp
  cases s <;> cases p <;> cases o <;> rfl

theorem lookupCol_binds (env : Env) (fb : List (Nat × Nat)) (w : Nat) :
    lookupCol (fb.map (·.1)) (fb.map fun b => Cell.str (env.lex b.2)) w = (lookupB fb w).map env.lex := by
  induction fb with
  | nil => rfl
  | cons b rest ih =>
    simp only [List.map_cons, lookupCol, lookupB, List.find?_cons]
    by_cases h : b.1 = w
    · simp [h, cellVal]
    · have : (b.1 == w) = false := beq_eq_false_iff_ne.mpr h
      simp only [if_neg h, this]
      exact ih

/-- one triple: what the scan hands on for it is what the pattern matches -/
theorem scan_point (env : Env) (n : Nat) (tp : TP) (t : Triple)
    (hlt : ∀ v ∈ tpCols tp, v < n) (hst : ∀ c ∈ tpConsts tp, env.litNorm c = c) :
    (if (tpPattern env tp).matches t && sameTerm [] (tpBinds tp t) then
        some (toSol n (scanCols tp) (scanRow env tp t)) else none)
      = (matchTP n tp t).map (lexSol env) := by
  have hm : (tpPattern env tp).matches t = constsOk tp t := by
    obtain ⟨s, p, o⟩ := tp
    cases s <;> cases p <;> cases o <;>
      simp_all [tpPattern, patPos, Pattern.matches, constsOk, constOk, tpConsts, ptConsts]
  rw [hm, matchTP_eq]
  cases hc : constsOk tp t
  · rfl
  · simp only [Bool.true_and, if_true]
    have hb : ∀ b ∈ tpBinds tp t, b.1 < n := by
      intro b hb
      apply hlt
      rw [← tpBinds_keys tp t]
      exact List.mem_map_of_mem hb
    have hspec := bindAll_spec n (tpBinds tp t) (emptySol n) [] (emptySol_length n) hb
      (fun w => by simp [emptySol_get, lookupB])
    cases hs : sameTerm [] (tpBinds tp t)
    · simp only [hs, Bool.false_eq_true, if_false] at hspec ⊢
      rw [hspec]; rfl
    · simp only [hs, if_true, List.nil_append] at hspec ⊢
      obtain ⟨μ', h1, h2, h3⟩ := hspec
      rw [h1]
      simp only [Option.map_some, Option.some.injEq]
      apply sol_ext (n := n) _ _ (toSol_length _ _ _) (by rw [lexSol_length, h2])
      intro w hw
      rw [toSol_get _ _ _ _ hw, lexSol_get, h3 w]
      have hk : scanCols tp = (firstBinds [] (tpBinds tp t)).map (·.1) := by
        rw [firstBinds_keys, tpBinds_keys]; rfl
      rw [hk]
      exact lookupCol_binds env _ w

/-- what the induction over the plan maintains about a physical table -/
structure Good (n : Nat) (cert : List Nat) (t : Table) : Prop where
  nodup : t.cols.Nodup
  lt : ∀ v ∈ t.cols, v < n
  width : ∀ r ∈ t.rows, r.length = t.cols.length
  noInt : ∀ r ∈ t.rows, ∀ c ∈ r, ∀ k, c ≠ Cell.int k
  cert : ∀ r ∈ t.rows, ∀ v ∈ cert, (lookupCol t.cols r v).isSome = true

theorem lookupCol_isSome_of_str (cols : List Nat) (row : Row) (v : Nat) (hv : v ∈ cols)
    (hw : row.length = cols.length) (hs : ∀ c ∈ row, ∃ l, c = Cell.str l) :
    (lookupCol cols row v).isSome = true := by
  induction cols generalizing row with
  | nil => cases hv
  | cons c cs ih =>
    cases row with
    | nil => simp at hw
    | cons x xs =>
      simp only [lookupCol]
      by_cases h : c = v
      · obtain ⟨l, hl⟩ := hs x List.mem_cons_self
        simp [h, hl, cellVal]
      · simp only [h, if_false]
        apply ih
        · cases hv with
          | head => exact absurd rfl h
          | tail _ h' => exact h'
        · simpa using hw
        · intro c' hc'
          exact hs c' (List.mem_cons_of_mem _ hc')

theorem firstKeys_spec (seen l : List Nat) :
    (firstKeys seen l).Nodup ∧ (∀ v ∈ firstKeys seen l, v ∈ l ∧ v ∉ seen) := by
  induction l generalizing seen with
  | nil => exact ⟨List.nodup_nil, fun v h => by cases h⟩
  | cons x xs ih =>
    simp only [firstKeys]
    split
    · obtain ⟨h1, h2⟩ := ih seen
      exact ⟨h1, fun v hv => ⟨List.mem_cons_of_mem _ (h2 v hv).1, (h2 v hv).2⟩⟩
    · rename_i hx
      obtain ⟨h1, h2⟩ := ih (seen ++ [x])
      have hxs : x ∉ seen := fun h => hx (List.contains_iff_mem.mpr h)
      refine ⟨?_, ?_⟩
      · rw [List.nodup_cons]
        refine ⟨fun h => ?_, h1⟩
        exact (h2 x h).2 (by simp)
      · intro v hv
        rcases List.mem_cons.mp hv with rfl | hv
        · exact ⟨List.mem_cons_self, hxs⟩
        · have := h2 v hv
          exact ⟨List.mem_cons_of_mem _ this.1, fun h => this.2 (List.mem_append_left _ h)⟩

theorem scanCols_nodup (tp : TP) : (scanCols tp).Nodup := (firstKeys_spec [] (tpCols tp)).1

theorem scanCols_sub (tp : TP) : ∀ v ∈ scanCols tp, v ∈ tpCols tp := fun v h => ((firstKeys_spec [] (tpCols tp)).2 v h).1

theorem scanRow_length (env : Env) (tp : TP) (t : Triple) : (scanRow env tp t).length = (scanCols tp).length := by
  have : scanCols tp = (firstBinds [] (tpBinds tp t)).map (·.1) := by
    rw [firstBinds_keys, tpBinds_keys]; rfl
  rw [this]
  simp [scanRow]

theorem scanRow_str (env : Env) (tp : TP) (t : Triple) : ∀ c ∈ scanRow env tp t, ∃ l, c = Cell.str l := by
  intro c hc
  simp only [scanRow, List.mem_map] at hc
  obtain ⟨b, _, rfl⟩ := hc
  exact ⟨_, rfl⟩

theorem scan_good (env : Env) (st : Store) (full : List Triple) (n : Nat) (tp : TP)
    (hlt : ∀ v ∈ tpCols tp, v < n) :
    Good n (scanCols tp) (scanT env st full tp) := by
  have hrows := rows_scanT env st full tp
  refine ⟨scanCols_nodup tp, fun v hv => hlt v (scanCols_sub tp v hv), ?_, ?_, ?_⟩
  · intro r hr
    rw [hrows] at hr
    obtain ⟨t, _, rfl⟩ := List.mem_map.mp hr
    exact scanRow_length env tp t
  · intro r hr c hc k
    rw [hrows] at hr
    obtain ⟨t, _, rfl⟩ := List.mem_map.mp hr
    obtain ⟨l, hl⟩ := scanRow_str env tp t c hc
    simp [hl]
  · intro r hr v hv
    rw [hrows] at hr
    obtain ⟨t, _, rfl⟩ := List.mem_map.mp hr
    exact lookupCol_isSome_of_str _ _ v hv (scanRow_length env tp t) (scanRow_str env tp t)

theorem scan_perm (env : Env) (b : Bool) (ops : List Op) (full : List Triple) (n : Nat) (tp : TP)
    (hfull : full.Perm (run b ops).triples)
    (hlt : ∀ v ∈ tpCols tp, v < n)
    (hst : ∀ c ∈ tpConsts tp, env.litNorm c = c) :
    (((scanT env (run b ops) full tp).rows).map (toSol n (scanCols tp))).Perm
      (((run b ops).triples.filterMap (matchTP n tp)).map (lexSol env)) := by
  rw [rows_scanT, List.map_map]
  have h1 := ((findIn_perm b ops full (tpPattern env tp) hfull).filter
    (fun t => sameTerm [] (tpBinds tp t))).map (toSol n (scanCols tp) ∘ scanRow env tp)
  refine h1.trans ?_
  rw [List.filter_filter, filter_map_eq_filterMap, List.map_filterMap]
  apply List.Perm.of_eq
  apply filterMap_congr'
  intro t _
  have := scan_point env n tp t hlt hst
  rw [Bool.and_comm] at this
  exact this

theorem merge_length (a b : Sol) (n : Nat) (ha : a.length = n) (hb : b.length = n) : (merge a b).length = n := by
  simp [merge, ha, hb]

theorem merge_get (a b : Sol) (v : Nat) (h : a.length = b.length) :
    Sol.get (merge a b) v = mergeCell (a.get v) (b.get v) := by
  simp only [Sol.get, merge, List.getElem?_zipWith]
  by_cases hv : v < a.length
  · have hv' : v < b.length := by omega
    simp [List.getElem?_eq_getElem hv, List.getElem?_eq_getElem hv']
  · have hv' : ¬ v < b.length := by omega
    simp [List.getElem?_eq_none (Nat.le_of_not_lt hv), List.getElem?_eq_none (Nat.le_of_not_lt hv'), mergeCell]

theorem bindPT_length (μ μ' : Sol) (pt : PT) (x : Nat) (h : bindPT μ pt x = some μ') : μ'.length = μ.length := by
  cases pt with
  | const c =>
    simp only [bindPT] at h
    split at h <;> simp_all
  | var v =>
    simp only [bindPT, bindVar] at h
    split at h
    · simp at h; subst h; simp
    · split at h <;> simp_all

theorem bindPT_values (μ μ' : Sol) (pt : PT) (x : Nat) (h : bindPT μ pt x = some μ') (w y : Nat)
    (hy : μ'.get w = some y) : y = x ∨ μ.get w = some y := by
  cases pt with
  | const c =>
    simp only [bindPT] at h
    split at h <;> simp_all
  | var v =>
    simp only [bindPT, bindVar] at h
    split at h
    · simp at h; subst h
      rw [set_get] at hy
      split at hy
      · left; simpa using hy.symm
      · right; exact hy
    · split at h <;> simp_all

theorem matchTP_length (n : Nat) (tp : TP) (t : Triple) (μ : Sol) (h : matchTP n tp t = some μ) : μ.length = n := by
  simp only [matchTP, Option.bind_eq_some_iff] at h
  obtain ⟨μ1, h1, μ2, h2, h3⟩ := h
  rw [bindPT_length _ _ _ _ h3, bindPT_length _ _ _ _ h2, bindPT_length _ _ _ _ h1, emptySol_length]

theorem matchTP_values (n : Nat) (tp : TP) (t : Triple) (μ : Sol) (h : matchTP n tp t = some μ) (w y : Nat)
    (hy : μ.get w = some y) : y = t.s ∨ y = t.p ∨ y = t.o := by
  simp only [matchTP, Option.bind_eq_some_iff] at h
  obtain ⟨μ1, h1, μ2, h2, h3⟩ := h
  rcases bindPT_values _ _ _ _ h3 w y hy with h | h
  · exact Or.inr (Or.inr h)
  · rcases bindPT_values _ _ _ _ h2 w y h with h | h
    · exact Or.inr (Or.inl h)
    · rcases bindPT_values _ _ _ _ h1 w y h with h | h
      · exact Or.inl h
      · rw [emptySol_get] at h; cases h

/-- every solution of the algebra is a vector over the `n` variables whose values are terms of the data -/
theorem eval_wf (env : Env) (n : Nat) (G : List Triple) (p : Pat) :
    ∀ μ ∈ eval env n G p, μ.length = n ∧ ∀ w y, μ.get w = some y → y ∈ triplesTerms G := by
  induction p with
  | unit =>
    intro μ hμ
    simp only [eval, List.mem_singleton] at hμ
    subst hμ
    exact ⟨emptySol_length n, fun w y h => by rw [emptySol_get] at h; cases h⟩
  | scan tp =>
    intro μ hμ
    simp only [eval, List.mem_filterMap] at hμ
    obtain ⟨t, ht, hm⟩ := hμ
    refine ⟨matchTP_length n tp t μ hm, fun w y hy => ?_⟩
    simp only [triplesTerms, List.mem_flatMap]
    refine ⟨t, ht, ?_⟩
    rcases matchTP_values n tp t μ hm w y hy with h | h | h <;> simp [h]
  | join a b iha ihb =>
    intro μ hμ
    simp only [eval, joinSols, List.mem_flatMap, List.mem_filterMap] at hμ
    obtain ⟨x, hx, y, hy, hxy⟩ := hμ
    split at hxy
    · simp only [Option.some.injEq] at hxy
      subst hxy
      obtain ⟨lx, vx⟩ := iha x hx
      obtain ⟨ly, vy⟩ := ihb y hy
      refine ⟨merge_length x y n lx ly, fun w z hz => ?_⟩
      rw [merge_get x y w (by omega)] at hz
      cases hxw : x.get w with
      | some u => simp [hxw, mergeCell] at hz; subst hz; exact vx w u hxw
      | none => simp [hxw, mergeCell] at hz; exact vy w z hz
    · cases hxy
  | leftJoin a b cond iha ihb =>
    intro μ hμ
    simp only [eval, List.mem_flatMap] at hμ
    obtain ⟨x, hx, hm⟩ := hμ
    obtain ⟨lx, vx⟩ := iha x hx
    simp only [leftJoinOne] at hm
    split at hm
    · simp only [List.mem_singleton] at hm
      subst hm
      exact ⟨lx, vx⟩
    · simp only [List.mem_filterMap] at hm
      obtain ⟨y, hy, hxy⟩ := hm
      split at hxy
      · simp only [Option.some.injEq] at hxy
        subst hxy
        obtain ⟨ly, vy⟩ := ihb y hy
        refine ⟨merge_length x y n lx ly, fun w z hz => ?_⟩
        rw [merge_get x y w (by omega)] at hz
        cases hxw : x.get w with
        | some u => simp [hxw, mergeCell] at hz; subst hz; exact vx w u hxw
        | none => simp [hxw, mergeCell] at hz; exact vy w z hz
      · cases hxy
  | union a b iha ihb =>
    intro μ hμ
    simp only [eval, List.mem_append] at hμ
    rcases hμ with h | h
    · exact iha μ h
    · exact ihb μ h
  | filter e a iha =>
    intro μ hμ
    simp only [eval, List.mem_filter] at hμ
    exact iha μ hμ.1

/-- no two different terms of `U` are written the same way -/
def LexInj (env : Env) (U : List Nat) : Prop := ∀ a ∈ U, ∀ b ∈ U, env.lex a = env.lex b → a = b

theorem lexInj_of_noClash (env : Env) (U : List Nat) (h : lexClash env U = false) : LexInj env U := by
  intro a ha b hb hab
  apply Classical.byContradiction
  intro hne
  have : lexClash env U = true := by
    simp only [lexClash, List.any_eq_true]
    exact ⟨a, ha, b, hb, by simp [hne, hab]⟩
  rw [h] at this
  cases this

theorem compat_iff (a b : Sol) (h : a.length = b.length) :
    compat a b = true ↔ ∀ v, compatCell (a.get v) (b.get v) = true := by
  induction a generalizing b with
  | nil =>
    cases b with
    | nil => simp [compat, Sol.get, compatCell]
    | cons y ys => simp at h
  | cons x xs ih =>
    cases b with
    | nil => simp at h
    | cons y ys =>
      have hl : xs.length = ys.length := by simpa using h
      have ih' := ih ys hl
      simp only [compat, List.zipWith_cons_cons, List.all_cons, Bool.and_eq_true, id] at ih' ⊢
      rw [ih']
      constructor
      · rintro ⟨h0, hr⟩ v
        cases v with
        | zero => simpa [Sol.get] using h0
        | succ k => simpa [Sol.get] using hr k
      · intro hv
        refine ⟨by simpa [Sol.get] using hv 0, fun k => ?_⟩
        simpa [Sol.get] using hv (k + 1)

theorem lexSol_compat (env : Env) (U : List Nat) (hU : LexInj env U) (μ ν : Sol) (hl : μ.length = ν.length)
    (hμ : ∀ w y, μ.get w = some y → y ∈ U) (hν : ∀ w y, ν.get w = some y → y ∈ U) :
    compat (lexSol env μ) (lexSol env ν) = compat μ ν := by
  have h1 := compat_iff (lexSol env μ) (lexSol env ν) (by simp [lexSol_length, hl])
  have h2 := compat_iff μ ν hl
  have : (∀ v, compatCell ((lexSol env μ).get v) ((lexSol env ν).get v) = true) ↔
      (∀ v, compatCell (μ.get v) (ν.get v) = true) := by
    constructor <;> intro h v <;> have hv := h v <;> rw [lexSol_get, lexSol_get] at *
    · cases hx : μ.get v with
      | none => simp [compatCell]
      | some x =>
        cases hy : ν.get v with
        | none => simp [compatCell]
        | some y =>
          simp only [hx, hy, Option.map_some, compatCell, beq_iff_eq] at hv ⊢
          exact hU x (hμ v x hx) y (hν v y hy) hv
    · cases hx : μ.get v with
      | none => simp [compatCell]
      | some x =>
        cases hy : ν.get v with
        | none => simp [compatCell]
        | some y =>
          simp only [hx, hy, Option.map_some, compatCell, beq_iff_eq] at hv ⊢
          rw [hv]
  cases hc : compat μ ν
  · cases hc' : compat (lexSol env μ) (lexSol env ν)
    · rfl
    · rw [h2.mpr (this.mp (h1.mp hc'))] at hc; cases hc
  · exact h1.mpr (this.mpr (h2.mp hc))

theorem lexSol_merge (env : Env) (μ ν : Sol) : lexSol env (merge μ ν) = merge (lexSol env μ) (lexSol env ν) := by
  simp only [lexSol, merge]
  induction μ generalizing ν with
  | nil => simp
  | cons x xs ih =>
    cases ν with
    | nil => simp
    | cons y ys =>
      simp only [List.zipWith_cons_cons, List.map_cons, ih]
      cases x <;> simp [mergeCell]

/-! ### columns by name and by index -/

/-- the cell of column `v` (first column of that name) -/
def lookupCell : List Nat → Row → Nat → Option Cell
  | c :: cs, x :: xs, v => if c = v then some x else lookupCell cs xs v
  | _, _, _ => none

theorem lookupCol_eq (cols : List Nat) (row : Row) (v : Nat) :
    lookupCol cols row v = (lookupCell cols row v).bind cellVal := by
  induction cols generalizing row with
  | nil => simp [lookupCol, lookupCell]
  | cons c cs ih =>
    cases row with
    | nil => simp [lookupCol, lookupCell]
    | cons x xs =>
      simp only [lookupCol, lookupCell]
      split
      · simp
      · exact ih xs

theorem lookupCell_none_of_not_mem (cols : List Nat) (row : Row) (v : Nat) (h : v ∉ cols) :
    lookupCell cols row v = none := by
  induction cols generalizing row with
  | nil => simp [lookupCell]
  | cons c cs ih =>
    cases row with
    | nil => simp [lookupCell]
    | cons x xs =>
      simp only [List.mem_cons, not_or] at h
      simp only [lookupCell, if_neg (Ne.symm h.1)]
      exact ih xs h.2

theorem lookupCol_none_of_not_mem (cols : List Nat) (row : Row) (v : Nat) (h : v ∉ cols) :
    lookupCol cols row v = none := by
  rw [lookupCol_eq, lookupCell_none_of_not_mem cols row v h]; rfl

/-- with distinct column names the cell of column `v` is the cell at the index of `v` -/
theorem lookupCell_of_index (cols : List Nat) (row : Row) (v i : Nat) (hnd : cols.Nodup)
    (hi : cols[i]? = some v) : lookupCell cols row v = row[i]? := by
  induction cols generalizing row i with
  | nil => simp at hi
  | cons c cs ih =>
    cases row with
    | nil =>
      simp [lookupCell]
    | cons x xs =>
      simp only [List.nodup_cons] at hnd
      cases i with
      | zero =>
        simp only [List.getElem?_cons_zero, Option.some.injEq] at hi
        simp [lookupCell, hi]
      | succ k =>
        simp only [List.getElem?_cons_succ] at hi
        have hv : v ∈ cs := List.mem_of_getElem? hi
        have hne : c ≠ v := fun h => hnd.1 (h ▸ hv)
        simp only [lookupCell, if_neg hne, List.getElem?_cons_succ]
        exact ih xs k hnd.2 hi

theorem mem_sharedPairs (lc rc : List Nat) (i j : Nat) :
    (i, j) ∈ sharedPairs lc rc ↔ ∃ a, lc[i]? = some a ∧ rc[j]? = some a := by
  simp only [sharedPairs, pairsFor, List.mem_flatMap, List.mem_filterMap, Prod.exists,
    List.mem_zipIdx_iff_getElem?]
  constructor
  · rintro ⟨a, i', hi, b, j', hj, h⟩
    split at h
    · rename_i hab
      simp only [Option.some.injEq, Prod.mk.injEq] at h
      obtain ⟨rfl, rfl⟩ := h
      exact ⟨a, hi, by rw [hab]; exact hj⟩
    · cases h
  · rintro ⟨a, hi, hj⟩
    exact ⟨a, i, hi, a, j, hj, by simp⟩

theorem joinCond_iff (lc rc : List Nat) (l r : Row) (hl : l.length = lc.length)
    (hnl : lc.Nodup) (hnr : rc.Nodup) :
    joinCond (sharedPairs lc rc) l r = true ↔
      ∀ v, v ∈ lc → v ∈ rc → lookupCell lc l v = lookupCell rc r v := by
  simp only [joinCond, List.all_eq_true]
  constructor
  · intro h v hvl hvr
    obtain ⟨i, hi⟩ := List.getElem?_of_mem hvl
    obtain ⟨j, hj⟩ := List.getElem?_of_mem hvr
    have hp := h (i, j) ((mem_sharedPairs lc rc i j).mpr ⟨v, hi, hj⟩)
    rw [lookupCell_of_index lc l v i hnl hi, lookupCell_of_index rc r v j hnr hj]
    simp only [condPair] at hp
    split at hp
    · rename_i a b ha hb
      simp only [beq_iff_eq] at hp
      rw [ha, hb, hp]
    · cases hp
  · intro h ij hij
    obtain ⟨i, j⟩ := ij
    obtain ⟨a, hi, hj⟩ := (mem_sharedPairs lc rc i j).mp hij
    have := h a (List.mem_of_getElem? hi) (List.mem_of_getElem? hj)
    rw [lookupCell_of_index lc l a i hnl hi, lookupCell_of_index rc r a j hnr hj] at this
    have hil : i < l.length := by
      have := (List.getElem?_eq_some_iff.mp hi).1
      omega
    simp only [condPair]
    rw [← this, List.getElem?_eq_getElem hil]
    simp

/-- the right cells that `plan_join`'s projection keeps, by name -/
def keepCells (lc : List Nat) : List Nat → Row → Row
  | b :: bs, x :: xs => if lc.contains b then keepCells lc bs xs else x :: keepCells lc bs xs
  | _, _ => []

def keepCols (lc rc : List Nat) : List Nat := rc.filter fun v => !lc.contains v

theorem keep_aux (lc : List Nat) (rc : List Nat) (k : Nat) (rfull : Row)
    (h : (rfull.drop k).length = rc.length) :
    ((rc.zipIdx k).filterMap fun bj => if lc.contains bj.1 then none else some bj.2).map (fun j => rfull.getD j .null)
      = keepCells lc rc (rfull.drop k) := by
  induction rc generalizing k with
  | nil => simp [keepCells]
  | cons b bs ih =>
    have hk : k < rfull.length := by
      simp only [List.length_drop, List.length_cons] at h
      omega
    rw [List.drop_eq_getElem_cons hk]
    simp only [List.zipIdx_cons, List.filterMap_cons, keepCells]
    have ih' := ih (k + 1) (by
      simp only [List.length_drop, List.length_cons] at h ⊢
      omega)
    cases hb : lc.contains b
    · simp only [Bool.false_eq_true, if_false, List.map_cons, ih']
      congr 1
      simp [List.getD_eq_getElem?_getD, List.getElem?_eq_getElem hk]
    · simp only [if_true, ih']

theorem keep_cells (lc rc : List Nat) (r : Row) (h : r.length = rc.length) :
    (keepRight lc rc).map (fun j => r.getD j .null) = keepCells lc rc r := by
  have := keep_aux lc rc 0 r (by simpa using h)
  simpa [keepRight] using this

theorem keep_cols_aux (lc rc : List Nat) (k : Nat) (cfull : List Nat) (h : cfull.drop k = rc) :
    ((rc.zipIdx k).filterMap fun bj => if lc.contains bj.1 then none else some bj.2).map (fun j => cfull.getD j 0)
      = keepCols lc rc := by
  induction rc generalizing k with
  | nil => simp [keepCols]
  | cons b bs ih =>
    have hk : k < cfull.length := by
      have : (cfull.drop k).length = (b :: bs).length := by rw [h]
      simp only [List.length_drop, List.length_cons] at this
      omega
    have hd := List.drop_eq_getElem_cons hk
    rw [h] at hd
    simp only [List.cons.injEq] at hd
    simp only [List.zipIdx_cons, List.filterMap_cons, keepCols, List.filter_cons]
    have ih' := ih (k + 1) hd.2.symm
    cases hb : lc.contains b
    · simp only [Bool.false_eq_true, if_false, List.map_cons, Bool.not_false, if_true]
      rw [ih']
      simp [List.getD_eq_getElem?_getD, List.getElem?_eq_getElem hk, ← hd.1, keepCols]
    · simp only [if_true, Bool.not_true, Bool.false_eq_true, if_false]
      rw [ih']
      rfl

theorem keep_cols (lc rc : List Nat) :
    (keepRight lc rc).map (fun j => rc.getD j 0) = keepCols lc rc := by
  have := keep_cols_aux lc rc 0 rc (by simp)
  simpa [keepRight] using this

theorem keepCells_length (lc rc : List Nat) (r : Row) (h : r.length = rc.length) :
    (keepCells lc rc r).length = (keepCols lc rc).length := by
  induction rc generalizing r with
  | nil => cases r <;> simp [keepCells, keepCols]
  | cons b bs ih =>
    cases r with
    | nil => simp at h
    | cons x xs =>
      have hl : xs.length = bs.length := by simpa using h
      simp only [keepCells, keepCols, List.filter_cons]
      cases hb : lc.contains b
      · simp only [Bool.false_eq_true, if_false, Bool.not_false, if_true, List.length_cons]
        rw [ih xs hl]; rfl
      · simp only [if_true, Bool.not_true, Bool.false_eq_true, if_false]
        rw [ih xs hl]; rfl

/-- a kept right column is looked up in the right row -/
theorem lookupCol_keep (lc rc : List Nat) (r : Row) (v : Nat) (h : r.length = rc.length) (hv : v ∉ lc) :
    lookupCol (keepCols lc rc) (keepCells lc rc r) v = lookupCol rc r v := by
  induction rc generalizing r with
  | nil => cases r <;> simp [keepCells, keepCols, lookupCol]
  | cons b bs ih =>
    cases r with
    | nil => simp at h
    | cons x xs =>
      have hl : xs.length = bs.length := by simpa using h
      simp only [keepCells, keepCols, List.filter_cons]
      cases hb : lc.contains b
      · simp only [Bool.false_eq_true, if_false, Bool.not_false, if_true, lookupCol]
        split
        · rfl
        · exact ih xs hl
      · simp only [if_true, Bool.not_true, Bool.false_eq_true, if_false, lookupCol]
        have hne : b ≠ v := by
          intro hbv
          subst hbv
          simp only [List.contains_iff_mem] at hb
          exact hv hb
        simp only [if_neg hne]
        exact ih xs hl

theorem lookupCol_append (lc kc : List Nat) (l k : Row) (v : Nat) (h : l.length = lc.length) :
    lookupCol (lc ++ kc) (l ++ k) v = if v ∈ lc then lookupCol lc l v else lookupCol kc k v := by
  induction lc generalizing l with
  | nil =>
    cases l with
    | nil => simp
    | cons x xs => simp at h
  | cons c cs ih =>
    cases l with
    | nil => simp at h
    | cons x xs =>
      have hl : xs.length = cs.length := by simpa using h
      simp only [List.cons_append, lookupCol, List.mem_cons]
      by_cases hcv : c = v
      · simp [hcv]
      · simp only [if_neg hcv, ih xs hl]
        have : (v = c ∨ v ∈ cs) ↔ v ∈ cs := by
          constructor
          · rintro (h | h)
            · exact absurd h.symm hcv
            · exact h
          · exact Or.inr
        simp only [this]

theorem joinRow_eq (lc rc : List Nat) (l r : Row) (hr : r.length = rc.length) :
    joinRow (keepRight lc rc) l r = l ++ keepCells lc rc r := by
  unfold joinRow
  rw [keep_cells lc rc r hr]

theorem mem_of_lookupCol_isSome (cols : List Nat) (row : Row) (v : Nat) (h : (lookupCol cols row v).isSome = true) :
    v ∈ cols := by
  apply Classical.byContradiction
  intro hn
  rw [lookupCol_none_of_not_mem cols row v hn] at h
  cases h

/-- (P1) the joined row, column by column -/
theorem lookupCol_join (lc rc : List Nat) (l r : Row) (v : Nat)
    (hl : l.length = lc.length) (hr : r.length = rc.length)
    (hshared : v ∈ lc → v ∈ rc → (lookupCol lc l v).isSome = true) :
    lookupCol (lc ++ keepCols lc rc) (joinRow (keepRight lc rc) l r) v =
      mergeCell (lookupCol lc l v) (lookupCol rc r v) := by
  rw [joinRow_eq lc rc l r hr, lookupCol_append _ _ _ _ _ hl]
  by_cases hv : v ∈ lc
  · simp only [if_pos hv]
    cases hx : lookupCol lc l v with
    | some x => rfl
    | none =>
      have : v ∉ rc := by
        intro hvr
        have := hshared hv hvr
        rw [hx] at this
        cases this
      rw [lookupCol_none_of_not_mem rc r v this]
      rfl
  · simp only [if_neg hv]
    rw [lookupCol_keep lc rc r v hr hv, lookupCol_none_of_not_mem lc l v hv]
    rfl

theorem lookupCol_nulls (cols : List Nat) (k v : Nat) : lookupCol cols (List.replicate k Cell.null) v = none := by
  induction cols generalizing k with
  | nil => cases k <;> simp [lookupCol]
  | cons c cs ih =>
    cases k with
    | zero => simp [lookupCol]
    | succ j =>
      simp only [List.replicate_succ, lookupCol, cellVal]
      split
      · rfl
      · exact ih j

/-- (P2) a left row padded with nulls -/
theorem lookupCol_unmatched (lc kc : List Nat) (l : Row) (k v : Nat) (hl : l.length = lc.length) :
    lookupCol (lc ++ kc) (l ++ List.replicate k Cell.null) v = lookupCol lc l v := by
  rw [lookupCol_append _ _ _ _ _ hl]
  by_cases hv : v ∈ lc
  · simp [hv]
  · simp only [if_neg hv, lookupCol_nulls, lookupCol_none_of_not_mem lc l v hv]

theorem merge_toSol (n : Nat) (f g : Nat → Option Nat) :
    merge ((List.range n).map f) ((List.range n).map g) = (List.range n).map fun v => mergeCell (f v) (g v) := by
  simp only [merge, List.zipWith_map]
  induction (List.range n) with
  | nil => rfl
  | cons x xs ih => simp

theorem toSol_join (n : Nat) (lc rc : List Nat) (l r : Row)
    (hl : l.length = lc.length) (hr : r.length = rc.length)
    (hshared : ∀ v, v ∈ lc → v ∈ rc → (lookupCol lc l v).isSome = true) :
    toSol n (lc ++ keepCols lc rc) (joinRow (keepRight lc rc) l r) = merge (toSol n lc l) (toSol n rc r) := by
  simp only [toSol, merge_toSol]
  apply List.map_congr_left
  intro v _
  exact lookupCol_join lc rc l r v hl hr (hshared v)

theorem toSol_unmatched (n : Nat) (lc kc : List Nat) (l : Row) (k : Nat) (hl : l.length = lc.length) :
    toSol n (lc ++ kc) (l ++ List.replicate k Cell.null) = toSol n lc l := by
  simp only [toSol]
  apply List.map_congr_left
  intro v _
  exact lookupCol_unmatched lc kc l k v hl

/-- the join condition on two rows is compatibility of the solutions they stand for -/
theorem joinCond_compat (n : Nat) (lc rc : List Nat) (l r : Row)
    (hl : l.length = lc.length) (hnl : lc.Nodup) (hnr : rc.Nodup)
    (hlt : ∀ v ∈ lc, v < n)
    (hsl : ∀ v, v ∈ lc → v ∈ rc → (lookupCol lc l v).isSome = true)
    (hsr : ∀ v, v ∈ lc → v ∈ rc → (lookupCol rc r v).isSome = true) :
    joinCond (sharedPairs lc rc) l r = compat (toSol n lc l) (toSol n rc r) := by
  have h1 := joinCond_iff lc rc l r hl hnl hnr
  have h2 := compat_iff (toSol n lc l) (toSol n rc r) (by simp [toSol_length])
  have key : (∀ v, v ∈ lc → v ∈ rc → lookupCell lc l v = lookupCell rc r v) ↔
      (∀ v, compatCell ((toSol n lc l).get v) ((toSol n rc r).get v) = true) := by
    constructor
    · intro h v
      by_cases hvn : v < n
      · rw [toSol_get _ _ _ _ hvn, toSol_get _ _ _ _ hvn]
        by_cases hvl : v ∈ lc
        · by_cases hvr : v ∈ rc
          · rw [lookupCol_eq, lookupCol_eq, h v hvl hvr]
            cases (lookupCell rc r v).bind cellVal <;> simp [compatCell]
          · rw [lookupCol_none_of_not_mem rc r v hvr]
            cases lookupCol lc l v <;> simp [compatCell]
        · rw [lookupCol_none_of_not_mem lc l v hvl]
          simp [compatCell]
      · have : (toSol n lc l).get v = none := by
          simp [Sol.get, toSol, hvn]
        rw [this]
        simp [compatCell]
    · intro h v hvl hvr
      have hvn := hlt v hvl
      have hv := h v
      rw [toSol_get _ _ _ _ hvn, toSol_get _ _ _ _ hvn] at hv
      have hsl' := hsl v hvl hvr
      have hsr' := hsr v hvl hvr
      rw [lookupCol_eq] at hv hsl' hsr'
      rw [lookupCol_eq] at hv
      -- both cells exist and are strings
      cases hcl : lookupCell lc l v with
      | none => rw [hcl] at hsl'; cases hsl'
      | some a =>
        cases hcr : lookupCell rc r v with
        | none => rw [hcr] at hsr'; cases hsr'
        | some b =>
          rw [hcl, hcr] at hv
          rw [hcl] at hsl'
          rw [hcr] at hsr'
          cases a <;> cases b <;> simp_all [cellVal, compatCell]
  cases hc : compat (toSol n lc l) (toSol n rc r)
  · cases hj : joinCond (sharedPairs lc rc) l r
    · rfl
    · rw [h2.mpr (key.mp (h1.mp hj))] at hc; cases hc
  · exact h1.mpr (key.mpr (h2.mp hc))

/-- what two tables must satisfy for their rows to be joined like solutions -/
structure JoinOk (n : Nat) (lc rc : List Nat) (A B : List Row) : Prop where
  nl : lc.Nodup
  nr : rc.Nodup
  lt : ∀ v ∈ lc, v < n
  wl : ∀ l ∈ A, l.length = lc.length
  wr : ∀ r ∈ B, r.length = rc.length
  sl : ∀ l ∈ A, ∀ v, v ∈ lc → v ∈ rc → (lookupCol lc l v).isSome = true
  sr : ∀ r ∈ B, ∀ v, v ∈ lc → v ∈ rc → (lookupCol rc r v).isSome = true

theorem join_inner_eq (n : Nat) (lc rc : List Nat) (A B : List Row) (ok : JoinOk n lc rc A B) (l : Row) (hl : l ∈ A) :
    ((B.filter (joinCond (sharedPairs lc rc) l)).map (joinRow (keepRight lc rc) l)).map (toSol n (lc ++ keepCols lc rc))
      = (B.map (toSol n rc)).filterMap
          (fun ν => if compat (toSol n lc l) ν then some (merge (toSol n lc l) ν) else none) := by
  rw [List.map_map, filter_map_eq_filterMap, List.filterMap_map]
  apply filterMap_congr'
  intro r hr
  simp only [Function.comp]
  rw [joinCond_compat n lc rc l r (ok.wl l hl) ok.nl ok.nr ok.lt (ok.sl l hl) (ok.sr r hr),
    toSol_join n lc rc l r (ok.wl l hl) (ok.wr r hr) (ok.sl l hl)]

theorem join_rows_sols (n : Nat) (lc rc : List Nat) (A B : List Row) (ok : JoinOk n lc rc A B) :
    (A.flatMap (joinOne false (sharedPairs lc rc) (keepRight lc rc) B)).map (toSol n (lc ++ keepCols lc rc))
      = joinSols (A.map (toSol n lc)) (B.map (toSol n rc)) := by
  rw [List.map_flatMap, joinSols, List.flatMap_map]
  apply flatMap_congr'
  intro l hl
  simp only [joinOne, Bool.false_and, Bool.false_eq_true, if_false]
  exact join_inner_eq n lc rc A B ok l hl

theorem leftJoin_rows_sols (env : Env) (n : Nat) (lc rc : List Nat) (A B : List Row) (ok : JoinOk n lc rc A B) :
    (A.flatMap (joinOne true (sharedPairs lc rc) (keepRight lc rc) B)).map (toSol n (lc ++ keepCols lc rc))
      = (A.map (toSol n lc)).flatMap (leftJoinOne env none (B.map (toSol n rc))) := by
  rw [List.map_flatMap, List.flatMap_map]
  apply flatMap_congr'
  intro l hl
  have inner := join_inner_eq n lc rc A B ok l hl
  simp only [joinOne, Bool.true_and, leftJoinOne, holds, Bool.and_true]
  by_cases hemp : ((B.filter (joinCond (sharedPairs lc rc) l)).map (joinRow (keepRight lc rc) l)).isEmpty = true
  · have hemp' : ((B.map (toSol n rc)).filterMap
        (fun ν => if compat (toSol n lc l) ν then some (merge (toSol n lc l) ν) else none)).isEmpty = true := by
      rw [← inner]
      simpa using hemp
    rw [if_pos hemp, if_pos hemp']
    simp only [List.map_cons, List.map_nil]
    rw [toSol_unmatched n lc _ l _ (ok.wl l hl)]
  · have hemp' : ¬ ((B.map (toSol n rc)).filterMap
        (fun ν => if compat (toSol n lc l) ν then some (merge (toSol n lc l) ν) else none)).isEmpty = true := by
      rw [← inner]
      simpa using hemp
    rw [if_neg hemp, if_neg hemp']
    exact inner

theorem joinSols_perm (as as' bs bs' : List Sol) (ha : as.Perm as') (hb : bs.Perm bs') :
    (joinSols as bs).Perm (joinSols as' bs') := by
  unfold joinSols
  refine (List.Perm.flatMap_right _ ha).trans ?_
  apply flatMap_perm_pointwise
  intro μ _
  exact hb.filterMap _

theorem leftJoinOne_perm (env : Env) (c : Option Expr) (bs bs' : List Sol) (hb : bs.Perm bs') (μ : Sol) :
    (leftJoinOne env c bs μ).Perm (leftJoinOne env c bs' μ) := by
  unfold leftJoinOne
  have hp := hb.filterMap (fun ν => if compat μ ν && holds env c (merge μ ν) then some (merge μ ν) else none)
  have hl := hp.length_eq
  simp only
  by_cases h : (bs.filterMap fun ν => if compat μ ν && holds env c (merge μ ν) then some (merge μ ν) else none).isEmpty = true
  · have h' : (bs'.filterMap fun ν => if compat μ ν && holds env c (merge μ ν) then some (merge μ ν) else none).isEmpty = true := by
      rw [List.isEmpty_iff_length_eq_zero] at h ⊢
      omega
    rw [if_pos h, if_pos h']
  · have h' : ¬ (bs'.filterMap fun ν => if compat μ ν && holds env c (merge μ ν) then some (merge μ ν) else none).isEmpty = true := by
      rw [List.isEmpty_iff_length_eq_zero] at h ⊢
      omega
    rw [if_neg h, if_neg h']
    exact hp

theorem leftJoin_perm (env : Env) (c : Option Expr) (as as' bs bs' : List Sol) (ha : as.Perm as') (hb : bs.Perm bs') :
    (as.flatMap (leftJoinOne env c bs)).Perm (as'.flatMap (leftJoinOne env c bs')) := by
  refine (List.Perm.flatMap_right _ ha).trans ?_
  apply flatMap_perm_pointwise
  intro μ _
  exact leftJoinOne_perm env c bs bs' hb μ

/-- solutions over `n` variables with values in `U` -/
def SolsIn (n : Nat) (U : List Nat) (S : List Sol) : Prop :=
  ∀ μ ∈ S, μ.length = n ∧ ∀ w y, μ.get w = some y → y ∈ U

theorem lex_inner (env : Env) (n : Nat) (U : List Nat) (hU : LexInj env U) (Sb : List Sol)
    (hb : SolsIn n U Sb) (μ : Sol) (hμl : μ.length = n) (hμ : ∀ w y, μ.get w = some y → y ∈ U) :
    (Sb.filterMap fun ν => if compat μ ν then some (merge μ ν) else none).map (lexSol env)
      = (Sb.map (lexSol env)).filterMap fun ν =>
          if compat (lexSol env μ) ν then some (merge (lexSol env μ) ν) else none := by
  rw [List.map_filterMap, List.filterMap_map]
  apply filterMap_congr'
  intro ν hν
  simp only [Function.comp]
  rw [lexSol_compat env U hU μ ν (by rw [hμl, (hb ν hν).1]) hμ (hb ν hν).2]
  split <;> simp [lexSol_merge]

theorem lex_joinSols (env : Env) (n : Nat) (U : List Nat) (hU : LexInj env U) (Sa Sb : List Sol)
    (ha : SolsIn n U Sa) (hb : SolsIn n U Sb) :
    (joinSols Sa Sb).map (lexSol env) = joinSols (Sa.map (lexSol env)) (Sb.map (lexSol env)) := by
  unfold joinSols
  rw [List.map_flatMap, List.flatMap_map]
  apply flatMap_congr'
  intro μ hμ
  exact lex_inner env n U hU Sb hb μ (ha μ hμ).1 (ha μ hμ).2

theorem lex_leftJoin (env : Env) (n : Nat) (U : List Nat) (hU : LexInj env U) (Sa Sb : List Sol)
    (ha : SolsIn n U Sa) (hb : SolsIn n U Sb) :
    (Sa.flatMap (leftJoinOne env none Sb)).map (lexSol env)
      = (Sa.map (lexSol env)).flatMap (leftJoinOne env none (Sb.map (lexSol env))) := by
  rw [List.map_flatMap, List.flatMap_map]
  apply flatMap_congr'
  intro μ hμ
  have inner := lex_inner env n U hU Sb hb μ (ha μ hμ).1 (ha μ hμ).2
  simp only [leftJoinOne, holds, Bool.and_true]
  by_cases h : (Sb.filterMap fun ν => if compat μ ν then some (merge μ ν) else none).isEmpty = true
  · have h' : ((Sb.map (lexSol env)).filterMap fun ν =>
        if compat (lexSol env μ) ν then some (merge (lexSol env μ) ν) else none).isEmpty = true := by
      rw [← inner]; simpa using h
    rw [if_pos h, if_pos h']
    rfl
  · have h' : ¬ ((Sb.map (lexSol env)).filterMap fun ν =>
        if compat (lexSol env μ) ν then some (merge (lexSol env μ) ν) else none).isEmpty = true := by
      rw [← inner]; simpa using h
    rw [if_neg h, if_neg h']
    exact inner

/-! ### FILTER -/

theorem colIdx_aux (cols : List Nat) (v i k : Nat) (hnd : cols.Nodup) (hi : cols[i]? = some v) :
    (cols.zipIdx k).filter (fun ci => ci.1 == v) = [(v, k + i)] := by
  induction cols generalizing i k with
  | nil => simp at hi
  | cons c cs ih =>
    simp only [List.nodup_cons] at hnd
    simp only [List.zipIdx_cons, List.filter_cons]
    cases i with
    | zero =>
      simp only [List.getElem?_cons_zero, Option.some.injEq] at hi
      subst hi
      simp only [beq_self_eq_true, if_true, Nat.add_zero, List.cons.injEq, true_and]
      rw [List.filter_eq_nil_iff]
      intro x hx
      obtain ⟨_, hx2⟩ := List.mem_zipIdx_iff_le_and_getElem?_sub.mp hx
      have : x.1 ∈ cs := List.mem_of_getElem? hx2
      simp only [beq_iff_eq]
      intro h
      exact hnd.1 (h ▸ this)
    | succ j =>
      simp only [List.getElem?_cons_succ] at hi
      have hv : v ∈ cs := List.mem_of_getElem? hi
      have hne : (c == v) = false := by
        simp only [beq_eq_false_iff_ne, ne_eq]
        intro h
        exact hnd.1 (h ▸ hv)
      simp only [hne, Bool.false_eq_true, if_false]
      rw [ih j (k + 1) hnd.2 hi]
      congr 2
      omega

theorem colIdx_of_index (cols : List Nat) (v i : Nat) (hnd : cols.Nodup) (hi : cols[i]? = some v) :
    colIdx cols v = some i := by
  simp [colIdx, colIdx_aux cols v i 0 hnd hi]

theorem colIdx_none (cols : List Nat) (v : Nat) (h : v ∉ cols) : colIdx cols v = none := by
  simp only [colIdx, Option.map_eq_none_iff, List.getLast?_eq_none_iff, List.filter_eq_nil_iff]
  intro x hx
  have : x.1 ∈ cols := List.mem_of_getElem? (List.mem_zipIdx_iff_getElem?.mp hx)
  simp only [beq_iff_eq]
  intro hxv
  exact h (hxv ▸ this)

def lexVal (env : Env) (σ : Sol) : PT → Option Nat
  | .var v => σ.get v
  | .const c => some (env.lex c)

def eqLex (x y : Nat) : Option Bool := some (x == y)

/-- FILTER evaluated on lexical forms with plain equality (what the engine computes on the safe fragment) -/
def lexEval (env : Env) (σ : Sol) : Expr → Option Bool
  | .eq a b => cmp2 eqLex (lexVal env σ a) (lexVal env σ b)
  | .ne a b => (cmp2 eqLex (lexVal env σ a) (lexVal env σ b)).map (!·)
  | .lt _ _ => none
  | .bound v => some (σ.get v).isSome
  | .not e => (lexEval env σ e).map (!·)
  | .and a b => and3 (lexEval env σ a) (lexEval env σ b)
  | .or a b => or3 (lexEval env σ a) (lexEval env σ b)

/-- constants `literal_to_value` keeps as the string of their lexical form -/
def ptSafe (env : Env) : PT → Bool
  | .var _ => true
  | .const c => env.constVal c == .str (env.lex c)

/-- the FILTER expressions the engine evaluates as the specification does (given that terms are
told apart by their lexical forms): no `<`, string-valued constants -/
def exprSafe (env : Env) : Expr → Bool
  | .eq a b => ptSafe env a && ptSafe env b
  | .ne a b => ptSafe env a && ptSafe env b
  | .lt _ _ => false
  | .bound _ => true
  | .not e => exprSafe env e
  | .and a b => exprSafe env a && exprSafe env b
  | .or a b => exprSafe env a && exprSafe env b

def NoInt (r : Row) : Prop := ∀ c ∈ r, ∀ k, c ≠ Cell.int k

/-- a row of a good table -/
structure RowOk (n : Nat) (cols : List Nat) (row : Row) : Prop where
  nodup : cols.Nodup
  lt : ∀ v ∈ cols, v < n
  noInt : NoInt row

theorem V_str_beq (a b : Nat) : (V.str a == V.str b) = (a == b) := by
  by_cases h : a = b
  · subst h; simp
  · have : V.str a ≠ V.str b := by
      intro hh
      injection hh with hh
      exact h hh
    rw [beq_eq_false_iff_ne.mpr this, beq_eq_false_iff_ne.mpr h]

theorem V_str_bne (a b : Nat) : (V.str a != V.str b) = !(a == b) := by
  simp [bne, V_str_beq]

theorem boundCell_eq (c : Cell) (h : ∀ k, c ≠ Cell.int k) : boundCell c = (cellVal c).map V.str := by
  cases c with
  | null => rfl
  | str l => rfl
  | int k => exact absurd rfl (h k)

/-- the `Value` of an operand is the lexical form the row gives it -/
theorem ptV_eq (env : Env) (n : Nat) (cols : List Nat) (row : Row) (ok : RowOk n cols row)
    (a : PT) (ha : ptSafe env a = true) :
    ptV env cols row a = (lexVal env (toSol n cols row) a).map V.str := by
  cases a with
  | const c =>
    simp only [ptSafe, beq_iff_eq] at ha
    simp [ptV, ha, lexVal]
  | var v =>
    simp only [ptV, lexVal]
    by_cases hv : v ∈ cols
    · obtain ⟨i, hi⟩ := List.getElem?_of_mem hv
      rw [colIdx_of_index cols v i ok.nodup hi, toSol_get _ _ _ _ (ok.lt v hv), lookupCol_eq,
        lookupCell_of_index cols row v i ok.nodup hi]
      simp only [Option.bind_some]
      cases hc : row[i]? with
      | none => rfl
      | some x =>
        simp only [Option.bind_some]
        exact boundCell_eq x (ok.noInt x (List.mem_of_getElem? hc))
    · rw [colIdx_none cols v hv]
      by_cases hvn : v < n
      · rw [toSol_get _ _ _ _ hvn, lookupCol_none_of_not_mem cols row v hv]; rfl
      · have : (toSol n cols row).get v = none := by simp [Sol.get, toSol, hvn]
        rw [this]; rfl

theorem evalF_eq (env : Env) (n : Nat) (cols : List Nat) (row : Row) (ok : RowOk n cols row)
    (e : Expr) (he : exprSafe env e = true) :
    evalF env cols row e = (lexEval env (toSol n cols row) e).map V.bool := by
  induction e with
  | eq a b =>
    simp only [exprSafe, Bool.and_eq_true] at he
    simp only [evalF, lexEval, ptV_eq env n cols row ok a he.1, ptV_eq env n cols row ok b he.2]
    cases lexVal env (toSol n cols row) a <;> cases lexVal env (toSol n cols row) b <;>
      simp [cmp2, eqLex, V_str_beq]
  | ne a b =>
    simp only [exprSafe, Bool.and_eq_true] at he
    simp only [evalF, lexEval, ptV_eq env n cols row ok a he.1, ptV_eq env n cols row ok b he.2]
    cases lexVal env (toSol n cols row) a <;> cases lexVal env (toSol n cols row) b <;>
      simp [cmp2, eqLex, V_str_bne]
  | lt a b => simp [exprSafe] at he
  | bound v =>
    simp only [evalF, lexEval, ptV_eq env n cols row ok (.var v) rfl, lexVal]
    cases (toSol n cols row).get v <;> rfl
  | not e ih =>
    simp only [exprSafe] at he
    simp only [evalF, lexEval, ih he]
    cases lexEval env (toSol n cols row) e <;> rfl
  | and a b iha ihb =>
    simp only [exprSafe, Bool.and_eq_true] at he
    simp only [evalF, lexEval, iha he.1, ihb he.2]
    cases lexEval env (toSol n cols row) a <;> cases lexEval env (toSol n cols row) b <;> rfl
  | or a b iha ihb =>
    simp only [exprSafe, Bool.and_eq_true] at he
    simp only [evalF, lexEval, iha he.1, ihb he.2]
    cases lexEval env (toSol n cols row) a <;> cases lexEval env (toSol n cols row) b <;> rfl

theorem passes_eq (env : Env) (n : Nat) (cols : List Nat) (row : Row) (ok : RowOk n cols row)
    (e : Expr) (he : exprSafe env e = true) :
    passes env cols e row = (lexEval env (toSol n cols row) e == some true) := by
  simp only [passes, evalF_eq env n cols row ok e he]
  cases lexEval env (toSol n cols row) e with
  | none => rfl
  | some b => cases b <;> rfl

/-- on the terms of `U`, `=` is decided by term identity (no two of them are literals that the
operator mapping of §17.3 cannot compare, no two numerals have the same value) -/
def EqExact (env : Env) (U : List Nat) : Prop := ∀ x ∈ U, ∀ y ∈ U, eqTerm env x y = some (x == y)

def eqExactB (env : Env) (U : List Nat) : Bool :=
  U.all fun x => U.all fun y => eqTerm env x y == some (x == y)

theorem eqExact_of_B (env : Env) (U : List Nat) (h : eqExactB env U = true) : EqExact env U := by
  intro x hx y hy
  simp only [eqExactB, List.all_eq_true, beq_iff_eq] at h
  exact h x hx y hy

def noLt : Expr → Bool
  | .lt _ _ => false
  | .not e => noLt e
  | .and a b => noLt a && noLt b
  | .or a b => noLt a && noLt b
  | _ => true

theorem noLt_of_safe (env : Env) (e : Expr) (h : exprSafe env e = true) : noLt e = true := by
  induction e with
  | lt a b => simp [exprSafe] at h
  | not e ih => exact ih h
  | and a b iha ihb =>
    simp only [exprSafe, Bool.and_eq_true] at h
    simp [noLt, iha h.1, ihb h.2]
  | or a b iha ihb =>
    simp only [exprSafe, Bool.and_eq_true] at h
    simp [noLt, iha h.1, ihb h.2]
  | _ => rfl

theorem lexVal_lexSol (env : Env) (μ : Sol) (a : PT) : lexVal env (lexSol env μ) a = (valPT μ a).map env.lex := by
  cases a with
  | var v => simp [lexVal, valPT, lexSol_get]
  | const c => rfl

theorem cmp2_eq (env : Env) (U : List Nat) (hU : LexInj env U) (hE : EqExact env U) (μ : Sol)
    (hμ : ∀ w y, μ.get w = some y → y ∈ U) (a b : PT) (ha : ∀ c ∈ ptConsts a, c ∈ U) (hb : ∀ c ∈ ptConsts b, c ∈ U) :
    cmp2 (eqTerm env) (valPT μ a) (valPT μ b) =
      cmp2 eqLex (lexVal env (lexSol env μ) a) (lexVal env (lexSol env μ) b) := by
  rw [lexVal_lexSol, lexVal_lexSol]
  have mem : ∀ (p : PT) x, (∀ c ∈ ptConsts p, c ∈ U) → valPT μ p = some x → x ∈ U := by
    intro p x hp hx
    cases p with
    | var v => exact hμ v x hx
    | const c =>
      simp only [valPT, Option.some.injEq] at hx
      subst hx
      exact hp c (by simp [ptConsts])
  cases hx : valPT μ a with
  | none => simp [cmp2]
  | some x =>
    cases hy : valPT μ b with
    | none => simp [cmp2]
    | some y =>
      have hxU := mem a x ha hx
      have hyU := mem b y hb hy
      simp only [cmp2, Option.map_some, eqLex, hE x hxU y hyU, Option.some.injEq]
      by_cases h : x = y
      · subst h; simp
      · have : env.lex x ≠ env.lex y := fun hl => h (hU x hxU y hyU hl)
        rw [beq_eq_false_iff_ne.mpr h, beq_eq_false_iff_ne.mpr this]

theorem evalE_eq (env : Env) (U : List Nat) (hU : LexInj env U) (hE : EqExact env U) (μ : Sol)
    (hμ : ∀ w y, μ.get w = some y → y ∈ U) (e : Expr) (hc : ∀ c ∈ exprConsts e, c ∈ U) (hn : noLt e = true) :
    evalE env μ e = lexEval env (lexSol env μ) e := by
  induction e with
  | eq a b =>
    simp only [evalE, lexEval]
    exact cmp2_eq env U hU hE μ hμ a b (fun c h => hc c (by simp [exprConsts, h]))
      (fun c h => hc c (by simp [exprConsts, h]))
  | ne a b =>
    simp only [evalE, lexEval]
    rw [cmp2_eq env U hU hE μ hμ a b (fun c h => hc c (by simp [exprConsts, h]))
      (fun c h => hc c (by simp [exprConsts, h]))]
  | lt a b => simp [noLt] at hn
  | bound v =>
    simp only [evalE, lexEval, lexSol_get]
    cases μ.get v <;> rfl
  | not e ih =>
    simp only [evalE, lexEval]
    rw [ih (fun c h => hc c (by simpa [exprConsts] using h)) (by simpa [noLt] using hn)]
  | and a b iha ihb =>
    simp only [noLt, Bool.and_eq_true] at hn
    simp only [evalE, lexEval]
    rw [iha (fun c h => hc c (by simp [exprConsts, h])) hn.1, ihb (fun c h => hc c (by simp [exprConsts, h])) hn.2]
  | or a b iha ihb =>
    simp only [noLt, Bool.and_eq_true] at hn
    simp only [evalE, lexEval]
    rw [iha (fun c h => hc c (by simp [exprConsts, h])) hn.1, ihb (fun c h => hc c (by simp [exprConsts, h])) hn.2]

theorem noInt_joinRow (keep : List Nat) (l r : Row) (hl : NoInt l) (hr : NoInt r) : NoInt (joinRow keep l r) := by
  intro c hc k
  simp only [joinRow, List.mem_append, List.mem_map] at hc
  rcases hc with h | ⟨j, _, h⟩
  · exact hl c h k
  · subst h
    rw [List.getD_eq_getElem?_getD]
    cases hj : r[j]? with
    | none => simp
    | some x => simpa using hr x (List.mem_of_getElem? hj) k

theorem mem_joinOne (left : Bool) (pairs : List (Nat × Nat)) (keep : List Nat) (B : List Row) (l x : Row)
    (h : x ∈ joinOne left pairs keep B l) :
    (∃ r ∈ B, x = joinRow keep l r) ∨ (left = true ∧ x = l ++ List.replicate keep.length Cell.null) := by
  simp only [joinOne] at h
  split at h
  · rename_i hc
    simp only [List.mem_singleton] at h
    simp only [Bool.and_eq_true] at hc
    exact Or.inr ⟨hc.1, h⟩
  · simp only [List.mem_map, List.mem_filter] at h
    obtain ⟨r, ⟨hr, _⟩, rfl⟩ := h
    exact Or.inl ⟨r, hr, rfl⟩

theorem noInt_joinOne (left : Bool) (pairs : List (Nat × Nat)) (keep : List Nat) (A B : List Row)
    (hA : ∀ l ∈ A, NoInt l) (hB : ∀ r ∈ B, NoInt r) :
    ∀ x ∈ A.flatMap (joinOne left pairs keep B), NoInt x := by
  intro x hx
  simp only [List.mem_flatMap] at hx
  obtain ⟨l, hl, hx⟩ := hx
  rcases mem_joinOne left pairs keep B l x hx with ⟨r, hr, rfl⟩ | ⟨_, rfl⟩
  · exact noInt_joinRow keep l r (hA l hl) (hB r hr)
  · intro c hc k
    simp only [List.mem_append, List.mem_replicate] at hc
    rcases hc with h | ⟨_, h⟩
    · exact hA l hl c h k
    · subst h; simp

theorem cols_nlJoin (left : Bool) (ta tb : Table) :
    (nlJoin left ta tb).cols = ta.cols ++ keepCols ta.cols tb.cols := by
  simp only [nlJoin]
  rw [keep_cols]

theorem keepCols_nodup (lc rc : List Nat) (hl : lc.Nodup) (hr : rc.Nodup) : (lc ++ keepCols lc rc).Nodup := by
  rw [List.nodup_append]
  refine ⟨hl, hr.filter _, ?_⟩
  intro a ha b hb hab
  subst hab
  simp only [keepCols, List.mem_filter, Bool.not_eq_true'] at hb
  have := List.contains_iff_mem.mpr ha
  rw [hb.2] at this
  cases this

theorem joinOk_of_good (n : Nat) (ca cb : List Nat) (ta tb : Table) (ga : Good n ca ta) (gb : Good n cb tb)
    (hsh : ∀ v, v ∈ ta.cols → v ∈ tb.cols → v ∈ ca ∧ v ∈ cb) :
    JoinOk n ta.cols tb.cols ta.rows tb.rows :=
  { nl := ga.nodup, nr := gb.nodup, lt := ga.lt, wl := ga.width, wr := gb.width
    sl := fun l hl v h1 h2 => ga.cert l hl v (hsh v h1 h2).1
    sr := fun r hr v h1 h2 => gb.cert r hr v (hsh v h1 h2).2 }

theorem keepCols_length (lc rc : List Nat) : (keepRight lc rc).length = (keepCols lc rc).length := by
  rw [← keep_cols lc rc, List.length_map]

theorem mergeCell_isSome (x y : Option Nat) (h : x.isSome = true ∨ y.isSome = true) : (mergeCell x y).isSome = true := by
  cases x <;> cases y <;> simp_all [mergeCell]

theorem join_good (left : Bool) (n : Nat) (ca cb : List Nat) (ta tb : Table)
    (ga : Good n ca ta) (gb : Good n cb tb)
    (hsh : ∀ v, v ∈ ta.cols → v ∈ tb.cols → v ∈ ca ∧ v ∈ cb) :
    Good n (if left then ca else ca ++ cb) (nlJoin left ta tb) := by
  have hrows := rows_nlJoin left ta tb
  have hcols := cols_nlJoin left ta tb
  have ok := joinOk_of_good n ca cb ta tb ga gb hsh
  refine ⟨?_, ?_, ?_, ?_, ?_⟩
  · rw [hcols]; exact keepCols_nodup _ _ ga.nodup gb.nodup
  · rw [hcols]
    intro v hv'
    simp only [List.mem_append, keepCols, List.mem_filter] at hv'
    rcases hv' with h | h
    · exact ga.lt v h
    · exact gb.lt v h.1
  · intro x hx
    rw [hrows] at hx
    rw [hcols, List.length_append, ← keepCols_length]
    simp only [List.mem_flatMap] at hx
    obtain ⟨l, hl, hx⟩ := hx
    rcases mem_joinOne left _ _ _ l x hx with ⟨r, _, rfl⟩ | ⟨_, rfl⟩
    · simp [joinRow, ga.width l hl]
    · simp [ga.width l hl]
  · rw [hrows]
    exact noInt_joinOne left _ _ ta.rows tb.rows ga.noInt gb.noInt
  · intro x hx v hvc
    rw [hrows] at hx
    rw [hcols]
    simp only [List.mem_flatMap] at hx
    obtain ⟨l, hl, hx⟩ := hx
    rcases mem_joinOne left _ _ _ l x hx with ⟨r, hr, rfl⟩ | ⟨hleft, rfl⟩
    · rw [lookupCol_join ta.cols tb.cols l r v (ga.width l hl) (gb.width r hr) (ok.sl l hl v)]
      apply mergeCell_isSome
      cases left with
      | true => exact Or.inl (ga.cert l hl v hvc)
      | false =>
        simp only [Bool.false_eq_true, if_false, List.mem_append] at hvc
        rcases hvc with h | h
        · exact Or.inl (ga.cert l hl v h)
        · exact Or.inr (gb.cert r hr v h)
    · subst hleft
      rw [lookupCol_unmatched _ _ _ _ _ (ga.width l hl)]
      exact ga.cert l hl v hvc

/-! ### UNION -/

theorem firstIdx_aux (cols : List Nat) (v i k : Nat) (hnd : cols.Nodup) (hi : cols[i]? = some v) :
    (cols.zipIdx k).find? (fun ci => ci.1 == v) = some (v, k + i) := by
  induction cols generalizing i k with
  | nil => simp at hi
  | cons c cs ih =>
    simp only [List.nodup_cons] at hnd
    simp only [List.zipIdx_cons, List.find?_cons]
    cases i with
    | zero =>
      simp only [List.getElem?_cons_zero, Option.some.injEq] at hi
      subst hi
      simp
    | succ j =>
      simp only [List.getElem?_cons_succ] at hi
      have hv : v ∈ cs := List.mem_of_getElem? hi
      have hne : (c == v) = false := by
        simp only [beq_eq_false_iff_ne, ne_eq]
        intro h
        exact hnd.1 (h ▸ hv)
      simp only [hne]
      rw [ih j (k + 1) hnd.2 hi]
      congr 2
      omega

theorem firstIdx_of_index (cols : List Nat) (v i : Nat) (hnd : cols.Nodup) (hi : cols[i]? = some v) :
    firstIdx cols v = some i := by
  simp [firstIdx, firstIdx_aux cols v i 0 hnd hi]

theorem firstIdx_none (cols : List Nat) (v : Nat) (h : v ∉ cols) : firstIdx cols v = none := by
  simp only [firstIdx, Option.map_eq_none_iff, List.find?_eq_none]
  intro x hx
  have : x.1 ∈ cols := List.mem_of_getElem? (List.mem_zipIdx_iff_getElem?.mp hx)
  simp only [beq_iff_eq]
  intro hxv
  exact h (hxv ▸ this)

theorem lookupCol_map (uc : List Nat) (f : Nat → Cell) (v : Nat) :
    lookupCol uc (uc.map f) v = if v ∈ uc then cellVal (f v) else none := by
  induction uc with
  | nil => simp [lookupCol]
  | cons c cs ih =>
    simp only [List.map_cons, lookupCol, List.mem_cons]
    by_cases h : c = v
    · simp [h]
    · simp only [if_neg h, ih]
      have : (v = c ∨ v ∈ cs) ↔ v ∈ cs := by
        constructor
        · rintro (h' | h')
          · exact absurd h'.symm h
          · exact h'
        · exact Or.inr
      simp only [this]

/-- a relaid row binds what the branch's row binds -/
theorem lookupCol_relay (bc uc : List Nat) (r : Row) (v : Nat) (hnb : bc.Nodup)
    (hsub : ∀ w ∈ bc, w ∈ uc) : lookupCol uc (relayRow bc uc r) v = lookupCol bc r v := by
  simp only [relayRow]
  rw [lookupCol_map]
  by_cases hvb : v ∈ bc
  · obtain ⟨i, hi⟩ := List.getElem?_of_mem hvb
    rw [if_pos (hsub v hvb), firstIdx_of_index bc v i hnb hi, lookupCol_eq, lookupCell_of_index bc r v i hnb hi]
    simp only [List.getD_eq_getElem?_getD]
    cases r[i]? <;> rfl
  · rw [firstIdx_none bc v hvb, lookupCol_none_of_not_mem bc r v hvb]
    split <;> rfl

theorem rows_relayChunks (bc uc : List Nat) (cs : List Chunk) :
    (relayChunks bc uc cs).flatMap selRows =
      if bc == uc then cs.flatMap selRows else (cs.flatMap selRows).map (relayRow bc uc) := by
  simp only [relayChunks]
  split
  · rfl
  · rw [List.flatMap_map, List.map_flatMap]
    apply flatMap_congr'
    intro c _
    exact selRows_rebuild _

theorem toSol_relayChunks (n : Nat) (bc uc : List Nat) (cs : List Chunk) (hnb : bc.Nodup)
    (hsub : ∀ w ∈ bc, w ∈ uc) :
    ((relayChunks bc uc cs).flatMap selRows).map (toSol n uc) = (cs.flatMap selRows).map (toSol n bc) := by
  rw [rows_relayChunks]
  split
  · rename_i h
    simp only [beq_iff_eq] at h
    rw [h]
  · rw [List.map_map]
    apply List.map_congr_left
    intro r _
    simp only [Function.comp, toSol]
    apply List.map_congr_left
    intro v _
    exact lookupCol_relay bc uc r v hnb hsub

theorem unionCols_eq (ca cb : List Nat) : unionCols ca cb = ca ++ keepCols ca cb := rfl

theorem good_union (n : Nat) (ca cb : List Nat) (ta tb : Table) (ga : Good n ca ta) (gb : Good n cb tb) :
    Good n (ca.filter fun v => cb.contains v) (unionT ta tb) := by
  have hsubA : ∀ w ∈ ta.cols, w ∈ unionCols ta.cols tb.cols := fun w h => List.mem_append_left _ h
  have hsubB : ∀ w ∈ tb.cols, w ∈ unionCols ta.cols tb.cols := by
    intro w h
    simp only [unionCols, List.mem_append, List.mem_filter, Bool.not_eq_true']
    by_cases hwa : w ∈ ta.cols
    · exact Or.inl hwa
    · refine Or.inr ⟨h, ?_⟩
      cases hc : ta.cols.contains w
      · rfl
      · exact absurd (List.contains_iff_mem.mp hc) hwa
  have hrows : (unionT ta tb).rows =
      (relayChunks ta.cols (unionCols ta.cols tb.cols) ta.chunks).flatMap selRows ++
      (relayChunks tb.cols (unionCols ta.cols tb.cols) tb.chunks).flatMap selRows := by
    simp [unionT, Table.rows]
  -- every row of the union is a row of a branch, relaid or not
  have hmem : ∀ r ∈ (unionT ta tb).rows,
      (∃ r0 ∈ ta.rows, (r = r0 ∧ ta.cols = unionCols ta.cols tb.cols) ∨ r = relayRow ta.cols (unionCols ta.cols tb.cols) r0) ∨
      (∃ r0 ∈ tb.rows, (r = r0 ∧ tb.cols = unionCols ta.cols tb.cols) ∨ r = relayRow tb.cols (unionCols ta.cols tb.cols) r0) := by
    intro r hr
    rw [hrows, List.mem_append, rows_relayChunks, rows_relayChunks] at hr
    rcases hr with h | h
    · left
      split at h
      · rename_i heq
        exact ⟨r, h, Or.inl ⟨rfl, by simpa using heq⟩⟩
      · obtain ⟨r0, hr0, rfl⟩ := List.mem_map.mp h
        exact ⟨r0, hr0, Or.inr rfl⟩
    · right
      split at h
      · rename_i heq
        exact ⟨r, h, Or.inl ⟨rfl, by simpa using heq⟩⟩
      · obtain ⟨r0, hr0, rfl⟩ := List.mem_map.mp h
        exact ⟨r0, hr0, Or.inr rfl⟩
  have hnoIntRelay : ∀ (bc : List Nat) (r0 : Row), NoInt r0 → NoInt (relayRow bc (unionCols ta.cols tb.cols) r0) := by
    intro bc r0 h0 c hc k
    simp only [relayRow, List.mem_map] at hc
    obtain ⟨v, _, rfl⟩ := hc
    cases firstIdx bc v with
    | none => simp
    | some i =>
      simp only
      rw [List.getD_eq_getElem?_getD]
      cases hi : r0[i]? with
      | none => simp
      | some y => simpa using h0 y (List.mem_of_getElem? hi) k
  refine ⟨?_, ?_, ?_, ?_, ?_⟩
  · exact keepCols_nodup _ _ ga.nodup gb.nodup
  · intro v hv
    simp only [unionT, unionCols, List.mem_append, List.mem_filter] at hv
    rcases hv with h | h
    · exact ga.lt v h
    · exact gb.lt v h.1
  · intro r hr
    rcases hmem r hr with ⟨r0, hr0, h | h⟩ | ⟨r0, hr0, h | h⟩
    · rw [h.1, ga.width r0 hr0]; exact congrArg List.length h.2
    · rw [h]; simp [relayRow, unionT]
    · rw [h.1, gb.width r0 hr0]; exact congrArg List.length h.2
    · rw [h]; simp [relayRow, unionT]
  · intro r hr
    rcases hmem r hr with ⟨r0, hr0, h | h⟩ | ⟨r0, hr0, h | h⟩
    · rw [h.1]; exact ga.noInt r0 hr0
    · rw [h]; exact hnoIntRelay _ r0 (ga.noInt r0 hr0)
    · rw [h.1]; exact gb.noInt r0 hr0
    · rw [h]; exact hnoIntRelay _ r0 (gb.noInt r0 hr0)
  · intro r hr v hv
    simp only [List.mem_filter, List.contains_iff_mem] at hv
    show (lookupCol (unionCols ta.cols tb.cols) r v).isSome = true
    rcases hmem r hr with ⟨r0, hr0, h | h⟩ | ⟨r0, hr0, h | h⟩
    · rw [h.1, ← h.2]; exact ga.cert r0 hr0 v hv.1
    · rw [h, lookupCol_relay _ _ _ _ ga.nodup hsubA]; exact ga.cert r0 hr0 v hv.1
    · rw [h.1, ← h.2]; exact gb.cert r0 hr0 v hv.2
    · rw [h, lookupCol_relay _ _ _ _ gb.nodup hsubB]; exact gb.cert r0 hr0 v hv.2

theorem union_perm_parts (n : Nat) (ta tb : Table) (hna : ta.cols.Nodup) (hnb : tb.cols.Nodup) :
    (unionT ta tb).rows.map (toSol n (unionT ta tb).cols) =
      ta.rows.map (toSol n ta.cols) ++ tb.rows.map (toSol n tb.cols) := by
  have hsubA : ∀ w ∈ ta.cols, w ∈ unionCols ta.cols tb.cols := fun w h => List.mem_append_left _ h
  have hsubB : ∀ w ∈ tb.cols, w ∈ unionCols ta.cols tb.cols := by
    intro w h
    simp only [unionCols, List.mem_append, List.mem_filter, Bool.not_eq_true']
    by_cases hwa : w ∈ ta.cols
    · exact Or.inl hwa
    · refine Or.inr ⟨h, ?_⟩
      cases hc : ta.cols.contains w
      · rfl
      · exact absurd (List.contains_iff_mem.mp hc) hwa
  simp only [unionT, Table.rows, List.flatMap_append, List.map_append]
  rw [toSol_relayChunks n _ _ _ hna hsubA, toSol_relayChunks n _ _ _ hnb hsubB]

theorem good_filter (env : Env) (n : Nat) (c : List Nat) (e : Expr) (t : Table) (g : Good n c t) :
    Good n c (filterT env e t) := by
  have hrows := rows_filterT env e t
  have hsub : ∀ r ∈ (filterT env e t).rows, r ∈ t.rows := by
    intro r hr
    rw [hrows] at hr
    exact (List.mem_filter.mp hr).1
  exact ⟨g.nodup, g.lt, fun r hr => g.width r (hsub r hr), fun r hr => g.noInt r (hsub r hr),
    fun r hr => g.cert r (hsub r hr)⟩

theorem rows_unitT : unitT.rows = [[]] := rfl

theorem good_unit (n : Nat) : Good n [] unitT := by
  refine ⟨List.nodup_nil, ?_, ?_, ?_, ?_⟩
  · intro v h
    cases h
  · intro r hr
    rw [rows_unitT, List.mem_singleton] at hr
    subst hr
    rfl
  · intro r hr c hc
    rw [rows_unitT, List.mem_singleton] at hr
    subst hr
    cases hc
  · intro r _ v hv
    cases hv

/-- every column the two inputs share is bound in every row of both -/
def sharedCertain (a b : Pat) : Bool :=
  (patCols a).all fun v => !(patCols b).contains v || ((certain a).contains v && (certain b).contains v)

/-- the plans on which the planner's strategy is the algebra: variables below `n`, constants that
survive `literal_to_value`, joins only on columns that are bound on both sides, FILTERs without
`<` and with string-valued constants, OPTIONAL without a condition of its own (the translator puts
it into the right operand) -/
def wfPat (env : Env) (n : Nat) : Pat → Bool
  | .unit => true
  | .scan tp => (tpCols tp).all (fun v => decide (v < n)) && (tpConsts tp).all (fun c => env.litNorm c == c)
  | .join a b => wfPat env n a && wfPat env n b && sharedCertain a b
  | .leftJoin a b none => wfPat env n a && wfPat env n b && sharedCertain a b
  | .leftJoin _ _ (some _) => false
  | .union a b => wfPat env n a && wfPat env n b
  | .filter e a => wfPat env n a && exprSafe env e

theorem sharedCertain_spec (a b : Pat) (h : sharedCertain a b = true) :
    ∀ v, v ∈ patCols a → v ∈ patCols b → v ∈ certain a ∧ v ∈ certain b := by
  intro v ha hb
  simp only [sharedCertain, List.all_eq_true, Bool.or_eq_true, Bool.not_eq_true', Bool.and_eq_true,
    List.contains_iff_mem] at h
  rcases h v ha with h | h
  · have := List.contains_iff_mem.mpr hb
    rw [h] at this
    cases this
  · exact h

/-- **the planner's strategy is the algebra on well-formed plans**: for every reachable store,
with or without object index, every iteration order `full` of the hash set, the rows the physical
plan produces are — read as solutions — a permutation of the solutions of the algebra, term by
term in lexical form. -/
theorem exec_perm_eval (env : Env) (b : Bool) (ops : List Op) (full : List Triple)
    (n : Nat) (U : List Nat)
    (hfull : full.Perm (run b ops).triples)
    (hU : LexInj env U) (hE : EqExact env U) (hG : ∀ x ∈ triplesTerms (run b ops).triples, x ∈ U)
    (p : Pat) (hwf : wfPat env n p = true) (hc : ∀ c ∈ patConsts p, c ∈ U) :
    (exec env (run b ops) full p).cols = patCols p ∧ Good n (certain p) (exec env (run b ops) full p) ∧
      ((exec env (run b ops) full p).rows.map (toSol n (exec env (run b ops) full p).cols)).Perm
        ((eval env n (run b ops).triples p).map (lexSol env)) := by
  induction p with
  | unit =>
    refine ⟨rfl, good_unit n, ?_⟩
    simp only [exec, eval, rows_unitT, List.map_cons, List.map_nil]
    apply List.Perm.of_eq
    congr 1
    apply sol_ext (n := n) _ _ (toSol_length _ _ _) (by simp [lexSol_length, emptySol_length])
    intro w hw
    rw [toSol_get _ _ _ _ hw, lexSol_get, emptySol_get]
    rfl
  | scan tp =>
    simp only [wfPat, Bool.and_eq_true, decide_eq_true_eq, List.all_eq_true, beq_iff_eq] at hwf
    obtain ⟨hlt, hst⟩ := hwf
    exact ⟨rfl, scan_good env _ full n tp hlt, scan_perm env b ops full n tp hfull hlt hst⟩
  | join a b' iha ihb =>
    simp only [wfPat, Bool.and_eq_true] at hwf
    obtain ⟨⟨hwa, hwb⟩, hsc⟩ := hwf
    obtain ⟨hca, ga, pa⟩ := iha hwa (fun c h => hc c (by simp [patConsts, h]))
    obtain ⟨hcb, gb, pb⟩ := ihb hwb (fun c h => hc c (by simp [patConsts, h]))
    have hsh : ∀ v, v ∈ (exec env (run b ops) full a).cols → v ∈ (exec env (run b ops) full b').cols →
        v ∈ certain a ∧ v ∈ certain b' := by
      rw [hca, hcb]; exact sharedCertain_spec a b' hsc
    have ok := joinOk_of_good n _ _ _ _ ga gb hsh
    refine ⟨?_, ?_, ?_⟩
    · simp only [exec]; rw [cols_nlJoin, hca, hcb]; rfl
    · have := join_good false n _ _ _ _ ga gb hsh
      simpa [certain, exec] using this
    · simp only [exec]
      rw [cols_nlJoin, rows_nlJoin, join_rows_sols n _ _ _ _ ok]
      simp only [eval]
      have wa := eval_wf env n (run b ops).triples a
      have wb := eval_wf env n (run b ops).triples b'
      rw [lex_joinSols env n U hU _ _ (fun μ h => ⟨(wa μ h).1, fun w y hy => hG y ((wa μ h).2 w y hy)⟩)
        (fun μ h => ⟨(wb μ h).1, fun w y hy => hG y ((wb μ h).2 w y hy)⟩)]
      exact joinSols_perm _ _ _ _ pa pb
  | leftJoin a b' cond iha ihb =>
    cases cond with
    | some e => simp [wfPat] at hwf
    | none =>
      simp only [wfPat, Bool.and_eq_true] at hwf
      obtain ⟨⟨hwa, hwb⟩, hsc⟩ := hwf
      obtain ⟨hca, ga, pa⟩ := iha hwa (fun c h => hc c (by simp [patConsts, h]))
      obtain ⟨hcb, gb, pb⟩ := ihb hwb (fun c h => hc c (by simp [patConsts, h]))
      have hsh : ∀ v, v ∈ (exec env (run b ops) full a).cols → v ∈ (exec env (run b ops) full b').cols →
          v ∈ certain a ∧ v ∈ certain b' := by
        rw [hca, hcb]; exact sharedCertain_spec a b' hsc
      have ok := joinOk_of_good n _ _ _ _ ga gb hsh
      refine ⟨?_, ?_, ?_⟩
      · simp only [exec]; rw [cols_nlJoin, hca, hcb]; rfl
      · have := join_good true n _ _ _ _ ga gb hsh
        simpa [certain, exec] using this
      · simp only [exec]
        rw [cols_nlJoin, rows_nlJoin, leftJoin_rows_sols env n _ _ _ _ ok]
        simp only [eval]
        have wa := eval_wf env n (run b ops).triples a
        have wb := eval_wf env n (run b ops).triples b'
        rw [lex_leftJoin env n U hU _ _ (fun μ h => ⟨(wa μ h).1, fun w y hy => hG y ((wa μ h).2 w y hy)⟩)
          (fun μ h => ⟨(wb μ h).1, fun w y hy => hG y ((wb μ h).2 w y hy)⟩)]
        exact leftJoin_perm env none _ _ _ _ pa pb
  | union a b' iha ihb =>
    simp only [wfPat, Bool.and_eq_true] at hwf
    obtain ⟨hwa, hwb⟩ := hwf
    obtain ⟨hca, ga, pa⟩ := iha hwa (fun c h => hc c (by simp [patConsts, h]))
    obtain ⟨hcb, gb, pb⟩ := ihb hwb (fun c h => hc c (by simp [patConsts, h]))
    refine ⟨?_, ?_, ?_⟩
    · simp only [exec, unionT, patCols, hca, hcb]
    · have := good_union n _ _ _ _ ga gb
      simpa [certain, exec] using this
    · simp only [exec, eval, List.map_append]
      rw [union_perm_parts n _ _ ga.nodup gb.nodup]
      exact List.Perm.append pa pb
  | filter e a iha =>
    simp only [wfPat, Bool.and_eq_true] at hwf
    obtain ⟨hwa, hse⟩ := hwf
    obtain ⟨hca, ga, pa⟩ := iha hwa (fun c h => hc c (by simp [patConsts, h]))
    refine ⟨by simp only [exec]; exact hca, by simp only [exec, certain]; exact good_filter env n _ e _ ga, ?_⟩
    simp only [exec]
    have hcolsF : (filterT env e (exec env (run b ops) full a)).cols = (exec env (run b ops) full a).cols := rfl
    rw [hcolsF, rows_filterT]
    simp only [eval]
    have h1 : ((exec env (run b ops) full a).rows.filter (passes env (exec env (run b ops) full a).cols e)).map
          (toSol n (exec env (run b ops) full a).cols) =
        ((exec env (run b ops) full a).rows.map (toSol n (exec env (run b ops) full a).cols)).filter
          (fun σ => lexEval env σ e == some true) := by
      rw [List.filter_map]
      congr 1
      apply List.filter_congr
      intro r hr
      simp only [Function.comp]
      exact passes_eq env n _ r ⟨ga.nodup, ga.lt, ga.noInt r hr⟩ e hse
    have wa := eval_wf env n (run b ops).triples a
    have h2 : ((eval env n (run b ops).triples a).filter (fun μ => evalE env μ e == some true)).map (lexSol env) =
        ((eval env n (run b ops).triples a).map (lexSol env)).filter (fun σ => lexEval env σ e == some true) := by
      rw [List.filter_map]
      congr 1
      apply List.filter_congr
      intro μ hμ
      simp only [Function.comp]
      rw [evalE_eq env U hU hE μ (fun w y hy => hG y ((wa μ hμ).2 w y hy)) e
        (fun c h => hc c (by simp [patConsts, h])) (noLt_of_safe env e hse)]
    rw [h1, h2]
    exact pa.filter _

/-- the terms a query over a store can touch -/
def termsOf (G : List Triple) (p : Pat) : List Nat := triplesTerms G ++ patConsts p

/-- **C13/SPARQL, pattern level, code as it is**: every plan that satisfies `wfPat` — the empty
group, BGPs, joins, FILTER, OPTIONAL, UNION. -/
theorem c13_sparql_pattern_partial (env : Env) (b : Bool) (ops : List Op)
    (full : List Triple) (n : Nat) (p : Pat)
    (hfull : full.Perm (run b ops).triples)
    (hwf : wfPat env n p = true)
    (hlex : lexClash env (termsOf (run b ops).triples p) = false)
    (heq : eqExactB env (termsOf (run b ops).triples p) = true) :
    (exec env (run b ops) full p).cols = patCols p ∧
      ((exec env (run b ops) full p).rows.map (toSol n (patCols p))).Perm
        ((eval env n (run b ops).triples p).map (lexSol env)) := by
  obtain ⟨hcols, _, hp⟩ := exec_perm_eval env b ops full n _ hfull
    (lexInj_of_noClash env _ hlex) (eqExact_of_B env _ heq) (fun x hx => List.mem_append_left _ hx) p hwf
    (fun c h => List.mem_append_right _ h)
  rw [hcols] at hp
  exact ⟨hcols, hp⟩

/-! ## the two translations -/

theorem compat_empty_right (μ : Sol) (n : Nat) (h : μ.length = n) : compat μ (emptySol n) = true := by
  rw [compat_iff μ (emptySol n) (by simp [h, emptySol_length])]
  intro v
  rw [emptySol_get]
  cases μ.get v <;> rfl

theorem compat_empty_left (ν : Sol) (n : Nat) (h : ν.length = n) : compat (emptySol n) ν = true := by
  rw [compat_iff (emptySol n) ν (by simp [h, emptySol_length])]
  intro v
  rw [emptySol_get]
  rfl

theorem merge_empty_right (μ : Sol) (n : Nat) (h : μ.length = n) : merge μ (emptySol n) = μ := by
  apply sol_ext (n := n) _ _ (merge_length _ _ n h (emptySol_length n)) h
  intro v _
  rw [merge_get _ _ _ (by simp [h, emptySol_length]), emptySol_get]
  cases μ.get v <;> rfl

theorem merge_empty_left (ν : Sol) (n : Nat) (h : ν.length = n) : merge (emptySol n) ν = ν := by
  apply sol_ext (n := n) _ _ (merge_length _ _ n (emptySol_length n) h) h
  intro v _
  rw [merge_get _ _ _ (by simp [h, emptySol_length]), emptySol_get]
  rfl

theorem joinSols_unit_right (as : List Sol) (n : Nat) (h : ∀ μ ∈ as, μ.length = n) :
    joinSols as [emptySol n] = as := by
  induction as with
  | nil => rfl
  | cons μ rest ih =>
    have hμ := h μ List.mem_cons_self
    simp only [joinSols, List.flatMap_cons, List.filterMap_cons, List.filterMap_nil,
      compat_empty_right μ n hμ, if_true, merge_empty_right μ n hμ] at ih ⊢
    rw [ih (fun x hx => h x (List.mem_cons_of_mem _ hx))]
    rfl

theorem joinSols_unit_left (bs : List Sol) (n : Nat) (h : ∀ ν ∈ bs, ν.length = n) :
    joinSols [emptySol n] bs = bs := by
  simp only [joinSols, List.flatMap_cons, List.flatMap_nil, List.append_nil]
  induction bs with
  | nil => rfl
  | cons ν rest ih =>
    have hν := h ν List.mem_cons_self
    simp only [List.filterMap_cons, compat_empty_left ν n hν, if_true, merge_empty_left ν n hν]
    rw [ih (fun x hx => h x (List.mem_cons_of_mem _ hx))]

theorem eval_joinP (env : Env) (n : Nat) (G : List Triple) (a b : Pat) :
    eval env n G (joinP a b) = joinSols (eval env n G a) (eval env n G b) := by
  have wa := fun μ h => (eval_wf env n G a μ h).1
  have wb := fun μ h => (eval_wf env n G b μ h).1
  cases a with
  | unit =>
    simp only [joinP, eval]
    exact (joinSols_unit_left _ n wb).symm
  | scan tp =>
    cases b <;> simp only [joinP, eval]
    exact (joinSols_unit_right _ n wa).symm
  | join x y =>
    cases b <;> simp only [joinP, eval]
    exact (joinSols_unit_right _ n wa).symm
  | leftJoin x y c =>
    cases b <;> simp only [joinP, eval]
    exact (joinSols_unit_right _ n wa).symm
  | union x y =>
    cases b <;> simp only [joinP, eval]
    exact (joinSols_unit_right _ n wa).symm
  | filter e x =>
    cases b <;> simp only [joinP, eval]
    exact (joinSols_unit_right _ n wa).symm

/-- the simplification step of the standard translation does not change the solutions -/
theorem eval_simpUnit (env : Env) (n : Nat) (G : List Triple) (p : Pat) :
    eval env n G (simpUnit p) = eval env n G p := by
  induction p with
  | unit => rfl
  | scan tp => rfl
  | join a b iha ihb => simp only [simpUnit, eval_joinP, iha, ihb, eval]
  | leftJoin a b c iha ihb => simp only [simpUnit, eval, iha, ihb]
  | union a b iha ihb => simp only [simpUnit, eval, iha, ihb]
  | filter e a iha => simp only [simpUnit, eval, iha]

/-- simplification, then the translator's way of writing the condition of a left join -/
def normalize (p : Pat) : Pat := normOpt (simpUnit p)

theorem normOpt_unit_iff (p : Pat) : normOpt p = .unit ↔ p = .unit := by
  cases p with
  | leftJoin a b c => cases c <;> simp [normOpt]
  | _ => simp [normOpt]

theorem normOpt_joinP (a b : Pat) : normOpt (joinP a b) = joinP (normOpt a) (normOpt b) := by
  by_cases ha : a = .unit
  · subst ha; simp [joinP, normOpt]
  · by_cases hb : b = .unit
    · subst hb
      have : joinP a .unit = a := by cases a <;> simp_all [joinP]
      have h2 : joinP (normOpt a) .unit = normOpt a := by
        have : normOpt a ≠ .unit := fun h => ha ((normOpt_unit_iff a).mp h)
        cases h : normOpt a <;> simp_all [joinP]
      rw [this, normOpt, h2]
    · have h1 : joinP a b = .join a b := by cases a <;> cases b <;> simp_all [joinP]
      have hna : normOpt a ≠ .unit := fun h => ha ((normOpt_unit_iff a).mp h)
      have hnb : normOpt b ≠ .unit := fun h => hb ((normOpt_unit_iff b).mp h)
      have h2 : joinP (normOpt a) (normOpt b) = .join (normOpt a) (normOpt b) := by
        cases h : normOpt a <;> cases h' : normOpt b <;> simp_all [joinP]
      rw [h1, h2, normOpt]

theorem normalize_join (a b : Pat) : normalize (.join a b) = joinP (normalize a) (normalize b) := by
  simp only [normalize, simpUnit, normOpt_joinP]

theorem normalize_bgpStd (tps : List TP) : normalize (bgpStd tps) = bgp tps := by
  have key : ∀ (acc : Pat) (acc' : Pat), normalize acc' = acc →
      normalize (tps.foldl (fun acc tp => .join acc (.scan tp)) acc') =
        tps.foldl (fun acc tp => joinP acc (.scan tp)) acc := by
    induction tps with
    | nil => intro acc acc' h; exact h
    | cons tp rest ih =>
      intro acc acc' h
      simp only [List.foldl_cons]
      apply ih
      rw [normalize_join, h]
      rfl
  exact key .unit .unit rfl

theorem normalize_withFilter (fs : List Expr) (p : Pat) : normalize (withFilter fs p) = withFilter fs (normalize p) := by
  simp only [withFilter]
  cases conj fs <;> rfl

theorem normalize_optJoinStd (acc a : Pat) :
    normalize (optJoinStd acc a) = .leftJoin (normalize acc) (normalize a) none := by
  cases a with
  | filter e a' => rfl
  | _ => rfl

/-- **the translator produces the standard algebra expression** (after the standard's simplification
step, and with the condition of an OPTIONAL written as a FILTER in its right operand), for every
group graph pattern -/
theorem codeParts_eq (g : Grp) : ∀ (acc : CParts) (acc' : SParts),
    normalize acc'.pat = acc.pat → acc'.filters = acc.filters →
      normalize (stdParts acc' g).pat = (codeParts acc g).pat ∧ (stdParts acc' g).filters = (codeParts acc g).filters := by
  induction g with
  | nil => intro acc acc' h1 h2; exact ⟨h1, h2⟩
  | triples tps rest ih =>
    intro acc acc' h1 h2
    simp only [stdParts, codeParts]
    apply ih
    · simp only [normalize_join, h1, normalize_bgpStd]
    · exact h2
  | optional g rest ihg ih =>
    intro acc acc' h1 h2
    simp only [stdParts, codeParts]
    apply ih
    · have hg := ihg ⟨.unit, []⟩ ⟨.unit, []⟩ rfl rfl
      simp only [normalize_optJoinStd, h1, assembleStd, assembleCode, normalize_withFilter, hg.1, hg.2]
    · exact h2
  | union a b rest iha ihb ih =>
    intro acc acc' h1 h2
    simp only [stdParts, codeParts]
    apply ih
    · have ha := iha ⟨.unit, []⟩ ⟨.unit, []⟩ rfl rfl
      have hb := ihb ⟨.unit, []⟩ ⟨.unit, []⟩ rfl rfl
      simp only [normalize_join, h1]
      congr 1
      simp only [normalize, simpUnit, normOpt]
      simp only [assembleStd, assembleCode]
      have e1 := normalize_withFilter (stdParts ⟨.unit, []⟩ a).filters (stdParts ⟨.unit, []⟩ a).pat
      have e2 := normalize_withFilter (stdParts ⟨.unit, []⟩ b).filters (stdParts ⟨.unit, []⟩ b).pat
      simp only [normalize] at e1 e2 ha hb
      rw [e1, e2, ha.1, ha.2, hb.1, hb.2]
    · exact h2
  | group g rest ihg ih =>
    intro acc acc' h1 h2
    simp only [stdParts, codeParts]
    apply ih
    · have hg := ihg ⟨.unit, []⟩ ⟨.unit, []⟩ rfl rfl
      simp only [normalize_join, h1, assembleStd, assembleCode, normalize_withFilter, hg.1, hg.2]
    · exact h2
  | filter e rest ih =>
    intro acc acc' h1 h2
    simp only [stdParts, codeParts]
    apply ih
    · exact h1
    · simp only [h2]

theorem transCode_eq (g : Grp) : transCode g = normalize (transStd g) := by
  have := codeParts_eq g ⟨.unit, []⟩ ⟨.unit, []⟩ rfl rfl
  simp only [transCode, transStd, assembleCode, assembleStd, normalize_withFilter, this.1, this.2]

/-! ### the condition of an OPTIONAL, as a FILTER of its right operand -/

def exprVars : Expr → List Nat
  | .eq a b => ptCols a ++ ptCols b
  | .ne a b => ptCols a ++ ptCols b
  | .lt a b => ptCols a ++ ptCols b
  | .bound v => [v]
  | .not e => exprVars e
  | .and a b => exprVars a ++ exprVars b
  | .or a b => exprVars a ++ exprVars b

/-- variables below `n`, and the FILTER of an `OPTIONAL { … FILTER(F) }` reads only variables that
the optional part binds in every solution (then evaluating it inside the optional part, as the
translator arranges it, is evaluating it on the joined solution, as the standard says) -/
def scopeOk (n : Nat) : Pat → Bool
  | .unit => true
  | .scan tp => (tpCols tp).all fun v => decide (v < n)
  | .join a b => scopeOk n a && scopeOk n b
  | .union a b => scopeOk n a && scopeOk n b
  | .filter _ a => scopeOk n a
  | .leftJoin a b none => scopeOk n a && scopeOk n b
  | .leftJoin a b (some e) => scopeOk n a && scopeOk n b && (exprVars e).all fun v => (certain b).contains v

theorem valPT_congr (μ ν : Sol) (a : PT) (h : ∀ v ∈ ptCols a, μ.get v = ν.get v) : valPT μ a = valPT ν a := by
  cases a with
  | const c => rfl
  | var v => exact h v (by simp [ptCols])

theorem evalE_congr (env : Env) (μ ν : Sol) (e : Expr) (h : ∀ v ∈ exprVars e, μ.get v = ν.get v) :
    evalE env μ e = evalE env ν e := by
  induction e with
  | eq a b =>
    simp only [evalE, valPT_congr μ ν a (fun v hv => h v (by simp [exprVars, hv])),
      valPT_congr μ ν b (fun v hv => h v (by simp [exprVars, hv]))]
  | ne a b =>
    simp only [evalE, valPT_congr μ ν a (fun v hv => h v (by simp [exprVars, hv])),
      valPT_congr μ ν b (fun v hv => h v (by simp [exprVars, hv]))]
  | lt a b =>
    simp only [evalE, valPT_congr μ ν a (fun v hv => h v (by simp [exprVars, hv])),
      valPT_congr μ ν b (fun v hv => h v (by simp [exprVars, hv]))]
  | bound v => simp only [evalE, h v (by simp [exprVars])]
  | not e ih => simp only [evalE, ih h]
  | and a b iha ihb =>
    simp only [evalE, iha (fun v hv => h v (by simp [exprVars, hv])), ihb (fun v hv => h v (by simp [exprVars, hv]))]
  | or a b iha ihb =>
    simp only [evalE, iha (fun v hv => h v (by simp [exprVars, hv])), ihb (fun v hv => h v (by simp [exprVars, hv]))]

theorem lookupB_isSome_of_key (fb : List (Nat × Nat)) (v : Nat) (h : v ∈ fb.map (·.1)) : (lookupB fb v).isSome = true := by
  induction fb with
  | nil => cases h
  | cons b rest ih =>
    simp only [lookupB, List.find?_cons]
    by_cases hb : b.1 = v
    · simp [hb]
    · have : (b.1 == v) = false := beq_eq_false_iff_ne.mpr hb
      simp only [this]
      simp only [List.map_cons, List.mem_cons] at h
      rcases h with h | h
      · exact absurd h.symm hb
      · exact ih h

/-- every solution of the algebra binds the `certain` variables -/
theorem eval_certain (env : Env) (n : Nat) (G : List Triple) (p : Pat) (hs : scopeOk n p = true) :
    ∀ ν ∈ eval env n G p, ∀ v ∈ certain p, (ν.get v).isSome = true := by
  induction p with
  | unit => intro ν _ v hv; cases hv
  | scan tp =>
    intro ν hν v hv
    simp only [scopeOk, List.all_eq_true, decide_eq_true_eq] at hs
    simp only [eval, List.mem_filterMap] at hν
    obtain ⟨t, _, hm⟩ := hν
    rw [matchTP_eq] at hm
    split at hm
    · have hb : ∀ b ∈ tpBinds tp t, b.1 < n := by
        intro b hb
        apply hs
        rw [← tpBinds_keys tp t]
        exact List.mem_map_of_mem hb
      have hspec := bindAll_spec n (tpBinds tp t) (emptySol n) [] (emptySol_length n) hb
        (fun w => by simp [emptySol_get, lookupB])
      split at hspec
      · obtain ⟨μ', h1, _, h3⟩ := hspec
        rw [h1] at hm
        simp only [Option.some.injEq] at hm
        subst hm
        rw [h3 v]
        apply lookupB_isSome_of_key
        simp only [List.nil_append, firstBinds_keys, tpBinds_keys]
        exact hv
      · rw [hspec] at hm; cases hm
    · cases hm
  | join a b iha ihb =>
    intro ν hν v hv
    simp only [scopeOk, Bool.and_eq_true] at hs
    simp only [eval, joinSols, List.mem_flatMap, List.mem_filterMap] at hν
    obtain ⟨x, hx, y, hy, hxy⟩ := hν
    split at hxy
    · simp only [Option.some.injEq] at hxy
      subst hxy
      rw [merge_get x y v (by rw [(eval_wf env n G a x hx).1, (eval_wf env n G b y hy).1])]
      apply mergeCell_isSome
      simp only [certain, List.mem_append] at hv
      rcases hv with h | h
      · exact Or.inl (iha hs.1 x hx v h)
      · exact Or.inr (ihb hs.2 y hy v h)
    · cases hxy
  | leftJoin a b cond iha ihb =>
    intro ν hν v hv
    have hsa : scopeOk n a = true := by
      cases cond <;> simp only [scopeOk, Bool.and_eq_true] at hs
      · exact hs.1
      · exact hs.1.1
    simp only [eval, List.mem_flatMap] at hν
    obtain ⟨x, hx, hm⟩ := hν
    simp only [leftJoinOne] at hm
    split at hm
    · simp only [List.mem_singleton] at hm
      subst hm
      exact iha hsa ν hx v hv
    · simp only [List.mem_filterMap] at hm
      obtain ⟨y, hy, hxy⟩ := hm
      split at hxy
      · simp only [Option.some.injEq] at hxy
        subst hxy
        rw [merge_get x y v (by rw [(eval_wf env n G a x hx).1, (eval_wf env n G b y hy).1])]
        exact mergeCell_isSome _ _ (Or.inl (iha hsa x hx v hv))
      · cases hxy
  | union a b iha ihb =>
    intro ν hν v hv
    simp only [scopeOk, Bool.and_eq_true] at hs
    simp only [certain, List.mem_filter, List.contains_iff_mem] at hv
    simp only [eval, List.mem_append] at hν
    rcases hν with h | h
    · exact iha hs.1 ν h v hv.1
    · exact ihb hs.2 ν h v hv.2
  | filter e a iha =>
    intro ν hν v hv
    simp only [eval, List.mem_filter] at hν
    exact iha hs ν hν.1 v hv

theorem merge_get_bound (μ ν : Sol) (v : Nat) (hl : μ.length = ν.length) (hc : compat μ ν = true)
    (hb : (ν.get v).isSome = true) : Sol.get (merge μ ν) v = ν.get v := by
  rw [merge_get μ ν v hl]
  have := (compat_iff μ ν hl).mp hc v
  cases hx : μ.get v with
  | none => rfl
  | some x =>
    cases hy : ν.get v with
    | none => rw [hy] at hb; cases hb
    | some y =>
      simp only [hx, hy, compatCell, beq_iff_eq] at this
      simp [mergeCell, this]

theorem filterMap_filter {α β : Type} (l : List α) (p : α → Bool) (f : α → Option β) :
    (l.filter p).filterMap f = l.filterMap fun a => if p a then f a else none := by
  induction l with
  | nil => rfl
  | cons x xs ih =>
    simp only [List.filter_cons, List.filterMap_cons]
    cases hp : p x
    · simp [ih]
    · simp only [if_true, List.filterMap_cons, ih]

/-- writing the condition of an OPTIONAL as a FILTER of the optional part does not change the solutions -/
theorem eval_normOpt (env : Env) (n : Nat) (G : List Triple) (p : Pat) (hs : scopeOk n p = true) :
    eval env n G (normOpt p) = eval env n G p := by
  induction p with
  | unit => rfl
  | scan tp => rfl
  | join a b iha ihb =>
    simp only [scopeOk, Bool.and_eq_true] at hs
    simp only [normOpt, eval, iha hs.1, ihb hs.2]
  | union a b iha ihb =>
    simp only [scopeOk, Bool.and_eq_true] at hs
    simp only [normOpt, eval, iha hs.1, ihb hs.2]
  | filter e a iha =>
    simp only [scopeOk] at hs
    simp only [normOpt, eval, iha hs]
  | leftJoin a b cond iha ihb =>
    cases cond with
    | none =>
      simp only [scopeOk, Bool.and_eq_true] at hs
      simp only [normOpt, eval, iha hs.1, ihb hs.2]
    | some e =>
      simp only [scopeOk, Bool.and_eq_true, List.all_eq_true, List.contains_iff_mem] at hs
      obtain ⟨⟨hsa, hsb⟩, hvars⟩ := hs
      simp only [normOpt, eval, iha hsa, ihb hsb]
      apply flatMap_congr'
      intro μ hμ
      have key : ((eval env n G b).filter fun ν => evalE env ν e == some true).filterMap
            (fun ν => if compat μ ν && holds env none (merge μ ν) then some (merge μ ν) else none) =
          (eval env n G b).filterMap
            (fun ν => if compat μ ν && holds env (some e) (merge μ ν) then some (merge μ ν) else none) := by
        rw [filterMap_filter]
        apply filterMap_congr'
        intro ν hν
        have hl : μ.length = ν.length := by rw [(eval_wf env n G a μ hμ).1, (eval_wf env n G b ν hν).1]
        cases hc : compat μ ν
        · simp
        · have heq : evalE env (merge μ ν) e = evalE env ν e := by
            apply evalE_congr
            intro v hv
            exact merge_get_bound μ ν v hl hc (eval_certain env n G b hsb ν hν v (hvars v hv))
          simp only [holds, Bool.true_and, heq]
          split <;> simp_all
      simp only [leftJoinOne, key]

/-- **the translator's plan has the solutions of the standard algebra expression**, for every group
whose OPTIONAL filters stay inside their scope -/
theorem eval_transCode (env : Env) (n : Nat) (G : List Triple) (g : Grp)
    (hs : scopeOk n (simpUnit (transStd g)) = true) :
    eval env n G (transCode g) = eval env n G (transStd g) := by
  rw [transCode_eq, normalize, eval_normOpt env n G _ hs, eval_simpUnit]

/-! ## SELECT: projection and DISTINCT -/

theorem rows_projectT (vars : List Nat) (t : Table) :
    (projectT vars t).rows = t.rows.map (projectRow t.cols vars) := by
  simp only [projectT, Table.rows, List.flatMap_map, List.map_flatMap]
  apply flatMap_congr'
  intro c _
  exact selRows_rebuild _

theorem restrict_toSol (n : Nat) (cols vars : List Nat) (r : Row) :
    restrict vars (toSol n cols r) = (List.range n).map fun v => if vars.contains v then lookupCol cols r v else none := by
  simp only [restrict, toSol_length]
  apply List.map_congr_left
  intro v hv
  rw [toSol_get _ _ _ _ (List.mem_range.mp hv)]

/-- a projected row, read as a solution, is the row's solution restricted to the projection -/
theorem toSol_project (n : Nat) (cols vars : List Nat) (r : Row) (hnd : cols.Nodup) :
    toSol n vars (projectRow cols vars r) = restrict vars (toSol n cols r) := by
  rw [restrict_toSol]
  simp only [toSol, projectRow]
  apply List.map_congr_left
  intro v _
  rw [lookupCol_map]
  by_cases hv : v ∈ vars
  · rw [if_pos hv, if_pos (List.contains_iff_mem.mpr hv)]
    by_cases hc : v ∈ cols
    · obtain ⟨i, hi⟩ := List.getElem?_of_mem hc
      rw [colIdx_of_index cols v i hnd hi, lookupCol_eq, lookupCell_of_index cols r v i hnd hi]
      simp only [List.getD_eq_getElem?_getD]
      cases r[i]? <;> rfl
    · rw [colIdx_none cols v hc, lookupCol_none_of_not_mem cols r v hc]
      rfl
  · have : vars.contains v = false := by
      cases h : vars.contains v
      · rfl
      · exact absurd (List.contains_iff_mem.mp h) hv
    rw [if_neg hv, this]
    rfl

theorem restrict_lexSol (env : Env) (vars : List Nat) (μ : Sol) :
    restrict vars (lexSol env μ) = lexSol env (restrict vars μ) := by
  simp only [restrict, lexSol_length]
  simp only [lexSol, List.map_map]
  apply List.map_congr_left
  intro v _
  simp only [Function.comp]
  have := lexSol_get env μ v
  simp only [lexSol] at this
  rw [this]
  split <;> rfl

theorem noInt_projectRow (cols vars : List Nat) (r : Row) (h : NoInt r) : NoInt (projectRow cols vars r) := by
  intro c hc k
  simp only [projectRow, List.mem_map] at hc
  obtain ⟨v, _, rfl⟩ := hc
  cases colIdx cols v with
  | none => simp
  | some i =>
    simp only [List.getD_eq_getElem?_getD]
    cases hi : r[i]? with
    | none => simp
    | some y => simpa using h y (List.mem_of_getElem? hi) k

/-! ### DISTINCT -/

/-- every element once, the first of its kind where it is -/
def dedupG {α : Type} [BEq α] : List α → List α
  | [] => []
  | x :: xs => x :: (dedupG xs).filter (· != x)

theorem dedupSols_eq (l : List Sol) : dedupSols l = dedupG l := by
  induction l with
  | nil => rfl
  | cons x xs ih => simp only [dedupSols, dedupG, ih]

theorem mem_dedupG {α : Type} [BEq α] [LawfulBEq α] (l : List α) (a : α) : a ∈ dedupG l ↔ a ∈ l := by
  induction l with
  | nil => simp [dedupG]
  | cons x xs ih =>
    simp only [dedupG, List.mem_cons, List.mem_filter, ih, bne_iff_ne, ne_eq]
    constructor
    · rintro (h | h)
      · exact Or.inl h
      · exact Or.inr h.1
    · rintro (h | h)
      · exact Or.inl h
      · by_cases hax : a = x
        · exact Or.inl hax
        · exact Or.inr ⟨h, hax⟩

theorem nodup_dedupG {α : Type} [BEq α] [LawfulBEq α] (l : List α) : (dedupG l).Nodup := by
  induction l with
  | nil => exact List.nodup_nil
  | cons x xs ih =>
    simp only [dedupG]
    rw [List.nodup_cons]
    refine ⟨fun h => ?_, List.Pairwise.sublist List.filter_sublist ih⟩
    have := (List.mem_filter.mp h).2
    simp at this

theorem dedupG_perm {α : Type} [BEq α] [LawfulBEq α] (l l' : List α) (h : l.Perm l') : (dedupG l).Perm (dedupG l') := by
  rw [List.perm_ext_iff_of_nodup (nodup_dedupG l) (nodup_dedupG l')]
  intro a
  rw [mem_dedupG, mem_dedupG, h.mem_iff]

theorem dedupG_map {α β : Type} [BEq α] [LawfulBEq α] [BEq β] [LawfulBEq β] (f : α → β) (l : List α)
    (hinj : ∀ a ∈ l, ∀ b ∈ l, f a = f b → a = b) : (dedupG l).map f = dedupG (l.map f) := by
  induction l with
  | nil => rfl
  | cons x xs ih =>
    have ih' := ih (fun a ha b hb => hinj a (List.mem_cons_of_mem _ ha) b (List.mem_cons_of_mem _ hb))
    simp only [dedupG, List.map_cons]
    congr 1
    rw [← ih', List.filter_map]
    congr 1
    apply List.filter_congr
    intro a ha
    have hax : a ∈ xs := (mem_dedupG xs a).mp ha
    simp only [Function.comp]
    by_cases h : a = x
    · subst h
      simp only [bne_self_eq_false]
    · have : f a ≠ f x := fun hf => h (hinj a (List.mem_cons_of_mem _ hax) x List.mem_cons_self hf)
      rw [bne_iff_ne.mpr h, bne_iff_ne.mpr this]

theorem freshRows_eq (seen l : List Row) : freshRows seen l = (dedupG l).filter fun x => !seen.contains x := by
  induction l generalizing seen with
  | nil => rfl
  | cons x xs ih =>
    simp only [freshRows, dedupG, List.filter_cons]
    cases hx : seen.contains x
    · simp only [Bool.false_eq_true, if_false, Bool.not_false, if_true]
      congr 1
      rw [ih, List.filter_filter]
      apply List.filter_congr
      intro a _
      simp only [List.contains_append, List.contains_cons, List.contains_nil, Bool.or_false, Bool.not_or]
      by_cases hax : a = x
      · subst hax
        simp only [BEq.rfl, Bool.not_true, Bool.and_false, bne_self_eq_false]
      · rw [beq_eq_false_iff_ne.mpr hax, bne_iff_ne.mpr hax]
        simp
    · simp only [if_true, Bool.not_true, Bool.false_eq_true, if_false]
      rw [ih, List.filter_filter]
      apply List.filter_congr
      intro a _
      by_cases hax : a = x
      · subst hax
        simp only [hx, Bool.not_true, bne_self_eq_false, Bool.and_false]
      · rw [bne_iff_ne.mpr hax]
        simp

theorem freshRows_append (seen a b : List Row) :
    freshRows seen (a ++ b) = freshRows seen a ++ freshRows (seen ++ freshRows seen a) b := by
  induction a generalizing seen with
  | nil => simp [freshRows]
  | cons x xs ih =>
    simp only [List.cons_append, freshRows]
    split
    · exact ih seen
    · rw [ih, List.cons_append, List.append_assoc]
      rfl

theorem rows_distinctChunks (seen : List Row) (cs : List Chunk) :
    (distinctChunks seen cs).flatMap selRows = freshRows seen (cs.flatMap selRows) := by
  induction cs generalizing seen with
  | nil => rfl
  | cons c rest ih =>
    simp only [distinctChunks, List.flatMap_cons, freshRows_append]
    split
    · rename_i h
      have hnil : freshRows seen (selRows c) = [] := List.isEmpty_iff.mp h
      rw [ih, hnil]
      simp
    · simp only [List.flatMap_cons, selRows_rebuild, ih]

theorem rows_distinctT (d : Bool) (t : Table) :
    (distinctT d t).rows = if d then dedupG t.rows else t.rows := by
  cases d
  · rfl
  · simp only [distinctT, if_true, Table.rows]
    rw [rows_distinctChunks, freshRows_eq]
    exact List.filter_eq_self.mpr (fun _ _ => rfl)

/-- different rows of a good table stand for different solutions -/
theorem toSol_inj (n : Nat) (cols : List Nat) (r1 r2 : Row) (hnd : cols.Nodup) (hlt : ∀ v ∈ cols, v < n)
    (h1 : r1.length = cols.length) (h2 : r2.length = cols.length) (n1 : NoInt r1) (n2 : NoInt r2)
    (h : toSol n cols r1 = toSol n cols r2) : r1 = r2 := by
  apply List.ext_getElem (by omega)
  intro i hi1 hi2
  have hic : i < cols.length := by omega
  have hci : cols[i]? = some cols[i] := List.getElem?_eq_getElem hic
  have hv := hlt cols[i] (List.getElem_mem hic)
  have e1 : Sol.get (toSol n cols r1) cols[i] = Sol.get (toSol n cols r2) cols[i] := by rw [h]
  rw [toSol_get _ _ _ _ hv, toSol_get _ _ _ _ hv, lookupCol_eq, lookupCol_eq,
    lookupCell_of_index cols r1 _ i hnd hci, lookupCell_of_index cols r2 _ i hnd hci,
    List.getElem?_eq_getElem hi1, List.getElem?_eq_getElem hi2] at e1
  simp only [Option.bind_some] at e1
  have a1 := n1 r1[i] (List.getElem_mem hi1)
  have a2 := n2 r2[i] (List.getElem_mem hi2)
  cases hx : r1[i] with
  | int k => exact absurd hx (a1 k)
  | null =>
    cases hy : r2[i] with
    | int k => exact absurd hy (a2 k)
    | null => rfl
    | str l => rw [hx, hy] at e1; cases e1
  | str l =>
    cases hy : r2[i] with
    | int k => exact absurd hy (a2 k)
    | null => rw [hx, hy] at e1; cases e1
    | str l' =>
      rw [hx, hy] at e1
      simp only [cellVal, Option.some.injEq] at e1
      rw [e1]

/-- a projection: `*`, or distinct variables below `n` -/
def projOk (n : Nat) : Option (List Nat) → Bool
  | none => true
  | some vars => !vars.isEmpty && decide vars.Nodup && vars.all fun v => decide (v < n)

theorem lexSol_inj (env : Env) (U : List Nat) (hU : LexInj env U) (μ ν : Sol) (hl : μ.length = ν.length)
    (hμ : ∀ w y, μ.get w = some y → y ∈ U) (hν : ∀ w y, ν.get w = some y → y ∈ U)
    (h : lexSol env μ = lexSol env ν) : μ = ν := by
  apply sol_ext (n := μ.length) _ _ rfl hl.symm
  intro v _
  have := congrArg (fun σ => Sol.get σ v) h
  simp only [lexSol_get] at this
  cases hx : μ.get v with
  | none =>
    cases hy : ν.get v with
    | none => rfl
    | some y => rw [hx, hy] at this; cases this
  | some x =>
    cases hy : ν.get v with
    | none => rw [hx, hy] at this; cases this
    | some y =>
      rw [hx, hy] at this
      simp only [Option.map_some, Option.some.injEq] at this
      rw [hU x (hμ v x hx) y (hν v y hy) this]

theorem restrict_length (vars : List Nat) (μ : Sol) : (restrict vars μ).length = μ.length := by
  simp [restrict]

theorem restrict_get (vars : List Nat) (μ : Sol) (v : Nat) :
    (restrict vars μ).get v = if vars.contains v then μ.get v else none := by
  by_cases hv : v < μ.length
  · simp only [restrict, Sol.get]
    rw [List.getElem?_map, List.getElem?_range hv]
    rfl
  · have h1 : (restrict vars μ)[v]? = none := List.getElem?_eq_none (by rw [restrict_length]; omega)
    have h2 : μ[v]? = none := List.getElem?_eq_none (by omega)
    simp only [Sol.get, h1, h2]
    split <;> rfl

/-- the table after the projection of a SELECT -/
structure ProjFacts (n : Nat) (proj : Option (List Nat)) (t t2 : Table) : Prop where
  nodup : t2.cols.Nodup
  lt : ∀ v ∈ t2.cols, v < n
  width : ∀ r ∈ t2.rows, r.length = t2.cols.length
  noInt : ∀ r ∈ t2.rows, NoInt r
  sols : t2.rows.map (toSol n t2.cols) = (t.rows.map (toSol n t.cols)).map (projSol proj)

theorem projOpt_facts (n : Nat) (cert : List Nat) (proj : Option (List Nat)) (t : Table) (g : Good n cert t)
    (hp : projOk n proj = true) : ProjFacts n proj t (projOpt proj t) := by
  cases proj with
  | none =>
    exact ⟨g.nodup, g.lt, g.width, g.noInt, by simp [projOpt, projSol]⟩
  | some vars =>
    simp only [projOk, Bool.and_eq_true, Bool.not_eq_true', decide_eq_true_eq, List.all_eq_true] at hp
    obtain ⟨⟨hne, hvn⟩, hlt⟩ := hp
    cases vars with
    | nil => simp at hne
    | cons x xs =>
      have hrows := rows_projectT (x :: xs) t
      refine ⟨hvn, hlt, ?_, ?_, ?_⟩
      · intro r hr
        simp only [projOpt] at hr
        rw [hrows] at hr
        obtain ⟨r0, _, rfl⟩ := List.mem_map.mp hr
        simp [projectRow, projOpt, projectT]
      · intro r hr
        simp only [projOpt] at hr
        rw [hrows] at hr
        obtain ⟨r0, hr0, rfl⟩ := List.mem_map.mp hr
        exact noInt_projectRow _ _ r0 (g.noInt r0 hr0)
      · simp only [projOpt, hrows, projSol, List.map_map]
        apply List.map_congr_left
        intro r _
        exact toSol_project n t.cols (x :: xs) r g.nodup

/-- DISTINCT on the rows is DISTINCT on the solutions they stand for -/
theorem distinct_sols (n : Nat) (d : Bool) (t2 : Table) (hnd : t2.cols.Nodup) (hlt : ∀ v ∈ t2.cols, v < n)
    (hw : ∀ r ∈ t2.rows, r.length = t2.cols.length) (hni : ∀ r ∈ t2.rows, NoInt r) :
    (distinctT d t2).rows.map (toSol n t2.cols) =
      if d then dedupG (t2.rows.map (toSol n t2.cols)) else t2.rows.map (toSol n t2.cols) := by
  rw [rows_distinctT]
  cases d
  · rfl
  · simp only [if_true]
    exact dedupG_map _ _ (fun a ha b hb h => toSol_inj n t2.cols a b hnd hlt (hw a ha) (hw b hb) (hni a ha) (hni b hb) h)

theorem cols_distinctT (d : Bool) (t : Table) : (distinctT d t).cols = t.cols := by
  cases d <;> rfl

/-- the specification's projection + DISTINCT, in lexical forms -/
theorem spec_distinct_lex (env : Env) (n : Nat) (U : List Nat) (hU : LexInj env U) (proj : Option (List Nat)) (d : Bool)
    (sols : List Sol) (hs : ∀ μ ∈ sols, μ.length = n ∧ ∀ w y, μ.get w = some y → y ∈ U) :
    (if d then dedupSols (sols.map (projSol proj)) else sols.map (projSol proj)).map (lexSol env) =
      if d then dedupG ((sols.map (lexSol env)).map (projSol proj)) else (sols.map (lexSol env)).map (projSol proj) := by
  have hcomm : (sols.map (projSol proj)).map (lexSol env) = (sols.map (lexSol env)).map (projSol proj) := by
    rw [List.map_map, List.map_map]
    apply List.map_congr_left
    intro μ _
    cases proj with
    | none => rfl
    | some vars => exact (restrict_lexSol env vars μ).symm
  cases d
  · exact hcomm
  · simp only [if_true, dedupSols_eq]
    rw [dedupG_map (lexSol env), hcomm]
    intro a ha b hb h
    obtain ⟨μ, hμ, rfl⟩ := List.mem_map.mp ha
    obtain ⟨ν, hν, rfl⟩ := List.mem_map.mp hb
    have facts : ∀ μ ∈ sols, (projSol proj μ).length = n ∧ ∀ w y, (projSol proj μ).get w = some y → y ∈ U := by
      intro μ hμ
      cases proj with
      | none => exact hs μ hμ
      | some vars =>
        refine ⟨by rw [projSol, restrict_length]; exact (hs μ hμ).1, fun w y hy => ?_⟩
        simp only [projSol, restrict_get] at hy
        split at hy
        · exact (hs μ hμ).2 w y hy
        · cases hy
    exact lexSol_inj env U hU _ _ (by rw [(facts μ hμ).1, (facts ν hν).1]) (facts μ hμ).2 (facts ν hν).2 h

/-! ## agreement of the model's answers with the specification's -/

/-- does the model's answer to a SELECT agree with the specification's (as multisets of solutions)? -/
def selAgrees (env : Env) (st : Store) (full : List Triple) (n : Nat) (q : Select) : Prop :=
  match execSelect env st full q with
  | none => False
  | some t => (t.rows.map (toSol n t.cols)).Perm ((specSelect env n st.triples q).map (lexSol env))

instance (env : Env) (st : Store) (full : List Triple) (n : Nat) (q : Select) : Decidable (selAgrees env st full n q) := by
  unfold selAgrees
  split <;> infer_instance

/-- … as sequences (ORDER BY) -/
def selAgreesOrdered (env : Env) (st : Store) (full : List Triple) (n : Nat) (q : Select) : Prop :=
  match execSelect env st full q with
  | none => False
  | some t => t.rows.map (toSol n t.cols) = (specSelect env n st.triples q).map (lexSol env)

instance (env : Env) (st : Store) (full : List Triple) (n : Nat) (q : Select) :
    Decidable (selAgreesOrdered env st full n q) := by
  unfold selAgreesOrdered
  split <;> infer_instance

def countRowCells (env : Env) (r : CountRow) : Row :=
  (r.key.map fun k => match k with
    | some x => Cell.str (env.lex x)
    | none => Cell.null) ++ [Cell.int r.count]

/-- does the model's answer to a COUNT query agree with the specification's (header and rows)? -/
def cntAgrees (env : Env) (st : Store) (full : List Triple) (n : Nat) (q : Count) : Prop :=
  match execCount env st full q with
  | none => False
  | some t => t.cols = q.groupBy ++ [q.alias] ∧ t.rows.Perm ((specCount env n st.triples q).map (countRowCells env))

instance (env : Env) (st : Store) (full : List Triple) (n : Nat) (q : Count) : Decidable (cntAgrees env st full n q) := by
  unfold cntAgrees
  split <;> infer_instance

/-- does the store after the model's update hold the triples the specification says? -/
def updAgrees (env : Env) (st : Store) (full : List Triple) (n : Nat) (u : Update) : Prop :=
  match execUpdate env ⟨st, full⟩ u, specUpdate env n st.triples u with
  | some u', some G' => u'.st.triples.Perm G'
  | none, none => True
  | _, _ => False

instance (env : Env) (st : Store) (full : List Triple) (n : Nat) (u : Update) : Decidable (updAgrees env st full n u) := by
  unfold updAgrees
  split <;> infer_instance

/-- **SELECT [DISTINCT] without ORDER BY / OFFSET / LIMIT** (projection allowed, also of variables
that are not in scope): the rows returned are a permutation of the specification's solutions. -/
theorem c13_sparql_select_partial (env : Env) (b : Bool) (ops : List Op)
    (full : List Triple) (n : Nat) (q : Select)
    (hfull : full.Perm (run b ops).triples)
    (ho : q.order = []) (hoff : q.offset = none) (hlim : q.limit = none)
    (hs : scopeOk n (simpUnit (transStd q.where_)) = true)
    (hwf : wfPat env n (transCode q.where_) = true)
    (hproj : projOk n q.proj = true)
    (hlex : lexClash env (termsOf (run b ops).triples (transCode q.where_)) = false)
    (heq : eqExactB env (termsOf (run b ops).triples (transCode q.where_)) = true) :
    selAgrees env (run b ops) full n q := by
  have hU := lexInj_of_noClash env _ hlex
  obtain ⟨_, g, hp⟩ := exec_perm_eval env b ops full n _ hfull hU (eqExact_of_B env _ heq)
    (fun x hx => List.mem_append_left _ hx) (transCode q.where_) hwf (fun c h => List.mem_append_right _ h)
  rw [eval_transCode env n _ q.where_ hs] at hp
  have pf := projOpt_facts n _ q.proj _ g hproj
  have hsol : ∀ μ ∈ eval env n (run b ops).triples (transStd q.where_), μ.length = n ∧ ∀ w y, μ.get w = some y →
      y ∈ termsOf (run b ops).triples (transCode q.where_) := by
    intro μ hμ
    exact ⟨(eval_wf env n _ _ μ hμ).1, fun w y hy => List.mem_append_left _ ((eval_wf env n _ _ μ hμ).2 w y hy)⟩
  unfold selAgrees
  simp only [execSelect, ho, orderT, List.isEmpty_nil, if_true, Option.map_some, hoff, hlim, skipT, limitT,
    specSelect, sliceOpt]
  rw [cols_distinctT, distinct_sols n q.distinct _ pf.nodup pf.lt pf.width pf.noInt, pf.sols]
  have hspec := spec_distinct_lex env n _ hU q.proj q.distinct _ hsol
  rw [hspec]
  cases q.distinct
  · exact hp.map _
  · simp only [if_true]
    exact dedupG_perm _ _ (hp.map _)

/-! ### OFFSET / LIMIT on chunks are `drop` / `take` on rows -/

theorem rows_skipChunks (k : Nat) (cs : List Chunk) :
    (skipChunks k cs).flatMap selRows = (cs.flatMap selRows).drop k := by
  induction cs generalizing k with
  | nil => cases k <;> simp [skipChunks]
  | cons c rest ih =>
    cases k with
    | zero => simp [skipChunks]
    | succ j =>
      simp only [skipChunks, List.flatMap_cons]
      split
      · rename_i hge
        rw [ih, List.drop_append]
        have : (selRows c).drop (j + 1) = [] := List.drop_eq_nil_of_le hge
        rw [this]
        rfl
      · rename_i hlt
        simp only [List.flatMap_cons, selRows_rebuild]
        rw [List.drop_append_of_le_length (by omega)]

theorem rows_limitChunks (k : Nat) (cs : List Chunk) :
    (limitChunks k cs).flatMap selRows = (cs.flatMap selRows).take k := by
  induction cs generalizing k with
  | nil => cases k <;> simp [limitChunks]
  | cons c rest ih =>
    cases k with
    | zero => simp [limitChunks]
    | succ j =>
      simp only [limitChunks, List.flatMap_cons]
      split
      · rename_i h0
        have : selRows c = [] := List.eq_nil_of_length_eq_zero h0
        rw [ih, this]
        rfl
      · split
        · rename_i hle
          simp only [List.flatMap_cons]
          rw [ih, List.take_append]
          rw [List.take_of_length_le hle]
        · rename_i hgt
          simp only [List.flatMap_cons, List.flatMap_nil, List.append_nil, selRows_rebuild]
          rw [List.take_append_of_le_length (by omega)]

/-- OFFSET then LIMIT on a table = `sliceOpt` on its rows -/
theorem rows_slice (off lim : Option Nat) (t : Table) :
    (limitT lim (skipT off t)).rows = sliceOpt off lim t.rows ∧ (limitT lim (skipT off t)).cols = t.cols := by
  constructor
  · cases off with
    | none =>
      cases lim with
      | none => rfl
      | some k => exact rows_limitChunks k t.chunks
    | some j =>
      cases lim with
      | none => exact rows_skipChunks j t.chunks
      | some k =>
        show (limitChunks k (skipChunks j t.chunks)).flatMap selRows = _
        rw [rows_limitChunks, rows_skipChunks]
        rfl
  · cases off <;> cases lim <;> rfl

theorem map_sliceOpt {α β : Type} (f : α → β) (off lim : Option Nat) (l : List α) :
    (sliceOpt off lim l).map f = sliceOpt off lim (l.map f) := by
  cases off <;> cases lim <;> simp [sliceOpt, List.map_take, List.map_drop]

theorem mem_sliceOpt {α : Type} (off lim : Option Nat) (l : List α) (x : α) (h : x ∈ sliceOpt off lim l) : x ∈ l := by
  cases off with
  | none =>
    cases lim with
    | none => exact h
    | some k => exact List.mem_of_mem_take h
  | some j =>
    cases lim with
    | none => exact List.mem_of_mem_drop h
    | some k => exact List.mem_of_mem_drop (List.mem_of_mem_take h)

theorem sliceOpt_rest {α : Type} (off lim : Option Nat) (l : List α) :
    ∃ rest, (sliceOpt off lim l ++ rest).Perm l := by
  cases off with
  | none =>
    cases lim with
    | none => exact ⟨[], by simp [sliceOpt]⟩
    | some k => exact ⟨l.drop k, by simp [sliceOpt, List.take_append_drop]⟩
  | some j =>
    cases lim with
    | none =>
      refine ⟨l.take j, ?_⟩
      simp only [sliceOpt]
      exact List.perm_append_comm.trans (by rw [List.take_append_drop])
    | some k =>
      refine ⟨(l.drop j).drop k ++ l.take j, ?_⟩
      simp only [sliceOpt]
      rw [← List.append_assoc, List.take_append_drop]
      exact List.perm_append_comm.trans (by rw [List.take_append_drop])

theorem sliceOpt_length {α β : Type} (off lim : Option Nat) (l : List α) (l' : List β) (h : l.length = l'.length) :
    (sliceOpt off lim l).length = (sliceOpt off lim l').length := by
  cases off <;> cases lim <;> simp [sliceOpt, h]

/-! ## ORDER BY: stable insertion sort, generically -/

def insertG {α : Type} (le : α → α → Bool) (x : α) : List α → List α
  | [] => [x]
  | y :: ys => if le y x then y :: insertG le x ys else x :: y :: ys

def sortG {α : Type} (le : α → α → Bool) (l : List α) : List α := l.foldl (fun acc x => insertG le x acc) []

theorem insertStable_eq (le : Row → Row → Bool) (x : Row) (l : List Row) : insertStable le x l = insertG le x l := by
  induction l with
  | nil => rfl
  | cons y ys ih => simp only [insertStable, insertG, ih]

theorem sortStable_eq (le : Row → Row → Bool) (l : List Row) : sortStable le l = sortG le l := by
  simp only [sortStable, sortG]
  congr 1
  funext acc x
  exact insertStable_eq le x acc

theorem insertSol_eq (le : Sol → Sol → Bool) (x : Sol) (l : List Sol) : insertSol le x l = insertG le x l := by
  induction l with
  | nil => rfl
  | cons y ys ih => simp only [insertSol, insertG, ih]

theorem sortSols_eq (le : Sol → Sol → Bool) (l : List Sol) : sortSols le l = sortG le l := by
  simp only [sortSols, sortG]
  congr 1
  funext acc x
  exact insertSol_eq le x acc

theorem insertG_perm {α : Type} (le : α → α → Bool) (x : α) (l : List α) : (insertG le x l).Perm (x :: l) := by
  induction l with
  | nil => exact List.Perm.refl _
  | cons y ys ih =>
    simp only [insertG]
    split
    · exact (List.Perm.cons y ih).trans (List.Perm.swap x y ys)
    · exact List.Perm.refl _

theorem foldl_insertG_perm {α : Type} (le : α → α → Bool) (l acc : List α) :
    (l.foldl (fun acc x => insertG le x acc) acc).Perm (l.reverse ++ acc) := by
  induction l generalizing acc with
  | nil => simp
  | cons x xs ih =>
    simp only [List.foldl_cons, List.reverse_cons, List.append_assoc, List.singleton_append]
    exact (ih (insertG le x acc)).trans (List.Perm.append_left _ (insertG_perm le x acc))

theorem sortG_perm {α : Type} (le : α → α → Bool) (l : List α) : (sortG le l).Perm l := by
  have := foldl_insertG_perm le l []
  simp only [List.append_nil] at this
  exact this.trans (List.reverse_perm l)

/-- sorting commutes with a map that respects the comparator -/
theorem insertG_map {α β : Type} (f : α → β) (le : α → α → Bool) (le' : β → β → Bool) (x : α) (l : List α)
    (h : ∀ y ∈ l, le y x = le' (f y) (f x)) :
    (insertG le x l).map f = insertG le' (f x) (l.map f) := by
  induction l with
  | nil => rfl
  | cons y ys ih =>
    simp only [insertG, List.map_cons]
    rw [← h y List.mem_cons_self]
    split
    · simp only [List.map_cons, ih (fun z hz => h z (List.mem_cons_of_mem _ hz))]
    · rfl

theorem foldl_insertG_map {α β : Type} (f : α → β) (le : α → α → Bool) (le' : β → β → Bool) (S : List α)
    (h : ∀ a ∈ S, ∀ b ∈ S, le a b = le' (f a) (f b)) (l acc : List α) (hl : ∀ a ∈ l, a ∈ S) (ha : ∀ a ∈ acc, a ∈ S) :
    (l.foldl (fun acc x => insertG le x acc) acc).map f =
      (l.map f).foldl (fun acc x => insertG le' x acc) (acc.map f) := by
  induction l generalizing acc with
  | nil => rfl
  | cons x xs ih =>
    simp only [List.foldl_cons, List.map_cons]
    have hx := hl x List.mem_cons_self
    rw [ih (insertG le x acc) (fun a h' => hl a (List.mem_cons_of_mem _ h'))
      (fun a h' => by
        rcases List.mem_cons.mp ((insertG_perm le x acc).mem_iff.mp h') with rfl | h''
        · exact hx
        · exact ha a h'')]
    rw [insertG_map f le le' x acc (fun y hy => h y (ha y hy) x hx)]

theorem sortG_map {α β : Type} (f : α → β) (le : α → α → Bool) (le' : β → β → Bool) (l : List α)
    (h : ∀ a ∈ l, ∀ b ∈ l, le a b = le' (f a) (f b)) :
    (sortG le l).map f = sortG le' (l.map f) := by
  simp only [sortG]
  exact foldl_insertG_map f le le' l h l [] (fun a h' => h') (fun a h' => by cases h')

/-- an order on the members of `S`: total and transitive -/
structure OrdOn {α : Type} (le : α → α → Bool) (S : List α) : Prop where
  total : ∀ a ∈ S, ∀ b ∈ S, le a b = true ∨ le b a = true
  trans : ∀ a ∈ S, ∀ b ∈ S, ∀ c ∈ S, le a b = true → le b c = true → le a c = true

theorem insertG_sorted {α : Type} (le : α → α → Bool) (S : List α) (ord : OrdOn le S) (x : α) (l : List α)
    (hx : x ∈ S) (hl : ∀ a ∈ l, a ∈ S) (hs : l.Pairwise (fun a b => le a b = true)) :
    (insertG le x l).Pairwise (fun a b => le a b = true) := by
  induction l with
  | nil => simp [insertG]
  | cons y ys ih =>
    simp only [insertG]
    have hy := hl y List.mem_cons_self
    rw [List.pairwise_cons] at hs
    split
    · rename_i hyx
      rw [List.pairwise_cons]
      refine ⟨?_, ih (fun a h => hl a (List.mem_cons_of_mem _ h)) hs.2⟩
      intro a ha
      rcases List.mem_cons.mp ((insertG_perm le x ys).mem_iff.mp ha) with rfl | h
      · exact hyx
      · exact hs.1 a h
    · rename_i hyx
      have hxy : le x y = true := by
        rcases ord.total x hx y hy with h | h
        · exact h
        · exact absurd h hyx
      rw [List.pairwise_cons]
      refine ⟨?_, List.pairwise_cons.mpr hs⟩
      intro a ha
      rcases List.mem_cons.mp ha with rfl | h
      · exact hxy
      · exact ord.trans x hx y hy a (hl a (List.mem_cons_of_mem _ h)) hxy (hs.1 a h)

theorem foldl_insertG_sorted {α : Type} (le : α → α → Bool) (S : List α) (ord : OrdOn le S) (l acc : List α)
    (hl : ∀ a ∈ l, a ∈ S) (ha : ∀ a ∈ acc, a ∈ S) (hs : acc.Pairwise (fun a b => le a b = true)) :
    (l.foldl (fun acc x => insertG le x acc) acc).Pairwise (fun a b => le a b = true) := by
  induction l generalizing acc with
  | nil => exact hs
  | cons x xs ih =>
    simp only [List.foldl_cons]
    have hx := hl x List.mem_cons_self
    apply ih _ (fun a h => hl a (List.mem_cons_of_mem _ h))
    · intro a h'
      rcases List.mem_cons.mp ((insertG_perm le x acc).mem_iff.mp h') with rfl | h''
      · exact hx
      · exact ha a h''
    · exact insertG_sorted le S ord x acc hx ha hs

theorem sortG_sorted {α : Type} (le : α → α → Bool) (l : List α) (ord : OrdOn le l) :
    (sortG le l).Pairwise (fun a b => le a b = true) :=
  foldl_insertG_sorted le l ord l [] (fun _ h => h) (fun _ h => by cases h) List.Pairwise.nil

/-- two sorted lists with the same members (counted) are equal if the order is antisymmetric on them -/
theorem sorted_perm_eq {α : Type} (le : α → α → Bool) (l1 l2 : List α) (hp : l1.Perm l2)
    (h1 : l1.Pairwise (fun a b => le a b = true)) (h2 : l2.Pairwise (fun a b => le a b = true))
    (anti : ∀ a ∈ l1, ∀ b ∈ l1, le a b = true → le b a = true → a = b) : l1 = l2 := by
  induction l1 generalizing l2 with
  | nil => exact (List.Perm.nil_eq hp)
  | cons x xs ih =>
    cases l2 with
    | nil => exact absurd hp.symm (by simp)
    | cons y ys =>
      rw [List.pairwise_cons] at h1 h2
      have hxy : x = y := by
        have hx2 : x ∈ y :: ys := hp.mem_iff.mp List.mem_cons_self
        have hy1 : y ∈ x :: xs := hp.mem_iff.mpr List.mem_cons_self
        rcases List.mem_cons.mp hx2 with h | h
        · exact h
        · rcases List.mem_cons.mp hy1 with h' | h'
          · exact h'.symm
          · exact anti x List.mem_cons_self y hy1 (h1.1 y h') (h2.1 x h)
      subst hxy
      congr 1
      exact ih ys hp.cons_inv h1.2 h2.2
        (fun a ha b hb => anti a (List.mem_cons_of_mem _ ha) b (List.mem_cons_of_mem _ hb))

/-! ### the comparators -/

/-- the engine's key comparison on lexical forms: byte order, nulls last, then the direction -/
def cmpKeyL (env : Env) (desc : Bool) (a b : Option Nat) : Ordering :=
  let o : Ordering :=
    match a, b with
    | none, none => .eq
    | none, _ => .gt
    | _, none => .lt
    | some x, some y => if env.strLt x y then .lt else if env.strLt y x then .gt else .eq
  if desc then o.swap else o

def cmpL (env : Env) (keys : List (Nat × Bool)) (σ τ : Sol) : Ordering :=
  match keys with
  | [] => .eq
  | (v, desc) :: rest =>
    match cmpKeyL env desc (σ.get v) (τ.get v) with
    | .eq => cmpL env rest σ τ
    | o => o

theorem cmpKey_eq (env : Env) (desc : Bool) (a b : Cell) (ha : ∀ k, a ≠ Cell.int k) (hb : ∀ k, b ≠ Cell.int k) :
    cmpKey env desc a b = cmpKeyL env desc (cellVal a) (cellVal b) := by
  cases a with
  | int k => exact absurd rfl (ha k)
  | null =>
    cases b with
    | int k => exact absurd rfl (hb k)
    | null => rfl
    | str y => rfl
  | str x =>
    cases b with
    | int k => exact absurd rfl (hb k)
    | null => rfl
    | str y => rfl

theorem colIdx_some (cols : List Nat) (v i : Nat) (hnd : cols.Nodup) (h : colIdx cols v = some i) :
    cols[i]? = some v := by
  by_cases hv : v ∈ cols
  · obtain ⟨j, hj⟩ := List.getElem?_of_mem hv
    rw [colIdx_of_index cols v j hnd hj] at h
    simp only [Option.some.injEq] at h
    subst h
    exact hj
  · rw [colIdx_none cols v hv] at h
    cases h

theorem cellVal_getD (cols : List Nat) (r : Row) (v i n : Nat) (hnd : cols.Nodup) (hi : cols[i]? = some v)
    (hvn : v < n) : cellVal (r.getD i Cell.null) = (toSol n cols r).get v := by
  rw [toSol_get _ _ _ _ hvn, lookupCol_eq, lookupCell_of_index cols r v i hnd hi, List.getD_eq_getElem?_getD]
  cases r[i]? <;> rfl

theorem noInt_getD (r : Row) (i : Nat) (h : NoInt r) : ∀ k, r.getD i Cell.null ≠ Cell.int k := by
  intro k
  rw [List.getD_eq_getElem?_getD]
  cases hi : r[i]? with
  | none => simp
  | some y => simpa using h y (List.mem_of_getElem? hi) k

theorem cmpRows_eq (env : Env) (n : Nat) (cols : List Nat) (keys ks : List (Nat × Bool)) (r1 r2 : Row)
    (hnd : cols.Nodup) (hlt : ∀ v ∈ cols, v < n) (h1 : NoInt r1) (h2 : NoInt r2)
    (hk : resolveKeys cols keys = some ks) :
    cmpRows env ks r1 r2 = cmpL env keys (toSol n cols r1) (toSol n cols r2) := by
  induction keys generalizing ks with
  | nil =>
    simp only [resolveKeys, Option.some.injEq] at hk
    subst hk
    rfl
  | cons kd rest ih =>
    obtain ⟨v, d⟩ := kd
    simp only [resolveKeys, Option.bind_eq_some_iff, Option.map_eq_some_iff] at hk
    obtain ⟨i, hi, ks', hks', rfl⟩ := hk
    have hci := colIdx_some cols v i hnd hi
    have hvn := hlt v (List.mem_of_getElem? hci)
    simp only [cmpRows, cmpL]
    rw [cmpKey_eq env d _ _ (noInt_getD r1 i h1) (noInt_getD r2 i h2),
      cellVal_getD cols r1 v i n hnd hci hvn, cellVal_getD cols r2 v i n hnd hci hvn, ih ks' hks']
    rfl

/-- §15.1 and the engine order the terms of `U` alike -/
def OrderAgree (env : Env) (U : List Nat) : Prop :=
  ∀ x ∈ U, ∀ y ∈ U, termLt env (some x) (some y) = env.strLt (env.lex x) (env.lex y)

def orderAgreeB (env : Env) (U : List Nat) : Bool :=
  U.all fun x => U.all fun y => termLt env (some x) (some y) == env.strLt (env.lex x) (env.lex y)

theorem orderAgree_of_B (env : Env) (U : List Nat) (h : orderAgreeB env U = true) : OrderAgree env U := by
  intro x hx y hy
  simp only [orderAgreeB, List.all_eq_true, beq_iff_eq] at h
  exact h x hx y hy

theorem cmpSol_eq (env : Env) (U : List Nat) (hO : OrderAgree env U) (keys : List (Nat × Bool)) (μ ν : Sol)
    (hμ : ∀ w y, μ.get w = some y → y ∈ U) (hν : ∀ w y, ν.get w = some y → y ∈ U)
    (hbμ : ∀ kd ∈ keys, (μ.get kd.1).isSome = true) (hbν : ∀ kd ∈ keys, (ν.get kd.1).isSome = true) :
    cmpSol env keys μ ν = cmpL env keys (lexSol env μ) (lexSol env ν) := by
  induction keys with
  | nil => rfl
  | cons kd rest ih =>
    obtain ⟨v, d⟩ := kd
    have h1 := hbμ (v, d) List.mem_cons_self
    have h2 := hbν (v, d) List.mem_cons_self
    simp only [cmpSol, cmpL, lexSol_get]
    cases hx : μ.get v with
    | none => rw [hx] at h1; cases h1
    | some x =>
      cases hy : ν.get v with
      | none => rw [hy] at h2; cases h2
      | some y =>
        simp only [Option.map_some, cmpKeyL]
        rw [hO x (hμ v x hx) y (hν v y hy), hO y (hν v y hy) x (hμ v x hx),
          ih (fun kd h => hbμ kd (List.mem_cons_of_mem _ h)) (fun kd h => hbν kd (List.mem_cons_of_mem _ h))]
        rfl

theorem rows_sortT (env : Env) (keys ks : List (Nat × Bool)) (t : Table)
    (hk : resolveKeys t.cols keys = some ks) :
    ∃ t', sortT env keys t = some t' ∧ t'.cols = t.cols ∧
      t'.rows = sortStable (fun a b => cmpRows env ks a b != .gt) t.rows := by
  let sorted := sortStable (fun a b => cmpRows env ks a b != .gt) t.rows
  refine ⟨{ t with chunks := (chunksOf joinChunk sorted).map rebuild }, by simp [sortT, hk, sorted], rfl, ?_⟩
  show ((chunksOf joinChunk sorted).map rebuild).flatMap selRows = sorted
  exact rows_rebuild_chunks joinChunk (by decide) sorted

theorem resolveKeys_some (cols : List Nat) (keys : List (Nat × Bool)) (h : ∀ kd ∈ keys, kd.1 ∈ cols) (hnd : cols.Nodup) :
    ∃ ks, resolveKeys cols keys = some ks := by
  induction keys with
  | nil => exact ⟨[], rfl⟩
  | cons kd rest ih =>
    obtain ⟨v, d⟩ := kd
    obtain ⟨ks, hks⟩ := ih (fun kd' h' => h kd' (List.mem_cons_of_mem _ h'))
    obtain ⟨i, hi⟩ := List.getElem?_of_mem (h (v, d) List.mem_cons_self)
    exact ⟨(i, d) :: ks, by simp [resolveKeys, colIdx_of_index cols v i hnd hi, hks]⟩

/-- the comparator of ORDER BY as a `≤` on solutions in lexical form -/
def leL (env : Env) (keys : List (Nat × Bool)) (σ τ : Sol) : Bool := cmpL env keys σ τ != .gt

theorem ordOn_perm {α : Type} (le : α → α → Bool) (X Y : List α) (h : X.Perm Y) (o : OrdOn le Y) : OrdOn le X :=
  ⟨fun a ha b hb => o.total a (h.mem_iff.mp ha) b (h.mem_iff.mp hb),
   fun a ha b hb c hc => o.trans a (h.mem_iff.mp ha) b (h.mem_iff.mp hb) c (h.mem_iff.mp hc)⟩

/-- the sorted sequences coincide: the engine's sort of its rows and the specification's sort of its
solutions, both read in lexical form -/
theorem sorted_rows_eq_sorted_sols (env : Env) (n : Nat) (U : List Nat) (hO : OrderAgree env U)
    (keys ks : List (Nat × Bool)) (t : Table) (cert : List Nat) (g : Good n cert t) (sols : List Sol)
    (hk : resolveKeys t.cols keys = some ks)
    (hkc : ∀ kd ∈ keys, kd.1 ∈ cert) (hkcols : ∀ kd ∈ keys, kd.1 ∈ t.cols)
    (hsol : ∀ μ ∈ sols, ∀ w y, μ.get w = some y → y ∈ U)
    (hp : (t.rows.map (toSol n t.cols)).Perm (sols.map (lexSol env)))
    (ord : OrdOn (leL env keys) (sols.map (lexSol env)))
    (anti : ∀ a ∈ sols.map (lexSol env), ∀ b ∈ sols.map (lexSol env),
      leL env keys a b = true → leL env keys b a = true → a = b) :
    (sortStable (fun a b => cmpRows env ks a b != .gt) t.rows).map (toSol n t.cols) =
      (sortSols (fun a b => cmpSol env keys a b != .gt) sols).map (lexSol env) := by
  -- every key is bound in every solution
  have hb : ∀ μ ∈ sols, ∀ kd ∈ keys, (μ.get kd.1).isSome = true := by
    intro μ hμ kd hkd
    have hm : lexSol env μ ∈ t.rows.map (toSol n t.cols) := hp.mem_iff.mpr (List.mem_map_of_mem hμ)
    obtain ⟨r, hr, hrμ⟩ := List.mem_map.mp hm
    have h1 := g.cert r hr kd.1 (hkc kd hkd)
    have h2 : (lexSol env μ).get kd.1 = lookupCol t.cols r kd.1 := by
      rw [← hrμ, toSol_get _ _ _ _ (g.lt _ (hkcols kd hkd))]
    rw [lexSol_get] at h2
    rw [← h2] at h1
    cases hx : μ.get kd.1 with
    | none => rw [hx] at h1; cases h1
    | some x => rfl
  rw [sortStable_eq, sortSols_eq]
  rw [sortG_map (toSol n t.cols) _ (leL env keys) t.rows (fun a ha b hb' => by
      simp only [leL]
      rw [cmpRows_eq env n t.cols keys ks a b g.nodup g.lt (g.noInt a ha) (g.noInt b hb') hk])]
  rw [sortG_map (lexSol env) _ (leL env keys) sols (fun a ha b hb' => by
      simp only [leL]
      rw [cmpSol_eq env U hO keys a b (hsol a ha) (hsol b hb') (hb a ha) (hb b hb')])]
  have ordX := ordOn_perm _ _ _ hp ord
  apply sorted_perm_eq (leL env keys)
  · exact (sortG_perm _ _).trans (hp.trans (sortG_perm _ _).symm)
  · exact sortG_sorted _ _ ordX
  · exact sortG_sorted _ _ ord
  · intro a ha b hb'
    have ha' := hp.mem_iff.mp ((sortG_perm _ _).mem_iff.mp ha)
    have hb'' := hp.mem_iff.mp ((sortG_perm _ _).mem_iff.mp hb')
    exact anti a ha' b hb''

/-- a table with the same columns whose rows are rows of a good table is good -/
theorem good_of_rows (n : Nat) (cert : List Nat) (t t1 : Table) (g : Good n cert t) (hc : t1.cols = t.cols)
    (hr : ∀ r ∈ t1.rows, r ∈ t.rows) : Good n cert t1 :=
  ⟨hc ▸ g.nodup, hc ▸ g.lt, fun r h => hc ▸ g.width r (hr r h), fun r h => g.noInt r (hr r h),
   fun r h v hv => hc ▸ g.cert r (hr r h) v hv⟩

/-- projection, DISTINCT, OFFSET, LIMIT of a good table, read as solutions -/
theorem modifiers_sols (n : Nat) (cert : List Nat) (q : Select) (t1 : Table) (g : Good n cert t1)
    (hproj : projOk n q.proj = true) :
    let T := limitT q.limit (skipT q.offset (distinctT q.distinct (projOpt q.proj t1)))
    T.rows.map (toSol n T.cols) =
      sliceOpt q.offset q.limit
        (if q.distinct then dedupG ((t1.rows.map (toSol n t1.cols)).map (projSol q.proj))
         else (t1.rows.map (toSol n t1.cols)).map (projSol q.proj)) := by
  intro T
  have pf := projOpt_facts n _ q.proj _ g hproj
  obtain ⟨hr, hc⟩ := rows_slice q.offset q.limit (distinctT q.distinct (projOpt q.proj t1))
  show (limitT q.limit (skipT q.offset (distinctT q.distinct (projOpt q.proj t1)))).rows.map
      (toSol n (limitT q.limit (skipT q.offset (distinctT q.distinct (projOpt q.proj t1)))).cols) = _
  rw [hr, hc, cols_distinctT, map_sliceOpt, distinct_sols n q.distinct _ pf.nodup pf.lt pf.width pf.noInt, pf.sols]

/-- the specification's projection, DISTINCT, OFFSET, LIMIT, in lexical forms -/
theorem spec_modifiers_lex (env : Env) (n : Nat) (U : List Nat) (hU : LexInj env U) (q : Select) (sols : List Sol)
    (hs : ∀ μ ∈ sols, μ.length = n ∧ ∀ w y, μ.get w = some y → y ∈ U) :
    (sliceOpt q.offset q.limit
        (if q.distinct then dedupSols (sols.map (projSol q.proj)) else sols.map (projSol q.proj))).map (lexSol env) =
      sliceOpt q.offset q.limit
        (if q.distinct then dedupG ((sols.map (lexSol env)).map (projSol q.proj))
         else (sols.map (lexSol env)).map (projSol q.proj)) := by
  rw [map_sliceOpt, spec_distinct_lex env n U hU q.proj q.distinct sols hs]

/-- **SELECT … ORDER BY … [DISTINCT] [OFFSET] [LIMIT]** with total keys: the sequence returned is the
specification's sequence. Hypotheses beyond those of `c13_sparql_select_partial`: every key is a
column and bound in every solution; §15.1 and byte order agree on the terms involved
(`orderAgreeB`); the comparator is a total preorder on the solutions (`OrdOn`: true when `strLt`
is an order) that separates different solutions (total keys). -/
theorem c13_sparql_order_partial (env : Env) (b : Bool) (ops : List Op)
    (full : List Triple) (n : Nat) (q : Select)
    (hfull : full.Perm (run b ops).triples)
    (hord : q.order.isEmpty = false)
    (hs : scopeOk n (simpUnit (transStd q.where_)) = true)
    (hwf : wfPat env n (transCode q.where_) = true)
    (hproj : projOk n q.proj = true)
    (hkc : ∀ kd ∈ q.order, kd.1 ∈ certain (transCode q.where_))
    (hkcols : ∀ kd ∈ q.order, kd.1 ∈ patCols (transCode q.where_))
    (hlex : lexClash env (termsOf (run b ops).triples (transCode q.where_)) = false)
    (heq : eqExactB env (termsOf (run b ops).triples (transCode q.where_)) = true)
    (hoa : orderAgreeB env (termsOf (run b ops).triples (transCode q.where_)) = true)
    (ordOk : OrdOn (leL env q.order) ((eval env n (run b ops).triples (transStd q.where_)).map (lexSol env)))
    (total : ∀ σ ∈ (eval env n (run b ops).triples (transStd q.where_)).map (lexSol env),
      ∀ τ ∈ (eval env n (run b ops).triples (transStd q.where_)).map (lexSol env),
      leL env q.order σ τ = true → leL env q.order τ σ = true → σ = τ) :
    selAgreesOrdered env (run b ops) full n q := by
  have hU := lexInj_of_noClash env _ hlex
  obtain ⟨hcols, g, hp⟩ := exec_perm_eval env b ops full n _ hfull hU (eqExact_of_B env _ heq)
    (fun x hx => List.mem_append_left _ hx) (transCode q.where_) hwf (fun c h => List.mem_append_right _ h)
  rw [eval_transCode env n _ q.where_ hs] at hp
  have hsol : ∀ μ ∈ eval env n (run b ops).triples (transStd q.where_), μ.length = n ∧ ∀ w y, μ.get w = some y →
      y ∈ termsOf (run b ops).triples (transCode q.where_) := by
    intro μ hμ
    exact ⟨(eval_wf env n _ _ μ hμ).1, fun w y hy => List.mem_append_left _ ((eval_wf env n _ _ μ hμ).2 w y hy)⟩
  obtain ⟨ks, hks⟩ := resolveKeys_some (exec env (run b ops) full (transCode q.where_)).cols q.order
    (fun kd h => hcols ▸ hkcols kd h) g.nodup
  obtain ⟨t1, hs1, hc1, hr1⟩ := rows_sortT env q.order ks _ hks
  have hseq := sorted_rows_eq_sorted_sols env n _ (orderAgree_of_B env _ hoa) q.order ks _ _ g _ hks hkc
    (fun kd h => hcols ▸ hkcols kd h) (fun μ hμ => (hsol μ hμ).2) hp ordOk total
  have g1 : Good n (certain (transCode q.where_)) t1 := by
    apply good_of_rows n _ _ t1 g hc1
    intro r hr
    rw [hr1, sortStable_eq] at hr
    exact (sortG_perm _ _).mem_iff.mp hr
  have hmod := modifiers_sols n _ q t1 g1 hproj
  have hsorted : ∀ μ ∈ sortSols (fun a b => cmpSol env q.order a b != .gt)
      (eval env n (run b ops).triples (transStd q.where_)), μ.length = n ∧ ∀ w y, μ.get w = some y →
      y ∈ termsOf (run b ops).triples (transCode q.where_) := by
    intro μ hμ
    rw [sortSols_eq] at hμ
    exact hsol μ ((sortG_perm _ _).mem_iff.mp hμ)
  have hspec := spec_modifiers_lex env n _ hU q _ hsorted
  unfold selAgreesOrdered
  simp only [execSelect, orderT, hord, Bool.false_eq_true, if_false, hs1, Option.map_some, specSelect]
  rw [hmod, hspec, hc1, hr1, hseq]

/-- **SELECT [DISTINCT] … [OFFSET] [LIMIT] without ORDER BY**: the engine returns as many rows as the
specification, and they are a sub-multiset of the unsliced answer. -/
theorem c13_sparql_slice_partial (env : Env) (b : Bool) (ops : List Op)
    (full : List Triple) (n : Nat) (q : Select)
    (hfull : full.Perm (run b ops).triples)
    (ho : q.order = [])
    (hs : scopeOk n (simpUnit (transStd q.where_)) = true)
    (hwf : wfPat env n (transCode q.where_) = true)
    (hproj : projOk n q.proj = true)
    (hlex : lexClash env (termsOf (run b ops).triples (transCode q.where_)) = false)
    (heq : eqExactB env (termsOf (run b ops).triples (transCode q.where_)) = true) :
    ∃ t, execSelect env (run b ops) full q = some t ∧
      t.rows.length = (specSelect env n (run b ops).triples q).length ∧
      ∃ rest, (t.rows.map (toSol n t.cols) ++ rest).Perm
        ((specSelect env n (run b ops).triples { q with offset := none, limit := none }).map (lexSol env)) := by
  have hU := lexInj_of_noClash env _ hlex
  obtain ⟨_, g, hp⟩ := exec_perm_eval env b ops full n _ hfull hU (eqExact_of_B env _ heq)
    (fun x hx => List.mem_append_left _ hx) (transCode q.where_) hwf (fun c h => List.mem_append_right _ h)
  rw [eval_transCode env n _ q.where_ hs] at hp
  have hsol : ∀ μ ∈ eval env n (run b ops).triples (transStd q.where_), μ.length = n ∧ ∀ w y, μ.get w = some y →
      y ∈ termsOf (run b ops).triples (transCode q.where_) := by
    intro μ hμ
    exact ⟨(eval_wf env n _ _ μ hμ).1, fun w y hy => List.mem_append_left _ ((eval_wf env n _ _ μ hμ).2 w y hy)⟩
  have hmod := modifiers_sols n _ q _ g hproj
  have hspec := spec_modifiers_lex env n _ hU q _ hsol
  have hspec0 := spec_modifiers_lex env n _ hU { q with offset := none, limit := none } _ hsol
  -- the two unsliced answers are permutations of one another
  have hperm : (if q.distinct then dedupG (((exec env (run b ops) full (transCode q.where_)).rows.map
        (toSol n (exec env (run b ops) full (transCode q.where_)).cols)).map (projSol q.proj))
      else ((exec env (run b ops) full (transCode q.where_)).rows.map
        (toSol n (exec env (run b ops) full (transCode q.where_)).cols)).map (projSol q.proj)).Perm
      (if q.distinct then dedupG (((eval env n (run b ops).triples (transStd q.where_)).map (lexSol env)).map (projSol q.proj))
      else ((eval env n (run b ops).triples (transStd q.where_)).map (lexSol env)).map (projSol q.proj)) := by
    cases q.distinct
    · exact hp.map _
    · simp only [if_true]
      exact dedupG_perm _ _ (hp.map _)
  refine ⟨_, by simp only [execSelect, ho, orderT, List.isEmpty_nil, if_true, Option.map_some]; rfl, ?_, ?_⟩
  · have h1 := congrArg List.length hmod
    have h2 := congrArg List.length hspec
    simp only [List.length_map] at h1 h2
    simp only [specSelect, ho, List.isEmpty_nil, if_true] at h2 ⊢
    rw [h1, h2]
    exact sliceOpt_length _ _ _ _ hperm.length_eq
  · obtain ⟨rest, hrest⟩ := sliceOpt_rest q.offset q.limit (if q.distinct then dedupG
        (((exec env (run b ops) full (transCode q.where_)).rows.map
          (toSol n (exec env (run b ops) full (transCode q.where_)).cols)).map (projSol q.proj))
      else ((exec env (run b ops) full (transCode q.where_)).rows.map
        (toSol n (exec env (run b ops) full (transCode q.where_)).cols)).map (projSol q.proj))
    refine ⟨rest, ?_⟩
    rw [hmod]
    simp only [specSelect, ho, List.isEmpty_nil, if_true, sliceOpt] at hspec0 ⊢
    rw [hspec0]
    exact hrest.trans hperm

/-! ## COUNT without GROUP BY -/

theorem certain_subset_cols (p : Pat) : ∀ v ∈ certain p, v ∈ patCols p := by
  induction p with
  | unit => intro v h; cases h
  | scan tp => intro v h; exact h
  | join a b iha ihb =>
    intro v h
    simp only [certain, List.mem_append] at h
    simp only [patCols, List.mem_append, List.mem_filter, Bool.not_eq_true']
    rcases h with h | h
    · exact Or.inl (iha v h)
    · by_cases hva : v ∈ patCols a
      · exact Or.inl hva
      · refine Or.inr ⟨ihb v h, ?_⟩
        cases hc : (patCols a).contains v
        · rfl
        · exact absurd (List.contains_iff_mem.mp hc) hva
  | leftJoin a b c iha _ =>
    intro v h
    simp only [patCols, List.mem_append]
    exact Or.inl (iha v h)
  | union a b iha _ =>
    intro v h
    simp only [certain, List.mem_filter] at h
    simp only [patCols, unionCols, List.mem_append]
    exact Or.inl (iha v h.1)
  | filter e a iha => exact iha

theorem count_nonnull_eq (n : Nat) (cols : List Nat) (rows : List Row) (v i : Nat) (hnd : cols.Nodup)
    (hi : cols[i]? = some v) (hvn : v < n) (hni : ∀ r ∈ rows, NoInt r) :
    ((rows.map fun r => r.getD i Cell.null).filter (· != Cell.null)).length =
      ((rows.map (toSol n cols)).filterMap fun σ => σ.get v).length := by
  induction rows with
  | nil => rfl
  | cons r rest ih =>
    have ih' := ih (fun r' h => hni r' (List.mem_cons_of_mem _ h))
    have hc := cellVal_getD cols r v i n hnd hi hvn
    have hn := noInt_getD r i (hni r List.mem_cons_self)
    rw [List.map_cons, List.map_cons, List.filter_cons, List.filterMap_cons, ← hc]
    cases hx : r.getD i Cell.null with
    | null =>
      simp only [cellVal, bne_self_eq_false, Bool.false_eq_true, if_false]
      exact ih'
    | str l =>
      have : (Cell.str l != Cell.null) = true := bne_iff_ne.mpr (by intro h; cases h)
      simp only [cellVal, this, if_true, List.length_cons]
      rw [ih']
    | int k => exact absurd hx (hn k)

theorem filterMap_get_lex (env : Env) (sols : List Sol) (v : Nat) :
    ((sols.map (lexSol env)).filterMap fun σ => σ.get v).length = (sols.filterMap fun μ => μ.get v).length := by
  induction sols with
  | nil => rfl
  | cons μ rest ih =>
    rw [List.map_cons, List.filterMap_cons, List.filterMap_cons, lexSol_get]
    cases μ.get v with
    | none => exact ih
    | some x =>
      simp only [Option.map_some, List.length_cons]
      rw [ih]

/-- **SELECT (COUNT(\*) AS ?c)** and **SELECT (COUNT(?x) AS ?c)** without GROUP BY / ORDER BY / slicing:
the number is the specification's. -/
theorem c13_sparql_count_partial (env : Env) (b : Bool) (ops : List Op)
    (full : List Triple) (n : Nat) (q : Count)
    (hfull : full.Perm (run b ops).triples)
    (hd : q.distinct = false) (hg : q.groupBy = []) (ho : q.order = []) (hoff : q.offset = none) (hlim : q.limit = none)
    (harg : ∀ x, q.arg = some x → x ∈ patCols (transCode q.where_))
    (hs : scopeOk n (simpUnit (transStd q.where_)) = true)
    (hwf : wfPat env n (transCode q.where_) = true)
    (hlex : lexClash env (termsOf (run b ops).triples (transCode q.where_)) = false)
    (heq : eqExactB env (termsOf (run b ops).triples (transCode q.where_)) = true) :
    cntAgrees env (run b ops) full n q := by
  obtain ⟨hcols, g, hp⟩ := exec_perm_eval env b ops full n _ hfull
    (lexInj_of_noClash env _ hlex) (eqExact_of_B env _ heq) (fun x hx => List.mem_append_left _ hx)
    (transCode q.where_) hwf (fun c h => List.mem_append_right _ h)
  rw [eval_transCode env n _ q.where_ hs] at hp
  unfold cntAgrees
  cases ha : q.arg with
  | none =>
    have hlen : (exec env (run b ops) full (transCode q.where_)).rows.length =
        (eval env n (run b ops).triples (transStd q.where_)).length := by
      simpa using hp.length_eq
    simp only [execCount, aggregateT, hg, resolveCols, ha, argIndex, Option.bind_some, Option.map_some,
      List.isEmpty_nil, if_true, ho, orderT, hoff, hlim, skipT, limitT, specCount, specCountRows, sliceOpt,
      List.nil_append, true_and, specCountOf, countOf, hd, Bool.false_eq_true, if_false]
    simp only [Table.rows, List.flatMap_cons, List.flatMap_nil, List.append_nil, selRows_allSel, List.map_cons,
      List.map_nil, countRowCells, List.nil_append]
    rw [show (List.flatMap selRows (exec env (run b ops) full (transCode q.where_)).chunks) =
      (exec env (run b ops) full (transCode q.where_)).rows from rfl, hlen]
  | some x =>
    have hxcol : x ∈ (exec env (run b ops) full (transCode q.where_)).cols := hcols ▸ harg x ha
    obtain ⟨i, hi⟩ := List.getElem?_of_mem hxcol
    have hcount := count_nonnull_eq n _ (exec env (run b ops) full (transCode q.where_)).rows x i g.nodup hi
      (g.lt x hxcol) g.noInt
    have hperm := (hp.filterMap fun σ => σ.get x).length_eq
    rw [filterMap_get_lex] at hperm
    simp only [execCount, aggregateT, hg, resolveCols, ha, argIndex, colIdx_of_index _ x i g.nodup hi,
      Option.bind_some, Option.map_some, List.isEmpty_nil, if_true, ho, orderT, hoff, hlim, skipT, limitT,
      specCount, specCountRows, sliceOpt, List.nil_append, true_and, specCountOf, countOf, hd, Bool.false_eq_true,
      if_false]
    simp only [Table.rows, List.flatMap_cons, List.flatMap_nil, List.append_nil, selRows_allSel, List.map_cons,
      List.map_nil, countRowCells, List.nil_append]
    rw [show (List.flatMap selRows (exec env (run b ops) full (transCode q.where_)).chunks) =
      (exec env (run b ops) full (transCode q.where_)).rows from rfl, hcount, hperm]

/-! ## updates -/

theorem filter_ne_of_not_mem (l : List Triple) (t : Triple) (h : t ∉ l) : l.filter (· != t) = l := by
  rw [List.filter_eq_self]
  intro a ha
  simp only [bne_iff_ne, ne_eq]
  exact fun hat => h (hat ▸ ha)

theorem ustate_insert_triples (u : UState) (t : Triple) :
    (u.insert t).st.triples = specInsert u.st.triples t := by
  unfold UState.insert specInsert
  split
  · rfl
  · rename_i h
    simp [Store.insert, h]

theorem ustate_remove_triples (u : UState) (t : Triple) :
    (u.remove t).st.triples = specRemove u.st.triples t := by
  unfold UState.remove specRemove Store.remove
  simp only
  split
  · rename_i h
    exact (filter_ne_of_not_mem _ t h).symm
  · rfl

theorem foldl_insert_triples (u : UState) (ts : List Triple) :
    (ts.foldl UState.insert u).st.triples = ts.foldl specInsert u.st.triples := by
  induction ts generalizing u with
  | nil => rfl
  | cons t rest ih => simp only [List.foldl_cons, ih, ustate_insert_triples]

theorem foldl_remove_triples (u : UState) (ts : List Triple) :
    (ts.foldl UState.remove u).st.triples = ts.foldl specRemove u.st.triples := by
  induction ts generalizing u with
  | nil => rfl
  | cons t rest ih => simp only [List.foldl_cons, ih, ustate_remove_triples]

/-- the constants of ground data survive `literal_to_value` -/
def dataStable (env : Env) (ts : List Triple) : Bool :=
  ts.all fun t => env.litNorm t.s == t.s && env.litNorm t.p == t.p && env.litNorm t.o == t.o

theorem norm_id (env : Env) (ts : List Triple) (h : dataStable env ts = true) :
    ∀ t ∈ ts, (⟨env.litNorm t.s, env.litNorm t.p, env.litNorm t.o⟩ : Triple) = t := by
  intro t ht
  simp only [dataStable, List.all_eq_true, Bool.and_eq_true, beq_iff_eq] at h
  obtain ⟨⟨h1, h2⟩, h3⟩ := h t ht
  rw [h1, h2, h3]

theorem foldl_congr_mem {α β : Type} (l : List α) (f g : β → α → β) (b : β)
    (h : ∀ a ∈ l, ∀ x, f x a = g x a) : l.foldl f b = l.foldl g b := by
  induction l generalizing b with
  | nil => rfl
  | cons a rest ih =>
    simp only [List.foldl_cons]
    rw [h a List.mem_cons_self b]
    exact ih _ (fun a' ha' => h a' (List.mem_cons_of_mem _ ha'))

theorem all_congr_mem {α : Type} (l : List α) (f g : α → Bool) (h : ∀ a ∈ l, f a = g a) : l.all f = l.all g := by
  induction l with
  | nil => rfl
  | cons a rest ih =>
    simp only [List.all_cons]
    rw [h a List.mem_cons_self, ih (fun a' ha' => h a' (List.mem_cons_of_mem _ ha'))]

/-- **INSERT DATA** changes the set exactly as the specification says (constants that survive
`literal_to_value`). -/
theorem c13_sparql_insert_data_partial (env : Env) (st : Store) (full : List Triple) (n : Nat) (ts : List Triple)
    (hst : dataStable env ts = true) : updAgrees env st full n (.insertData ts) := by
  have hn := norm_id env ts hst
  have hw : (ts.all fun t => wellFormed env (env.litNorm t.s) (env.litNorm t.p)) = ts.all fun t => wellFormed env t.s t.p := by
    apply all_congr_mem
    intro t ht
    have h1 := congrArg Triple.s (hn t ht)
    have h2 := congrArg Triple.p (hn t ht)
    simp only at h1 h2
    rw [h1, h2]
  unfold updAgrees
  simp only [execUpdate, specUpdate, hw]
  by_cases hwf : (ts.all fun t => wellFormed env t.s t.p) = true
  · simp only [hwf, if_true]
    rw [foldl_congr_mem ts _ UState.insert _ (fun t ht x => by rw [hn t ht]), foldl_insert_triples]
  · rw [if_neg hwf, if_neg hwf]
    trivial

/-- **DELETE DATA** likewise. -/
theorem c13_sparql_delete_data_partial (env : Env) (st : Store) (full : List Triple) (n : Nat) (ts : List Triple)
    (hst : dataStable env ts = true) : updAgrees env st full n (.deleteData ts) := by
  have hn := norm_id env ts hst
  have hw : (ts.all fun t => wellFormed env (env.litNorm t.s) (env.litNorm t.p)) = ts.all fun t => wellFormed env t.s t.p := by
    apply all_congr_mem
    intro t ht
    have h1 := congrArg Triple.s (hn t ht)
    have h2 := congrArg Triple.p (hn t ht)
    simp only at h1 h2
    rw [h1, h2]
  unfold updAgrees
  simp only [execUpdate, specUpdate, hw]
  by_cases hwf : (ts.all fun t => wellFormed env t.s t.p) = true
  · simp only [hwf, if_true]
    rw [foldl_congr_mem ts _ UState.remove _ (fun t ht x => by rw [hn t ht]), foldl_remove_triples]
  · rw [if_neg hwf, if_neg hwf]
    trivial

/-! ### DELETE / INSERT … WHERE -/

def resL (env : Env) (σ : Sol) : PT → Option Nat
  | .const c => some (env.litNorm c)
  | .var v => (σ.get v).map env.back

/-- instantiation of a template from a solution given in lexical forms (what the update operators do) -/
def instL (env : Env) (σ : Sol) (tp : TP) : Option Triple :=
  (resL env σ tp.s).bind fun s => (resL env σ tp.p).bind fun p => (resL env σ tp.o).bind fun o =>
    if wellFormed env s p then some ⟨s, p, o⟩ else none

theorem resolvePT_eq (env : Env) (n : Nat) (cols : List Nat) (row : Row) (hnd : cols.Nodup)
    (hlt : ∀ v ∈ cols, v < n) (hni : NoInt row) (a : PT) :
    resolvePT env cols row a = resL env (toSol n cols row) a := by
  cases a with
  | const c => rfl
  | var v =>
    simp only [resolvePT, resL]
    by_cases hv : v ∈ cols
    · obtain ⟨i, hi⟩ := List.getElem?_of_mem hv
      rw [colIdx_of_index cols v i hnd hi, toSol_get _ _ _ _ (hlt v hv), lookupCol_eq,
        lookupCell_of_index cols row v i hnd hi]
      simp only [Option.bind_some]
      cases hc : row[i]? with
      | none => rfl
      | some x =>
        cases x with
        | null => rfl
        | str l => rfl
        | int k => exact absurd rfl (hni (Cell.int k) (List.mem_of_getElem? hc) k)
    · rw [colIdx_none cols v hv]
      by_cases hvn : v < n
      · rw [toSol_get _ _ _ _ hvn, lookupCol_none_of_not_mem cols row v hv]; rfl
      · have : (toSol n cols row).get v = none := by simp [Sol.get, toSol, hvn]
        rw [this]; rfl

theorem instantiate_eq (env : Env) (n : Nat) (cols : List Nat) (row : Row) (hnd : cols.Nodup)
    (hlt : ∀ v ∈ cols, v < n) (hni : NoInt row) (tp : TP) :
    instantiate env cols row tp = instL env (toSol n cols row) tp := by
  simp only [instantiate, instL, resolvePT_eq env n cols row hnd hlt hni]

/-- `value_to_term` gives back the term a lexical form came from -/
def BackStable (env : Env) (U : List Nat) : Prop := ∀ x ∈ U, env.back (env.lex x) = x

def backStableB (env : Env) (U : List Nat) : Bool := U.all fun x => env.back (env.lex x) == x

theorem backStable_of_B (env : Env) (U : List Nat) (h : backStableB env U = true) : BackStable env U := by
  intro x hx
  simp only [backStableB, List.all_eq_true, beq_iff_eq] at h
  exact h x hx

theorem specInst_eq (env : Env) (U : List Nat) (hB : BackStable env U) (μ : Sol)
    (hμ : ∀ w y, μ.get w = some y → y ∈ U) (tp : TP) (hc : ∀ c ∈ tpConsts tp, env.litNorm c = c) :
    specInst env μ tp = instL env (lexSol env μ) tp := by
  have key : ∀ a : PT, (∀ c ∈ ptConsts a, env.litNorm c = c) → valOf μ a = resL env (lexSol env μ) a := by
    intro a ha
    cases a with
    | const c => simp [valOf, resL, ha c (by simp [ptConsts])]
    | var v =>
      simp only [valOf, resL, lexSol_get]
      cases hx : μ.get v with
      | none => rfl
      | some x => simp [hB x (hμ v x hx)]
  simp only [specInst, instL]
  rw [key tp.s (fun c h => hc c (by simp [tpConsts, h])), key tp.p (fun c h => hc c (by simp [tpConsts, h])),
    key tp.o (fun c h => hc c (by simp [tpConsts, h]))]

theorem foldl_specRemove_eq (G L : List Triple) :
    L.foldl specRemove G = G.filter (fun t => !L.contains t) := by
  induction L generalizing G with
  | nil =>
    simp only [List.foldl_nil, List.contains_nil, Bool.not_false]
    exact (List.filter_eq_self.mpr (fun _ _ => rfl)).symm
  | cons x rest ih =>
    simp only [List.foldl_cons, ih, specRemove, List.filter_filter]
    apply List.filter_congr
    intro t _
    simp only [List.contains_cons, Bool.not_or, bne, Bool.and_comm]

theorem foldl_specRemove_perm (G L L' : List Triple) (h : L.Perm L') :
    L.foldl specRemove G = L'.foldl specRemove G := by
  rw [foldl_specRemove_eq, foldl_specRemove_eq]
  apply List.filter_congr
  intro t _
  have : L.contains t = L'.contains t := by
    cases hc : L'.contains t
    · cases hc' : L.contains t
      · rfl
      · rw [List.contains_iff_mem] at hc'
        have := List.contains_iff_mem.mpr (h.mem_iff.mp hc')
        rw [hc] at this; cases this
    · rw [List.contains_iff_mem] at hc ⊢
      exact h.mem_iff.mpr hc
  rw [this]

theorem mem_foldl_specInsert (G L : List Triple) (x : Triple) :
    x ∈ L.foldl specInsert G ↔ x ∈ G ∨ x ∈ L := by
  induction L generalizing G with
  | nil => simp
  | cons t rest ih =>
    simp only [List.foldl_cons, ih, List.mem_cons]
    have : x ∈ specInsert G t ↔ x ∈ G ∨ x = t := by
      unfold specInsert
      split
      · rename_i h
        constructor
        · exact Or.inl
        · rintro (h' | rfl) <;> assumption
      · simp
    rw [this]
    constructor
    · rintro ((h | h) | h)
      · exact Or.inl h
      · exact Or.inr (Or.inl h)
      · exact Or.inr (Or.inr h)
    · rintro (h | h | h)
      · exact Or.inl (Or.inl h)
      · exact Or.inl (Or.inr h)
      · exact Or.inr h

theorem nodup_foldl_specInsert (G L : List Triple) (h : G.Nodup) : (L.foldl specInsert G).Nodup := by
  induction L generalizing G with
  | nil => exact h
  | cons t rest ih =>
    simp only [List.foldl_cons]
    apply ih
    unfold specInsert
    split
    · exact h
    · rename_i hn
      rw [List.nodup_append]
      refine ⟨h, by simp, ?_⟩
      intro a ha b hb hab
      simp only [List.mem_singleton] at hb
      subst hb
      subst hab
      exact hn ha

theorem foldl_specInsert_perm (G L L' : List Triple) (hG : G.Nodup) (h : L.Perm L') :
    (L.foldl specInsert G).Perm (L'.foldl specInsert G) := by
  rw [List.perm_ext_iff_of_nodup (nodup_foldl_specInsert G L hG) (nodup_foldl_specInsert G L' hG)]
  intro x
  rw [mem_foldl_specInsert, mem_foldl_specInsert, h.mem_iff]

theorem nodup_foldl_specRemove (G L : List Triple) (h : G.Nodup) : (L.foldl specRemove G).Nodup := by
  rw [foldl_specRemove_eq]
  exact h.filter _

/-- the triples a template produces from the rows of a good table and from the algebra's solutions -/
theorem inst_perm (env : Env) (n : Nat) (U : List Nat) (hB : BackStable env U) (t : Table) (cert : List Nat)
    (g : Good n cert t) (sols : List Sol)
    (hsol : ∀ μ ∈ sols, ∀ w y, μ.get w = some y → y ∈ U)
    (hp : (t.rows.map (toSol n t.cols)).Perm (sols.map (lexSol env)))
    (tp : TP) (hc : ∀ c ∈ tpConsts tp, env.litNorm c = c) :
    (t.rows.filterMap fun r => instantiate env t.cols r tp).Perm (sols.filterMap fun μ => specInst env μ tp) := by
  have h1 : (t.rows.filterMap fun r => instantiate env t.cols r tp) =
      (t.rows.map (toSol n t.cols)).filterMap (fun σ => instL env σ tp) := by
    rw [List.filterMap_map]
    apply filterMap_congr'
    intro r hr
    exact instantiate_eq env n t.cols r g.nodup g.lt (g.noInt r hr) tp
  have h2 : (sols.filterMap fun μ => specInst env μ tp) = (sols.map (lexSol env)).filterMap (fun σ => instL env σ tp) := by
    rw [List.filterMap_map]
    apply filterMap_congr'
    intro μ hμ
    exact specInst_eq env U hB μ (hsol μ hμ) tp hc
  rw [h1, h2]
  exact hp.filterMap _

/-- the constants of the templates survive `literal_to_value` -/
def tplStable (env : Env) (tps : List TP) : Bool :=
  tps.all fun tp => (tpConsts tp).all fun c => env.litNorm c == c

theorem tplStable_spec (env : Env) (tps : List TP) (h : tplStable env tps = true) :
    ∀ tp ∈ tps, ∀ c ∈ tpConsts tp, env.litNorm c = c := by
  intro tp htp c hc
  simp only [tplStable, List.all_eq_true, beq_iff_eq] at h
  exact h tp htp c hc

theorem flatMap_inst_perm (env : Env) (n : Nat) (U : List Nat) (hB : BackStable env U) (t : Table) (cert : List Nat)
    (g : Good n cert t) (sols : List Sol)
    (hsol : ∀ μ ∈ sols, ∀ w y, μ.get w = some y → y ∈ U)
    (hp : (t.rows.map (toSol n t.cols)).Perm (sols.map (lexSol env)))
    (tps : List TP) (hc : ∀ tp ∈ tps, ∀ c ∈ tpConsts tp, env.litNorm c = c) :
    (tps.flatMap fun tp => t.rows.filterMap fun r => instantiate env t.cols r tp).Perm
      (tps.flatMap fun tp => sols.filterMap fun μ => specInst env μ tp) := by
  apply flatMap_perm_pointwise
  intro tp htp
  exact inst_perm env n U hB t cert g sols hsol hp tp (hc tp htp)

/-- what `RdfModifyOperator` leaves in the store is what the specification says, given that the
WHERE table stands for the specification's solutions -/
theorem applyModify_perm (env : Env) (n : Nat) (U : List Nat) (hB : BackStable env U) (b : Bool) (ops : List Op)
    (full : List Triple) (del ins : List TP) (t : Table) (cert : List Nat) (g : Good n cert t) (sols : List Sol)
    (hsol : ∀ μ ∈ sols, ∀ w y, μ.get w = some y → y ∈ U)
    (hp : (t.rows.map (toSol n t.cols)).Perm (sols.map (lexSol env)))
    (htpl : ∀ tp ∈ del ++ ins, ∀ c ∈ tpConsts tp, env.litNorm c = c) :
    (applyModify env ⟨run b ops, full⟩ del ins t).st.triples.Perm
      ((ins.flatMap fun tp => sols.filterMap fun μ => specInst env μ tp).foldl specInsert
        ((del.flatMap fun tp => sols.filterMap fun μ => specInst env μ tp).foldl specRemove (run b ops).triples)) := by
  have pd := flatMap_inst_perm env n U hB t cert g sols hsol hp del (fun tp h => htpl tp (List.mem_append_left _ h))
  have pi := flatMap_inst_perm env n U hB t cert g sols hsol hp ins (fun tp h => htpl tp (List.mem_append_right _ h))
  simp only [applyModify]
  rw [foldl_insert_triples, foldl_remove_triples]
  show (List.foldl specInsert (List.foldl specRemove (run b ops).triples _) _).Perm _
  rw [foldl_specRemove_perm _ _ _ pd]
  exact foldl_specInsert_perm _ _ _ (nodup_foldl_specRemove _ _ (inv_run b ops).nodup) pi

/-- **DELETE { … } INSERT { … } WHERE { … }** changes the set exactly as the specification says, for
WHERE clauses in the fragment of `c13_sparql_select_partial`, data whose terms `value_to_term`
recovers from their lexical forms, and templates whose constants survive `literal_to_value`. -/
theorem c13_sparql_modify_partial (env : Env) (b : Bool) (ops : List Op)
    (full : List Triple) (n : Nat) (del ins : List TP) (w : Grp)
    (hfull : full.Perm (run b ops).triples)
    (hs : scopeOk n (simpUnit (transStd w)) = true)
    (hwf : wfPat env n (transCode w) = true)
    (htpl : tplStable env (del ++ ins) = true)
    (hlex : lexClash env (termsOf (run b ops).triples (transCode w)) = false)
    (heq : eqExactB env (termsOf (run b ops).triples (transCode w)) = true)
    (hback : backStableB env (termsOf (run b ops).triples (transCode w)) = true) :
    updAgrees env (run b ops) full n (.modify del ins w) := by
  obtain ⟨_, g, hp⟩ := exec_perm_eval env b ops full n _ hfull
    (lexInj_of_noClash env _ hlex) (eqExact_of_B env _ heq) (fun x hx => List.mem_append_left _ hx)
    (transCode w) hwf (fun c h => List.mem_append_right _ h)
  rw [eval_transCode env n _ w hs] at hp
  have hsol : ∀ μ ∈ eval env n (run b ops).triples (transStd w), ∀ w' y, μ.get w' = some y →
      y ∈ termsOf (run b ops).triples (transCode w) := by
    intro μ hμ w' y hy
    exact List.mem_append_left _ ((eval_wf env n _ _ μ hμ).2 w' y hy)
  have hres := applyModify_perm env n _ (backStable_of_B env _ hback) b ops full del ins _ _ g _ hsol hp
    (tplStable_spec env _ htpl)
  unfold updAgrees
  simp only [execUpdate, specUpdate]
  by_cases hpr : ((del ++ ins).all (predOk env)) = true
  · rw [if_pos hpr, if_pos hpr]
    exact hres
  · rw [if_neg hpr, if_neg hpr]
    trivial

/-- **DELETE WHERE { … }** with any number of triple patterns likewise. -/
theorem c13_sparql_delete_where_partial (env : Env) (b : Bool) (ops : List Op)
    (full : List Triple) (n : Nat) (tps : List TP)
    (hfull : full.Perm (run b ops).triples)
    (hwf : wfPat env n (bgp tps) = true)
    (htpl : tplStable env tps = true)
    (hlex : lexClash env (termsOf (run b ops).triples (bgp tps)) = false)
    (heq : eqExactB env (termsOf (run b ops).triples (bgp tps)) = true)
    (hback : backStableB env (termsOf (run b ops).triples (bgp tps)) = true) :
    updAgrees env (run b ops) full n (.deleteWhere tps) := by
  obtain ⟨_, g, hp⟩ := exec_perm_eval env b ops full n _ hfull
    (lexInj_of_noClash env _ hlex) (eqExact_of_B env _ heq) (fun x hx => List.mem_append_left _ hx)
    (bgp tps) hwf (fun c h => List.mem_append_right _ h)
  have hsol : ∀ μ ∈ eval env n (run b ops).triples (bgp tps), ∀ w' y, μ.get w' = some y →
      y ∈ termsOf (run b ops).triples (bgp tps) := by
    intro μ hμ w' y hy
    exact List.mem_append_left _ ((eval_wf env n _ _ μ hμ).2 w' y hy)
  have hres := applyModify_perm env n _ (backStable_of_B env _ hback) b ops full tps [] _ _ g _ hsol hp
    (by simpa using tplStable_spec env _ htpl)
  unfold updAgrees
  simp only [execUpdate, specUpdate]
  by_cases hpr : (tps.all (predOk env)) = true
  · rw [if_pos hpr, if_pos hpr]
    simpa using hres
  · rw [if_neg hpr, if_neg hpr]
    trivial

/-! ## a concrete environment: the term pool of stream `sparql`

0 `<http://ex.org/a>` 1 `<http://ex.org/b>` 2 `<http://ex.org/p>` 3 `<x>` 4 `_:x` 5 `_:b1` 6 `"x"`
7 `"x"@en` 8 `"x"@de` 9 `"x"^^xsd:token` 10 `"1"^^xsd:integer` 11 `"1"` 12 `""` 13… `<http://ex.org/n13>`…
16 `"_:x"` 17 `"_:b1"` 18 `"http://ex.org/a"` 19 `"10"` 20 `"9"` 21 `"10"^^xsd:integer` 22 `"9"^^xsd:integer` -/

def wLex (c : Nat) : Nat :=
  match c with
  | 6 => 3 | 7 => 3 | 8 => 3 | 9 => 3 | 11 => 10 | 16 => 4 | 17 => 5 | 18 => 0 | 21 => 19 | 22 => 20
  | c => c

/-- position of a lexical form in byte order -/
def wRank (l : Nat) : Nat :=
  match l with
  | 12 => 0 | 10 => 1 | 19 => 2 | 20 => 3 | 5 => 4 | 4 => 5 | 0 => 6 | 1 => 7 | 13 => 8 | 14 => 9 | 15 => 10
  | 2 => 11 | 3 => 12
  | l => 100 + l

def wKind (c : Nat) : Kind :=
  match c with
  | 4 => .blank | 5 => .blank
  | 6 => .plain | 7 => .lang | 8 => .lang | 9 => .other | 10 => .int 1 | 11 => .plain | 12 => .plain
  | 16 => .plain | 17 => .plain | 18 => .plain | 19 => .plain | 20 => .plain | 21 => .int 10 | 22 => .int 9
  | _ => .iri

def wNum (l : Nat) : Option Int :=
  match l with
  | 10 => some 1 | 19 => some 10 | 20 => some 9
  | _ => none

def wLitNorm (c : Nat) : Nat :=
  match c with
  | 7 => 6 | 8 => 6 | 9 => 6
  | c => c

def wConstVal (c : Nat) : FVal :=
  match wKind c with
  | .int n => .int n
  | _ => .str (wLex c)

def wBack (l : Nat) : Nat :=
  match l with
  | 3 => 6 | 4 => 16 | 5 => 17 | 19 => 21 | 20 => 22
  | l => l

/-- the pool, code as it is -/
def wEnv : Env :=
  { lex := wLex, emptyLex := 12, strLt := fun a b => decide (wRank a < wRank b), num := wNum,
    litNorm := wLitNorm, constVal := wConstVal, back := wBack, kind := wKind, vfix := true }

/-- the pool with the `ValueVector` of before /repo commit ea119b4 (read by `Old` only) -/
def wEnvOld : Env := { wEnv with vfix := false }

def mkStore (io : Bool) (ts : List Triple) : Store := run io (ts.map Op.insert)

def tp (s p o : PT) : TP := ⟨s, p, o⟩
def v (n : Nat) : PT := .var n
def c (n : Nat) : PT := .const n

def sel (proj : Option (List Nat)) (g : Grp) : Select :=
  { distinct := false, proj := proj, order := [], offset := none, limit := none, where_ := g }

def cnt (arg : Option Nat) (alias : Nat) (groupBy : List Nat) (g : Grp) : Count :=
  { distinct := false, arg := arg, alias := alias, groupBy := groupBy, order := [], offset := none, limit := none,
    where_ := g }

namespace Old

/-- the agreement predicates for the model of the code before the repairs -/
def selAgrees (env : Env) (st : Store) (full : List Triple) (n : Nat) (q : Select) : Prop :=
  match Old.execSelect env st full q with
  | none => False
  | some t => (t.rows.map (toSol n t.cols)).Perm ((specSelect env n st.triples q).map (lexSol env))

instance (env : Env) (st : Store) (full : List Triple) (n : Nat) (q : Select) : Decidable (Old.selAgrees env st full n q) := by
  unfold Old.selAgrees
  split <;> infer_instance

def cntAgrees (env : Env) (st : Store) (full : List Triple) (n : Nat) (q : Count) : Prop :=
  match Old.execCount env st full q with
  | none => False
  | some t => t.cols = q.groupBy ++ [q.alias] ∧ t.rows.Perm ((specCount env n st.triples q).map (countRowCells env))

instance (env : Env) (st : Store) (full : List Triple) (n : Nat) (q : Count) : Decidable (Old.cntAgrees env st full n q) := by
  unfold Old.cntAgrees
  split <;> infer_instance

def updAgrees (env : Env) (st : Store) (full : List Triple) (n : Nat) (u : Update) : Prop :=
  match Old.execUpdate env ⟨st, full⟩ u, specUpdate env n st.triples u with
  | some u', some G' => u'.st.triples.Perm G'
  | none, none => True
  | _, _ => False

instance (env : Env) (st : Store) (full : List Triple) (n : Nat) (u : Update) : Decidable (Old.updAgrees env st full n u) := by
  unfold Old.updAgrees
  split <;> infer_instance

end Old

/-! ## regression witnesses: defects repaired in /repo in this round

`Old.w_*`: the model of the code before the repair disagrees with the specification on a smallest
instance; `r_*`: the model of the code as it is agrees on the same instance. Each instance is a line
of `corpus/C13/sparql.ops`. -/

/-- `SELECT DISTINCT ?v0 WHERE { ?v0 <p> ?v1 }` over `{a p a, a p b}` returned `a` twice -/
theorem Old.w_distinct_ignored :
    ¬ Old.selAgrees wEnv (mkStore true [⟨0, 2, 0⟩, ⟨0, 2, 1⟩]) [⟨0, 2, 0⟩, ⟨0, 2, 1⟩] 2
      { sel (some [0]) (.triples [tp (v 0) (c 2) (v 1)] .nil) with distinct := true } := by
  decide

theorem r_distinct :
    selAgrees wEnv (mkStore true [⟨0, 2, 0⟩, ⟨0, 2, 1⟩]) [⟨0, 2, 0⟩, ⟨0, 2, 1⟩] 2
      { sel (some [0]) (.triples [tp (v 0) (c 2) (v 1)] .nil) with distinct := true } := by
  decide

/-- `{ ?v0 <p> ?v1 OPTIONAL { ?v0 <x> ?v2 } }` over `{a p a, b p a}`: the second unmatched row got `""`
for `?v2` (`ValueVector::set_null` beyond the bitmap; /repo commit ea119b4) -/
theorem Old.w_null_lost_after_first :
    ¬ Old.selAgrees wEnvOld (mkStore true [⟨0, 2, 0⟩, ⟨1, 2, 0⟩]) [⟨0, 2, 0⟩, ⟨1, 2, 0⟩] 3
      (sel none (.triples [tp (v 0) (c 2) (v 1)] (.optional (.triples [tp (v 0) (c 3) (v 2)] .nil) .nil))) := by
  decide

theorem r_null_kept :
    selAgrees wEnv (mkStore true [⟨0, 2, 0⟩, ⟨1, 2, 0⟩]) [⟨0, 2, 0⟩, ⟨1, 2, 0⟩] 3
      (sel none (.triples [tp (v 0) (c 2) (v 1)] (.optional (.triples [tp (v 0) (c 3) (v 2)] .nil) .nil))) := by
  decide

/-- `{ ?v0 <p> ?v0 }` over `{a p a, a p b}` returned both triples under two columns named `v0` -/
theorem Old.w_repeated_variable :
    ¬ Old.selAgrees wEnv (mkStore true [⟨0, 2, 0⟩, ⟨0, 2, 1⟩]) [⟨0, 2, 0⟩, ⟨0, 2, 1⟩] 1
      (sel none (.triples [tp (v 0) (c 2) (v 0)] .nil)) := by
  decide

theorem r_repeated_variable :
    selAgrees wEnv (mkStore true [⟨0, 2, 0⟩, ⟨0, 2, 1⟩]) [⟨0, 2, 0⟩, ⟨0, 2, 1⟩] 1
      (sel none (.triples [tp (v 0) (c 2) (v 0)] .nil)) := by
  decide

/-- `{ ?v0 <p> ?v1 } UNION { ?v1 <x> ?v0 }` over `{a p b, b x a}`: the second branch's rows came out
under the first branch's column names -/
theorem Old.w_union_columns_of_first_branch :
    ¬ Old.selAgrees wEnv (mkStore true [⟨0, 2, 1⟩, ⟨1, 3, 0⟩]) [⟨0, 2, 1⟩, ⟨1, 3, 0⟩] 2
      (sel none (.union (.triples [tp (v 0) (c 2) (v 1)] .nil) (.triples [tp (v 1) (c 3) (v 0)] .nil) .nil)) := by
  decide

theorem r_union_columns :
    selAgrees wEnv (mkStore true [⟨0, 2, 1⟩, ⟨1, 3, 0⟩]) [⟨0, 2, 1⟩, ⟨1, 3, 0⟩] 2
      (sel none (.union (.triples [tp (v 0) (c 2) (v 1)] .nil) (.triples [tp (v 1) (c 3) (v 0)] .nil) .nil)) := by
  decide

/-- … and with different variable sets: `{ ?v0 <p> ?v1 } UNION { ?v2 <x> ?v0 }`, projected on `?v2` -/
theorem r_union_other_variables :
    selAgrees wEnv (mkStore true [⟨0, 2, 1⟩, ⟨1, 3, 0⟩]) [⟨0, 2, 1⟩, ⟨1, 3, 0⟩] 3
      (sel (some [2, 0]) (.union (.triples [tp (v 0) (c 2) (v 1)] .nil) (.triples [tp (v 2) (c 3) (v 0)] .nil) .nil)) := by
  decide

/-- `{ OPTIONAL { ?v0 <p> ?v1 } ?v0 <x> ?v2 }` over `{a p b, b x b}` was evaluated as
`{ ?v0 <x> ?v2 OPTIONAL { ?v0 <p> ?v1 } }` -/
theorem Old.w_optional_placement :
    ¬ Old.selAgrees wEnv (mkStore true [⟨0, 2, 1⟩, ⟨1, 3, 1⟩]) [⟨0, 2, 1⟩, ⟨1, 3, 1⟩] 3
      (sel none (.optional (.triples [tp (v 0) (c 2) (v 1)] .nil) (.triples [tp (v 0) (c 3) (v 2)] .nil))) := by
  decide

theorem r_optional_placement :
    selAgrees wEnv (mkStore true [⟨0, 2, 1⟩, ⟨1, 3, 1⟩]) [⟨0, 2, 1⟩, ⟨1, 3, 1⟩] 3
      (sel none (.optional (.triples [tp (v 0) (c 2) (v 1)] .nil) (.triples [tp (v 0) (c 3) (v 2)] .nil))) := by
  decide

/-- `{ ?v0 <p> ?v1 OPTIONAL { ?v0 <x> ?v2 } FILTER(!BOUND(?v2)) }` over `{a p b}` was empty -/
theorem Old.w_bound_of_null :
    ¬ Old.selAgrees wEnv (mkStore true [⟨0, 2, 1⟩]) [⟨0, 2, 1⟩] 3
      (sel none (.triples [tp (v 0) (c 2) (v 1)] (.optional (.triples [tp (v 0) (c 3) (v 2)] .nil)
        (.filter (.not (.bound 2)) .nil)))) := by
  decide

theorem r_bound_of_null :
    selAgrees wEnv (mkStore true [⟨0, 2, 1⟩]) [⟨0, 2, 1⟩] 3
      (sel none (.triples [tp (v 0) (c 2) (v 1)] (.optional (.triples [tp (v 0) (c 3) (v 2)] .nil)
        (.filter (.not (.bound 2)) .nil)))) := by
  decide

/-- `FILTER(?v1 = <b> || ?v2 = <b>)` with `?v2` not in scope, over `{a p b}`, dropped the row -/
theorem Old.w_filter_or_error :
    ¬ Old.selAgrees wEnv (mkStore true [⟨0, 2, 1⟩]) [⟨0, 2, 1⟩] 3
      (sel none (.triples [tp (v 0) (c 2) (v 1)] (.filter (.or (.eq (v 1) (c 1)) (.eq (v 2) (c 1))) .nil))) := by
  decide

theorem r_filter_or_error :
    selAgrees wEnv (mkStore true [⟨0, 2, 1⟩]) [⟨0, 2, 1⟩] 3
      (sel none (.triples [tp (v 0) (c 2) (v 1)] (.filter (.or (.eq (v 1) (c 1)) (.eq (v 2) (c 1))) .nil))) := by
  decide

/-- `SELECT * { }` was an error ("Empty plan") -/
theorem Old.w_empty_group_error :
    ¬ Old.selAgrees wEnv (mkStore true [⟨0, 2, 1⟩]) [⟨0, 2, 1⟩] 1 (sel none .nil) := by
  decide

theorem r_empty_group : selAgrees wEnv (mkStore true [⟨0, 2, 1⟩]) [⟨0, 2, 1⟩] 1 (sel none .nil) := by
  decide

/-- `SELECT ?v2 { ?v0 <p> ?v1 }` was an error -/
theorem Old.w_projection_not_a_column :
    ¬ Old.selAgrees wEnv (mkStore true [⟨0, 2, 1⟩]) [⟨0, 2, 1⟩] 3
      (sel (some [2]) (.triples [tp (v 0) (c 2) (v 1)] .nil)) := by
  decide

theorem r_projection_not_a_column :
    selAgrees wEnv (mkStore true [⟨0, 2, 1⟩]) [⟨0, 2, 1⟩] 3
      (sel (some [2]) (.triples [tp (v 0) (c 2) (v 1)] .nil)) := by
  decide

/-- `SELECT (COUNT(?v2) AS ?v3) { ?v0 <p> ?v1 OPTIONAL { ?v0 <x> ?v2 } }` over `{a p b}` was 1 -/
theorem Old.w_count_counts_unbound :
    ¬ Old.cntAgrees wEnv (mkStore true [⟨0, 2, 1⟩]) [⟨0, 2, 1⟩] 4
      (cnt (some 2) 3 [] (.triples [tp (v 0) (c 2) (v 1)] (.optional (.triples [tp (v 0) (c 3) (v 2)] .nil) .nil))) := by
  decide

theorem r_count_bound_only :
    cntAgrees wEnv (mkStore true [⟨0, 2, 1⟩]) [⟨0, 2, 1⟩] 4
      (cnt (some 2) 3 [] (.triples [tp (v 0) (c 2) (v 1)] (.optional (.triples [tp (v 0) (c 3) (v 2)] .nil) .nil))) := by
  decide

/-- `SELECT (COUNT(*) AS ?v2) { ?v0 <p> ?v1 } ORDER BY ?v2` returned `""` -/
theorem Old.w_count_column_type_lost :
    ¬ Old.cntAgrees wEnv (mkStore true [⟨0, 2, 1⟩]) [⟨0, 2, 1⟩] 3
      { cnt none 2 [] (.triples [tp (v 0) (c 2) (v 1)] .nil) with order := [(2, false)] } := by
  decide

theorem r_count_column_type :
    cntAgrees wEnv (mkStore true [⟨0, 2, 1⟩]) [⟨0, 2, 1⟩] 3
      { cnt none 2 [] (.triples [tp (v 0) (c 2) (v 1)] .nil) with order := [(2, false)] } := by
  decide

/-- `DELETE WHERE { ?v0 <x> ?v1 . ?v0 <p> ?v2 }` over `{a x b, a p b}` left `a p b` -/
theorem Old.w_delete_where_sequential :
    ¬ Old.updAgrees wEnv (mkStore true [⟨0, 3, 1⟩, ⟨0, 2, 1⟩]) [⟨0, 3, 1⟩, ⟨0, 2, 1⟩] 3
      (.deleteWhere [tp (v 0) (c 3) (v 1), tp (v 0) (c 2) (v 2)]) := by
  decide

theorem r_delete_where_once :
    updAgrees wEnv (mkStore true [⟨0, 3, 1⟩, ⟨0, 2, 1⟩]) [⟨0, 3, 1⟩, ⟨0, 2, 1⟩] 3
      (.deleteWhere [tp (v 0) (c 3) (v 1), tp (v 0) (c 2) (v 2)]) := by
  decide

/-- `DELETE { ?v0 <p> ?v1 } WHERE { ?v0 <p> ?v1 FILTER(?v1 = <b>) }` over `{a p a, a p b}` deleted `a p a` -/
theorem Old.w_update_ignores_selection :
    ¬ Old.updAgrees wEnv (mkStore true [⟨0, 2, 0⟩, ⟨0, 2, 1⟩]) [⟨0, 2, 0⟩, ⟨0, 2, 1⟩] 2
      (.modify [tp (v 0) (c 2) (v 1)] [] (.triples [tp (v 0) (c 2) (v 1)] (.filter (.eq (v 1) (c 1)) .nil))) := by
  decide

theorem r_update_selected_rows :
    updAgrees wEnv (mkStore true [⟨0, 2, 0⟩, ⟨0, 2, 1⟩]) [⟨0, 2, 0⟩, ⟨0, 2, 1⟩] 2
      (.modify [tp (v 0) (c 2) (v 1)] [] (.triples [tp (v 0) (c 2) (v 1)] (.filter (.eq (v 1) (c 1)) .nil))) := by
  decide

/-! ## witnesses: where the code's strategy is still not the algebra

The engine's columns hold the lexical forms of terms, not terms; what follows from that is open. -/

/-- `{ ?v0 <p> "x"@en }` over `{a p "x", b p "x"@en}` returns `a`: `literal_to_value` drops the
language tag (and any datatype it does not know) -/
theorem w_literal_constant_loses_tag :
    ¬ selAgrees wEnv (mkStore true [⟨0, 2, 6⟩, ⟨1, 2, 7⟩]) [⟨0, 2, 6⟩, ⟨1, 2, 7⟩] 1
      (sel none (.triples [tp (v 0) (c 2) (c 7)] .nil)) := by
  decide

/-- `{ ?v0 <p> ?v1 . ?v1 <p> ?v2 }` over `{a p "x", <x> p b}`: the literal `"x"` joins with the
IRI `<x>` -/
theorem w_terms_compared_as_strings :
    ¬ selAgrees wEnv (mkStore true [⟨0, 2, 6⟩, ⟨3, 2, 1⟩]) [⟨0, 2, 6⟩, ⟨3, 2, 1⟩] 3
      (sel none (.triples [tp (v 0) (c 2) (v 1), tp (v 1) (c 2) (v 2)] .nil)) := by
  decide

/-- `{ ?v0 <p> ?v1 OPTIONAL { ?v0 <x> ?v2 } OPTIONAL { ?v1 <x> ?v2 } }` over `{a p b, b x a}`: an
unbound `?v2` is a null that is not equal to any value, so the second OPTIONAL cannot bind it -/
theorem w_join_on_unbound :
    ¬ selAgrees wEnv (mkStore true [⟨0, 2, 1⟩, ⟨1, 3, 0⟩]) [⟨0, 2, 1⟩, ⟨1, 3, 0⟩] 3
      (sel none (.triples [tp (v 0) (c 2) (v 1)] (.optional (.triples [tp (v 0) (c 3) (v 2)] .nil)
        (.optional (.triples [tp (v 1) (c 3) (v 2)] .nil) .nil)))) := by
  decide

/-- `{ ?v0 <p> ?v1 OPTIONAL { ?v1 <x> ?v2 FILTER(?v0 = <a>) } }` over `{a p b, b x a}`: the FILTER of
an OPTIONAL is evaluated inside the optional part, where `?v0` is not in scope -/
theorem w_optional_filter_scope :
    ¬ selAgrees wEnv (mkStore true [⟨0, 2, 1⟩, ⟨1, 3, 0⟩]) [⟨0, 2, 1⟩, ⟨1, 3, 0⟩] 3
      (sel none (.triples [tp (v 0) (c 2) (v 1)]
        (.optional (.triples [tp (v 1) (c 3) (v 2)] (.filter (.eq (v 0) (c 0)) .nil)) .nil))) := by
  decide

/-- `FILTER(?v1 < <b>)` over `{a p a}`: `<` between IRIs is a type error in SPARQL, a string
comparison in the engine -/
theorem w_filter_lt_on_iris :
    ¬ selAgrees wEnv (mkStore true [⟨0, 2, 0⟩]) [⟨0, 2, 0⟩] 2
      (sel none (.triples [tp (v 0) (c 2) (v 1)] (.filter (.lt (v 1) (c 1)) .nil))) := by
  decide

/-- `FILTER(?v1 = 1)` over `{a p "1"^^xsd:integer}` is empty: the constant is `Int64(1)`, the
column holds the string `"1"` -/
theorem w_filter_numeric_constant :
    ¬ selAgrees wEnv (mkStore true [⟨0, 2, 10⟩]) [⟨0, 2, 10⟩] 2
      (sel none (.triples [tp (v 0) (c 2) (v 1)] (.filter (.eq (v 1) (c 10)) .nil))) := by
  decide

/-- `SELECT ?v1 { <a> <p> ?v1 } ORDER BY ?v1` over `{a p "1", a p b}`: byte order of the lexical
forms (`"1"` before `http://…`) instead of §15.1 (IRIs before literals) -/
theorem w_order_by_lexical :
    ¬ selAgreesOrdered wEnv (mkStore true [⟨0, 2, 11⟩, ⟨0, 2, 1⟩]) [⟨0, 2, 11⟩, ⟨0, 2, 1⟩] 2
      { sel (some [1]) (.triples [tp (c 0) (c 2) (v 1)] .nil) with order := [(1, false)] } := by
  decide

/-- `SELECT * { ?v0 <p> ?v1 } ORDER BY ?v2` is an error; sorting by a variable that is not in scope
leaves the solutions as they are -/
theorem w_order_by_unknown_variable :
    ¬ selAgrees wEnv (mkStore true [⟨0, 2, 1⟩]) [⟨0, 2, 1⟩] 3
      { sel none (.triples [tp (v 0) (c 2) (v 1)] .nil) with order := [(2, false)] } := by
  decide

/-- `INSERT DATA { <a> <p> "x"@en }` stores `"x"` -/
theorem w_insert_data_loses_tag :
    ¬ updAgrees wEnv (mkStore true []) [] 0 (.insertData [⟨0, 2, 7⟩]) := by
  decide

/-- `DELETE WHERE { ?v0 <p> ?v1 }` over `{<x> p a}` deletes nothing: the binding `"x"` is turned
back into a term by looking at it (`value_to_term`: not `http…`, so a literal — an illegal subject) -/
theorem w_update_term_from_string :
    ¬ updAgrees wEnv (mkStore true [⟨3, 2, 0⟩]) [⟨3, 2, 0⟩] 2 (.deleteWhere [tp (v 0) (c 2) (v 1)]) := by
  decide

/-! ## non-vacuity: every partial theorem, applied -/

def nvOps : List Op :=
  [.insert ⟨0, 2, 1⟩, .insert ⟨1, 2, 13⟩, .insert ⟨3, 2, 0⟩, .insert ⟨0, 2, 13⟩, .remove ⟨3, 2, 0⟩,
   .insert ⟨13, 2, 0⟩, .insert ⟨1, 14, 0⟩, .insert ⟨0, 2, 1⟩]

def nvFull : List Triple := [⟨1, 14, 0⟩, ⟨13, 2, 0⟩, ⟨0, 2, 13⟩, ⟨1, 2, 13⟩, ⟨0, 2, 1⟩]

/-- `{ ?v0 <p> ?v1 . ?v1 <p> ?v2 FILTER(?v0 != <b> && !(?v2 = <b>)) } UNION` the same with `<n14>`,
left-joined with `{ ?v0 <n14> ?v3 }` -/
def nvPat : Pat :=
  .leftJoin
    (.union
      (.filter (.and (.ne (v 0) (c 1)) (.not (.eq (v 2) (c 1)))) (.join (.scan (tp (v 0) (c 2) (v 1))) (.scan (tp (v 1) (c 2) (v 2)))))
      (.join (.scan (tp (v 0) (c 2) (v 1))) (.scan (tp (v 1) (c 14) (v 2)))))
    (.scan (tp (v 0) (c 14) (v 3))) none

theorem nv_pattern :
    (exec wEnv (run false nvOps) nvFull nvPat).cols = patCols nvPat ∧
      ((exec wEnv (run false nvOps) nvFull nvPat).rows.map (toSol 4 (patCols nvPat))).Perm
        ((eval wEnv 4 (run false nvOps).triples nvPat).map (lexSol wEnv)) :=
  c13_sparql_pattern_partial wEnv false nvOps nvFull 4 nvPat (by decide) (by decide) (by decide) (by decide)

/-- … and the answer it speaks about has four solutions, one of them with `?v3` unbound … -/
theorem nv_pattern_answer :
    (eval wEnv 4 (run false nvOps).triples nvPat).length = 4 ∧
      [some 0, some 13, some 0, none] ∈ eval wEnv 4 (run false nvOps).triples nvPat := by
  decide

/-- `{ ?v0 <p> ?v0 } UNION { ?v2 <n14> ?v0 }` under `FILTER(BOUND(?v2) || ?v0 = <a>)`, joined with the
empty group: a repeated variable, branches with different variables, the three-valued `||`, the unit -/
def nvPat2 : Pat :=
  .join .unit
    (.filter (.or (.bound 2) (.eq (v 0) (c 0)))
      (.union (.scan (tp (v 0) (c 2) (v 0))) (.scan (tp (v 2) (c 14) (v 0)))))

theorem nv_pattern_union :
    (exec wEnv (run false (nvOps ++ [.insert ⟨0, 2, 0⟩])) (⟨0, 2, 0⟩ :: nvFull) nvPat2).cols = patCols nvPat2 ∧
      ((exec wEnv (run false (nvOps ++ [.insert ⟨0, 2, 0⟩])) (⟨0, 2, 0⟩ :: nvFull) nvPat2).rows.map
          (toSol 3 (patCols nvPat2))).Perm
        ((eval wEnv 3 (run false (nvOps ++ [.insert ⟨0, 2, 0⟩])).triples nvPat2).map (lexSol wEnv)) :=
  c13_sparql_pattern_partial wEnv false _ _ 3 nvPat2 (by decide) (by decide) (by decide) (by decide)

theorem nv_pattern_union_answer :
    eval wEnv 3 (run false (nvOps ++ [.insert ⟨0, 2, 0⟩])).triples nvPat2 =
      [[some 0, none, none], [some 0, none, some 1]] := by
  decide

def nvSelect : Select :=
  { distinct := false, proj := some [2, 0], order := [(0, true), (2, false)], offset := some 1, limit := some 2,
    where_ := .triples [tp (v 0) (c 2) (v 1), tp (v 1) (c 2) (v 2)] (.filter (.ne (v 0) (c 1)) .nil) }

theorem nv_select : selAgrees wEnv (run true nvOps) nvFull 3 { nvSelect with order := [], offset := none, limit := none } :=
  c13_sparql_select_partial wEnv true nvOps nvFull 3 _ (by decide) rfl rfl rfl (by decide) (by decide) (by decide)
    (by decide) (by decide)

/-- `SELECT DISTINCT ?v0 …`: four solutions of the pattern, two after DISTINCT -/
def nvDistinct : Select :=
  { nvSelect with distinct := true, proj := some [0], order := [], offset := none, limit := none }

theorem nv_distinct : selAgrees wEnv (run true nvOps) nvFull 3 nvDistinct :=
  c13_sparql_select_partial wEnv true nvOps nvFull 3 _ (by decide) rfl rfl rfl (by decide) (by decide) (by decide)
    (by decide) (by decide)

theorem nv_distinct_answer :
    specSelect wEnv 3 (run true nvOps).triples nvDistinct = [[some 0, none, none], [some 13, none, none]] ∧
      (specSelect wEnv 3 (run true nvOps).triples { nvDistinct with distinct := false }).length = 4 := by
  decide

theorem nv_order : selAgreesOrdered wEnv (run true nvOps) nvFull 3 nvSelect :=
  c13_sparql_order_partial wEnv true nvOps nvFull 3 nvSelect (by decide) rfl (by decide) (by decide) (by decide)
    (by decide) (by decide) (by decide) (by decide) (by decide) ⟨by decide, by decide⟩ (by decide)

theorem nv_order_answer :
    (specSelect wEnv 3 (run true nvOps).triples nvSelect) = [[some 13, none, some 13], [some 0, none, some 0]] := by
  decide

theorem nv_order_distinct :
    selAgreesOrdered wEnv (run true nvOps) nvFull 3 { nvSelect with distinct := true, proj := some [2] } :=
  c13_sparql_order_partial wEnv true nvOps nvFull 3 _ (by decide) rfl (by decide) (by decide) (by decide)
    (by decide) (by decide) (by decide) (by decide) (by decide) ⟨by decide, by decide⟩ (by decide)

/-- … sorted `1, 13, 0, 13` after the projection; DISTINCT keeps the first of each -/
theorem nv_order_distinct_answer :
    specSelect wEnv 3 (run true nvOps).triples { nvSelect with distinct := true, proj := some [2] } =
      [[none, none, some 13], [none, none, some 0]] := by
  decide

theorem nv_slice :
    ∃ t, execSelect wEnv (run true nvOps) nvFull { nvSelect with order := [] } = some t ∧
      t.rows.length = (specSelect wEnv 3 (run true nvOps).triples { nvSelect with order := [] }).length ∧
      ∃ rest, (t.rows.map (toSol 3 t.cols) ++ rest).Perm
        ((specSelect wEnv 3 (run true nvOps).triples { nvSelect with order := [], offset := none, limit := none }).map (lexSol wEnv)) :=
  c13_sparql_slice_partial wEnv true nvOps nvFull 3 { nvSelect with order := [] } (by decide) rfl (by decide)
    (by decide) (by decide) (by decide) (by decide)

/-- `COUNT(?v2)` of a variable that only an OPTIONAL binds: two of the five solutions count -/
def nvCount : Count :=
  cnt (some 2) 3 [] (.triples [tp (v 0) (c 2) (v 1)] (.optional (.triples [tp (v 1) (c 14) (v 2)] .nil) .nil))

theorem nv_count : cntAgrees wEnv (run true nvOps) nvFull 4 nvCount :=
  c13_sparql_count_partial wEnv true nvOps nvFull 4 _ (by decide) rfl rfl rfl rfl rfl (by decide) (by decide)
    (by decide) (by decide) (by decide)

theorem nv_count_answer :
    specCount wEnv 4 (run true nvOps).triples nvCount = [⟨[], 1⟩] ∧
      (eval wEnv 4 (run true nvOps).triples (transStd nvCount.where_)).length = 4 := by
  decide

theorem nv_insert_data : updAgrees wEnv (run true nvOps) nvFull 0 (.insertData [⟨13, 2, 1⟩, ⟨0, 2, 1⟩, ⟨0, 2, 6⟩]) :=
  c13_sparql_insert_data_partial wEnv _ _ 0 _ (by decide)

theorem nv_delete_data : updAgrees wEnv (run true nvOps) nvFull 0 (.deleteData [⟨0, 2, 1⟩, ⟨0, 2, 6⟩]) :=
  c13_sparql_delete_data_partial wEnv _ _ 0 _ (by decide)

/-- `DELETE WHERE { ?v0 <p> ?v1 . ?v1 <n14> ?v2 }`: two patterns, matched once -/
theorem nv_delete_where :
    updAgrees wEnv (run false nvOps) nvFull 3 (.deleteWhere [tp (v 0) (c 2) (v 1), tp (v 1) (c 14) (v 2)]) :=
  c13_sparql_delete_where_partial wEnv false nvOps nvFull 3 _ (by decide) (by decide) (by decide) (by decide)
    (by decide) (by decide)

theorem nv_delete_where_answer :
    specUpdate wEnv 3 (run false nvOps).triples (.deleteWhere [tp (v 0) (c 2) (v 1), tp (v 1) (c 14) (v 2)]) =
      some [⟨1, 2, 13⟩, ⟨0, 2, 13⟩, ⟨13, 2, 0⟩] := by
  decide

/-- a WHERE clause with an OPTIONAL and a FILTER that drops rows -/
def nvModify : Update :=
  .modify [tp (v 0) (c 2) (v 1)] [tp (v 1) (c 14) (v 0), tp (v 0) (c 2) (c 1)]
    (.triples [tp (v 0) (c 2) (v 1)] (.optional (.triples [tp (v 1) (c 14) (v 2)] .nil)
      (.filter (.or (.bound 2) (.ne (v 0) (c 0))) .nil)))

theorem nv_modify : updAgrees wEnv (run true nvOps) nvFull 3 nvModify :=
  c13_sparql_modify_partial wEnv true nvOps nvFull 3 _ _ _ (by decide) (by decide) (by decide) (by decide)
    (by decide) (by decide) (by decide)

theorem nv_modify_answer :
    specUpdate wEnv 3 (run true nvOps).triples nvModify =
      some [⟨0, 2, 13⟩, ⟨1, 14, 0⟩, ⟨13, 14, 1⟩, ⟨0, 14, 13⟩, ⟨0, 2, 1⟩, ⟨1, 2, 1⟩, ⟨13, 2, 1⟩] := by
  decide

/-- the translation theorems, applied: a group with an OPTIONAL in front, a UNION, a nested group and a FILTER -/
def nvGrp : Grp :=
  .optional (.triples [tp (v 0) (c 2) (v 1)] .nil)
    (.union (.triples [tp (v 0) (c 2) (v 2)] .nil) (.group (.triples [tp (v 2) (c 14) (v 0)] .nil) .nil)
      (.filter (.bound 1) .nil))

theorem nv_translation :
    eval wEnv 3 (run true nvOps).triples (transCode nvGrp) = eval wEnv 3 (run true nvOps).triples (transStd nvGrp) :=
  eval_transCode wEnv 3 _ nvGrp (by decide)

theorem nv_translation_answer :
    transCode nvGrp ≠ transStd nvGrp ∧ (eval wEnv 3 (run true nvOps).triples (transStd nvGrp)).length = 8 := by
  decide

end Grafeo.Sparql
