import GrafeoModel.Proofs.RdfLemmas

/-!
# C13 — the triple store behaves as a set of triples

All statements are for **every** sequence of insert / remove / clear (`ops : List Op`), with and
without the object index (`b : Bool`), and every pattern shape (`pat : Pattern`, each of the
three positions bound or unbound: all eight shapes).
-/

namespace Grafeo.Rdf

theorem mem_insert (st : Store) (t x : Triple) :
    x ∈ (st.insert t).1.triples ↔ x = t ∨ x ∈ st.triples := by
  unfold Store.insert
  split
  · rename_i h
    constructor
    · exact Or.inr
    · rintro (rfl | h') <;> assumption
  · simp [or_comm]

theorem mem_remove (st : Store) (t x : Triple) :
    x ∈ (st.remove t).1.triples ↔ x ≠ t ∧ x ∈ st.triples := by
  unfold Store.remove
  split
  · rename_i h
    constructor
    · intro hx; exact ⟨fun e => h (e ▸ hx), hx⟩
    · exact fun h' => h'.2
  · simp [and_comm]

/-- F: set semantics. After any sequence of operations a triple is stored iff the last
operation that mentioned it (or cleared) was its insertion. -/
theorem c13_set_semantics (b : Bool) (ops : List Op) (t : Triple) :
    t ∈ (run b ops).triples ↔
      (∃ pre post, ops = pre ++ [.insert t] ++ post ∧
        ∀ op ∈ post, op ≠ .clear ∧ op ≠ .remove t) := by
  -- by induction on ops from the right
  have key : ∀ (post : List Op) (st : Store),
      (t ∈ (post.foldl step st).triples ↔
        (t ∈ st.triples ∧ ∀ op ∈ post, op ≠ .clear ∧ op ≠ .remove t) ∨
        (∃ p1 p2, post = p1 ++ [.insert t] ++ p2 ∧ ∀ op ∈ p2, op ≠ .clear ∧ op ≠ .remove t)) := by
    intro post
    induction post with
    | nil =>
      intro st
      simp
    | cons op rest ih =>
      intro st
      simp only [List.foldl_cons]
      rw [ih]
      constructor
      · rintro (⟨hm, hall⟩ | ⟨p1, p2, hp, hall⟩)
        · cases op with
          | insert x =>
            rcases (mem_insert st x t).mp hm with rfl | hst
            · right; exact ⟨[], rest, by simp, hall⟩
            · left; refine ⟨hst, ?_⟩
              intro o ho
              rcases List.mem_cons.mp ho with rfl | ho'
              · simp
              · exact hall o ho'
          | remove x =>
            obtain ⟨hne, hst⟩ := (mem_remove st x t).mp hm
            left; refine ⟨hst, ?_⟩
            intro o ho
            rcases List.mem_cons.mp ho with rfl | ho'
            · refine ⟨by simp, ?_⟩
              intro e; cases e; exact hne rfl
            · exact hall o ho'
          | clear => simp [step, Store.clear] at hm
        · right; exact ⟨op :: p1, p2, by simp [hp], hall⟩
      · rintro (⟨hst, hall⟩ | ⟨p1, p2, hp, hall⟩)
        · left
          refine ⟨?_, fun o ho => hall o (List.mem_cons_of_mem _ ho)⟩
          have hop := hall op List.mem_cons_self
          cases op with
          | insert x => exact (mem_insert st x t).mpr (Or.inr hst)
          | remove x =>
            refine (mem_remove st x t).mpr ⟨?_, hst⟩
            intro e; subst e; exact hop.2 rfl
          | clear => exact absurd rfl hop.1
        · cases p1 with
          | nil =>
            simp only [List.nil_append, List.cons_append, List.cons.injEq] at hp
            obtain ⟨rfl, rfl⟩ := hp
            left
            exact ⟨(mem_insert st t t).mpr (Or.inl rfl), hall⟩
          | cons q p1' =>
            simp only [List.cons_append, List.cons.injEq] at hp
            obtain ⟨rfl, hrest⟩ := hp
            right
            exact ⟨p1', p2, by simp [hrest], hall⟩
  have := key ops (Store.new b)
  unfold run
  rw [this]
  constructor
  · rintro (⟨hm, _⟩ | h)
    · simp [Store.new] at hm
    · exact h
  · exact Or.inr

/-- F: every lookup — all eight bound/unbound shapes, with and without the object index —
returns exactly the stored triples that match the pattern. -/
theorem c13_find_eq_filter (b : Bool) (ops : List Op) (pat : Pattern) :
    (run b ops).find pat = (run b ops).triples.filter pat.matches := by
  have hinv := inv_run b ops
  generalize run b ops = st at *
  -- a filter by key followed by the pattern filter is the pattern filter when the pattern
  -- binds that key
  have aux : ∀ (key : Triple → Nat) (k : Nat), (∀ t, pat.matches t = true → key t = k) →
      (st.triples.filter (fun t => key t == k)).filter pat.matches = st.triples.filter pat.matches := by
    intro key k hk
    rw [List.filter_filter]
    apply List.filter_congr
    intro x _
    by_cases hm : pat.matches x = true
    · simp [hm, hk x hm]
    · simp [hm]
  unfold Store.find
  cases hs : pat.s with
  | some s =>
    simp only
    rw [hinv.sI.get]
    apply aux (·.s) s
    intro t ht
    simp only [Pattern.matches, hs, Bool.and_eq_true, beq_iff_eq] at ht
    exact ht.1.1.symm
  | none =>
    cases hp : pat.p with
    | some p =>
      simp only
      rw [hinv.pI.get]
      apply aux (·.p) p
      intro t ht
      simp only [Pattern.matches, hp, Bool.and_eq_true, beq_iff_eq] at ht
      exact ht.1.2.symm
    | none =>
      cases ho : pat.o with
      | some o =>
        simp only
        split
        · rename_i hio
          rw [(hinv.oI hio).get]
          apply aux (·.o) o
          intro t ht
          simp only [Pattern.matches, ho, Bool.and_eq_true, beq_iff_eq] at ht
          exact ht.2.symm
        · rfl
      | none => rfl

/-- F: each matching triple is returned once. -/
theorem c13_find_nodup (b : Bool) (ops : List Op) (pat : Pattern) :
    ((run b ops).find pat).Nodup := by
  rw [c13_find_eq_filter]
  exact List.Nodup.sublist List.filter_sublist (inv_run b ops).nodup

/-- F: the per-component accessors return exactly the triples with that component. -/
theorem c13_with_component (b : Bool) (ops : List Op) (k : Nat) :
    (run b ops).withSubject k = (run b ops).triples.filter (fun t => t.s == k) ∧
    (run b ops).withPredicate k = (run b ops).triples.filter (fun t => t.p == k) ∧
    (run b ops).withObject k = (run b ops).triples.filter (fun t => t.o == k) := by
  have hinv := inv_run b ops
  generalize run b ops = st at *
  refine ⟨hinv.sI.get k, hinv.pI.get k, ?_⟩
  unfold Store.withObject
  split
  · rename_i hio; exact (hinv.oI hio).get k
  · rfl

/-- F: the distinct-subject / predicate / object counts of `stats()` count exactly the
components that occur: a key is in an index iff some stored triple has it, once. -/
theorem c13_index_keys (b : Bool) (ops : List Op) (k : Nat) :
    (keys (run b ops).sIdx).Nodup ∧ (k ∈ keys (run b ops).sIdx ↔ ∃ t ∈ (run b ops).triples, t.s = k) := by
  have hinv := inv_run b ops
  generalize run b ops = st at *
  refine ⟨hinv.sI.nodup, ?_⟩
  constructor
  · intro hk
    -- the entry for k is non-empty and equals the filter
    have hget := hinv.sI.get k
    have hne : idxGet st.sIdx k ≠ [] := by
      have : ∀ (idx : Index), (∀ kv ∈ idx, kv.2 ≠ []) → k ∈ keys idx → idxGet idx k ≠ [] := by
        intro idx
        induction idx with
        | nil => intro _ h; simp [keys] at h
        | cons kv rest ih =>
          obtain ⟨k0, v⟩ := kv
          intro hall hmem
          simp only [idxGet]
          by_cases h0 : k0 = k
          · simp only [h0, if_true]; exact hall (k0, v) List.mem_cons_self
          · simp only [h0, if_false]
            apply ih (fun x hx => hall x (List.mem_cons_of_mem _ hx))
            simp only [keys, List.map_cons, List.mem_cons] at hmem
            rcases hmem with e | hm
            · exact absurd e.symm h0
            · exact hm
      exact this st.sIdx hinv.sI.nonempty hk
    rw [hget] at hne
    obtain ⟨t, ht⟩ := List.exists_mem_of_ne_nil _ hne
    rw [List.mem_filter] at ht
    exact ⟨t, ht.1, by simpa using ht.2⟩
  · rintro ⟨t, ht, rfl⟩
    apply Classical.byContradiction
    intro hn
    have := idxGet_of_not_mem st.sIdx t.s hn
    rw [hinv.sI.get] at this
    have hm : t ∈ st.triples.filter (fun x => x.s == t.s) := List.mem_filter.mpr ⟨ht, by simp⟩
    rw [this] at hm; simp at hm

/-- F: `len` is the cardinality of the set (no duplicates are stored). -/
theorem c13_len_card (b : Bool) (ops : List Op) : (run b ops).triples.Nodup := (inv_run b ops).nodup

/-- F: inserting a present triple and removing an absent one change nothing and say so. -/
theorem c13_insert_idempotent (st : Store) (t : Triple) (h : t ∈ st.triples) :
    st.insert t = (st, false) := by simp [Store.insert, h]

theorem c13_remove_absent_noop (st : Store) (t : Triple) (h : t ∉ st.triples) :
    st.remove t = (st, false) := by simp [Store.remove, h]

/-- N: a non-trivial instance. -/
example : (run true [.insert ⟨1, 2, 3⟩, .insert ⟨1, 2, 4⟩, .remove ⟨1, 2, 3⟩, .insert ⟨5, 2, 4⟩]).find
    ⟨none, some 2, some 4⟩ = [⟨1, 2, 4⟩, ⟨5, 2, 4⟩] := by decide

/-! ### per-transaction buffers (used by C01 / C02) -/

/-- F: buffered work of a transaction is invisible to every other reader until it commits. -/
theorem c13_pending_isolated (st : Store) (b : Buffers) (pat : Pattern) (tx tx' : Nat) (op : Pending)
    (hne : tx' ≠ tx) :
    findWithPending st (bufPush b tx op) pat (some tx') = findWithPending st b pat (some tx') ∧
    findWithPending st (bufPush b tx op) pat none = st.find pat := by
  refine ⟨?_, rfl⟩
  have : ∀ (b : Buffers), bufGet (bufPush b tx op) tx' = bufGet b tx' := by
    intro b
    induction b with
    | nil => simp [bufPush, bufGet]; intro e; exact absurd e.symm hne
    | cons kv rest ih =>
      obtain ⟨k, v⟩ := kv
      simp only [bufPush]
      by_cases hk : k = tx
      · subst hk
        have : ¬ k = tx' := fun e => hne e.symm
        simp [bufGet, this]
      · simp only [hk, if_false, bufGet]
        by_cases hk' : k = tx'
        · simp [hk']
        · simp [hk', ih]
  unfold findWithPending
  simp only [this]

theorem inv_applyPending (st : Store) (ops : List Pending) (h : Inv st) : Inv (applyPending st ops) := by
  induction ops generalizing st with
  | nil => exact h
  | cons op rest ih =>
    cases op with
    | ins t => exact ih _ (inv_insert st t h)
    | del t => exact ih _ (inv_remove st t h)

theorem replay_eq (pat : Pattern) (ops : List Pending) (st : Store) :
    replayPending pat (st.triples.filter pat.matches) ops =
      (applyPending st ops).triples.filter pat.matches := by
  induction ops generalizing st with
  | nil => rfl
  | cons op rest ih =>
    cases op with
    | ins x =>
      simp only [replayPending, applyPending]
      rw [← ih]
      congr 1
      unfold Store.insert
      by_cases hx : x ∈ st.triples
      · simp only [hx, if_true]
        by_cases hm : pat.matches x = true
        · have : (st.triples.filter pat.matches).contains x = true := by
            simp [List.mem_filter, hx, hm]
          simp [this, hx, hm]
        · simp [hm]
      · simp only [hx, if_false, List.filter_append]
        by_cases hm : pat.matches x = true
        · have : (st.triples.filter pat.matches).contains x = false := by
            simp [List.mem_filter, hx]
          simp [this, hm, hx]
        · simp [hm]
    | del x =>
      simp only [replayPending, applyPending]
      rw [← ih]
      congr 1
      unfold Store.remove
      by_cases hx : x ∈ st.triples
      · simp only [hx, not_true_eq_false, if_false, List.filter_filter]
        apply List.filter_congr
        intro y _
        exact Bool.and_comm _ _
      · simp only [hx, not_false_eq_true, if_true]
        rw [List.filter_eq_self]
        intro y hy
        have : y ≠ x := by
          intro e; subst e; exact hx (List.mem_filter.mp hy).1
        simp [this]

/-- F (read-your-own-writes, set semantics): inside a transaction a lookup returns exactly what
the same lookup would return right after that transaction's commit — for every reachable
store, every buffer content, every pattern shape. (Holds for the repaired `find_with_pending`;
the pinned code returned a re-inserted triple twice and kept showing a triple the transaction
had inserted and then deleted.) -/
theorem c13_own_view_eq_commit_view (b : Bool) (ops : List Op) (bufs : Buffers) (pat : Pattern)
    (tx : Nat) (pending : List Pending) (hb : bufGet bufs tx = some pending) :
    findWithPending (run b ops) bufs pat (some tx) =
      (applyPending (run b ops) pending).triples.filter pat.matches := by
  unfold findWithPending
  simp only [hb]
  rw [c13_find_eq_filter]
  exact replay_eq pat pending (run b ops)

/-- N: non-trivial instance (re-insert of a stored triple, insert-then-delete). -/
example :
    findWithPending (run true [.insert ⟨1, 2, 3⟩]) [(7, [.ins ⟨1, 2, 3⟩, .ins ⟨1, 2, 4⟩, .del ⟨1, 2, 4⟩])]
      ⟨some 1, none, none⟩ (some 7) = [⟨1, 2, 3⟩] := by decide

end Grafeo.Rdf
