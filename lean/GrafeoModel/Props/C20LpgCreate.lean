import GrafeoModel.Proofs.LpgConcLemmas

/-!
# C20, property-graph clause — `create_node` under every interleaving

`Props/C20Lpg.lean` proves linearizability for programs without `create_node`. `create_node` takes
four critical sections (id counter; one label-index insert per label; `node_labels`; node table —
the `lpg.create_node.*` yield points of `crates/grafeo-core/src/graph/lpg/store.rs`), so other
threads run while the label index already lists an id whose node is not in the node table yet.

**Statement proved here** (`c20_lpg_create_linearizable`, every number of threads, every program —
creates included —, every schedule, at every point of the run, quiescent or not):

* there is a sequential execution `SeqRun` of the *completed* operations, in ghost-log order, in
  which every operation returns exactly what it returned in the concurrent run (a create is
  linearised at its node-table section);
* every thread's results are its entries of the log;
* the concurrent store differs from the store `r` of that sequential execution exactly by the
  pending effects of the creates in flight (`Sim`): same node table, properties, property index;
  same label set for every node that is not under creation; the label index of `c` lists what the
  label index of `r` lists plus the ids under creation whose index insert is done.

At quiescence (no create in flight, e.g. after `finishAll`) the two stores are observationally equal
(`ObsEq`, `c20_lpg_create_quiescent`): everything equal except the *order* inside a label-index entry
(a hash map in the source; the `conc lpg` dump sorts it) — `w_index_order_differs` shows the order
does differ. The sequential meaning of `create_node → id` is "make node `id`, which was not in use"
(`applySeq`/`SeqOk`): ids are handed out in *allocation* order, not in linearisation order, and
`w_counter_order_not_linearizable` shows that no sequential order explains a run when the spec
insists on `id = counter at the linearisation point`.

**Reads** (`c20_lpg_create_reads`, at every point of every run): `get_node`, `node_ids`,
`find_nodes_by_property` and the label scan *filtered by liveness* see exactly the sequential store;
the *raw* `nodes_by_label` does not (`w_raw_label_scan_not_linearizable`): it can list an id for which
`get_node` answers `None`, which no sequential state does (`seq_label_scan_sound`).

Writes aimed at an id under creation (`delete_node`, `add_label`, `remove_label`,
`set_node_property`, `remove_node_property`) are covered by the main theorem: they answer as they
do before the create.
-/

namespace Grafeo.LpgConc
open Grafeo.Lpg

/-! ### thread-level invariant -/

def pcAt (ths : List Thread) (j : Nat) : Pc :=
  match ths[j]? with
  | some t => t.pc
  | none => .idle

/-- the create thread `j` is in the middle of -/
def pfOf (ths : List Thread) : Nat → Option Pend := fun j => pend (pcAt ths j)

theorem pfOf_get (ths : List Thread) (i : Nat) (t : Thread) (h : ths[i]? = some t) : pfOf ths i = pend t.pc := by
  unfold pfOf pcAt; rw [h]

theorem pfOf_set (ths : List Thread) (i : Nat) (t t' : Thread) (h : ths[i]? = some t) :
    pfOf (ths.set i t') = upd (pfOf ths) i (pend t'.pc) := by
  funext j
  unfold pfOf pcAt upd
  by_cases hj : j = i
  · subst hj; rw [getElem?_set_self' ths j t t' h]; simp
  · rw [List.getElem?_set_ne (fun e => hj e.symm)]; simp [hj]

structure CInv (s0 : Store) (st : State) : Prop where
  run : ∃ r, SeqRun s0 st.log r ∧ Sim st.store r (pfOf st.threads)
  wf : ∀ t ∈ st.threads, PcWF t.pc
  results : ∀ i t, st.threads[i]? = some t → t.results = myResults i st.log

theorem cinv_step (s0 : Store) (st : State) (i : Nat) (h : CInv s0 st) : CInv s0 (step st i) := by
  unfold step
  cases hti : st.threads[i]? with
  | none => exact h
  | some t =>
    simp only
    obtain ⟨r, hrun, hsim⟩ := h.run
    have hmem : t ∈ st.threads := List.mem_of_getElem? hti
    obtain ⟨hwf', ⟨r', hrun', hsim'⟩, hres⟩ :=
      stepThread_sim s0 i st.store st.log t r (pfOf st.threads) hsim (pfOf_get _ _ _ hti) (h.wf t hmem) hrun
    generalize stepThread i st.store st.log t = x at hwf' hrun' hsim' hres
    obtain ⟨c', log', t'⟩ := x
    simp only at hwf' hrun' hsim' hres ⊢
    refine ⟨⟨r', hrun', by rw [pfOf_set _ _ t t' hti]; exact hsim'⟩, ?_, ?_⟩
    · intro x hx
      rcases List.mem_or_eq_of_mem_set hx with hx' | rfl
      · exact h.wf x hx'
      · exact hwf'
    · intro j tj hj
      show tj.results = myResults j log'
      rcases hres with ⟨h2, h3⟩ | ⟨op, res, h2, h3⟩
      · subst h2
        by_cases hij : j = i
        · subst hij
          rw [getElem?_set_self' st.threads j t t' hti] at hj
          cases hj
          rw [h3]; exact h.results j t hti
        · rw [List.getElem?_set_ne (fun e => hij e.symm)] at hj
          exact h.results j tj hj
      · by_cases hij : j = i
        · subst hij
          rw [getElem?_set_self' st.threads j t t' hti] at hj
          cases hj
          rw [h3, h2, myResults_append_self, h.results j t hti]
        · rw [List.getElem?_set_ne (fun e => hij e.symm)] at hj
          rw [h2, myResults_append_other i j st.log op _ (fun e => hij e.symm)]
          exact h.results j tj hj

theorem cinv_runSched (s0 : Store) (st : State) (sched : List Nat) (h : CInv s0 st) :
    CInv s0 (runSched st sched) := by
  unfold runSched
  induction sched generalizing st with
  | nil => exact h
  | cons i rest ih => exact ih (step st i) (cinv_step s0 st i h)

/-! ### the initial state -/

theorem initStore_inv (n0 : Nat) : LabelInv (initStore n0) ∧ IdxNodup (initStore n0).labelIdx := by
  unfold initStore
  have base : LabelInv ({} : Store) ∧ IdxNodup ({} : Store).labelIdx :=
    ⟨labelInv_init true, fun l => by simp [aget]⟩
  have loop : ∀ (l : List Nat) (s : Store), LabelInv s ∧ IdxNodup s.labelIdx →
      LabelInv (l.foldl (fun s _ => (s.createNode [] 0 systemTx).1) s) ∧
      IdxNodup (l.foldl (fun s _ => (s.createNode [] 0 systemTx).1) s).labelIdx := by
    intro l
    induction l with
    | nil => intro s h; exact h
    | cons a l ih =>
      intro s h
      simp only [List.foldl_cons]
      apply ih
      refine ⟨?_, h.2⟩
      have := labelInv_createNode s [] systemTx h.1
      rw [h.1.epoch0] at this
      exact this
  obtain ⟨a, b⟩ := loop (List.range n0) {} base
  generalize (List.range n0).foldl (fun s _ => (s.createNode [] 0 systemTx).1) ({} : Store) = s at a b
  simp only
  unfold Store.createIndex
  split
  · exact ⟨a, b⟩
  · exact ⟨labelInv_of_same s _ a rfl rfl rfl rfl rfl, b⟩

theorem sim_refl (s : Store) (pf : Nat → Option Pend) (h1 : LabelInv s) (h2 : IdxNodup s.labelIdx)
    (hpf : ∀ j, pf j = none) : Sim s s pf := by
  have no : ∀ j p, pf j = some p → False := fun j p hp => by rw [hpf j] at hp; cases hp
  refine ⟨⟨rfl, rfl, rfl, rfl, rfl, rfl, rfl, rfl, rfl, rfl⟩, fun _ _ => rfl, ?_, ?_, ?_, ?_, ?_, Nat.le_refl _,
    fun x hx => Or.inl hx, h1, h2, h2⟩
  · intro j p hp; exact (no j p hp).elim
  · intro l x
    constructor
    · exact Or.inl
    · rintro (a | ⟨j, p, hp, _⟩)
      · exact a
      · exact (no j p hp).elim
  · intro j k p q hp; exact (no j p hp).elim
  · intro j p hp; exact (no j p hp).elim
  · intro j p hp; exact (no j p hp).elim

theorem pfOf_quiet (ths : List Thread) (h : ∀ t ∈ ths, pend t.pc = none) : ∀ j, pfOf ths j = none := by
  intro j
  unfold pfOf pcAt
  cases hj : ths[j]? with
  | none => rfl
  | some t => exact h t (List.mem_of_getElem? hj)

theorem cinv_init (n0 : Nat) (progs : List (List COp)) : CInv (initStore n0) (init n0 progs) := by
  obtain ⟨a, b⟩ := initStore_inv n0
  refine ⟨⟨initStore n0, SeqRun.nil, sim_refl _ _ a b ?_⟩, ?_, ?_⟩
  · apply pfOf_quiet
    intro t ht
    simp only [init, List.mem_map] at ht
    obtain ⟨p, _, rfl⟩ := ht
    rfl
  · intro t ht
    simp only [init, List.mem_map] at ht
    obtain ⟨p, _, rfl⟩ := ht
    trivial
  · intro i t ht
    simp only [init, List.getElem?_map] at ht
    cases hp : progs[i]? with
    | none => rw [hp] at ht; cases ht
    | some p => rw [hp] at ht; cases ht; rfl

/-! ### F: linearizability with `create_node` -/

/-- **F (full)**: for every number of initial nodes, every set of thread programs (creates, deletes,
label and property writes, on any ids), and every schedule — stopped anywhere, creates possibly in
flight: the completed operations, in ghost-log order, form a sequential execution that returns the
results the threads got; the concurrent store is the store of that execution plus the pending
effects of the creates in flight; every thread's results are its log entries. -/
theorem c20_lpg_create_linearizable (n0 : Nat) (progs : List (List COp)) (sched : List Nat) :
    let st := runSched (init n0 progs) sched
    (∃ r, SeqRun (initStore n0) st.log r ∧ Sim st.store r (pfOf st.threads)) ∧
    ∀ i t, st.threads[i]? = some t → t.results = myResults i st.log := by
  have := cinv_runSched (initStore n0) (init n0 progs) sched (cinv_init n0 progs)
  exact ⟨this.run, this.results⟩

/-! ### quiescence -/

/-- observational equality of two stores: everything equal, except that the entries of the label
index (hash sets in the source) are equal as sets — duplicate-free lists, equal up to order — and
`node_labels` (a hash map) is compared by lookup -/
structure ObsEq (c r : Store) : Prop where
  rest : Rest c r
  nextNode : c.nextNode = r.nextNode
  labels : ∀ x, aget c.nodeLabels x = aget r.nodeLabels x
  idx : ∀ l, List.Perm (c.nodesByLabel l) (r.nodesByLabel l)
  idxNodup : ∀ l, (c.nodesByLabel l).Nodup

theorem sim_quiescent {c r : Store} {pf : Nat → Option Pend} (h : Sim c r pf) (hq : ∀ j, pf j = none) :
    ObsEq c r := by
  have no : ∀ j p, pf j = some p → False := fun j p hp => by rw [hq j] at hp; cases hp
  refine ⟨h.rest, ?_, ?_, ?_, fun l => h.nodupC l⟩
  · apply Nat.le_antisymm
    · apply Nat.le_of_not_lt
      intro hlt
      rcases h.covered r.nextNode hlt with a | ⟨j, p, hp, _⟩
      · exact Nat.lt_irrefl _ a
      · exact no j p hp
    · exact h.nextLe
  · intro x
    exact h.labelsEq x (fun j p hp => (no j p hp).elim)
  · intro l
    apply (List.perm_ext_iff_of_nodup (h.nodupC l) (h.nodupR l)).mpr
    intro x
    have := h.idx l x
    unfold inIdx at this
    rw [this]
    constructor
    · rintro (a | ⟨j, p, hp, _⟩)
      · exact a
      · exact (no j p hp).elim
    · exact Or.inl

/-- **F (full)**: whenever no create is in flight — in particular when every thread has finished —
the store reached by the concurrent run is observationally equal to the store of the sequential
execution of the log. -/
theorem c20_lpg_create_quiescent (n0 : Nat) (progs : List (List COp)) (sched : List Nat)
    (hq : ∀ t ∈ (runSched (init n0 progs) sched).threads, pend t.pc = none) :
    let st := runSched (init n0 progs) sched
    (∃ r, SeqRun (initStore n0) st.log r ∧ ObsEq st.store r) ∧
    ∀ i t, st.threads[i]? = some t → t.results = myResults i st.log := by
  obtain ⟨⟨r, hrun, hsim⟩, hres⟩ := c20_lpg_create_linearizable n0 progs sched
  exact ⟨⟨r, hrun, sim_quiescent hsim (pfOf_quiet _ hq)⟩, hres⟩

theorem runSched_append (st : State) (a b : List Nat) : runSched (runSched st a) b = runSched st (a ++ b) := by
  unfold runSched; rw [List.foldl_append]

theorem finishThread_sched (fuel : Nat) (st : State) (i : Nat) : ∃ s, finishThread fuel st i = runSched st s := by
  induction fuel generalizing st with
  | zero => exact ⟨[], rfl⟩
  | succ n ih =>
    unfold finishThread
    cases hti : st.threads[i]? with
    | none => exact ⟨[], rfl⟩
    | some t =>
      simp only
      split
      · exact ⟨[], rfl⟩
      · obtain ⟨s, hs⟩ := ih (step st i)
        exact ⟨i :: s, by rw [hs]; rfl⟩

/-- what the stream's driver does after the forced schedule (`finishAll`: every thread runs to
completion, lowest index first) is itself a schedule -/
theorem finishAll_sched (fuel : Nat) (st : State) : ∃ s, finishAll fuel st = runSched st s := by
  unfold finishAll
  generalize List.range st.threads.length = l
  induction l generalizing st with
  | nil => exact ⟨[], rfl⟩
  | cons i l ih =>
    simp only [List.foldl_cons]
    obtain ⟨s1, h1⟩ := finishThread_sched fuel st i
    obtain ⟨s2, h2⟩ := ih (finishThread fuel st i)
    exact ⟨s1 ++ s2, by rw [h2, h1, runSched_append]⟩

/-- **F (full)**, in the form the stream `conc lpg` exercises: forced schedule, then every thread
runs to completion. If every thread has finished (the driver's fuel is enough), results and dumped
store are those of the sequential execution of the log. -/
theorem c20_lpg_create_stream (n0 : Nat) (progs : List (List COp)) (sched : List Nat) (fuel : Nat)
    (hfin : ∀ t ∈ (finishAll fuel (runSched (init n0 progs) sched)).threads, t.finished = true) :
    let st := finishAll fuel (runSched (init n0 progs) sched)
    (∃ r, SeqRun (initStore n0) st.log r ∧ ObsEq st.store r) ∧
    ∀ i t, st.threads[i]? = some t → t.results = myResults i st.log := by
  obtain ⟨s, hs⟩ := finishAll_sched fuel (runSched (init n0 progs) sched)
  rw [runSched_append] at hs
  simp only
  rw [hs] at hfin ⊢
  apply c20_lpg_create_quiescent n0 progs (sched ++ s)
  intro t ht
  have := hfin t ht
  unfold Thread.finished at this
  simp only [Bool.and_eq_true, beq_iff_eq] at this
  rw [this.1]; rfl

/-! ### sequential stores -/

theorem labelInv_applyAtomic (s : Store) (op : COp) (hop : isCreate op = false) (h : LabelInv s) :
    LabelInv (applyAtomic s op).1 := by
  cases op with
  | create ls => simp [isCreate] at hop
  | delete id => exact labelInv_step s (.deleteNode id) h
  | addLabel id l => exact labelInv_step s (.addLabel id l) h
  | remLabel id l => exact labelInv_step s (.removeLabel id l) h
  | setProp id k v => exact labelInv_step s (.setNodeProp id k v) h
  | remProp id k => exact labelInv_step s (.removeNodeProp id k) h

/-- every store a sequential execution reaches satisfies the label invariant of C14 -/
theorem seqRun_labelInv (n0 : Nat) (log : List (Nat × COp × String)) (r : Store)
    (h : SeqRun (initStore n0) log r) : LabelInv r := by
  induction h with
  | nil => exact (initStore_inv n0).1
  | snoc i op id _ hok ih =>
    cases op with
    | create ls => exact labelInv_createNodeWithId _ id ls ih hok
    | delete x => exact labelInv_applyAtomic _ (.delete x) rfl ih
    | addLabel x l => exact labelInv_applyAtomic _ (.addLabel x l) rfl ih
    | remLabel x l => exact labelInv_applyAtomic _ (.remLabel x l) rfl ih
    | setProp x k v => exact labelInv_applyAtomic _ (.setProp x k v) rfl ih
    | remProp x k => exact labelInv_applyAtomic _ (.remProp x k) rfl ih

theorem labelInv_scan_sound (r : Store) (h : LabelInv r) (l x : Nat) (hx : x ∈ r.nodesByLabel l) :
    l ∈ r.nodeLabelsOf x ∧ nodeLive r x = true := by
  have hl : hasLabel r x l := (h.mirror l x).mp hx
  obtain ⟨ch, h1, h2⟩ := h.live x l hl
  exact ⟨hl, by unfold nodeLive; rw [h1]; exact h2⟩

/-- **F**: in every state of every sequential execution, a node listed by `nodes_by_label(l)` is
live and carries `l` — `get_node` returns it with that label. -/
theorem seq_label_scan_sound (n0 : Nat) (log : List (Nat × COp × String)) (r : Store)
    (h : SeqRun (initStore n0) log r) (l x : Nat) (hx : x ∈ r.nodesByLabel l) :
    ∃ ls ps, r.getNodeAt x r.epoch = some (ls, ps) ∧ l ∈ ls := by
  obtain ⟨a, b⟩ := labelInv_scan_sound r (seqRun_labelInv n0 log r h) l x hx
  refine ⟨r.nodeLabelsOf x, r.nodePropsOf x, ?_, a⟩
  unfold nodeLive at b
  unfold Store.getNodeAt
  cases hg : aget r.nodes x with
  | none => rw [hg] at b; cases b
  | some ch => rw [hg] at b; simp only at b ⊢; rw [b]; rfl

/-- on create-free logs `SeqRun` is the functional `replay` of `Props/C20Lpg.lean` -/
theorem seqRun_replay_of_noCreate (s0 : Store) (log : List (Nat × COp × String)) (r : Store)
    (h : SeqRun s0 log r) (hnc : ∀ e ∈ log, isCreate e.2.1 = false) :
    replay s0 (log.map (·.2.1)) = (r, log.map (·.2.2)) := by
  induction h with
  | nil => rfl
  | snoc i op id _ _ ih =>
    have hop : isCreate op = false :=
      hnc (i, op, _) (List.mem_append_right _ (List.mem_singleton.mpr rfl))
    have ih' := ih (fun e he => hnc e (List.mem_append_left _ he))
    rw [List.map_append, List.map_append]
    simp only [List.map_cons, List.map_nil]
    rw [replay_append, ih', applySeq_of_not_create _ op id hop]

/-! ### reads -/

/-- what a reader that takes one critical section sees, in terms of `Sim` -/
theorem sim_reads {c r : Store} {pf : Nat → Option Pend} (h : Sim c r pf) :
    (∀ id, c.getNodeAt id c.epoch = r.getNodeAt id r.epoch) ∧
    c.nodeIds = r.nodeIds ∧
    (∀ k v, c.findByProp k v = r.findByProp k v) ∧
    (∀ l x, (x ∈ c.nodesByLabel l ∧ nodeLive c x = true) ↔ x ∈ r.nodesByLabel l) := by
  refine ⟨?_, ?_, ?_, ?_⟩
  · intro id
    unfold Store.getNodeAt
    rw [h.rest.nodes, h.rest.epoch]
    cases hg : aget r.nodes id with
    | none => rfl
    | some ch =>
      simp only
      have hnp := h.not_pending_of_node id ch hg
      have hls : aget c.nodeLabels id = aget r.nodeLabels id := h.labelsEq id (fun j p hp _ => hnp j p hp)
      unfold Store.nodeLabelsOf Store.nodePropsOf
      rw [hls, h.rest.nprops]
  · unfold Store.nodeIds; rw [h.rest.nodes, h.rest.epoch]
  · intro k v
    unfold Store.findByProp Store.nodeIds Store.nodePropsOf
    rw [h.rest.pidx, h.rest.nodes, h.rest.epoch, h.rest.nprops]
  · intro l x
    have hi := h.idx l x
    unfold inIdx at hi
    unfold Store.nodesByLabel
    rw [hi, nodeLive_eq h x]
    constructor
    · rintro ⟨a | ⟨j, p, hp, e, _⟩, hlive⟩
      · exact a
      · have := (h.pendFresh j p hp).2.1
        unfold nodeLive at hlive
        rw [e] at this
        rw [this] at hlive
        cases hlive
    · intro a
      exact ⟨Or.inl a, (labelInv_scan_sound r h.seq l x a).2⟩

/-- **F (full)** — reads that take one critical section, at every point of every run (creates in
flight or not): `get_node` (under `nodes.read()`), `node_ids`, `find_nodes_by_property`, and the
label scan restricted to live nodes return exactly what they return on the store of the sequential
execution of the log. The *unrestricted* label scan does not: `w_raw_label_scan_not_linearizable`. -/
theorem c20_lpg_create_reads (n0 : Nat) (progs : List (List COp)) (sched : List Nat) :
    let st := runSched (init n0 progs) sched
    ∃ r, SeqRun (initStore n0) st.log r ∧
      (∀ id, st.store.getNodeAt id st.store.epoch = r.getNodeAt id r.epoch) ∧
      st.store.nodeIds = r.nodeIds ∧
      (∀ k v, st.store.findByProp k v = r.findByProp k v) ∧
      (∀ l x, (x ∈ st.store.nodesByLabel l ∧ nodeLive st.store x = true) ↔ x ∈ r.nodesByLabel l) := by
  obtain ⟨⟨r, hrun, hsim⟩, _⟩ := c20_lpg_create_linearizable n0 progs sched
  exact ⟨r, hrun, sim_reads hsim⟩

/-- **F (full)** — the verdict of `conc lpg.inv`: whenever no create is in flight, the label index
of the concurrent store lists exactly the live nodes carrying the label, each once. -/
theorem c20_lpg_create_index_consistent (n0 : Nat) (progs : List (List COp)) (sched : List Nat)
    (hq : ∀ t ∈ (runSched (init n0 progs) sched).threads, pend t.pc = none) (l x : Nat) :
    let s := (runSched (init n0 progs) sched).store
    (x ∈ s.nodesByLabel l ↔ (l ∈ s.nodeLabelsOf x ∧ nodeLive s x = true)) ∧ (s.nodesByLabel l).Nodup := by
  obtain ⟨⟨r, _, hsim⟩, _⟩ := c20_lpg_create_linearizable n0 progs sched
  have ho := sim_quiescent hsim (pfOf_quiet _ hq)
  simp only
  refine ⟨?_, ho.idxNodup l⟩
  have hmem : x ∈ (runSched (init n0 progs) sched).store.nodesByLabel l ↔ x ∈ r.nodesByLabel l :=
    (ho.idx l).mem_iff
  have hlab : (runSched (init n0 progs) sched).store.nodeLabelsOf x = r.nodeLabelsOf x := by
    unfold Store.nodeLabelsOf; rw [ho.labels x]
  rw [hmem, hlab, nodeLive_eq hsim x]
  constructor
  · intro a; exact labelInv_scan_sound r hsim.seq l x a
  · rintro ⟨a, _⟩; exact (hsim.seq.mirror l x).mpr a

/-! ### W: what is *not* linearizable -/

/-- functional form of `SeqRun` for concrete checks: the operations in the given order, each create
with the id it returned -/
def seqReplay (s : Store) : List (COp × Nat) → Store × List String
  | [] => (s, [])
  | (op, id) :: rest =>
    let r := applySeq s op id
    let r' := seqReplay r.1 rest
    (r'.1, r.2 :: r'.2)

/-- per-thread results of a sequential execution (`replay`: `create_node` takes the counter value)
of operations tagged with their thread -/
def strictResults (s : Store) (order : List (Nat × COp)) (i : Nat) : List String :=
  (((order.map (·.1)).zip (replay s (order.map (·.2))).2).filter (fun e => e.1 == i)).map (·.2)

/-- **W** — ids follow allocation order, not linearisation order. Thread 0 starts `create_node`
(gets id 0) and is preempted; thread 1 runs `create_node` (gets 1) and `delete_node(0)` (answers
`false`: node 0 is not in the table yet); thread 0 finishes. The run is quiescent, thread 0 got `0`,
thread 1 got `1` and `false`. None of the three sequential orders that respect program order
gives these results when `create_node` is read as "return the counter and bump it" (`replay`,
`Store.createNode`) — whereas the log order does under the fresh-id reading (`seqReplay`,
`Store.createNodeWithId`), which is what `c20_lpg_create_linearizable` states.
Replayed on the real store through the stream (`vh run`): `conc lpg 0 c;c,d0 0,1,1,1,1,1,0,0` →
`res=0;1,0 nodes=0L::;1L:: …`, `conc lpg.inv` → `ok`; the model prints the same line. Expected under
the counter reading: `res=0;1,1` (order 1) or thread 1 creating node `0` (orders 2, 3). This is a
property of the specification, not a defect: callers only rely on ids being unique. -/
theorem w_counter_order_not_linearizable :
    let st := runSched (init 0 [[.create []], [.create [], .delete 0]]) [0, 1, 1, 1, 1, 1, 0, 0]
    st.threads.all (·.finished) = true ∧
    st.threads.map (·.results) = [["0"], ["1", "0"]] ∧
    st.log = [(1, .create [], "1"), (1, .delete 0, "0"), (0, .create [], "0")] ∧
    (∀ order ∈ [[(0, COp.create []), (1, .create []), (1, .delete 0)],
                [(1, .create []), (0, .create []), (1, .delete 0)],
                [(1, .create []), (1, .delete 0), (0, .create [])]],
      ¬ (strictResults (initStore 0) order 0 = ["0"] ∧ strictResults (initStore 0) order 1 = ["1", "0"])) ∧
    (seqReplay (initStore 0) [(.create [], 1), (.delete 0, 0), (.create [], 0)]).2 = ["1", "0", "0"] := by
  decide

/-- **W** — the raw label scan is not linearizable. Thread 0 runs `create_node([L0])` up to and
including its label-index section. Nothing has completed (empty log), so the sequential store is
the initial one, where `nodes_by_label(L0)` is empty; the concurrent `nodes_by_label(L0)` already
lists node 1, for which `get_node` answers `None` and which `node_ids` does not list — a pair of
answers no sequential state gives (`seq_label_scan_sound`). Filtered by liveness the scan is
empty, as `c20_lpg_create_reads` says.
Replayed on the real store: the stream has no read operation, so the schedule was run with the
harness's scheduler (`harness/src/sched.rs`, unchanged) and its `observe` callback in a scratch
binary (`/tmp/c20p/probe`): after worker step 2 (`lpg.create_node.label_index` section done)
`nodes_by_label("L0") = [1]`, `get_node(1) = None`, `node_ids() = [0]`; after step 4 all agree.
Observed `[1]` vs expected `[]` (the only sequential state with an empty log). In the source,
`ScanOperator::load_batch` filters the label scan through `get_node_versioned` when it has a
transaction context and uses the raw list when it has none; the Python binding
`get_nodes_by_label` uses the raw list. -/
theorem w_raw_label_scan_not_linearizable :
    let st := runSched (init 1 [[.create [0]]]) [0, 0]
    st.log = [] ∧
    st.store.nodesByLabel 0 = [1] ∧ st.store.getNodeAt 1 st.store.epoch = none ∧ st.store.nodeIds = [0] ∧
    (initStore 1).nodesByLabel 0 = [] ∧
    (st.store.nodesByLabel 0).filter (nodeLive st.store) = [] := by
  decide

/-- **W** — why `ObsEq` compares label-index entries as sets: thread 0's create inserts node 1 into
the index of L1, thread 1's `add_label(0, L1)` runs, thread 0 finishes. Concurrent entry `[1, 0]`;
the sequential execution of the log (`add_label` first) gives `[0, 1]`. On the real store
(`conc lpg 1 c1;a0.1 0,0,1,1,0,0` → `res=1;1 … lidx=0:;1:0,1;2:`) the entry is a hash map and
`nodes_by_label` sorts it: no observable difference. -/
theorem w_index_order_differs :
    let st := runSched (init 1 [[.create [1]], [.addLabel 0 1]]) [0, 0, 1, 1, 0, 0]
    st.threads.all (·.finished) = true ∧
    st.log = [(1, .addLabel 0 1, "1"), (0, .create [1], "1")] ∧
    st.store.nodesByLabel 1 = [1, 0] ∧
    (seqReplay (initStore 1) [(.addLabel 0 1, 0), (.create [1], 1)]).1.nodesByLabel 1 = [0, 1] := by
  decide

/-! ### N: non-vacuity -/

/-- two creators, and a third thread that deletes, labels and unlabels the ids the creators are
about to get (node 0 exists from the start; ids 1 and 2 are handed out during the run). The four
schedules below were also run on the real store (`conc lpg 1
c0.1,p1.0=I1;c1,a0.1;d1,a1.2,r2.1,d2,a2.0 <sched>`): results and dumps equal the model's, verdict `ok`. -/
def nvProgs : List (List COp) :=
  [[.create [0, 1], .setProp 1 0 "I1"],
   [.create [1], .addLabel 0 1],
   [.delete 1, .addLabel 1 2, .remLabel 2 1, .delete 2, .addLabel 2 0]]

/-- the decidable content of `c20_lpg_create_stream` for one schedule: the run finishes, the threads
got `results`, the log lists `ops` (creates with the ids they returned), the sequential execution
of `ops` returns the logged results and reaches an observationally equal store -/
def nvCheck (sched : List Nat) (results : List (List String)) (ops : List (COp × Nat)) : Prop :=
  let st := finishAll 40 (runSched (init 1 nvProgs) sched)
  let q := seqReplay (initStore 1) ops
  st.threads.all (·.finished) = true ∧
  st.threads.map (·.results) = results ∧
  st.log.map (·.2.1) = ops.map (·.1) ∧
  st.log.map (·.2.2) = q.2 ∧
  st.store.nodes = q.1.nodes ∧ st.store.nprops = q.1.nprops ∧ st.store.pidx = q.1.pidx ∧
  st.store.nextNode = q.1.nextNode ∧
  (∀ x ∈ List.range 4, aget st.store.nodeLabels x = aget q.1.nodeLabels x) ∧
  (∀ l ∈ List.range 3, List.Perm (st.store.nodesByLabel l) (q.1.nodesByLabel l)) ∧
  consistent st.store = true

instance (sched : List Nat) (results : List (List String)) (ops : List (COp × Nat)) :
    Decidable (nvCheck sched results ops) := by unfold nvCheck; infer_instance

/-- **N** — round-robin: the deleter's `delete_node(1)` / `add_label(1, …)` hit id 1 while its create
is in flight (answers `false`); `remove_label(2, L1)` and `delete_node(2)` hit node 2 after its
create completed (answers `true`); creates complete out of id order (2 before 1). -/
theorem nv_round_robin :
    nvCheck [0, 1, 2, 0, 1, 2, 0, 1, 2, 0, 1, 2, 0, 1, 2, 0, 1, 2]
      [["1", "-"], ["2", "1"], ["0", "0", "1", "1", "0"]]
      [(.delete 1, 0), (.addLabel 1 2, 0), (.create [1], 2), (.create [0, 1], 1), (.remLabel 2 1, 0),
       (.addLabel 0 1, 0), (.setProp 1 0 "I1", 0), (.delete 2, 0), (.addLabel 2 0, 0)] := by
  decide

/-- **N** — the deleter overtakes both creators between their sections; node 2 is created and
labelled by another thread afterwards -/
theorem nv_overtaking :
    nvCheck [0, 0, 1, 1, 2, 2, 2, 2, 0, 2, 2, 1, 1, 2, 2, 0, 0]
      [["1", "-"], ["2", "1"], ["0", "0", "0", "0", "1"]]
      [(.delete 1, 0), (.addLabel 1 2, 0), (.remLabel 2 1, 0), (.delete 2, 0), (.create [1], 2),
       (.addLabel 2 0, 0), (.create [0, 1], 1), (.setProp 1 0 "I1", 0), (.addLabel 0 1, 0)] := by
  decide

/-- **N** — the other allocation order (thread 1 gets id 1, thread 0 gets id 2): a freshly created
node gets a label from another thread, another one is deleted right after its create -/
theorem nv_other_ids :
    nvCheck [1, 0, 0, 0, 2, 2, 1, 1, 1, 2, 2, 2, 2, 0, 0, 2, 2, 2, 2]
      [["2", "-"], ["1", "1"], ["0", "1", "0", "1", "0"]]
      [(.delete 1, 0), (.create [1], 1), (.addLabel 1 2, 0), (.remLabel 2 1, 0), (.create [0, 1], 2),
       (.delete 2, 0), (.addLabel 2 0, 0), (.setProp 1 0 "I1", 0), (.addLabel 0 1, 0)] := by
  decide

/-- **N** — the empty schedule (threads run one after the other): the sequential baseline -/
theorem nv_sequential :
    nvCheck []
      [["1", "-"], ["2", "1"], ["1", "0", "1", "1", "0"]]
      [(.create [0, 1], 1), (.setProp 1 0 "I1", 0), (.create [1], 2), (.addLabel 0 1, 0), (.delete 1, 0),
       (.addLabel 1 2, 0), (.remLabel 2 1, 0), (.delete 2, 0), (.addLabel 2 0, 0)] := by
  decide

/-! ### every thread finishes: the hypothesis of `c20_lpg_create_stream` discharged -/

/-- an upper bound on the critical sections an operation takes -/
def opCost : COp → Nat
  | .create ls => ls.length + 4
  | _ => 2

def pcCost : Pc → Nat
  | .idle => 0
  | .crLabel _ todo _ => todo.length + 3
  | .crNodeLabels _ _ => 2
  | .crNodes _ _ => 1
  | .del _ => 1
  | .addUpd _ _ => 1
  | .remUpd _ _ => 1
  | .setP _ _ _ => 1
  | .remP _ _ => 1

def cost (t : Thread) : Nat := pcCost t.pc + (t.todo.map opCost).sum

theorem cost_finished (t : Thread) (h : t.finished = true) : cost t = 0 := by
  obtain ⟨pc, todo, res⟩ := t
  unfold Thread.finished at h
  simp only [Bool.and_eq_true, beq_iff_eq, List.isEmpty_iff] at h
  obtain ⟨rfl, rfl⟩ := h
  rfl

theorem stepThread_cost (i : Nat) (s : Store) (log : List (Nat × COp × String)) (t : Thread)
    (h : t.finished = false) : cost (stepThread i s log t).2.2 < cost t := by
  obtain ⟨pc, todo, res⟩ := t
  cases pc with
  | idle =>
    cases todo with
    | nil => simp [Thread.finished] at h
    | cons op rest =>
      cases op with
      | create ls =>
        cases ls with
        | nil => simp [stepThread, cost, pcCost, opCost]
        | cons l ls => simp [stepThread, cost, pcCost, opCost]
      | delete id => simp [stepThread, cost, pcCost, opCost]
      | addLabel id l =>
        simp only [stepThread]
        split <;> simp [cost, pcCost, opCost, done]
      | remLabel id l =>
        simp only [stepThread]
        split <;> simp [cost, pcCost, opCost, done]
      | setProp id k v => simp [stepThread, cost, pcCost, opCost]
      | remProp id k => simp [stepThread, cost, pcCost, opCost]
  | crLabel id todo' all =>
    cases todo' with
    | nil => simp [stepThread, cost, pcCost]
    | cons l more =>
      cases more with
      | nil => simp [stepThread, cost, pcCost]
      | cons m ms => simp [stepThread, cost, pcCost]
  | crNodeLabels id all => simp [stepThread, cost, pcCost]
  | crNodes id all => simp [stepThread, cost, pcCost, done]
  | del id => simp [stepThread, cost, pcCost, done]
  | addUpd id l => simp [stepThread, cost, pcCost, done]
  | remUpd id l => simp [stepThread, cost, pcCost, done]
  | setP id k v => simp [stepThread, cost, pcCost, done]
  | remP id k => simp [stepThread, cost, pcCost, done]

theorem stepThread_finished (i : Nat) (s : Store) (log : List (Nat × COp × String)) (t : Thread)
    (h : t.finished = true) : (stepThread i s log t).2.2 = t := by
  obtain ⟨pc, todo, res⟩ := t
  unfold Thread.finished at h
  simp only [Bool.and_eq_true, beq_iff_eq, List.isEmpty_iff] at h
  obtain ⟨rfl, rfl⟩ := h
  rfl

theorem step_other (st : State) (i j : Nat) (h : j ≠ i) : (step st i).threads[j]? = st.threads[j]? := by
  unfold step
  cases hti : st.threads[i]? with
  | none => rfl
  | some t => simp only; rw [List.getElem?_set_ne (fun e => h e.symm)]

theorem step_self (st : State) (i : Nat) (t : Thread) (h : st.threads[i]? = some t) :
    (step st i).threads[i]? = some (stepThread i st.store st.log t).2.2 := by
  unfold step
  rw [h]
  simp only
  exact getElem?_set_self' st.threads i t _ h

theorem finishThread_other (fuel : Nat) (st : State) (i j : Nat) (h : j ≠ i) :
    (finishThread fuel st i).threads[j]? = st.threads[j]? := by
  induction fuel generalizing st with
  | zero => rfl
  | succ n ih =>
    unfold finishThread
    cases hti : st.threads[i]? with
    | none => rfl
    | some t =>
      simp only
      split
      · rfl
      · rw [ih (step st i), step_other st i j h]

theorem finishThread_none (fuel : Nat) (st : State) (i : Nat) (h : st.threads[i]? = none) :
    finishThread fuel st i = st := by
  cases fuel with
  | zero => rfl
  | succ n => unfold finishThread; rw [h]

theorem finishThread_self (fuel : Nat) (st : State) (i : Nat) (t : Thread) (h : st.threads[i]? = some t)
    (hc : cost t ≤ fuel) : ∃ t', (finishThread fuel st i).threads[i]? = some t' ∧ t'.finished = true := by
  induction fuel generalizing st t with
  | zero =>
    refine ⟨t, h, ?_⟩
    cases hf : t.finished with
    | true => rfl
    | false =>
      have := stepThread_cost i st.store st.log t hf
      omega
  | succ n ih =>
    unfold finishThread
    rw [h]
    simp only
    cases hf : t.finished with
    | true => exact ⟨t, h, hf⟩
    | false =>
      simp only [Bool.false_eq_true, if_false]
      have hlt := stepThread_cost i st.store st.log t hf
      exact ih (step st i) _ (step_self st i t h) (by omega)

/-- `finishAll` with enough fuel for the most expensive thread leaves every thread finished -/
theorem finishAll_finished (fuel : Nat) (st : State) (h : ∀ t ∈ st.threads, cost t ≤ fuel) :
    ∀ t ∈ (finishAll fuel st).threads, t.finished = true := by
  unfold finishAll
  have key : ∀ (l : List Nat) (st : State), (∀ (j : Nat) (t : Thread), st.threads[j]? = some t → cost t ≤ fuel) →
      (∀ (j : Nat) (t : Thread), (l.foldl (finishThread fuel) st).threads[j]? = some t →
        cost t ≤ fuel ∧ ((j ∈ l ∨ ∃ t0, st.threads[j]? = some t0 ∧ t0.finished = true) → t.finished = true)) := by
    intro l
    induction l with
    | nil =>
      intro st hst j t hj
      simp only [List.foldl_nil] at hj
      refine ⟨hst j t hj, ?_⟩
      rintro (a | ⟨t0, h0, hf⟩)
      · cases a
      · rw [hj] at h0; cases h0; exact hf
    | cons i l ih =>
      intro st hst j t hj
      simp only [List.foldl_cons] at hj
      have hst' : ∀ (j : Nat) (t : Thread), (finishThread fuel st i).threads[j]? = some t → cost t ≤ fuel := by
        intro j t hj
        by_cases hji : j = i
        · subst hji
          cases hti : st.threads[j]? with
          | none =>
            rw [finishThread_none fuel st j hti, hti] at hj; cases hj
          | some t0 =>
            obtain ⟨t', h1, h2⟩ := finishThread_self fuel st j t0 hti (hst j t0 hti)
            rw [hj] at h1; cases h1
            rw [cost_finished t h2]; exact Nat.zero_le _
        · rw [finishThread_other fuel st i j hji] at hj
          exact hst j t hj
      obtain ⟨a, b⟩ := ih (finishThread fuel st i) hst' j t hj
      refine ⟨a, ?_⟩
      intro hcase
      apply b
      rcases hcase with hmem | ⟨t0, h0, hf⟩
      · rcases List.mem_cons.mp hmem with rfl | hmem'
        · right
          have hlen : (l.foldl (finishThread fuel) (finishThread fuel st j)).threads[j]? = some t := hj
          cases hti : st.threads[j]? with
          | none =>
            have := finishThread_none fuel st j hti
            -- thread j does not exist: but the fold never creates threads
            exfalso
            have frame : ∀ (l : List Nat) (st : State), st.threads[j]? = none →
                (l.foldl (finishThread fuel) st).threads[j]? = none := by
              intro l
              induction l with
              | nil => intro st h; exact h
              | cons k l ih2 =>
                intro st h
                simp only [List.foldl_cons]
                apply ih2
                by_cases hk : j = k
                · subst hk
                  rw [finishThread_none fuel st j h]; exact h
                · rw [finishThread_other fuel st k j hk]; exact h
            rw [this] at hlen
            rw [frame l st hti] at hlen
            cases hlen
          | some t0 => exact finishThread_self fuel st j t0 hti (hst j t0 hti)
        · exact Or.inl hmem'
      · right
        by_cases hji : j = i
        · subst hji
          exact finishThread_self fuel st j t0 h0 (hst j t0 h0)
        · exact ⟨t0, by rw [finishThread_other fuel st i j hji]; exact h0, hf⟩
  intro t ht
  obtain ⟨j, hj⟩ := List.getElem?_of_mem ht
  have hst : ∀ (j : Nat) (t : Thread), st.threads[j]? = some t → cost t ≤ fuel := fun j t hj => h t (List.mem_of_getElem? hj)
  have hlenEq : ∀ (l : List Nat) (st : State), (l.foldl (finishThread fuel) st).threads.length = st.threads.length := by
    intro l
    induction l with
    | nil => intro st; rfl
    | cons k l ih2 =>
      intro st
      simp only [List.foldl_cons]
      rw [ih2]
      have : ∀ (fuel : Nat) (st : State), (finishThread fuel st k).threads.length = st.threads.length := by
        intro fuel
        induction fuel with
        | zero => intro st; rfl
        | succ n ih3 =>
          intro st
          unfold finishThread
          cases hti : st.threads[k]? with
          | none => rfl
          | some t =>
            simp only
            split
            · rfl
            · rw [ih3]; unfold step; rw [hti]; simp
      exact this fuel st
  refine (key (List.range st.threads.length) st hst j t hj).2 (Or.inl ?_)
  rw [List.mem_range]
  have hlt : j < ((List.range st.threads.length).foldl (finishThread fuel) st).threads.length := by
    rcases Nat.lt_or_ge j ((List.range st.threads.length).foldl (finishThread fuel) st).threads.length with h' | h'
    · exact h'
    · rw [List.getElem?_eq_none h'] at hj; cases hj
  rw [hlenEq] at hlt
  exact hlt

theorem step_cost_le (fuel : Nat) (st : State) (i : Nat) (h : ∀ t ∈ st.threads, cost t ≤ fuel) :
    ∀ t ∈ (step st i).threads, cost t ≤ fuel := by
  intro t ht
  unfold step at ht
  cases hti : st.threads[i]? with
  | none => rw [hti] at ht; exact h t ht
  | some t0 =>
    rw [hti] at ht
    simp only at ht
    rcases List.mem_or_eq_of_mem_set ht with ht' | rfl
    · exact h t ht'
    · have h0 := h t0 (List.mem_of_getElem? hti)
      cases hf : t0.finished with
      | true => rw [stepThread_finished i st.store st.log t0 hf]; exact h0
      | false => have := stepThread_cost i st.store st.log t0 hf; omega

theorem runSched_cost_le (fuel : Nat) (st : State) (sched : List Nat) (h : ∀ t ∈ st.threads, cost t ≤ fuel) :
    ∀ t ∈ (runSched st sched).threads, cost t ≤ fuel := by
  unfold runSched
  induction sched generalizing st with
  | nil => exact h
  | cons i rest ih => exact ih (step st i) (step_cost_le fuel st i h)

/-- **F (full)** — `c20_lpg_create_stream` without its hypothesis: with fuel for the longest program
(`opCost`: 2 per operation, `4 + number of labels` per create) every thread finishes, so results
and final store are those of the sequential execution of the log. -/
theorem c20_lpg_create_stream_total (n0 : Nat) (progs : List (List COp)) (sched : List Nat) (fuel : Nat)
    (hfuel : ∀ p ∈ progs, (p.map opCost).sum ≤ fuel) :
    let st := finishAll fuel (runSched (init n0 progs) sched)
    (∀ t ∈ st.threads, t.finished = true) ∧
    (∃ r, SeqRun (initStore n0) st.log r ∧ ObsEq st.store r) ∧
    ∀ i t, st.threads[i]? = some t → t.results = myResults i st.log := by
  have h0 : ∀ t ∈ (init n0 progs).threads, cost t ≤ fuel := by
    intro t ht
    simp only [init, List.mem_map] at ht
    obtain ⟨p, hp, rfl⟩ := ht
    simp only [cost, pcCost, Nat.zero_add]
    exact hfuel p hp
  have hfin := finishAll_finished fuel _ (runSched_cost_le fuel _ sched h0)
  exact ⟨hfin, c20_lpg_create_stream n0 progs sched fuel hfin⟩

theorem sum_opCost_le (p : List COp) (h : ∀ op ∈ p, opCost op ≤ 6) : (p.map opCost).sum ≤ 6 * p.length := by
  induction p with
  | nil => simp
  | cons op rest ih =>
    have h1 := h op List.mem_cons_self
    have h2 := ih (fun o ho => h o (List.mem_cons_of_mem _ ho))
    simp only [List.map_cons, List.sum_cons, List.length_cons]
    omega

theorem length_le_sum_lengths (progs : List (List COp)) (p : List COp) (hp : p ∈ progs) :
    p.length ≤ (progs.map List.length).sum := by
  induction progs with
  | nil => cases hp
  | cons q rest ih =>
    simp only [List.map_cons, List.sum_cons]
    rcases List.mem_cons.mp hp with rfl | h
    · omega
    · have := ih h; omega

/-- **F (full)** — with the fuel the stream's driver uses (`Driver/Conc.lean`, `handleLpg`): for
programs whose creates carry at most two labels (what the generator emits), the line the driver
prints is a finished run whose results and store are those of the sequential execution of the log. -/
theorem c20_lpg_create_stream_driver (n0 : Nat) (progs : List (List COp)) (sched : List Nat)
    (hlab : ∀ p ∈ progs, ∀ op ∈ p, opCost op ≤ 6) :
    let st := finishAll (6 * (progs.map List.length).sum + 6) (runSched (init n0 progs) sched)
    (∀ t ∈ st.threads, t.finished = true) ∧
    (∃ r, SeqRun (initStore n0) st.log r ∧ ObsEq st.store r) ∧
    ∀ i t, st.threads[i]? = some t → t.results = myResults i st.log := by
  apply c20_lpg_create_stream_total
  intro p hp
  have h1 := sum_opCost_le p (hlab p hp)
  have h2 := length_le_sum_lengths progs p hp
  omega

/-- **W** — the hypothesis of `c20_lpg_create_stream_driver` is needed: a create with ten labels
takes thirteen sections, the driver's fuel for a one-operation program is twelve, and the model
driver prints an unfinished thread (`conc lpg 1 c0.1.2.0.1.2.0.1.2.0 -`: implementation `res=1`,
model driver `res=-`). A limit of `Driver/Conc.lean`, not of the store; the generator emits at most
two labels per create. -/
theorem w_driver_fuel_short :
    let progs : List (List COp) := [[.create [0, 1, 2, 0, 1, 2, 0, 1, 2, 0]]]
    (finishAll (6 * (progs.map List.length).sum + 6) (runSched (init 1 progs) [])).threads.all (·.finished) = false := by
  decide

end Grafeo.LpgConc
