/-
Model of the join-order search of the optimizer (C09), as the code is:

* `optimizer/join_order.rs`: `BitSet` (a `u64`; here a `Nat` read through `testBit`), `JoinGraph`
  (`add_edge`, `get_conditions`, `are_connected`, `neighbors`), `JoinGraphBuilder` (a condition whose
  variable is no relation is ignored), `DPccp::optimize` (0 relations / more than 16 → `None`, one
  relation → that relation, otherwise the memo table over subsets and `enumerate_ccp`),
  `enumerate_ccp` (all proper non-empty subsets `s1` of `s` in DEscending numeric order, `s2 = s − s1`,
  both connected, connected to each other, recursive solution of sub-problems that are not in the
  memo yet, the candidate `Join(memo[s1], memo[s2], get_conditions(s1, s2))`, replaced only by a
  strictly cheaper one), `is_connected` (search from the lowest member), `build_join_plan`.
* `optimizer/mod.rs`: `reorder_joins` / `extract_join_tree` / `collect_join_tree` /
  `optimize_join_order` for a left-deep tree of scans: relations in leaf order, conditions in
  post-order, the tree DPccp answers replaces the plan, `None` keeps the plan.

REPAIRED behaviour (commit COMMIT, findings C09-joinorder-cond-flipped / -self-cond-dropped):
`plan_join` resolves a condition in either orientation (`appliedConds`; the join-order search still
hands a condition over as written, whichever way round the new join's inputs are), and
`collect_join_tree` refuses a join tree with a condition over a single variable (`hasSelf`). The
former behaviour is kept as `Old.*` (regression theorems in `Props/C09Join.lean`).

Statistics and the cost model enter as an ARBITRARY comparison `lt new existing` ("the new
candidate is strictly cheaper"); `costLt` is the instance that decides like the real `f64` cost
model on statistics without ties (used by the driver only).

The memo table is a `HashMap` that is never iterated (only `get` / `insert` / `contains_key`), so an
association list keyed by the subset is a faithful model. The only hash-ordered iteration is
`neighbors()` inside `is_connected`, whose answer (is the visited set the whole subset?) does not
depend on the visiting order; it is modelled as a fixpoint.
-/
namespace Grafeo.JoinOrder

/-- join condition `id` (its position in the list given to the builder): left expression over
relation `frm`, right expression over relation `to` -/
structure Edge where
  id : Nat
  frm : Nat
  to : Nat
deriving DecidableEq, Repr

inductive Tree where
  | leaf (i : Nat)
  | join (l r : Tree) (cs : List Edge)
deriving DecidableEq, Repr

structure Graph where
  n : Nat
  edges : List Edge

/-! ## BitSet -/

def has (s i : Nat) : Bool := s.testBit i
def single (i : Nat) : Nat := 2 ^ i
def full (n : Nat) : Nat := 2 ^ n - 1
/-- `self.0 & !other.0` -/
def diff (a b : Nat) : Nat := a ^^^ (a &&& b)

/-- `SubsetIterator` without the full and the empty set (both skipped by `enumerate_ccp`):
descending numeric order -/
def submasks (s : Nat) : List Nat :=
  (List.range s).reverse.filter (fun x => x != 0 && x &&& s == x)

/-! ## JoinGraph -/

/-- `JoinGraphBuilder::add_join_condition`: a condition over an unknown relation is ignored -/
def build (n : Nat) (es : List Edge) : Graph :=
  { n := n, edges := es.filter (fun e => e.frm < n && e.to < n) }

def crosses (s1 s2 : Nat) (e : Edge) : Bool :=
  (has s1 e.frm && has s2 e.to) || (has s2 e.frm && has s1 e.to)

/-- `JoinGraph::get_conditions`: the conditions of the crossing edges, as written -/
def getConditions (g : Graph) (s1 s2 : Nat) : List Edge := g.edges.filter (crosses s1 s2)

def areConnected (g : Graph) (s1 s2 : Nat) : Bool := g.edges.any (crosses s1 s2)

def members (n s : Nat) : List Nat := (List.range n).filter (fun i => has s i)

def adjacent (g : Graph) (i j : Nat) : Bool :=
  g.edges.any (fun e => (e.frm == i && e.to == j) || (e.frm == j && e.to == i))

def grow (g : Graph) (sub vis : List Nat) : List Nat :=
  sub.filter (fun j => vis.contains j || vis.any (fun i => adjacent g i j))

def iter {α} (f : α → α) : Nat → α → α
  | 0, a => a
  | k + 1, a => iter f k (f a)

/-- `DPccp::is_connected` -/
def isConnected (g : Graph) (s : Nat) : Bool :=
  match members g.n s with
  | [] => true
  | [_] => true
  | a :: rest => (iter (grow g (a :: rest)) g.n [a]).length == (a :: rest).length

/-! ## the memo table and `enumerate_ccp` -/

abbrev Memo := List (Nat × Tree)

def get (m : Memo) (s : Nat) : Option Tree :=
  match m with
  | [] => none
  | (k, t) :: rest => if k = s then some t else get rest s

def insert (m : Memo) (s : Nat) (t : Tree) : Memo := (s, t) :: m

/-- one iteration of the loop body of `enumerate_ccp(s)` for the subset `s1` -/
def step (rec : Nat → Memo → Memo) (g : Graph) (lt : Tree → Tree → Bool) (s : Nat) (memo : Memo)
    (s1 : Nat) : Memo :=
  if s1 = 0 ∨ s1 = s then memo
  else
    let s2 := diff s s1
    if s2 = 0 then memo
    else if !(isConnected g s1) || !(isConnected g s2) then memo
    else if !(areConnected g s1 s2) then memo
    else
      let memo1 := if (get memo s1).isSome then memo else rec s1 memo
      let memo2 := if (get memo1 s2).isSome then memo1 else rec s2 memo1
      match get memo2 s1, get memo2 s2 with
      | some p1, some p2 =>
        let new := Tree.join p1 p2 (getConditions g s1 s2)
        match get memo2 s with
        | none => insert memo2 s new
        | some ex => if lt new ex then insert memo2 s new else memo2
      | _, _ => memo2

/-- `enumerate_ccp`; the recursion goes to proper subsets, `fuel` = number of relations suffices -/
def enumerate (g : Graph) (lt : Tree → Tree → Bool) : Nat → Nat → Memo → Memo
  | 0, _, memo => memo
  | fuel + 1, s, memo => (submasks s).foldl (step (enumerate g lt fuel) g lt s) memo

def initMemo (n : Nat) : Memo :=
  (List.range n).foldl (fun m i => insert m (single i) (.leaf i)) []

/-- `MAX_REORDERED_RELATIONS` -/
def maxReordered : Nat := 16

/-- `DPccp::optimize` -/
def optimize (g : Graph) (lt : Tree → Tree → Bool) : Option Tree :=
  if g.n = 0 then none
  else if g.n > maxReordered then none
  else if g.n = 1 then some (.leaf 0)
  else get (enumerate g lt g.n (full g.n) (initMemo g.n)) (full g.n)

/-! ## what a join tree contains -/

def leaves : Tree → List Nat
  | .leaf i => [i]
  | .join l r _ => leaves l ++ leaves r

def condsOf : Tree → List Edge
  | .leaf _ => []
  | .join l r cs => condsOf l ++ condsOf r ++ cs

def crossesL (L R : List Nat) (e : Edge) : Bool :=
  (L.contains e.frm && R.contains e.to) || (R.contains e.frm && L.contains e.to)

/-- every condition sits at a join whose two sides hold its two relations, one each -/
def covered : Tree → Bool
  | .leaf _ => true
  | .join l r cs => cs.all (crossesL (leaves l) (leaves r)) && covered l && covered r

/-- the left expression of the condition is over the left input, the right one over the right input -/
def orientedAt (L R : List Nat) (e : Edge) : Bool := L.contains e.frm && R.contains e.to

/-- every condition sits at a join whose left input holds the relation of its left expression and
whose right input holds the relation of its right expression -/
def oriented : Tree → Bool
  | .leaf _ => true
  | .join l r cs => cs.all (orientedAt (leaves l) (leaves r)) && oriented l && oriented r

/-- the planner's hash join (`plan_join`, repaired) resolves a condition side by side in either
orientation and skips one it cannot resolve -/
def appliedConds : Tree → List Edge
  | .leaf _ => []
  | .join l r cs => appliedConds l ++ appliedConds r ++ cs.filter (crossesL (leaves l) (leaves r))

/-- `plan_join` before the repair: left expression in the left input only -/
def Old.appliedConds : Tree → List Edge
  | .leaf _ => []
  | .join l r cs => Old.appliedConds l ++ Old.appliedConds r ++ cs.filter (orientedAt (leaves l) (leaves r))

def flippedConds : Tree → List Edge
  | .leaf _ => []
  | .join l r cs =>
    flippedConds l ++ flippedConds r ++
      cs.filter (fun e => !(orientedAt (leaves l) (leaves r) e) && orientedAt (leaves r) (leaves l) e)

def uncoveredConds : Tree → List Edge
  | .leaf _ => []
  | .join l r cs =>
    uncoveredConds l ++ uncoveredConds r ++ cs.filter (fun e => !(crossesL (leaves l) (leaves r) e))

/-! ## `optimizer/mod.rs`: a left-deep plan in, the reordered plan out -/

/-- the join of a left-deep plan that carries a condition: the one adding its later relation -/
def level (e : Edge) : Nat := max (max e.frm e.to) 1

def leftDeepGo (es : List Edge) : Nat → Nat → Tree → Tree
  | 0, _, acc => acc
  | k + 1, lvl, acc => leftDeepGo es k (lvl + 1) (.join acc (.leaf lvl) (es.filter (fun e => level e == lvl)))

/-- `((r0 ⋈ r1) ⋈ r2) …` over `n ≥ 1` relations -/
def leftDeep (n : Nat) (es : List Edge) : Tree := leftDeepGo es (n - 1) 1 (.leaf 0)

/-- `collect_join_tree` on the left-deep plan: the conditions in post-order -/
def extractConds (n : Nat) (es : List Edge) : List Edge :=
  (List.range n).flatMap (fun lvl => es.filter (fun e => level e == lvl))

/-- a condition whose two expressions speak about the same variable -/
def hasSelf (es : List Edge) : Bool := es.any (fun e => e.frm == e.to)

/-- `reorder_joins` on the left-deep plan (repaired: `collect_join_tree` refuses a tree with a
condition over a single variable) -/
def reorder (n : Nat) (es : List Edge) (lt : Tree → Tree → Bool) : Tree :=
  if n < 2 ∨ hasSelf es = true then leftDeep n es
  else
    match optimize (build n (extractConds n es)) lt with
    | some t => t
    | none => leftDeep n es

/-- `reorder_joins` before the repair -/
def Old.reorder (n : Nat) (es : List Edge) (lt : Tree → Tree → Bool) : Tree :=
  if n < 2 then leftDeep n es
  else
    match optimize (build n (extractConds n es)) lt with
    | some t => t
    | none => leftDeep n es

/-! ## the cost model on statistics without ties (driver only)

`estimate_join`: `max(1, l · r · 0.1^k)`; `join_cost` (inner): total = `10.04·√c + 0.01·c`; scan costs
are the same in every candidate for one subset. Exact arithmetic: a cardinality is `num / 10^k`. -/

def isqrtGo : Nat → Nat → Nat → Nat
  | 0, _, x => x
  | fuel + 1, n, x => let y := (x + n / x) / 2; if y < x then isqrtGo fuel n y else x

def isqrt (n : Nat) : Nat := if n = 0 then 0 else isqrtGo 200 n (2 ^ (n.log2 / 2 + 1))

def cardQ (cards : List Nat) : Tree → Nat × Nat
  | .leaf i => (cards.getD i 1000, 0)
  | .join l r cs =>
    let a := cardQ cards l
    let b := cardQ cards r
    let num := a.1 * b.1
    let k := a.2 + b.2 + cs.length
    if num < 10 ^ k then (1, 0) else (num, k)

def digits : Nat := 40

/-- total cost of the joins of a tree, scaled by `100 · 10^digits` -/
def treeCost (cards : List Nat) : Tree → Nat
  | .leaf _ => 0
  | .join l r cs =>
    let c := cardQ cards (.join l r cs)
    treeCost cards l + treeCost cards r
      + 1004 * isqrt (c.1 * 10 ^ (2 * digits - c.2)) + c.1 * 10 ^ (digits - c.2)

def costLt (cards : List Nat) (new ex : Tree) : Bool := treeCost cards new < treeCost cards ex

/-! ## rows under the planner's reading of a join tree (`jo rows`) -/

def tuples : List (List Nat) → List (List Nat)
  | [] => [[]]
  | m :: rest => m.flatMap (fun x => (tuples rest).map (fun t => x :: t))

def holds (t : List Nat) (e : Edge) : Bool := t.getD e.frm 0 == t.getD e.to 0

/-- rows of a join tree over relations `members` when exactly the conditions `cs` are applied -/
def rowsWith (members : List (List Nat)) (cs : List Edge) : List (List Nat) :=
  (tuples members).filter (fun t => cs.all (holds t))

end Grafeo.JoinOrder
