import GrafeoModel.Model.Graph
/-
C19, stream `alg2` — executable models of the graph algorithms' OWN code
(`crates/grafeo-adapters/src/plugins/algorithms/{traversal,components,shortest_path,mst}.rs`),
transcribed loop by loop.  `Model/Graph.lean` holds the specification (walks, reachability,
distances) and the result checkers; this file holds what the Rust functions do.

Conventions
* the store holds the nodes `0 .. n-1` (`store.node_ids()` is sorted, so `node_to_idx` is the
  identity) and the edges `es` in creation order; `store.edges_from(u, Outgoing)` yields the
  out-edges of `u` in creation order (`adj`);
* a `VecDeque`/`Vec` is a `List`; a hash set that receives the same inserts as a vector at the same
  program points is represented by that vector (`discovered`/`visited` in `bfs`);
* a `while` loop whose termination needs an argument takes fuel; `Props/C19Algo.lean` proves that
  the fuel handed over by the top-level function is never exhausted (for the functions that have a
  theorem there), so the fuel is invisible in the result;
* where the real code iterates a hash map (initial queue of `topological_sort`) or pops a
  `BinaryHeap` (tie order in `dijkstra`) the model takes one fixed order; outputs compared with the
  implementation are the order-independent part.

Import-free apart from `Model/Graph.lean` (linked into `gdriver`).
-/
namespace Grafeo.Algo2
open Grafeo.Graph

/-- `store.edges_from(u, Direction::Outgoing)` as target nodes -/
def adj (es : List Edge) (u : Nat) : List Nat :=
  (es.filter fun e => e.1 == u).map fun e => e.2.1

/-- the out-edges of `u` with their weights -/
def outEdges (es : List Edge) (u : Nat) : List Edge := es.filter fun e => e.1 == u

/-- `store.edges_from(u, Direction::Incoming)` as source nodes -/
def inc (es : List Edge) (u : Nat) : List Nat :=
  (es.filter fun e => e.2.1 == u).map fun e => e.1

/-! ### traversal.rs: `bfs` (= `bfs_with_visitor` with a visitor that records `Discover`) -/

/-- the `for (neighbor, _) in edges_from(node)` loop: a neighbour that `discovered.insert`s is
recorded (`visited.push`) and enqueued (`queue.push_back`) -/
def bfsScan : List Nat → List Nat → List Nat → List Nat × List Nat
  | vis, q, [] => (vis, q)
  | vis, q, v :: vs =>
    if vis.contains v then bfsScan vis q vs else bfsScan (vis ++ [v]) (q ++ [v]) vs

/-- `while let Some(node) = queue.pop_front()` -/
def bfsLoop (es : List Edge) : Nat → List Nat → List Nat → List Nat
  | 0, vis, _ => vis
  | _ + 1, vis, [] => vis
  | f + 1, vis, u :: q =>
    let r := bfsScan vis q (adj es u)
    bfsLoop es f r.1 r.2

/-- `bfs(store, start)`: the nodes in discovery order; empty when `start` is not a node -/
def bfs (n : Nat) (es : List Edge) (s : Nat) : List Nat :=
  if s < n then bfsLoop es (es.length + 1) [s] [s] else []

/-! ### traversal.rs: `bfs_layers` -/

/-- `for &node in &current_layer { for neighbor … }` -/
def layerNodes (es : List Edge) : List Nat → List Nat → List Nat → List Nat × List Nat
  | disc, next, [] => (disc, next)
  | disc, next, u :: cur =>
    let r := bfsScan disc next (adj es u)
    layerNodes es r.1 r.2 cur

/-- `while !current_layer.is_empty()` -/
def layersLoop (es : List Edge) : Nat → List Nat → List Nat → List (List Nat) → List (List Nat)
  | 0, _, _, acc => acc
  | f + 1, disc, cur, acc =>
    if cur.isEmpty then acc
    else
      let r := layerNodes es disc [] cur
      layersLoop es f r.1 r.2 (acc ++ [cur])

def bfsLayers (n : Nat) (es : List Edge) (s : Nat) : List (List Nat) :=
  if s < n then layersLoop es (es.length + 2) [s] [s] [] else []

/-! ### traversal.rs: `dfs` (= `dfs_with_visitor` with a visitor that records `Finish`) -/

/-- `while let Some((node, neighbors, idx)) = stack.last_mut()`: a frame is the node and the
neighbours not yet looked at; `seen` are the keys of the colour map (Gray or Black — the plain
`dfs` treats both alike); `fin` collects the `Finish` events -/
def dfsLoop (es : List Edge) : Nat → List Nat → List (Nat × List Nat) → List Nat → List Nat
  | 0, _, _, fin => fin
  | _ + 1, _, [], fin => fin
  | f + 1, seen, (u, []) :: st, fin => dfsLoop es f seen st (fin ++ [u])
  | f + 1, seen, (u, v :: vs) :: st, fin =>
    if seen.contains v then dfsLoop es f seen ((u, vs) :: st) fin
    else dfsLoop es f (v :: seen) ((v, adj es v) :: (u, vs) :: st) fin

/-- `dfs(store, start)`: post-order -/
def dfs (n : Nat) (es : List Edge) (s : Nat) : List Nat :=
  if s < n then dfsLoop es (2 * es.length + 2) [s] [(s, adj es s)] [] else []

/-! ### components.rs: `UnionFind` -/

/-- `v[i]` for an index vector; an index outside the vector (a panic in Rust, never reached by
`connected_components`/`kruskal`) reads as a root -/
def get (l : List Nat) (i : Nat) : Nat := l.getD i i

structure UF where
  parent : List Nat
  rank : List Nat

/-- `UnionFind::new(n)` -/
def UF.new (n : Nat) : UF := ⟨List.range n, List.replicate n 0⟩

/-- `find` with path compression, on the parent vector:
`if parent[x] != x { parent[x] = find(parent[x]) }; parent[x]` -/
def findF : Nat → List Nat → Nat → List Nat × Nat
  | 0, p, x => (p, x)
  | f + 1, p, x =>
    if get p x != x then
      let r := findF f p (get p x)
      (r.1.set x r.2, r.2)
    else (p, x)

/-- the recursion depth of `find` is at most the rank of the root it reaches, hence at most the
sum of all ranks (`Props/C19Algo.lean: findF_spec`) -/
def UF.fuel (u : UF) : Nat := u.rank.sum + 1

def UF.find (u : UF) (x : Nat) : UF × Nat :=
  let r := findF u.fuel u.parent x
  (⟨r.1, u.rank⟩, r.2)

/-- `union` by rank; `true` when two sets were merged -/
def UF.union (u : UF) (x y : Nat) : UF × Bool :=
  let a := u.find x
  let b := a.1.find y
  let rx := a.2
  let ry := b.2
  let v := b.1
  if rx == ry then (v, false)
  else
    let kx := v.rank.getD rx 0
    let ky := v.rank.getD ry 0
    if kx < ky then (⟨v.parent.set rx ry, v.rank⟩, true)
    else if ky < kx then (⟨v.parent.set ry rx, v.rank⟩, true)
    else (⟨v.parent.set ry rx, v.rank.set rx (kx + 1)⟩, true)

def UF.connected (u : UF) (x y : Nat) : UF × Bool :=
  let a := u.find x
  let b := a.1.find y
  (b.1, a.2 == b.2)

/-! ### components.rs: `connected_components` -/

/-- the `uf.union(idx, neighbor_idx)` calls in program order: per node, its out-neighbours, then
its in-neighbours -/
def ccPairs (n : Nat) (es : List Edge) : List (Nat × Nat) :=
  (List.range n).flatMap fun u =>
    ((adj es u).map fun v => (u, v)) ++ ((inc es u).map fun v => (u, v))

def unionAll (u : UF) (ps : List (Nat × Nat)) : UF :=
  ps.foldl (fun u p => (u.union p.1 p.2).1) u

/-- the result loop: `root = uf.find(idx)`; a root seen for the first time gets the next
component id (`root_to_component.entry(root).or_insert_with`) -/
def labelLoop : UF → List (Nat × Nat) → Nat → List Nat → List Nat → List Nat
  | _, _, _, [], acc => acc
  | u, m, nx, i :: is, acc =>
    let r := u.find i
    match m.lookup r.2 with
    | some c => labelLoop r.1 m nx is (acc ++ [c])
    | none => labelLoop r.1 ((r.2, nx) :: m) (nx + 1) is (acc ++ [nx])

/-- the union-find after all edges were processed -/
def ccUF (n : Nat) (es : List Edge) : UF := unionAll (UF.new n) (ccPairs n es)

/-- `connected_components(store)`: entry `i` is the component id of node `i` -/
def connectedComponents (n : Nat) (es : List Edge) : List Nat :=
  if n == 0 then [] else labelLoop (ccUF n es) [] 0 (List.range n) []

/-! ### components.rs: `topological_sort` (Kahn) -/

def bump (d : List Nat) (v : Nat) : List Nat := d.set v (d.getD v 0 + 1)

/-- `*in_degree.entry(neighbor).or_default() += 1` over all out-edges of all nodes -/
def inDegrees (n : Nat) (es : List Edge) : List Nat :=
  ((List.range n).flatMap (adj es)).foldl bump (List.replicate n 0)

/-- `for (neighbor, _) in edges_from(node) { *deg -= 1; if *deg == 0 { queue.push(neighbor) } }`;
the queue is a `Vec` used as a stack, head of the list = top -/
def kahnScan : List Nat → List Nat → List Nat → List Nat × List Nat
  | d, q, [] => (d, q)
  | d, q, v :: vs =>
    let dv := d.getD v 0 - 1
    if dv == 0 then kahnScan (d.set v dv) (v :: q) vs else kahnScan (d.set v dv) q vs

/-- `while let Some(node) = queue.pop()` -/
def kahnLoop (es : List Edge) : Nat → List Nat → List Nat → List Nat → List Nat
  | 0, _, _, res => res
  | _ + 1, _, [], res => res
  | f + 1, d, u :: q, res =>
    let r := kahnScan d q (adj es u)
    kahnLoop es f r.1 r.2 (res ++ [u])

/-- the nodes of in-degree 0; the real code collects them from a hash-map iteration (any order),
the model pushes them in ascending order -/
def kahnInit (n : Nat) (d : List Nat) : List Nat :=
  ((List.range n).filter fun v => d.getD v 1 == 0).reverse

/-- `topological_sort(store)`, started from the stack `init` -/
def kahnFrom (n : Nat) (es : List Edge) (init : List Nat) : Option (List Nat) :=
  if n == 0 then some []
  else
    let res := kahnLoop es (n + 1) (inDegrees n es) init []
    if res.length == n then some res else none

def kahn (n : Nat) (es : List Edge) : Option (List Nat) :=
  kahnFrom n es (kahnInit n (inDegrees n es))

/-! ### mst.rs: `kruskal` -/

/-- all edges, met as out-edges of their source, nodes in id order -/
def edgesByNode (n : Nat) (es : List Edge) : List Edge := (List.range n).flatMap (outEdges es)

/-- insert behind every element that is not heavier (stable) -/
def insW (e : Edge) : List Edge → List Edge
  | [] => [e]
  | x :: xs => if e.2.2 < x.2.2 then e :: x :: xs else x :: insW e xs

/-- `edges.sort_by(weight)` — Rust's `sort_by` is stable -/
def sortW (l : List Edge) : List Edge := l.foldl (fun acc e => insW e acc) []

/-- `for (weight, src, dst, _) in edges { if uf.find(i) != uf.find(j) { uf.union(i, j); push;
if len == n - 1 { break } } }` -/
def kruskalLoop (n : Nat) : UF → List Edge → List Edge → Int → List Edge × Int
  | _, [], mst, tot => (mst, tot)
  | u, e :: rest, mst, tot =>
    let a := u.find e.1
    let b := a.1.find e.2.1
    if a.2 != b.2 then
      let u3 := (b.1.union e.1 e.2.1).1
      let mst' := mst ++ [e]
      if mst'.length == n - 1 then (mst', tot + e.2.2)
      else kruskalLoop n u3 rest mst' (tot + e.2.2)
    else kruskalLoop n b.1 rest mst tot

def kruskal (n : Nat) (es : List Edge) : List Edge × Int :=
  if n == 0 then ([], 0) else kruskalLoop n (UF.new n) (sortW (edgesByNode n es)) [] 0

/-! ### shortest_path.rs: `dijkstra`, `bellman_ford` (integer weights) -/

/-- `distances.insert(k, v)` on an association list (keeps the position of an existing key) -/
def dIns : List (Nat × Int) → Nat → Int → List (Nat × Int)
  | [], k, v => [(k, v)]
  | (a, b) :: t, k, v => if a == k then (k, v) :: t else (a, b) :: dIns t k v

/-- `heap.pop()`: a minimum-score entry (the first one of the list; which of several equal scores a
`BinaryHeap` yields is not specified) -/
def popMin : List (Int × Nat) → Option ((Int × Nat) × List (Int × Nat))
  | [] => none
  | x :: xs =>
    match popMin xs with
    | none => some (x, [])
    | some (m, rest) => if m.1 < x.1 then some (m, x :: rest) else some (x, xs)

/-- the neighbour loop of `dijkstra` -/
def relaxAll : List (Nat × Int) → List (Int × Nat) → Int → List Edge →
    List (Nat × Int) × List (Int × Nat)
  | dist, heap, _, [] => (dist, heap)
  | dist, heap, d, e :: rest =>
    let nd := d + e.2.2
    let better := match dist.lookup e.2.1 with
      | none => true
      | some c => decide (nd < c)
    if better then relaxAll (dIns dist e.2.1 nd) (heap ++ [(nd, e.2.1)]) d rest
    else relaxAll dist heap d rest

/-- `while let Some(MinScored(dist, node)) = heap.pop()`; `none` = out of fuel -/
def dijkstraLoop (es : List Edge) : Nat → List (Nat × Int) → List (Int × Nat) →
    Option (List (Nat × Int))
  | 0, _, _ => none
  | f + 1, dist, heap =>
    match popMin heap with
    | none => some dist
    | some ((d, u), heap') =>
      let stale := match dist.lookup u with
        | some best => decide (d > best)
        | none => false
      if stale then dijkstraLoop es f dist heap'
      else
        let r := relaxAll dist heap' d (outEdges es u)
        dijkstraLoop es f r.1 r.2

/-- `dijkstra(store, source, weight)`: the distance map. With non-negative weights every edge is
relaxed at most once, so at most `|es| + 1` entries are ever pushed. -/
def dijkstra (n : Nat) (es : List Edge) (s : Nat) : Option (List (Nat × Int)) :=
  if s < n then dijkstraLoop es (es.length + 2) [(s, 0)] [(0, s)] else some []

/-- one pass over all edges; the flag is `changed` -/
def bfRound : List Edge → List (Nat × Int) → Bool → List (Nat × Int) × Bool
  | [], dist, ch => (dist, ch)
  | e :: rest, dist, ch =>
    match dist.lookup e.1 with
    | none => bfRound rest dist ch
    | some du =>
      let nd := du + e.2.2
      let better := match dist.lookup e.2.1 with
        | none => true
        | some c => decide (nd < c)
      if better then bfRound rest (dIns dist e.2.1 nd) true else bfRound rest dist ch

/-- `for _ in 0..n-1 { …; if !changed { break } }` -/
def bfRounds (edges : List Edge) : Nat → List (Nat × Int) → List (Nat × Int)
  | 0, dist => dist
  | k + 1, dist =>
    let r := bfRound edges dist false
    if r.2 then bfRounds edges k r.1 else r.1

/-- the final pass: some edge can still be relaxed -/
def bfNeg (edges : List Edge) (dist : List (Nat × Int)) : Bool :=
  edges.any fun e =>
    match dist.lookup e.1, dist.lookup e.2.1 with
    | some du, some dv => decide (du + e.2.2 < dv)
    | _, _ => false

/-- `bellman_ford(store, source, weight)`: distance map and `has_negative_cycle` -/
def bellmanFord (n : Nat) (es : List Edge) (s : Nat) : List (Nat × Int) × Bool :=
  if s < n then
    let edges := edgesByNode n es
    let dist := bfRounds edges (n - 1) [(s, 0)]
    (dist, bfNeg edges dist)
  else ([], false)

end Grafeo.Algo2
