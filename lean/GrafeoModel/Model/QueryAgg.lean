import GrafeoModel.Model.Query
import GrafeoModel.Model.F64

/-!
# Grouping and aggregates (C08), and the Gremlin / GraphQL front ends

As-is model of `crates/grafeo-core/src/execution/operators/aggregate.rs` (`AggregateState::{new,
update, finalize}`, `SimpleAggregateOperator`, `HashAggregateOperator`), of the way
`planner.rs::plan_aggregate` lays out and types the output columns, and of the plans the Gremlin
and GraphQL translators build — next to the specification (aggregates ignore nulls; the sum of
integers is an integer; avg is a float; min / max use the value order; row layout follows RETURN).

Floats are IEEE-754 binary64 bit patterns (`Nat` below `2^64`); addition, division, `i64 as f64`
and `str::parse::<f64>` are computed exactly (rational arithmetic, round to nearest even), so every
definition here is evaluable by the kernel.  No imports beyond the C08 core model: linked into
`gdriver`.
-/
namespace Grafeo.QueryAgg
open Grafeo.Query Grafeo.F64

/-! ## binary64 arithmetic on bit patterns -/

def fInf : Nat := 0x7FF0000000000000
def fNaN : Nat := 0x7FF8000000000000
def signOf (neg : Bool) : Nat := if neg then 2 ^ 63 else 0

def bitLength (n : Nat) : Nat := if n = 0 then 0 else Nat.log2 n + 1

/-- is `n / d ≥ 2 ^ e` ? -/
def geScaled (n d : Nat) (e : Int) : Bool :=
  if e ≥ 0 then decide (n ≥ d * 2 ^ e.toNat) else decide (n * 2 ^ (-e).toNat ≥ d)

/-- ⌊log₂ (n / d)⌋ for positive `n`, `d` -/
def floorLog2Q (n d : Nat) : Int :=
  let e0 : Int := (bitLength n : Int) - (bitLength d : Int)
  if geScaled n d e0 then e0 else e0 - 1

/-- round half to even -/
def roundHalfEven (N D : Nat) : Nat :=
  let q := N / D
  let r := N % D
  if 2 * r > D ∨ (2 * r = D ∧ q % 2 = 1) then q + 1 else q

/-- the binary64 nearest to `± n / d` (ties to even; overflow to ±inf; gradual underflow) -/
def roundQ (neg : Bool) (n d : Nat) : Nat :=
  if n = 0 ∨ d = 0 then signOf neg
  else
    let e := floorLog2Q n d
    let s : Int := if e ≥ -1022 then 52 - e else 1074
    let N := if s ≥ 0 then n * 2 ^ s.toNat else n
    let D := if s ≥ 0 then d else d * 2 ^ (-s).toNat
    let q := roundHalfEven N D
    let base := if e ≥ -1022 then (e + 1022).toNat * 2 ^ 52 else 0
    let bits := base + q
    signOf neg + (if bits ≥ fInf then fInf else bits)

/-- magnitude of a finite pattern as a fraction `(num, den)` -/
def toQ (b : Nat) : Nat × Nat :=
  let E := expField b
  let F := fracField b
  if E = 0 then (F, 2 ^ 1074)
  else if E ≥ 1075 then ((2 ^ 52 + F) * 2 ^ (E - 1075), 1)
  else (2 ^ 52 + F, 2 ^ (1075 - E))

def isInf (b : Nat) : Bool := expField b == 2047 && fracField b == 0
def fNeg (b : Nat) : Bool := signBit b == 1

/-- the signed numerator of `a` over the common denominator `(toQ a).2 * (toQ b).2` -/
def signedNum (a other : Nat) : Int :=
  let m : Int := ((toQ a).1 * (toQ other).2 : Nat)
  if fNeg a then -m else m

/-- `a + b` on `f64` (any NaN is returned as the canonical quiet NaN) -/
def fadd (a b : Nat) : Nat :=
  if isNaN a || isNaN b then fNaN
  else if isInf a then (if isInf b && fNeg a != fNeg b then fNaN else a)
  else if isInf b then b
  else
    let s : Int := signedNum a b + signedNum b a
    if s = 0 then (if fNeg a && fNeg b then 2 ^ 63 else 0)
    else roundQ (decide (s < 0)) s.natAbs ((toQ a).2 * (toQ b).2)

/-- `a / b` on `f64` -/
def fdiv (a b : Nat) : Nat :=
  if isNaN a || isNaN b then fNaN
  else
    let neg := fNeg a != fNeg b
    if isInf a then (if isInf b then fNaN else signOf neg + fInf)
    else if isInf b then signOf neg
    else if mag b = 0 then (if mag a = 0 then fNaN else signOf neg + fInf)
    else if mag a = 0 then signOf neg
    else roundQ neg ((toQ a).1 * (toQ b).2) ((toQ a).2 * (toQ b).1)

/-- `i as f64` -/
def ofInt (i : Int) : Nat := roundQ (decide (i < 0)) i.natAbs 1

/-! ### `str::parse::<f64>()` (core::num::dec2flt): `[+-]? (digits [. digits] | . digits) ([eE] [+-]? digits)?`
or, case-insensitively, `inf`, `infinity`, `nan`; correctly rounded -/

def isDig (c : Char) : Bool := '0' ≤ c && c ≤ '9'

def digitsVal (ds : List Char) : Nat := ds.foldl (fun a c => 10 * a + (c.toNat - 48)) 0

def decDigits (m : Nat) : Nat := (Nat.repr m).length

/-- `± m × 10^e10` to the nearest double -/
def decToF64 (neg : Bool) (m : Nat) (e10 : Int) : Nat :=
  if m = 0 then signOf neg
  else
    let magn : Int := (decDigits m : Int) + e10
    if magn > 310 then signOf neg + fInf
    else if magn < -330 then signOf neg
    else if e10 ≥ 0 then roundQ neg (m * 10 ^ e10.toNat) 1
    else roundQ neg m (10 ^ (-e10).toNat)

/-- the exponent part after `e` / `E`: `[+-]? digit+`, to the end of the input -/
def parseExp (s : List Char) : Option Int :=
  let negr : Bool × List Char := match s with
    | '-' :: r => (true, r)
    | '+' :: r => (false, r)
    | _ => (false, s)
  let ds := negr.2
  if ds.isEmpty || !ds.all isDig then none
  else some (if negr.1 then -(digitsVal ds : Int) else (digitsVal ds : Int))

/-- mantissa digits (dot removed) and decimal exponent -/
def parseNumber (s : List Char) : Option (Nat × Int) :=
  let ip := s.takeWhile isDig
  let r1 := s.dropWhile isDig
  let fpr : List Char × List Char := match r1 with
    | '.' :: r => (r.takeWhile isDig, r.dropWhile isDig)
    | _ => ([], r1)
  let fp := fpr.1
  let r2 := fpr.2
  if ip.length + fp.length = 0 then none
  else
    let m := digitsVal (ip ++ fp)
    match r2 with
    | [] => some (m, -(fp.length : Int))
    | c :: r3 =>
      if c == 'e' || c == 'E' then (parseExp r3).map (fun e => (m, e - (fp.length : Int)))
      else none

def parseF64 (s : List Char) : Option Nat :=
  let negr : Bool × List Char := match s with
    | '-' :: r => (true, r)
    | '+' :: r => (false, r)
    | _ => (false, s)
  let r := negr.2
  if r.isEmpty then none
  else match parseNumber r with
    | some (m, e10) => some (decToF64 negr.1 m e10)
    | none =>
      let l := r.map Char.toLower
      if l == ['n', 'a', 'n'] then some fNaN
      else if l == ['i', 'n', 'f'] || l == ['i', 'n', 'f', 'i', 'n', 'i', 't', 'y'] then some (signOf negr.1 + fInf)
      else none

/-! ## aggregate states (`AggregateState`) -/

/-- the values a property can have here: those of the core model plus floats (bit patterns) -/
inductive Val where
  | null
  | int (i : Int)
  | str (s : String)
  | float (bits : Nat)
  deriving DecidableEq, Repr

def lift : Query.Val → Val
  | .null => .null
  | .int i => .int i
  | .str s => .str s

/-- result values: the property values plus lists -/
inductive AVal where
  | null
  | int (i : Int)
  | str (s : String)
  | float (bits : Nat)
  | list (l : List Val)
  deriving DecidableEq, Repr

def ofVal : Val → AVal
  | .null => .null
  | .int i => .int i
  | .str s => .str s
  | .float b => .float b

/-- `AggregateFunction` (the ones of C08) -/
inductive AggFn where
  | count          -- `Count`: COUNT(*)
  | countNonNull   -- `CountNonNull`: what `count(x)` is translated to (GQL and Cypher)
  | sum | avg | min | max | collect
  deriving DecidableEq, Repr

/-- `AggregateExpr`: function, input column (none for COUNT(*)), DISTINCT -/
structure AggExpr where
  fn : AggFn
  col : Option Nat
  distinct : Bool
  deriving DecidableEq, Repr

inductive St where
  | count (n : Int)
  | countD (n : Int) (seen : List Val)
  | sumInt (s : Int)
  | sumIntD (s : Int) (seen : List Val)
  | sumFloat (f : Nat)
  | sumFloatD (f : Nat) (seen : List Val)
  | avg (s : Int) (f : Nat) (n : Int)         -- exact integer sum, float sum of the rest, count
  | avgD (s : Int) (f : Nat) (n : Int) (seen : List Val)
  | min (m : Option Val)
  | max (m : Option Val)
  | collect (l : List Val)
  | collectD (l : List Val) (seen : List Val)
  deriving DecidableEq, Repr

/-- `AggregateState::new` -/
def St.init (fn : AggFn) (distinct : Bool) : St :=
  match fn, distinct with
  | .count, false => .count 0
  | .countNonNull, false => .count 0
  | .count, true => .countD 0 []
  | .countNonNull, true => .countD 0 []
  | .sum, false => .sumInt 0
  | .sum, true => .sumIntD 0 []
  | .avg, false => .avg 0 0 0
  | .avg, true => .avgD 0 0 0 []
  | .min, _ => .min none
  | .max, _ => .max none
  | .collect, false => .collect []
  | .collect, true => .collectD [] []

/-- `value_to_f64`: integers convert, strings are parsed ("RDF stores numeric literals as strings") -/
def valueToF64 : Val → Option Nat
  | .int i => some (ofInt i)
  | .float b => some b
  | .str s => parseF64 s.toList
  | .null => none

def inI64 (i : Int) : Bool := decide (-(2 ^ 63 : Int) ≤ i) && decide (i < (2 ^ 63 : Int))

/-- `compare_values` of aggregate.rs on the value kinds a property can have here: numbers and
text that reads as a number compare by numeric value and come before all other text, which
compares lexicographically -/
def cmpStrStr (x y : String) : Option Ordering :=
  match parseF64 x.toList, parseF64 y.toList with
  | some fx, some fy => partialCmp fx fy
  | some _, none => some .lt
  | none, some _ => some .gt
  | none, none => some (compare x y)

def cmpStrInt (s : String) (i : Int) : Option Ordering :=
  match parseF64 s.toList with
  | some fs => partialCmp fs (ofInt i)
  | none => some .gt

def cmpIntStr (i : Int) (s : String) : Option Ordering :=
  match parseF64 s.toList with
  | some fs => partialCmp (ofInt i) fs
  | none => some .lt

def cmpStrFloat (s : String) (f : Nat) : Option Ordering :=
  match parseF64 s.toList with
  | some fs => partialCmp fs f
  | none => some .gt

def cmpFloatStr (f : Nat) (s : String) : Option Ordering :=
  match parseF64 s.toList with
  | some fs => partialCmp f fs
  | none => some .lt

/-- the exact value of a double, times 2^1074 (an integer for every finite pattern; infinities sit
above all finite values) -/
def scaledMag (b : Nat) : Nat :=
  if expField b = 0 then fracField b else (2 ^ 52 + fracField b) * 2 ^ (expField b - 1)

def scaledF (b : Nat) : Int := if fNeg b then -(scaledMag b : Int) else (scaledMag b : Int)

def revOrdering : Ordering → Ordering
  | .lt => .gt | .gt => .lt | .eq => .eq

/-- `compare_int_float`: an integer against a float by their exact values (no answer for NaN) -/
def cmpIntFloat (i : Int) (f : Nat) : Option Ordering :=
  if isNaN f then none else some (compare (i * 2 ^ 1074) (scaledF f))

def cmpAgg (a b : Val) : Option Ordering :=
  match a, b with
  | .int x, .int y => some (compare x y)
  | .float x, .float y => partialCmp x y
  | .int x, .float y => cmpIntFloat x y
  | .float x, .int y => (cmpIntFloat y x).map revOrdering
  | .str x, .str y => cmpStrStr x y
  | .str s, .int i => cmpStrInt s i
  | .int i, .str s => cmpIntStr i s
  | .str s, .float f => cmpStrFloat s f
  | .float f, .str s => cmpFloatStr f s
  | _, _ => none

def minStep (cur : Option Val) (v : Val) : Option Val :=
  match cur with
  | none => some v
  | some c => if cmpAgg v c = some .lt then some v else some c

def maxStep (cur : Option Val) (v : Val) : Option Val :=
  match cur with
  | none => some v
  | some c => if cmpAgg v c = some .gt then some v else some c

/-- the integer sum is kept in 128 bits (here: an unbounded integer — 2^64 addends of 64 bits fit) -/
def sumIntStep (s : Int) (v : Val) : St :=
  match v with
  | .int i => .sumInt (s + i)
  | .float x => .sumFloat (fadd (ofInt s) x)            -- "convert to float sum": `*sum as f64 + v`
  | .str t => (match parseF64 t.toList with
               | some x => .sumFloat (fadd (ofInt s) x)
               | none => .sumInt s)
  | .null => .sumInt s

def sumIntDStep (s : Int) (seen : List Val) (v : Val) : St :=
  if seen.contains v then .sumIntD s seen
  else match v with
    | .int i => .sumIntD (s + i) (v :: seen)
    | .float x => .sumFloatD (fadd (ofInt s) x) (v :: seen)
    | .str t => (match parseF64 t.toList with
                 | some x => .sumFloatD (fadd (ofInt s) x) (v :: seen)
                 | none => .sumIntD s (v :: seen))
    | .null => .sumIntD s (v :: seen)

def sumFloatStep (f : Nat) (v : Val) : Nat :=
  match valueToF64 v with
  | some x => fadd f x
  | none => f

/-- AVG: integers are summed exactly, the other numeric inputs (numeric text) in a float -/
def avgStep (s : Int) (f : Nat) (n : Int) (v : Val) : St :=
  match v with
  | .int i => .avg (s + i) f (n + 1)
  | .float x => .avg s (fadd f x) (n + 1)
  | .str t => (match parseF64 t.toList with
               | some x => .avg s (fadd f x) (n + 1)
               | none => .avg s f n)
  | .null => .avg s f n

/-- `AggregateState::update(Some(v))` -/
def St.update (st : St) (v : Val) : St :=
  match st with
  | .count n => .count (n + 1)
  | .countD n seen => if seen.contains v then .countD n seen else .countD (n + 1) (v :: seen)
  | .sumInt s => sumIntStep s v
  | .sumIntD s seen => sumIntDStep s seen v
  | .sumFloat f => .sumFloat (sumFloatStep f v)
  | .sumFloatD f seen => if seen.contains v then .sumFloatD f seen else .sumFloatD (sumFloatStep f v) (v :: seen)
  | .avg s f n => avgStep s f n v
  | .avgD s f n seen =>
    if seen.contains v then .avgD s f n seen
    else (match avgStep s f n v with
          | .avg s' f' n' => .avgD s' f' n' (v :: seen)
          | other => other)
  | .min m => .min (minStep m v)
  | .max m => .max (maxStep m v)
  | .collect l => .collect (l ++ [v])
  | .collectD l seen => if seen.contains v then .collectD l seen else .collectD (l ++ [v]) (v :: seen)

/-- SUM: the integer total when it fits `i64`, otherwise the nearest float (`sum as f64`) -/
def sumOut (s : Int) : AVal := if inI64 s then .int s else .float (ofInt s)

/-- AVG: `(int_sum as f64 + float_sum) / count as f64` -/
def avgOut (s : Int) (f : Nat) (n : Int) : AVal :=
  if n = 0 then .null else .float (fdiv (fadd (ofInt s) f) (ofInt n))

/-- `AggregateState::finalize` -/
def St.finalize : St → AVal
  | .count n => .int n
  | .countD n _ => .int n
  | .sumInt s => sumOut s
  | .sumIntD s _ => sumOut s
  | .sumFloat f => .float f
  | .sumFloatD f _ => .float f
  | .avg s f n => avgOut s f n
  | .avgD s f n _ => avgOut s f n
  | .min m => ofVal (m.getD .null)
  | .max m => ofVal (m.getD .null)
  | .collect l => .list l
  | .collectD l _ => .list l

/-! ## the operators -/

abbrev Row := List Val

/-- one aggregate of one input row: COUNT(*) always counts; every other aggregate sees the value of
its column unless that value is missing or null -/
def feed (a : AggExpr) (st : St) (row : Row) : St :=
  if a.fn == .count && !a.distinct then st.update .null
  else match a.col.bind (fun c => row[c]?) with
    | some v => if v == .null then st else st.update v
    | none => st

def feedAll : List AggExpr → List St → Row → List St
  | a :: as, st :: sts, row => feed a st row :: feedAll as sts row
  | _, _, _ => []

def initAll (aggs : List AggExpr) : List St := aggs.map (fun a => St.init a.fn a.distinct)

/-- the states after all chunks have been consumed (`while let Some(chunk) = child.next()`) -/
def runChunks (aggs : List AggExpr) (sts : List St) (chunks : List (List Row)) : List St :=
  chunks.foldl (fun sts chunk => chunk.foldl (feedAll aggs) sts) sts

/-- `SimpleAggregateOperator`: one output row, also for empty input -/
def simpleAgg (aggs : List AggExpr) (chunks : List (List Row)) : List AVal :=
  (runChunks aggs (initAll aggs) chunks).map St.finalize

/-- `GroupKey::from_row`: every kind of value has its `GroupKeyPart` (a float by its bit pattern), and
`to_values` returns the value itself -/
def keyOf (groupCols : List Nat) (row : Row) : List Val := groupCols.map (fun c => row.getD c .null)

abbrev Groups := List (List Val × List St)

/-- `self.groups.entry(key).or_insert_with(init)` followed by the updates: the entry of the key is
updated, a new key is appended (IndexMap keeps insertion order) -/
def upsert (groupCols : List Nat) (aggs : List AggExpr) (gs : Groups) (row : Row) : Groups :=
  let k := keyOf groupCols row
  if gs.any (fun g => g.1 == k) then
    gs.map (fun g => if g.1 == k then (g.1, feedAll aggs g.2 row) else g)
  else gs ++ [(k, feedAll aggs (initAll aggs) row)]

def runGroups (groupCols : List Nat) (aggs : List AggExpr) (gs : Groups) (chunks : List (List Row)) : Groups :=
  chunks.foldl (fun gs chunk => chunk.foldl (upsert groupCols aggs) gs) gs

/-- `HashAggregateOperator`: key columns, then the aggregates, one row per group in first-seen order -/
def hashAgg (groupCols : List Nat) (aggs : List AggExpr) (chunks : List (List Row)) : List (List AVal) :=
  (runGroups groupCols aggs [] chunks).map (fun g => g.1.map ofVal ++ g.2.map St.finalize)

/-! ## specification of the aggregates

Nulls are ignored. `count` counts, `sum` of integers is the exact integer (when it leaves the
64-bit range the result is not constrained: the code continues with a float), `avg` is the exact
mean rounded once to a double, `sum` / `avg` of a value that is not a number is a type error; with floats among the inputs `sum` and `avg` are the exact sum / mean
of the exact values, rounded once (not constrained when an input is infinite or NaN); `min` / `max` pick the extremum of the value order (numbers before
strings, as in the engine's own total order `OrderableValue`; integers by value, strings by code
points — a string is a string, whatever it spells), `collect`
gathers the values. DISTINCT removes duplicates first. -/

inductive SRes where
  | ok (v : AVal)
  | err (what : String)
  | any                     -- not constrained by the specification
  deriving DecidableEq, Repr

def nonNull (vs : List Val) : List Val := vs.filter (· != .null)

/-- duplicates removed, first occurrences kept in place -/
def dedupFirst {α : Type} [BEq α] : List α → List α
  | [] => []
  | v :: vs => v :: (dedupFirst vs).filter (· != v)

abbrev dedupVals (vs : List Val) : List Val := dedupFirst vs

def isInt : Val → Bool
  | .int _ => true
  | _ => false

def intOf : Val → Int
  | .int i => i
  | _ => 0

def intSum (vs : List Val) : Int := (vs.map intOf).foldl (· + ·) 0

def isFloat : Val → Bool
  | .float _ => true
  | _ => false

/-- an integer or a finite float -/
def isNum : Val → Bool
  | .int _ => true
  | .float b => expField b != 2047
  | _ => false

/-- exact numeric value times 2^1074 -/
def scaledOf : Val → Int
  | .int i => i * 2 ^ 1074
  | .float b => scaledF b
  | _ => 0

def scaledSum (vs : List Val) : Int := (vs.map scaledOf).foldl (· + ·) 0

/-- the numeric value of a number, times 2^1074 (NaN has none) -/
def numK : Val → Option Int
  | .int i => some (i * 2 ^ 1074)
  | .float b => if isNaN b then none else some (scaledF b)
  | _ => none

def isStr : Val → Bool
  | .str _ => true
  | _ => false

def strLt : Val → Val → Bool
  | .str x, .str y => decide (x < y)
  | _, _ => false

/-- value order of the specification: numbers by their exact numeric value (an integer and a float
compare as the rationals they denote; NaN compares with nothing), numbers before strings, strings
by code points -/
def specLt (a b : Val) : Bool :=
  match numK a, numK b with
  | some x, some y => decide (x < y)
  | some _, none => isStr b
  | none, some _ => false
  | none, none => strLt a b

def specMin : List Val → Option Val
  | [] => none
  | v :: vs => match specMin vs with
    | none => some v
    | some m => if specLt m v then some m else some v

def specMax : List Val → Option Val
  | [] => none
  | v :: vs => match specMax vs with
    | none => some v
    | some m => if specLt v m then some m else some v

def isNaNVal : Val → Bool
  | .float b => isNaN b
  | _ => false

/-- `min` / `max` must return an extremum of the value order. The specification does not choose
among different values that rank the same (5 and 5.0, 0.0 and -0.0), and says nothing when a NaN is
among the inputs. -/
def minMaxOpen (m : Option Val) (vs : List Val) : Bool :=
  vs.any isNaNVal ||
  (match m with
   | some m => vs.any (fun x => x != m && !specLt m x && !specLt x m)
   | none => false)

/-- the exact mean `s / n` as a double -/
def meanF64 (s : Int) (n : Nat) : Nat := roundQ (decide (s < 0)) s.natAbs n

def specAgg (fn : AggFn) (distinct : Bool) (input : List Val) : SRes :=
  let vs0 := nonNull input
  let vs := if distinct then dedupVals vs0 else vs0
  match fn with
  | .count => .ok (.int input.length)            -- COUNT(*): rows
  | .countNonNull => .ok (.int vs.length)
  | .sum =>
    if vs.all isInt then (if inI64 (intSum vs) then .ok (.int (intSum vs)) else .any)
    else if !vs.all (fun v => isInt v || isFloat v) then .err "type"
    else if !vs.all isNum then .any                  -- an infinity or a NaN among the inputs
    else .ok (.float (roundQ (decide (scaledSum vs < 0)) (scaledSum vs).natAbs (2 ^ 1074)))
  | .avg =>
    if vs.all isInt then (if vs.isEmpty then .ok .null else .ok (.float (meanF64 (intSum vs) vs.length)))
    else if !vs.all (fun v => isInt v || isFloat v) then .err "type"
    else if !vs.all isNum then .any
    else .ok (.float (roundQ (decide (scaledSum vs < 0)) (scaledSum vs).natAbs (vs.length * 2 ^ 1074)))
  | .min => if minMaxOpen (specMin vs) vs then .any else .ok (ofVal ((specMin vs).getD .null))
  | .max => if minMaxOpen (specMax vs) vs then .any else .ok (ofVal ((specMax vs).getD .null))
  | .collect => .ok (.list vs)

/-! ## aggregate queries (GQL / Cypher `RETURN key…, agg(…)…`) -/

/-- what an aggregate ranges over: a property of a pattern variable or the variable itself -/
inductive Src where
  | prop (var key : Nat)
  | node (var : Nat)
  deriving DecidableEq, Repr

/-- the aggregate functions as written in the query text -/
inductive SFn where
  | countStar     -- `count(*)`
  | count | sum | avg | min | max | collect
  deriving DecidableEq, Repr

inductive Item where
  | key (var key : Nat)
  | agg (fn : SFn) (distinct : Bool) (src : Src)     -- `src` is ignored for `count(*)`
  deriving DecidableEq, Repr

structure AggQ where
  start : NodePat
  hops : List Hop
  preds : List Pred
  items : List Item
  orderBy : List (Nat × Bool)        -- (index into `items`, ascending?)
  skip : Option Nat
  limit : Option Nat
  deriving Repr

def AggQ.core (q : AggQ) : Q :=
  { start := q.start, hops := q.hops, preds := q.preds, ret := .countStar, distinct := false,
    orderBy := [], skip := none, limit := none }

/-- the float-valued properties of the graph: (node id, key, bit pattern). The core graph model has
no float values; a property listed here overrides what the node itself carries for that key. -/
abbrev FloatTab := List (Nat × Nat × Nat)

def ftLookup (ft : FloatTab) (id k : Nat) : Option Nat :=
  (ft.find? (fun e => e.1 == id && e.2.1 == k)).map (fun e => e.2.2)

def propX (ft : FloatTab) (n : Node) (k : Nat) : Val :=
  match ftLookup ft n.id k with
  | some bits => .float bits
  | none => lift (propOf n k)

def srcVal (ft : FloatTab) (b : Binding) : Src → Val
  | .prop v k => (match b[v]? with
    | some n => propX ft n k
    | none => .null)
  | .node v => match b[v]? with
    | some n => .int n.id          -- a node column reads as its id
    | none => .null

def Item.isKey : Item → Bool
  | .key _ _ => true
  | _ => false

def keyItems (items : List Item) : List Item := items.filter Item.isKey
def aggItems (items : List Item) : List Item := items.filter (fun i => !i.isKey)

/-- `try_extract_aggregate` (both translators): `count(x)` becomes `CountNonNull`; `count(*)` is
parsed as the argument-less `count()`, which becomes `Count` -/
def specFn : SFn → AggFn
  | .countStar => .count
  | .count => .countNonNull
  | .sum => .sum | .avg => .avg | .min => .min | .max => .max | .collect => .collect

def itemSrc : Item → Src
  | .key v k => .prop v k
  | .agg _ _ s => s

def keyVals (ft : FloatTab) (q : AggQ) (b : Binding) : List Val :=
  (keyItems q.items).map (fun i => srcVal ft b (itemSrc i))

def aggVals (ft : FloatTab) (q : AggQ) (b : Binding) : List Val :=
  (aggItems q.items).map (fun i => srcVal ft b (itemSrc i))

/-- the row handed to the aggregate operator: key columns, then one column per aggregate -/
def opRow (ft : FloatTab) (q : AggQ) (b : Binding) : Row := keyVals ft q b ++ aggVals ft q b

/-- the physical aggregate of an item whose input sits in column `c` -/
def physAgg (c : Nat) : Item → AggExpr
  | .agg fn d _ => { fn := specFn fn, col := some c, distinct := d }
  | .key _ _ => { fn := .count, col := none, distinct := false }

def physAggs (q : AggQ) : List AggExpr :=
  (aggItems q.items).zipIdx.map (fun (i, j) => physAgg ((keyItems q.items).length + j) i)

/-! ### ordering of result rows (`sort.rs`) -/

/-- `compare_values` of sort.rs: kinds that do not compare are "equal" -/
def cmpSort (a b : AVal) : Ordering :=
  match a, b with
  | .int x, .int y => compare x y
  | .str x, .str y => compare x y
  | .float x, .float y => (partialCmp x y).getD .eq
  | .int x, .float y => (partialCmp (ofInt x) y).getD .eq
  | .float x, .int y => (partialCmp x (ofInt y)).getD .eq
  | _, _ => .eq

/-- nulls last -/
def cmpSortNulls (a b : AVal) : Ordering :=
  match a, b with
  | .null, .null => .eq
  | .null, _ => .gt
  | _, .null => .lt
  | _, _ => cmpSort a b

def revOrd : Ordering → Ordering
  | .lt => .gt | .gt => .lt | .eq => .eq

def cmpRows (keys : List (Nat × Bool)) (a b : List AVal) : Ordering :=
  match keys with
  | [] => .eq
  | (i, asc) :: rest =>
    let c := cmpSortNulls (a.getD i .null) (b.getD i .null)
    let c := if asc then c else revOrd c
    if c == .eq then cmpRows rest a b else c

/-- stable insertion (`sort_by` is stable) -/
def insertStable (keys : List (Nat × Bool)) (x : List AVal) : List (List AVal) → List (List AVal)
  | [] => [x]
  | y :: ys => if cmpRows keys y x == .lt then y :: insertStable keys x ys else x :: y :: ys

def sortA (keys : List (Nat × Bool)) (rows : List (List AVal)) : List (List AVal) :=
  rows.foldr (insertStable keys) []

def window {α : Type} (skip limit : Option Nat) (rows : List α) : List α :=
  let rows := match skip with | some s => rows.drop s | none => rows
  match limit with | some n => rows.take n | none => rows

/-- result of a query: rows, or the class of the error -/
inductive Res where
  | rows (r : List (List AVal))
  | error (kind : String)
  | unconstrained
  deriving DecidableEq, Repr

/-- position of item `i` in the operator's output layout: keys first, then aggregates -/
def outPos (items : List Item) (i : Nat) : Nat :=
  match items[i]? with
  | some it =>
    if it.isKey then ((items.take i).filter Item.isKey).length
    else (keyItems items).length + ((items.take i).filter (fun x => !x.isKey)).length
  | none => 0

/-- the aggregate operator over the filtered bindings, as the planner sets it up: a simple
aggregate when there is no key, a hash aggregate otherwise. (The output vectors of `count` and
`avg` are typed Int64 / Float64 and always receive a value of that type or a null; those of `sum`,
`min`, `max`, `collect` are untyped. The factorized aggregate the planner chooses for `count` over
the variables of an unfiltered chain of two or more hops returns the same count.) -/
def aggRows (ft : FloatTab) (q : AggQ) (bs : List Binding) : List (List AVal) :=
  let kept := bs.filter (passes q.preds)
  let rows := kept.map (opRow ft q)
  let nk := (keyItems q.items).length
  if nk = 0 then [simpleAgg (physAggs q) [rows]] else hashAgg (List.range nk) (physAggs q) [rows]

def finishAgg (ft : FloatTab) (q : AggQ) (bs : List Binding) : Res :=
  let out := aggRows ft q bs
  let out := if q.orderBy.isEmpty then out else sortA (q.orderBy.map (fun (i, asc) => (outPos q.items i, asc))) out
  .rows (window q.skip q.limit out)

/-- as coded: the scan / expand pipeline feeds the aggregate operator -/
def Pipe.execAgg (ft : FloatTab) (g : Graph) (q : AggQ) : Res := finishAgg ft q (Pipe.bindings g q.core)

/-! ### specification: group the bindings that pass the predicate by their key values, evaluate
every aggregate on its group, lay the row out as RETURN lists it, then ORDER BY / SKIP / LIMIT -/

abbrev dedupKeys (ks : List (List Val)) : List (List Val) := dedupFirst ks

/-- the cells of one output row in RETURN order; `ks` holds the values of the keys not yet placed -/
def specCells (ft : FloatTab) (grp : List Binding) : List Val → List Item → List SRes
  | _, [] => []
  | ks, .key _ _ :: rest => .ok (ofVal (ks.headD .null)) :: specCells ft grp ks.tail rest
  | ks, .agg fn d s :: rest => specAgg (specFn fn) d (grp.map (fun b => srcVal ft b s)) :: specCells ft grp ks rest

def specRow (ft : FloatTab) (q : AggQ) (kept : List Binding) (k : List Val) : List SRes :=
  specCells ft (kept.filter (fun b => keyVals ft q b == k)) k q.items

def sresErr : SRes → Option String
  | .err e => some e
  | _ => none

def sresVal : SRes → AVal
  | .ok v => v
  | _ => .null

def sresAny : SRes → Bool
  | .any => true
  | _ => false

def finishSpec (ft : FloatTab) (q : AggQ) (bs : List Binding) : Res :=
  let kept := bs.filter (passes q.preds)
  let keys := if (keyItems q.items).isEmpty then [[]] else dedupKeys (kept.map (keyVals ft q))
  let cells := keys.map (specRow ft q kept)
  match (cells.flatten.filterMap sresErr).head? with
  | some e => .error e
  | none =>
    if cells.flatten.any sresAny then .unconstrained
    else
      let out := cells.map (fun r => r.map sresVal)
      let out := if q.orderBy.isEmpty then out else sortA q.orderBy out
      .rows (window q.skip q.limit out)

def Spec.evalAgg (ft : FloatTab) (g : Graph) (q : AggQ) : Res := finishSpec ft q (Spec.bindings g q.core)

/-! ## Gremlin (`gremlin_translator.rs`): a linear traversal
`g.V().hasLabel(l) {.has(…)}* {.out|in|both(t) {.hasLabel(l)} {.has(…)}*}* [.dedup()] [.order().by(k, dir)]
[.range|limit|skip] [.values(k)] [.dedup()] [.count()|sum()|mean()|min()|max()]` -/

inductive DedupAt where
  | none | nodes | values
  deriving DecidableEq, Repr

inductive GAgg where
  | count | sum | mean | min | max
  deriving DecidableEq, Repr

structure GremQ where
  start : NodePat
  hops : List Hop
  preds : List Pred
  order : Option (Nat × Bool)     -- `order().by('k', asc|desc)` on the current vertex
  skip : Option Nat
  limit : Option Nat
  proj : Option Nat               -- `values('k')`
  dedup : DedupAt
  agg : Option GAgg
  deriving Repr

def GremQ.core (q : GremQ) : Q :=
  { start := q.start, hops := q.hops, preds := q.preds, ret := .countStar, distinct := false,
    orderBy := [], skip := none, limit := none }

def lastProp (b : Binding) (k : Nat) : Val :=
  match b.getLast? with
  | some n => lift (propOf n k)
  | none => .null

def lastId (b : Binding) : Val :=
  match b.getLast? with
  | some n => .int n.id
  | none => .null

/-- `dedup()` = `Distinct` on the column of the current traverser (the translator names it, the
planner honours `DistinctOp.columns`): the first row for every current vertex is kept -/
def dedupByLast : List Binding → List Binding
  | [] => []
  | b :: bs => b :: (dedupByLast bs).filter (fun x => lastId x != lastId b)

def gAggFn : GAgg → AggFn
  | .count => .count | .sum => .sum | .mean => .avg | .min => .min | .max => .max

/-- stable sort of bindings by a property of their last vertex (`Sort` on `Property(current, k)`) -/
def sortByLast (k : Nat) (asc : Bool) (bs : List Binding) : List Binding :=
  (sortA [(0, asc)] (bs.zipIdx.map (fun (b, i) => [ofVal (lastProp b k), .int i]))).filterMap
    (fun sr => match sr with | [_, .int i] => bs[i.toNat]? | _ => none)

/-- the steps after the pattern, on a list of bindings (plan rows; their edge columns play no role) -/
def gremSteps (q : GremQ) (bs : List Binding) : List Val :=
  let bs := bs.filter (passes q.preds)
  let bs := if q.dedup == .nodes then dedupByLast bs else bs
  let bs := match q.order with
    | some (k, asc) => sortByLast k asc bs
    | none => bs
  let bs := window q.skip q.limit bs
  -- the current column: the projected value, or the vertex (read as its id)
  let vals : List Val := match q.proj with
    | some k => nonNull (bs.map (fun b => lastProp b k))     -- `values(k)`: only the values that exist
    | none => bs.map lastId
  if q.dedup == .values then dedupVals vals else vals

/-- as coded: `values(k)` filters on the presence of the property and projects it; the reducing
steps are the simple aggregate over the current column -/
def Pipe.execGremlin (g : Graph) (q : GremQ) : Res :=
  let vals := gremSteps q (Pipe.bindings g q.core)
  match q.agg with
  | none => .rows (vals.map (fun v => [ofVal v]))
  | some a => .rows [simpleAgg [{ fn := gAggFn a, col := some 0, distinct := false }] [vals.map (fun v => [v])]]

/-- specification (TinkerPop reading of the same steps over the enumeration of all bindings): a
traverser is its current element; `dedup()` compares current elements; `values(k)` yields the
property of those elements that have it; the reducing steps follow `specAgg` (unconstrained on an
empty stream, where Gremlin dialects differ) -/
def Spec.evalGremlin (g : Graph) (q : GremQ) : Res :=
  if q.order.isNone && (q.skip.isSome || q.limit.isSome) then .unconstrained
  else
    let vals := gremSteps q (Spec.bindings g q.core)
    match q.agg with
    | none => .rows (vals.map (fun v => [ofVal v]))
    | some .count => .rows [[.int vals.length]]
    | some a =>
      if vals.isEmpty then .unconstrained
      else match specAgg (gAggFn a) false vals with
        | .ok v => .rows [[v]]
        | .err e => .error e
        | .any => .unconstrained

/-! ## GraphQL (`graphql_translator.rs`): `{ label(args) { fields… type(args) { fields… … } } }`
root field = label scan, arguments = equality / `where: {k_op: v}` filters, scalar fields =
projected properties, a field with a selection set = an outgoing hop over that edge type -/

structure GqlQ where
  label : Nat
  hops : List Hop                  -- outgoing, typed, no target label
  preds : List Pred
  cols : List (Nat × Nat)          -- (level, key), level-major
  order : Option (Nat × Bool)      -- `orderBy: {k: ASC|DESC}` on the root
  skip : Option Nat
  first : Option Nat
  deriving Repr

def GqlQ.core (q : GqlQ) : Q :=
  { start := ⟨some q.label⟩, hops := q.hops, preds := q.preds, ret := .props q.cols, distinct := false,
    orderBy := [], skip := none, limit := none }

def projA (cols : List (Nat × Nat)) (b : Binding) : List AVal := (project cols b).map (fun v => ofVal (lift v))

def sortBindingsByRoot (k : Nat) (asc : Bool) (bs : List Binding) : List Binding :=
  (sortA [(0, asc)] (bs.zipIdx.map (fun (b, i) => [ofVal (lift (valAt b 0 k)), .int i]))).filterMap
    (fun sr => match sr with | [_, .int i] => bs[i.toNat]? | _ => none)

/-- the clauses after the pattern: `orderBy` sorts the bound rows by a property of the root
(the Sort sits below the projection of the selected fields), `skip` / `first` cut the projected rows -/
def gqlFinish (q : GqlQ) (bs : List Binding) : List (List AVal) :=
  let kept := bs.filter (passes q.preds)
  let kept := match q.order with
    | some (k, asc) => sortBindingsByRoot k asc kept
    | none => kept
  window q.skip q.first (kept.map (projA q.cols))

def Pipe.execGraphql (g : Graph) (q : GqlQ) : Res := .rows (gqlFinish q (Pipe.bindings g q.core))

def Spec.evalGraphql (g : Graph) (q : GqlQ) : Res :=
  if q.order.isNone && (q.skip.isSome || q.first.isSome) then .unconstrained
  else .rows (gqlFinish q (Spec.bindings g q.core))

/-- two sibling selections `{ l { k9 t1 { k9 } t2 { k9 } } }`: both hops leave the root.
As coded: the second Expand does not continue the first (`continues_chain`), so each is planned
as an ordinary Expand from the column of its own `from_variable` — the root for both. -/
def Pipe.execStar (g : Graph) (label t1 t2 : Nat) : Res :=
  let h1 : Hop := ⟨some t1, .out, ⟨none⟩⟩
  let h2 : Hop := ⟨some t2, .out, ⟨none⟩⟩
  .rows ((g.nodes.filter (labelOk ⟨some label⟩)).flatMap (fun a =>
    (Pipe.expandStep g h1 [a]).flatMap (fun ab =>
      (Pipe.expandStep g h2 [a]).map (fun ac => projA [(0, 9), (1, 9), (2, 9)] (ab ++ ac.drop 1)))))

def Spec.evalStar (g : Graph) (label t1 t2 : Nat) : Res :=
  let h1 : Hop := ⟨some t1, .out, ⟨none⟩⟩
  let h2 : Hop := ⟨some t2, .out, ⟨none⟩⟩
  .rows ((g.nodes.filter (labelOk ⟨some label⟩)).flatMap (fun a =>
    (Spec.extend g [h1] [a]).flatMap (fun ab =>
      (Spec.extend g [h2] [a]).map (fun ac => projA [(0, 9), (1, 9), (2, 9)] (ab ++ ac.drop 1)))))

end Grafeo.QueryAgg
