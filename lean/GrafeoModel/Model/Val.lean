import GrafeoModel.Model.F64
/-
Model of the value wrappers of `crates/grafeo-common/src/types/value.rs`:
`OrderedFloat64`, `OrderableValue` (eq / cmp / hash feed) and `HashableValue` (eq / hash feed).

`hashFeed` is the sequence of words the implementation feeds to the `Hasher` (compared with a
recording hasher in the harness); "equal values hash equally" is then `eq a b → feed a = feed b`.
-/
namespace Grafeo.Val
open Grafeo.F64

/-! ### OrderedFloat64 -/

def ofEq (a b : Nat) : Bool :=
  match isNaN a, isNaN b with
  | true, true => true
  | true, false => false
  | false, true => false
  | false, false => feq a b

def ofCmp (a b : Nat) : Ordering :=
  match isNaN a, isNaN b with
  | true, true => .eq
  | true, false => .gt
  | false, true => .lt
  | false, false => (partialCmp a b).getD .eq

/-- `Hash for OrderedFloat64` (repaired code): one canonical pattern for all NaNs and for ±0. -/
def ofHashFeed (a : Nat) : List Nat :=
  if isNaN a then [0x7FF8000000000000] else if mag a = 0 then [0] else [a]

/-! ### OrderableValue -/

inductive OV where
  | int (i : Int)
  | float (bits : Nat)
  | str (s : List Nat)      -- UTF-8 bytes
  | bool (b : Bool)
  | ts (micros : Int)
  deriving DecidableEq, Repr

def OV.ordinal : OV → Nat
  | .bool _ => 0 | .int _ => 1 | .float _ => 2 | .str _ => 3 | .ts _ => 4

/-- discriminant as fed to the hasher: declaration order Int64, Float64, String, Bool, Timestamp -/
def OV.discr : OV → Nat
  | .int _ => 0 | .float _ => 1 | .str _ => 2 | .bool _ => 3 | .ts _ => 4

/-- `f64_as_exact_i64`: the integer a float is exactly equal to, if there is one in `i64` range
(`(-TWO_POW_63..TWO_POW_63).contains(&f) && f.trunc() == f` then `f as i64`). -/
def f64AsExactI64 (b : Nat) : Option Int :=
  if fge b negTwoPow63 && flt b twoPow63 && feq (truncBits b) b then some (f64ToI64 b) else none

/-- `cmp_i64_f64` (repaired code): an integer against a float as numbers, no rounding of the
integer. NaN and everything from `2^63` on are above every `i64`, everything below `-2^63` is
below; otherwise compare with the integer part and let the fractional part decide a tie. -/
def cmpI64F64 (i : Int) (b : Nat) : Ordering :=
  if isNaN b || fge b twoPow63 then .lt
  else if flt b negTwoPow63 then .gt
  else
    let whole := truncBits b
    match compare i (f64ToI64 whole) with
    | .eq => (partialCmp whole b).getD .eq
    | o => o

def ovEq : OV → OV → Bool
  | .int a, .int b => a == b
  | .float a, .float b => ofEq a b
  | .str a, .str b => a == b
  | .bool a, .bool b => a == b
  | .ts a, .ts b => a == b
  | .int a, .float b => cmpI64F64 a b == .eq
  | .float b, .int a => cmpI64F64 a b == .eq
  | _, _ => false

/-- lexicographic order of byte strings (`str::cmp` on UTF-8 is bytewise) -/
def cmpBytes : List Nat → List Nat → Ordering
  | [], [] => .eq
  | [], _ :: _ => .lt
  | _ :: _, [] => .gt
  | a :: as, b :: bs => if a < b then .lt else if a > b then .gt else cmpBytes as bs

def ovCmp : OV → OV → Ordering
  | .int a, .int b => compare a b
  | .float a, .float b => ofCmp a b
  | .str a, .str b => cmpBytes a b
  | .bool a, .bool b => compare a.toNat b.toNat
  | .ts a, .ts b => compare a b
  | .int a, .float b => cmpI64F64 a b
  | .float a, .int b => (cmpI64F64 b a).swap
  | x, y => compare x.ordinal y.ordinal

/-- what `Hash for OrderableValue` feeds: discriminant, then the payload words; a float that
equals an integer is hashed as `Int64` of that integer (repaired code). -/
def ovHashFeed : OV → List Int
  | .int i => [0, i]
  | .float b =>
    match f64AsExactI64 b with
    | some i => [0, i]
    | none => 1 :: (ofHashFeed b).map Int.ofNat
  | .str s => 2 :: (s.map (fun (x : Nat) => Int.ofNat x) ++ [255])     -- `str::hash` feeds bytes then 0xff
  | .bool b => [3, if b then 1 else 0]
  | .ts t => [4, t]

/-! ### OrderableValue: the specification its `==`, `cmp` and `hash` are measured against

Every value has an order key: its class (Bool < numbers < String < Timestamp; `Int64` and
`Float64` share the class of numbers), for numbers the exact value times `2^1074` (an integer:
every finite `f64` is a multiple of `2^-1074`; ±infinity fall outside every finite value by the
same formula; all NaNs share one point above everything), for strings the bytes. Two values are
equal iff their keys are equal, and are ordered as their keys are ordered lexicographically
(`Props/C16.lean` proves that the model of the code computes exactly this). -/

/-- position of a float on the number line, scaled by `2^1074`; all NaNs share one point above
everything else -/
def fRank (b : Nat) : Int := if isNaN b then 2 ^ 2100 else scaled b

/-- an `i64` -/
def inI64 (i : Int) : Prop := -(2 ^ 63 : Int) ≤ i ∧ i < 2 ^ 63

/-- class (Bool, number, String, Timestamp), position on the number line (`· 2^1074`), bytes -/
structure OKey where
  cls : Nat
  num : Int
  str : List Nat
  deriving DecidableEq

def ovKey : OV → OKey
  | .bool b => ⟨0, if b then 1 else 0, []⟩
  | .int i => ⟨1, i * 2 ^ 1074, []⟩
  | .float b => ⟨1, fRank b, []⟩
  | .str s => ⟨3, 0, s⟩
  | .ts t => ⟨4, t, []⟩

def keyCmp (x y : OKey) : Ordering :=
  (compare x.cls y.cls).then ((compare x.num y.num).then (cmpBytes x.str y.str))

/-- the values of the type: `Int64` payloads are `i64`, `Float64` payloads are 64-bit patterns -/
def OV.inRange : OV → Prop
  | .int i => inI64 i
  | .float b => b < 2 ^ 64
  | _ => True

/-! ### OrderableValue before the repair (kept for the regression witnesses)

The pinned code compared `Int64` with `Float64` through the lossy `*a as f64` and hashed the
variant's own discriminant and payload. -/
namespace Old

def ovEq : OV → OV → Bool
  | .int a, .int b => a == b
  | .float a, .float b => ofEq a b
  | .str a, .str b => a == b
  | .bool a, .bool b => a == b
  | .ts a, .ts b => a == b
  | .int a, .float b => feq (i64ToF64 a) b
  | .float a, .int b => feq a (i64ToF64 b)
  | _, _ => false

def ovCmp : OV → OV → Ordering
  | .int a, .int b => compare a b
  | .float a, .float b => ofCmp a b
  | .str a, .str b => cmpBytes a b
  | .bool a, .bool b => compare a.toNat b.toNat
  | .ts a, .ts b => compare a b
  | .int a, .float b => ofCmp (i64ToF64 a) b
  | .float a, .int b => ofCmp a (i64ToF64 b)
  | x, y => compare x.ordinal y.ordinal

def ovHashFeed : OV → List Int
  | .int i => [0, i]
  | .float b => 1 :: (ofHashFeed b).map Int.ofNat
  | .str s => 2 :: (s.map (fun (x : Nat) => Int.ofNat x) ++ [255])
  | .bool b => [3, if b then 1 else 0]
  | .ts t => [4, t]

end Old

end Grafeo.Val

namespace Grafeo.Val
open Grafeo.F64

/-! ### HashableValue -/

inductive HV where
  | null
  | bool (b : Bool)
  | int (i : Int)
  | float (bits : Nat)
  | str (s : List Nat)
  | bytes (b : List Nat)
  | ts (micros : Int)
  | list (l : List HV)
  | map (m : List (List Nat × HV))     -- BTreeMap: entries in key order
  | vec (bits : List Nat)              -- f32 bit patterns
  deriving Repr

def HV.discr : HV → Nat
  | .null => 0 | .bool _ => 1 | .int _ => 2 | .float _ => 3 | .str _ => 4 | .bytes _ => 5
  | .ts _ => 6 | .list _ => 7 | .map _ => 8 | .vec _ => 9

mutual
/-- `PartialEq for HashableValue` -/
def hvEq : HV → HV → Bool
  | .float a, .float b => a == b                       -- by bits
  | .list a, .list b => hvEqList a b                   -- len check + zip/all
  | .map a, .map b => a.length == b.length && hvMapAll a b
  | .vec a, .vec b => a == b
  -- `_ => self.0 == other.0`: derived equality of the remaining same-variant pairs
  | .null, .null => true
  | .bool a, .bool b => a == b
  | .int a, .int b => a == b
  | .str a, .str b => a == b
  | .bytes a, .bytes b => a == b
  | .ts a, .ts b => a == b
  | _, _ => false
def hvEqList : List HV → List HV → Bool
  | [], [] => true
  | x :: xs, y :: ys => hvEq x y && hvEqList xs ys
  | _, _ => false
/-- `a.iter().all(|(k, v)| b.get(k).is_some_and(|bv| HashableValue(v) == HashableValue(bv)))` -/
def hvMapAll : List (List Nat × HV) → List (List Nat × HV) → Bool
  | [], _ => true
  | (k, v) :: rest, b => hvLookupEq k v b && hvMapAll rest b
def hvLookupEq (k : List Nat) (v : HV) : List (List Nat × HV) → Bool
  | [] => false
  | (k', bv) :: rest => if k == k' then hvEq v bv else hvLookupEq k v rest
end

mutual
/-- words fed to the hasher by `Hash for HashableValue` -/
def hvFeed : HV → List Int
  | .null => [0]
  | .bool b => [1, if b then 1 else 0]
  | .int i => [2, i]
  | .float b => [3, Int.ofNat b]
  | .str s => 4 :: (s.map Int.ofNat ++ [255])
  | .bytes b => 5 :: Int.ofNat b.length :: b.map Int.ofNat
  | .ts t => [6, t]
  | .list l => 7 :: Int.ofNat l.length :: hvFeedList l
  | .map m => 8 :: Int.ofNat m.length :: hvFeedMap m
  | .vec v => 9 :: Int.ofNat v.length :: v.map Int.ofNat
def hvFeedList : List HV → List Int
  | [] => []
  | x :: xs => hvFeed x ++ hvFeedList xs
def hvFeedMap : List (List Nat × HV) → List Int
  | [] => []
  | (k, v) :: rest => (k.map Int.ofNat ++ [255]) ++ hvFeed v ++ hvFeedMap rest
end

-- no map anywhere inside
mutual
def HV.mapFree : HV → Bool
  | .list l => mapFreeList l
  | .map _ => false
  | _ => true
def mapFreeList : List HV → Bool
  | [] => true
  | x :: xs => x.mapFree && mapFreeList xs
end

end Grafeo.Val
