import GrafeoModel.Model.Sess
/-
The snapshot-isolation oracle of the session stream (`Driver/Sess.lean` runs it side by side with
the model `Model/Sess.lean` on every `sess` op line), and the creation-only fragment of the stream
as a step function, so that theorems (`Props/C01SI.lean`) can talk about the very oracle that the
correspondence check executes.

* `SGraph`, `W`, `SGraph.apply`, `W.modifies`, `STx`, `St`, `St.view`, `St.recordWrite`, `St.touch`
  were moved here verbatim from `Driver/Sess.lean`, which imports them.
* `Op`, `mstep`, `St.step`, `St.res`, `run` are new: what `DriverSess.handle` does to `z.w` and to
  the oracle fields of `z` for the ops `begin commit rollback cn (= qcn) ce qce dbcn qmerge`, argument
  parsing and output formatting taken away.
-/
namespace Grafeo.SessSpec
open Grafeo.Lpg Grafeo.Sess Grafeo.TxMgr

structure SGraph where
  nodes : AList (List Nat × AList String) := []
  edges : AList EdgeRec := []

inductive W where
  | node (id : Nat) (labels : List Nat)
  | edge (id : Nat) (r : EdgeRec)
  | setProp (id key : Nat) (v : String)
  | addLabel (id l : Nat)
  | remLabel (id l : Nat)
  | delNode (id : Nat) (es : List Nat)  -- DETACH DELETE: the node and the incident edges the deleter saw
  | delEdge (id : Nat)

def SGraph.apply (g : SGraph) : W → SGraph
  | .node id ls => { g with nodes := aset g.nodes id (ls.foldl sinsert [], []) }
  | .edge id r => { g with edges := aset g.edges id r }
  | .setProp id key v => match aget g.nodes id with
    | some (ls, ps) => { g with nodes := aset g.nodes id (ls, aset ps key v) }
    | none => g
  | .addLabel id l => match aget g.nodes id with
    | some (ls, ps) => { g with nodes := aset g.nodes id (sinsert ls l, ps) }
    | none => g
  | .remLabel id l => match aget g.nodes id with
    | some (ls, ps) => { g with nodes := aset g.nodes id (serase ls l, ps) }
    | none => g
  | .delNode id es => { nodes := aerase g.nodes id,
                        edges := g.edges.filter (fun kv => !es.contains kv.1) }
  | .delEdge id => { g with edges := aerase g.edges id }

/-- the entities a write modifies (not the ones it creates): node `2·id`, edge `2·id+1` -/
def W.modifies (g : SGraph) : W → List Nat
  | .node _ _ | .edge _ _ => []
  | .setProp id _ _ | .addLabel id _ | .remLabel id _ => [2 * id]
  | .delNode id es => 2 * id :: es.map (fun e => 2 * e + 1)
  | .delEdge id => [2 * id + 1]

structure STx where
  snap : SGraph
  writes : List W := []
  beginSeq : Nat := 0
  modified : List Nat := []            -- entities modified in place (for first-committer-wins)
  touchedKeys : List Nat := []         -- … including those only the implementation's model matched (ghost)

structure St where
  w : World := {}
  committed : SGraph := {}
  txs : AList (Option STx) := []        -- session ↦ open transaction of the oracle
  seq : Nat := 0                        -- number of commits so far (auto-commits included)
  commits : List (Nat × List Nat) := [] -- (sequence number, entities modified) of every commit
  touched : List Nat := []              -- entities some query mutated in place (ghost, for signatures)
  abortedTouched : List Nat := []       -- … by a transaction that was rolled back afterwards

def St.view (z : St) (k : Nat) : SGraph :=
  match (aget z.txs k).getD none with
  | some t => t.writes.foldl SGraph.apply t.snap
  | none => z.committed

/-- the oracle performs write `w` for session `k` (in its transaction, or as an auto-commit) -/
def St.recordWrite (z : St) (k : Nat) (w : W) : St :=
  let mods := w.modifies (z.view k)
  match (aget z.txs k).getD none with
  | some t => { z with txs := aset z.txs k (some { t with writes := t.writes ++ [w], modified := t.modified ++ mods,
                                                          touchedKeys := t.touchedKeys ++ mods }),
                       touched := z.touched ++ mods }
  | none => { z with committed := z.committed.apply w, seq := z.seq + 1, commits := (z.seq + 1, mods) :: z.commits,
                     touched := z.touched ++ mods }

/-- ghost bookkeeping when the model of the implementation matched (and mutated in place) -/
def St.touch (z : St) (k key : Nat) : St :=
  let z1 := { z with touched := z.touched ++ [key] }
  match (aget z.txs k).getD none with
  | some t => { z1 with txs := aset z1.txs k (some { t with touchedKeys := t.touchedKeys ++ [key] }) }
  | none => z1

/-! ### the creation-only fragment of the stream -/

/-- `cn` stands for the stream ops `cn` and `qcn` (same effect on model and oracle); `qce k src ty l`
is `MATCH (a) WHERE id(a) = src CREATE (a)-[:ty]->(b:l)`; `qmerge k l` is `MERGE (n:l)`. -/
inductive Op where
  | begin (k : Nat) (iso : Iso)
  | commit (k : Nat)
  | rollback (k : Nat)
  | cn (k : Nat) (labels : List Nat)
  | ce (k src dst ty : Nat)
  | qce (k src ty l : Nat)
  | dbcn (labels : List Nat)
  | qmerge (k l : Nat)
  deriving DecidableEq, Repr

/-- the session an op is issued in (`dbcn` goes through the database handle: no session) -/
def Op.session : Op → Option Nat
  | .begin k _ | .commit k | .rollback k | .cn k _ | .ce k _ _ _ | .qce k _ _ _ | .qmerge k _ => some k
  | .dbcn _ => none

/-- what `DriverSess.handle` does to the model world `z.w` -/
def mstep (w : World) : Op → World
  | .begin k iso => (w.begin k iso).1
  | .commit k => (w.commit k).1
  | .rollback k => (w.rollback k).1
  | .cn k ls => (w.createNode k ls).1
  | .ce k s d t => (w.createEdge k s d t).1
  | .qce k s t l => if (w.scanAll k).contains s then (w.createNodeAndEdge k s l t).1 else w
  | .dbcn ls => (w.dbCreateNode ls).1
  | .qmerge k l => (w.qMerge k l).1

/-- what `DriverSess.handle` does to the whole stream state (model world and oracle fields) -/
def St.step (z : St) : Op → St
  | .begin k iso =>
    let (w', _) := z.w.begin k iso
    let had := ((aget z.txs k).getD none).isSome
    let txs' := if had then z.txs else aset z.txs k (some { snap := z.committed, beginSeq := z.seq })
    { z with w := w', txs := txs' }
  | .commit k =>
    let (w', r) := z.w.commit k
    let st := (aget z.txs k).getD none
    let committed' := match st, r with
      | some t, .ok => t.writes.foldl SGraph.apply z.committed
      | _, _ => z.committed
    let (seq', commits') := match st, r with
      | some t, .ok => (z.seq + 1, (z.seq + 1, t.modified) :: z.commits)
      | _, _ => (z.seq, z.commits)
    let aborted' := match st, r with
      | some _, .ok => z.abortedTouched
      | some t, _ => z.abortedTouched ++ t.touchedKeys
      | none, _ => z.abortedTouched
    { z with w := w', committed := committed', txs := aset z.txs k none, seq := seq', commits := commits',
             abortedTouched := aborted' }
  | .rollback k =>
    let (w', _) := z.w.rollback k
    let st := (aget z.txs k).getD none
    let aborted' := match st with | some t => z.abortedTouched ++ t.touchedKeys | none => z.abortedTouched
    { z with w := w', txs := aset z.txs k none, abortedTouched := aborted' }
  | .cn k ls =>
    let (w', id) := z.w.createNode k ls
    match (aget z.txs k).getD none with
    | some t => { z with w := w', txs := aset z.txs k (some { t with writes := t.writes ++ [.node id ls] }) }
    | none => { z with w := w', committed := z.committed.apply (.node id ls) }
  | .ce k s d ty =>
    let r : EdgeRec := ⟨s, d, ty⟩
    let (w', id) := z.w.createEdge k r.src r.dst r.ty
    match (aget z.txs k).getD none with
    | some t => { z with w := w', txs := aset z.txs k (some { t with writes := t.writes ++ [.edge id r] }) }
    | none => { z with w := w', committed := z.committed.apply (.edge id r) }
  | .qce k s t l =>
    let vis := (z.w.scanAll k).contains s
    if vis then
      let (w2, b, e) := z.w.createNodeAndEdge k s l t
      let ws := [W.node b [l], W.edge e ⟨s, b, t⟩]
      match (aget z.txs k).getD none with
      | some tx => { z with w := w2, txs := aset z.txs k (some { tx with writes := tx.writes ++ ws }) }
      | none => { z with w := w2, committed := ws.foldl SGraph.apply z.committed }
    else z
  | .dbcn ls =>
    let (w', id) := z.w.dbCreateNode ls
    { z with w := w', committed := z.committed.apply (.node id ls) }
  | .qmerge k l =>
    let (w', r) := z.w.qMerge k l
    let z1 := { z with w := w' }
    match r with
    | some id =>
      match (aget z1.txs k).getD none with
      | some t => { z1 with txs := aset z1.txs k (some { t with writes := t.writes ++ [.node id [l]] }) }
      | none => { z1 with committed := z1.committed.apply (.node id [l]) }
    | none => z1

/-- the two result columns `handle` prints for `begin` / `commit` / `rollback`: what the model answers
and what the oracle answers. (Creations always succeed on both sides.) -/
def St.res (z : St) : Op → R × R
  | .begin k iso =>
    ((z.w.begin k iso).2, if ((aget z.txs k).getD none).isSome then .err "invalid" else .ok)
  | .commit k =>
    let st := (aget z.txs k).getD none
    let conflict := match st with
      | some t => z.commits.any (fun c => c.1 > t.beginSeq && c.2.any (fun e => t.modified.contains e))
      | none => false
    ((z.w.commit k).2, if st.isNone then .err "invalid" else if conflict then .err "conflict" else .ok)
  | .rollback k =>
    ((z.w.rollback k).2, if ((aget z.txs k).getD none).isSome then .ok else .err "invalid")
  | _ => (.ok, .ok)

/-- did the `MATCH` part of a query find something, according to the model and according to the
oracle: `qce` — the anchor node is in the session's scan / in its view; `qmerge` — some node carrying
the label is visible (then nothing is created). -/
def St.matched (z : St) : Op → Bool × Bool
  | .qce k s _ _ => ((z.w.scanAll k).contains s, (aget (z.view k).nodes s).isSome)
  | .qmerge k l => ((z.w.qMerge k l).2.isNone, (z.view k).nodes.any (fun kv => kv.2.1.contains l))
  | _ => (true, true)

/-- the stream from `sess new` -/
def run (ops : List Op) : St := ops.foldl St.step {}

/-- the neighbour listing of the oracle, as the stream op `out` computes it -/
def SGraph.out (v : SGraph) (n : Nat) : List (Nat × Nat) :=
  ((v.edges.filter (fun kv => kv.2.src == n)).filter (fun kv => (aget v.nodes kv.2.dst).isSome)).map (fun kv => (kv.2.dst, kv.1))

/-- the oracle's answers to `scan` and `scanl` -/
def SGraph.ids (v : SGraph) : List Nat := v.nodes.map (·.1)
def SGraph.idsWithLabel (v : SGraph) (l : Nat) : List Nat := (v.nodes.filter (fun kv => kv.2.1.contains l)).map (·.1)

end Grafeo.SessSpec
