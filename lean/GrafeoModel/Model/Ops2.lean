import GrafeoModel.Model.F64
import GrafeoModel.Model.Ops
/-
Model of the predicate / sort / aggregate level of the pull operators of
`crates/grafeo-core/src/execution/operators/` (C11, stream `ops2`):

  A. values and IEEE-754 binary64 arithmetic on bit patterns (`+ - * / %`, negation, `i64 as f64`)
     — exact: a finite double is an integer multiple of 2^-1074, results are rounded to nearest,
     ties to even;
  B. `filter.rs`: `FilterExpression` (literals, variables, unbound variables, the binary operators
     `= <> < <= > >= AND OR XOR + - * / % STARTS WITH / ENDS WITH / CONTAINS`, `IN [list]`, the unary
     operators `NOT`, `IS NULL`, `IS NOT NULL`, `-`), `ExpressionPredicate::eval_expr`,
     `eval_binary_op`, `eval_arithmetic`, `eval_modulo`, `eval_in_operator`, `eval_unary_op`,
     `values_equal`, `compare_values`, `Predicate::evaluate`, `FilterOperator::next`.
     The evaluator is parametric in `Quirks`: all switches on = the code as it is, all off = the
     SQL / Cypher three-valued semantics the property asks for;
  C. `sort.rs`: `compare_values`, `compare_values_with_nulls`, the key loop of `sort_by`,
     `SortOperator::next` (2048 rows per output chunk);
  D. `aggregate.rs`: `SimpleAggregateOperator` and `HashAggregateOperator` (no GROUP BY) with
     `count(*)` and `count(col)`;
  E. chains filter / distinct / sort / skip / limit over a child's chunk list.

A child operator is the list of chunks its `next()` calls return before `None`; a chunk is the
list of its selected rows (see `Model/Ops.lean`).
-/
namespace Grafeo.Ops2
open Grafeo.F64

/-! ## A. values -/

inductive Val where
  | null
  | bool (b : Bool)
  | int (i : Int)
  | flt (bits : Nat)
  | str (bytes : List Nat)
  deriving DecidableEq, Repr, Inhabited

abbrev Row := List Val

def i64Min : Int := -(2 ^ 63)
def i64Max : Int := 2 ^ 63 - 1

/-- `checked_*`: the result when it fits an `i64` -/
def chk (x : Int) : Option Int := if i64Min ≤ x ∧ x ≤ i64Max then some x else none

/-! ### binary64 arithmetic -/

/-- a decoded double; `m` is the magnitude in units of 2^-1074 -/
inductive FV where
  | nan
  | inf (neg : Bool)
  | fin (neg : Bool) (m : Nat)
  deriving DecidableEq, Repr

def scaledMag (b : Nat) : Nat :=
  if expField b = 0 then fracField b else (2 ^ 52 + fracField b) * 2 ^ (expField b - 1)

def decode (b : Nat) : FV :=
  if isNaN b then .nan
  else if expField b = 2047 then .inf (signBit b == 1)
  else .fin (signBit b == 1) (scaledMag b)

def nbits (n : Nat) : Nat := if n = 0 then 0 else Nat.log2 n + 1

/-- bit pattern (without sign) of a representable magnitude -/
def magBits (m : Nat) : Nat :=
  if m < 2 ^ 52 then m
  else (nbits m - 52) * 2 ^ 52 + (m / 2 ^ (nbits m - 53) - 2 ^ 52)

def signOf (neg : Bool) : Nat := if neg then 2 ^ 63 else 0
def infBits : Nat := 2047 * 2 ^ 52
def nanBits : Nat := 2047 * 2 ^ 52 + 2 ^ 51

def encode : FV → Nat
  | .nan => nanBits
  | .inf neg => signOf neg + infBits
  | .fin neg m => signOf neg + magBits m

/-- `p / d` rounded to the nearest integer, ties to even -/
def rhe (p d : Nat) : Nat :=
  let q := p / d
  let r := p % d
  if 2 * r > d || (2 * r == d && q % 2 == 1) then q + 1 else q

/-- the double nearest to `p / q` units (`q > 0`), ties to even; overflow gives infinity -/
def roundRat (neg : Bool) (p q : Nat) : FV :=
  let fl := p / q
  let m :=
    if fl < 2 ^ 53 then rhe p q
    else
      let sh := nbits fl - 53
      rhe p (q * 2 ^ sh) * 2 ^ sh
  if m ≥ 2 ^ 2098 then .inf neg else .fin neg m

def FV.negate : FV → FV
  | .nan => .nan
  | .inf n => .inf (!n)
  | .fin n m => .fin (!n) m

def fvAdd : FV → FV → FV
  | .nan, _ => .nan
  | _, .nan => .nan
  | .inf a, .inf b => if a == b then .inf a else .nan
  | .inf a, .fin _ _ => .inf a
  | .fin _ _, .inf b => .inf b
  | .fin na ma, .fin nb mb =>
    let s : Int := (if na then -(ma : Int) else ma) + (if nb then -(mb : Int) else mb)
    if s = 0 then .fin (na && nb) 0
    else roundRat (decide (s < 0)) s.natAbs 1

def fvMul : FV → FV → FV
  | .nan, _ => .nan
  | _, .nan => .nan
  | .inf a, .inf b => .inf (a != b)
  | .inf a, .fin nb mb => if mb = 0 then .nan else .inf (a != nb)
  | .fin na ma, .inf b => if ma = 0 then .nan else .inf (na != b)
  | .fin na ma, .fin nb mb => roundRat (na != nb) (ma * mb) (2 ^ 1074)

def fvDiv : FV → FV → FV
  | .nan, _ => .nan
  | _, .nan => .nan
  | .inf _, .inf _ => .nan
  | .inf a, .fin nb _ => .inf (a != nb)
  | .fin na _, .inf b => .fin (na != b) 0
  | .fin na ma, .fin nb mb =>
    if mb = 0 then (if ma = 0 then .nan else .inf (na != nb))
    else roundRat (na != nb) (ma * 2 ^ 1074) mb

/-- `a % b` (C `fmod`): exact, sign of the dividend -/
def fvRem : FV → FV → FV
  | .nan, _ => .nan
  | _, .nan => .nan
  | .inf _, _ => .nan
  | .fin na ma, .inf _ => .fin na ma
  | .fin na ma, .fin _ mb => if mb = 0 then .nan else .fin na (ma % mb)

def fAdd (a b : Nat) : Nat := encode (fvAdd (decode a) (decode b))
def fSub (a b : Nat) : Nat := encode (fvAdd (decode a) (decode b).negate)
def fMul (a b : Nat) : Nat := encode (fvMul (decode a) (decode b))
def fDiv (a b : Nat) : Nat := encode (fvDiv (decode a) (decode b))
def fRem (a b : Nat) : Nat := encode (fvRem (decode a) (decode b))
/-- `-f`: the sign bit flips (also on NaN) -/
def fNeg (a : Nat) : Nat := if signBit a = 1 then a - 2 ^ 63 else a + 2 ^ 63
/-- `f == 0.0` -/
def fIsZero (a : Nat) : Bool := mag a == 0

def isFinite (b : Nat) : Bool := expField b != 2047
def scaled (b : Nat) : Int := if signBit b = 1 then -(scaledMag b : Int) else (scaledMag b : Int)

/-- `(a - b).abs() < f64::EPSILON` with round-to-nearest-even subtraction: an infinite or NaN
operand gives ±inf or NaN (not `<`); for finite operands the rounded difference is below 2^-52
exactly when the exact difference is below the midpoint 2^-52 − 2^-106 between 2^-52 and its
predecessor (the tie rounds to the even neighbour 2^-52). In units of 2^-1074. -/
def epsClose (a b : Nat) : Bool :=
  isFinite a && isFinite b && decide ((scaled a - scaled b).natAbs < 2 ^ 1022 - 2 ^ 968)

def cmpBytes : List Nat → List Nat → Ordering
  | [], [] => .eq
  | [], _ :: _ => .lt
  | _ :: _, [] => .gt
  | a :: as, b :: bs => if a < b then .lt else if b < a then .gt else cmpBytes as bs

/-! ## B. `filter.rs` -/

inductive BOp where
  | eq | ne | lt | le | gt | ge
  | and | or | xor
  | add | sub | mul | div | mod
  | sw | ew | ct
  deriving DecidableEq, Repr

inductive UOp where
  | not | isNull | notNull | neg
  deriving DecidableEq, Repr

mutual
inductive Ex where
  | lit (v : Val)
  | col (k : Nat)
  /-- a variable that is not in `variable_columns` -/
  | mis
  | bin (op : BOp) (l r : Ex)
  | un (op : UOp) (e : Ex)
  /-- `l IN [items]` -/
  | inl (l : Ex) (items : ExList)
  deriving Repr
inductive ExList where
  | nil
  | cons (h : Ex) (t : ExList)
  deriving Repr
end

/-- the places where the code departs from three-valued logic (`true` = as the code is) -/
structure Quirks where
  /-- `AND` / `OR` answer "unknown" as soon as one operand is not a boolean, even when the other
  operand decides the result (`x AND false`, `x OR true`) -/
  strictBool : Bool
  /-- `=` / `<>` treat NULL as an ordinary value: `NULL = NULL` is true, `NULL = 1` is false -/
  nullEq : Bool
  /-- numbers are equal when they differ by less than `f64::EPSILON` -/
  epsEq : Bool
  /-- `IN` compares with the two-valued `values_equal` and drops list items without a value -/
  inTwoValued : Bool
  deriving DecidableEq, Repr

/-- every departure present: `AND` / `OR` strict in both operands (the code before the repair
"AND and OR in predicates follow three-valued logic") -/
def Quirks.strict : Quirks := ⟨true, true, true, true⟩
/-- Kleene's `AND` / `OR`, the other departures as they are -/
def Quirks.kleene : Quirks := ⟨false, true, true, true⟩
/-- the code as it is now (SWITCH: becomes `Quirks.kleene` with that repair) -/
def Quirks.code : Quirks := Quirks.kleene
def Quirks.sql : Quirks := ⟨false, false, false, false⟩

/-- `values_equal` (with `eps`) / exact equality of two non-null values (without) -/
def valuesEqual (eps : Bool) : Val → Val → Bool
  | .null, .null => true
  | .bool a, .bool b => a == b
  | .int a, .int b => a == b
  | .flt a, .flt b => feq a b || (eps && epsClose a b)
  | .str a, .str b => a == b
  | .int a, .flt b => if eps then epsClose (i64ToF64 a) b else feq (i64ToF64 a) b
  | .flt b, .int a => if eps then epsClose (i64ToF64 a) b else feq (i64ToF64 a) b
  | _, _ => false

/-- `compare_values` -/
def compareValues : Val → Val → Option Ordering
  | .int a, .int b => some (compare a b)
  | .flt a, .flt b => partialCmp a b
  | .str a, .str b => some (cmpBytes a b)
  | .int a, .flt b => partialCmp (i64ToF64 a) b
  | .flt a, .int b => partialCmp a (i64ToF64 b)
  | _, _ => none

def asBool : Val → Option Bool
  | .bool b => some b
  | _ => none

def asStr : Val → Option (List Nat)
  | .str s => some s
  | _ => none

inductive Arith where | add | sub | mul | div
  deriving DecidableEq, Repr

def intArith : Arith → Int → Int → Option Int
  | .add, a, b => chk (a + b)
  | .sub, a, b => chk (a - b)
  | .mul, a, b => chk (a * b)
  | .div, a, b => if b = 0 then none else chk (Int.tdiv a b)

def fltArith : Arith → Nat → Nat → Nat
  | .add, a, b => fAdd a b
  | .sub, a, b => fSub a b
  | .mul, a, b => fMul a b
  | .div, a, b => fDiv a b

/-- `eval_arithmetic` -/
def evalArith (op : Arith) : Val → Val → Option Val
  | .int a, .int b => (intArith op a b).map .int
  | .flt a, .flt b => some (.flt (fltArith op a b))
  | .int a, .flt b => some (.flt (fltArith op (i64ToF64 a) b))
  | .flt a, .int b => some (.flt (fltArith op a (i64ToF64 b)))
  | _, _ => none

/-- `eval_modulo` -/
def evalMod : Val → Val → Option Val
  -- `checked_rem`: no result for a zero divisor and for `i64::MIN % -1` (the overflow case of the
  -- matching division), which the engine turns into NULL
  | .int a, .int b => if b = 0 || (a == -(2 ^ 63 : Int) && b == -1) then none else (chk (Int.tmod a b)).map .int
  | .flt a, .flt b => if fIsZero b then none else some (.flt (fRem a b))
  | .int a, .flt b => if fIsZero b then none else some (.flt (fRem (i64ToF64 a) b))
  | .flt a, .int b => if b = 0 then none else some (.flt (fRem a (i64ToF64 b)))
  | _, _ => none

def isPrefix : List Nat → List Nat → Bool
  | [], _ => true
  | _ :: _, [] => false
  | a :: as, b :: bs => a == b && isPrefix as bs

/-- `hay.contains(needle)` on UTF-8 strings is a search for the byte sequence -/
def isInfix (needle : List Nat) : List Nat → Bool
  | [] => needle.isEmpty
  | b :: bs => isPrefix needle (b :: bs) || isInfix needle bs

def ordTest (op : BOp) (o : Ordering) : Bool :=
  match op with
  | .lt => o == .lt
  | .le => o != .gt
  | .gt => o == .gt
  | _ => o != .lt

/-- three-valued `=`: unknown when an operand is NULL -/
def eq3 (q : Quirks) (l r : Val) : Option Bool :=
  if !q.nullEq && (l == .null || r == .null) then none else some (valuesEqual q.epsEq l r)

/-- Kleene conjunction / disjunction of two operand values (anything that is not a boolean counts
as unknown) -/
def and3 (l r : Option Val) : Option Val :=
  match l.bind asBool, r.bind asBool with
  | some false, _ => some (.bool false)
  | _, some false => some (.bool false)
  | some true, some true => some (.bool true)
  | _, _ => none

def or3 (l r : Option Val) : Option Val :=
  match l.bind asBool, r.bind asBool with
  | some true, _ => some (.bool true)
  | _, some true => some (.bool true)
  | some false, some false => some (.bool false)
  | _, _ => none

/-- `eval_binary_op` on two present operand values (`None` = no value) -/
def evalBin (q : Quirks) (op : BOp) (l r : Val) : Option Val :=
  match op with
  | .and => if q.strictBool then (do pure (.bool ((← asBool l) && (← asBool r)))) else and3 (some l) (some r)
  | .or => if q.strictBool then (do pure (.bool ((← asBool l) || (← asBool r)))) else or3 (some l) (some r)
  | .xor => do pure (.bool ((← asBool l) != (← asBool r)))
  | .eq => (eq3 q l r).map .bool
  | .ne => (eq3 q l r).map (fun b => .bool (!b))
  | .lt | .le | .gt | .ge => (compareValues l r).map (fun o => .bool (ordTest op o))
  | .add => evalArith .add l r
  | .sub => evalArith .sub l r
  | .mul => evalArith .mul l r
  | .div => evalArith .div l r
  | .mod => evalMod l r
  | .sw => do pure (.bool (isPrefix (← asStr r) (← asStr l)))
  | .ew => do pure (.bool (isPrefix (← asStr r).reverse (← asStr l).reverse))
  | .ct => do pure (.bool (isInfix (← asStr r) (← asStr l)))

/-- `eval_unary_op` -/
def evalUn (op : UOp) (v : Option Val) : Option Val :=
  match op with
  | .not => do pure (.bool (!(← asBool (← v))))
  | .isNull => some (.bool (v.isNone || v == some .null))
  | .notNull => some (.bool (v.isSome && v != some .null))
  | .neg =>
    match v with
    | some (.int i) => (chk (-i)).map .int
    | some (.flt f) => some (.flt (fNeg f))
    | _ => none

/-- three-valued `l IN items`: true when some item equals, else unknown when some comparison is
unknown (a NULL or an item without a value), else false -/
def in3 (q : Quirks) (l : Val) (items : List (Option Val)) : Option Val :=
  let rs := items.map (fun i => i.bind (eq3 { q with nullEq := false } l))
  if rs.any (· == some true) then some (.bool true)
  else if rs.any (· == none) then none
  else some (.bool false)

mutual
/-- `eval_expr`: `none` is Rust's `None` (no value) -/
def evalQ (q : Quirks) : Ex → Row → Option Val
  | .lit v, _ => some v
  | .col k, r => r[k]?
  | .mis, _ => none
  | .bin op l r, row =>
    if !q.strictBool && (op == .and || op == .or) then
      (if op == .and then and3 (evalQ q l row) (evalQ q r row) else or3 (evalQ q l row) (evalQ q r row))
    else
      match evalQ q l row, evalQ q r row with
      | some a, some b => evalBin q op a b
      | _, _ => none
  | .un op e, row => evalUn op (evalQ q e row)
  | .inl l items, row =>
    match evalQ q l row with
    | none => none
    | some a =>
      if q.inTwoValued then
        some (.bool ((evalListQ q items row).any (fun i => match i with
          | some b => valuesEqual q.epsEq a b
          | none => false)))
      else in3 q a (evalListQ q items row)
def evalListQ (q : Quirks) : ExList → Row → List (Option Val)
  | .nil, _ => []
  | .cons h t, row => evalQ q h row :: evalListQ q t row
end

/-- `Predicate::evaluate`: a row passes only when the value is the boolean `true` -/
def passes (q : Quirks) (e : Ex) (r : Row) : Bool := evalQ q e r == some (.bool true)

def Ex.not (e : Ex) : Ex := .un .not e
def Ex.isNull (e : Ex) : Ex := .un .isNull e

/-- the expression's top operator always yields a boolean or no value: comparisons, boolean
connectives, string tests, `IN`, `NOT`, `IS [NOT] NULL` — i.e. it is a predicate, not a bare
variable, literal or arithmetic term -/
def Ex.isPred : Ex → Bool
  | .bin op _ _ =>
    (match op with
     | .add | .sub | .mul | .div | .mod => false
     | _ => true)
  | .un op _ => op != .neg
  | .inl _ _ => true
  | _ => false

def dropEmpty {α : Type} (cs : List (List α)) : List (List α) := cs.filter (fun c => !c.isEmpty)

/-- `FilterOperator::next`, iterated: chunks in which nothing passes are skipped -/
def filterOp {α : Type} (p : α → Bool) (cs : List (List α)) : List (List α) :=
  dropEmpty (cs.map (fun c => c.filter p))

/-- truth value of a predicate on a row in the specification: T, F or unknown -/
inductive TV where | t | f | u
  deriving DecidableEq, Repr

def tvOf : Option Val → TV
  | some (.bool true) => .t
  | some (.bool false) => .f
  | _ => .u

def specTV (e : Ex) (r : Row) : TV := tvOf (evalQ Quirks.sql e r)

/-! ## C. `sort.rs` -/

structure SortKey where
  col : Nat
  asc : Bool
  nullsFirst : Bool
  deriving DecidableEq, Repr

def flipOrd : Ordering → Ordering
  | .lt => .gt | .gt => .lt | .eq => .eq

/-- magnitude of a non-NaN double in units of 2^-1074 (an infinity counts as 2^4000) -/
def fnumMag (b : Nat) : Nat := if expField b = 2047 then 2 ^ 4000 else scaledMag b

/-- exact value of a non-NaN double in units of 2^-1074 (±infinity = ±2^4000) -/
def fnum (b : Nat) : Int := if signBit b = 1 then -(fnumMag b : Int) else (fnumMag b : Int)

/-- one unit: 1.0 in units of 2^-1074 -/
def unit : Int := 2 ^ 1074

/-- `compare_floats`: `partial_cmp`, and where that has no answer NaN after everything else -/
def cmpFloats (a b : Nat) : Ordering :=
  match partialCmp a b with
  | some o => o
  | none => compare (isNaN a).toNat (isNaN b).toNat

/-- `compare_int_float`: an integer against a float by their exact values. `f >= 2^63` and
`f < -2^63` are decided first, so that `f.trunc() as i64` is exact; `f - whole` is exact too. -/
def cmpIntFloat (i : Int) (f : Nat) : Ordering :=
  if isNaN f then .lt
  else if fnum f ≥ 2 ^ 63 * unit then .lt
  else if fnum f < -(2 ^ 63 * unit) then .gt
  else
    let whole := Int.tdiv (fnum f) unit
    let frac := fnum f - whole * unit
    if i < whole then .lt else if whole < i then .gt
    else if 0 < frac then .lt else if frac < 0 then .gt else .eq

/-- `kind_rank` (NULL never gets here: `compare_values_with_nulls` places it) -/
def kindRank : Val → Nat
  | .str _ => 1
  | .bool _ => 2
  | .int _ => 3
  | .flt _ => 3
  | .null => 0

/-- `compare_values` of sort.rs (repaired code): a total preorder over all values — strings
before booleans before numbers, integers and floats by exact value, NaN after every number -/
def sortCmpVals : Val → Val → Ordering
  | .bool a, .bool b => compare a.toNat b.toNat
  | .int a, .int b => compare a b
  | .flt a, .flt b => cmpFloats a b
  | .str a, .str b => cmpBytes a b
  | .int a, .flt b => cmpIntFloat a b
  | .flt a, .int b => flipOrd (cmpIntFloat b a)
  | a, b => compare (kindRank a) (kindRank b)

/-- `compare_values_with_nulls` over a value comparison `cmpv` (a column the chunk does not have
gives `None`, which is ordered like NULL) -/
def nullsCmp (cmpv : Val → Val → Ordering) (nullsFirst : Bool) : Option Val → Option Val → Ordering
  | none, none => .eq
  | some .null, some .null => .eq
  | none, _ => if nullsFirst then .lt else .gt
  | some .null, _ => if nullsFirst then .lt else .gt
  | _, none => if nullsFirst then .gt else .lt
  | _, some .null => if nullsFirst then .gt else .lt
  | some x, some y => cmpv x y

def keyCmpBy (cmpv : Val → Val → Ordering) (k : SortKey) (a b : Row) : Ordering :=
  let o := nullsCmp cmpv k.nullsFirst a[k.col]? b[k.col]?
  if k.asc then o else flipOrd o

/-- the closure handed to `sort_by`: the keys in turn -/
def cmpRowsBy (cmpv : Val → Val → Ordering) : List SortKey → Row → Row → Ordering
  | [], _, _ => .eq
  | k :: ks, a, b => if keyCmpBy cmpv k a b = .eq then cmpRowsBy cmpv ks a b else keyCmpBy cmpv k a b

/-- `slice::sort_by` is a stable sort: `a` stays before `b` unless `a > b` -/
def rowLeBy (cmpv : Val → Val → Ordering) (keys : List SortKey) (a b : Row) : Bool :=
  cmpRowsBy cmpv keys a b != .gt

def cmpWithNulls := nullsCmp sortCmpVals
def keyCmp := keyCmpBy sortCmpVals
def cmpRows := cmpRowsBy sortCmpVals
/-- the engine's row order -/
def rowLe := rowLeBy sortCmpVals

/-- `SortOperator::next` / output loop: `size` rows per chunk -/
def rechunk {α : Type} (size : Nat) : Nat → List α → List (List α)
  | 0, _ => []
  | fuel + 1, rows => if rows.isEmpty then [] else rows.take size :: rechunk size fuel (rows.drop size)

def rechunkAll {α : Type} (size : Nat) (rows : List α) : List (List α) := rechunk size rows.length rows

/-- `SortOperator`: everything is materialized, sorted (stable), emitted `cap` rows at a time. -/
def sortOp (cap : Nat) (keys : List SortKey) (cs : List (List Row)) : List (List Row) :=
  rechunkAll cap (cs.flatten.mergeSort (rowLe keys))

/-! ### the specification's order of all values -/

/-- rank of a value in the specification's order (ascending: strings, booleans, numbers by
exact value, NaN after every number) -/
def specRank : Val → Nat × Int × List Nat
  | .null => (4, 0, [])
  | .str s => (0, 0, s)
  | .bool b => (1, if b then 1 else 0, [])
  | .int i => (2, i * unit, [])
  | .flt b => if isNaN b then (3, 0, []) else (2, fnum b, [])

def specCmpVals (a b : Val) : Ordering :=
  let x := specRank a
  let y := specRank b
  if x.1 < y.1 then .lt else if y.1 < x.1 then .gt
  else if x.2.1 < y.2.1 then .lt else if y.2.1 < x.2.1 then .gt
  else cmpBytes x.2.2 y.2.2

def specCmpWithNulls := nullsCmp specCmpVals
def specKeyCmp := keyCmpBy specCmpVals
def specCmpRows := cmpRowsBy specCmpVals
def specRowLe := rowLeBy specCmpVals

/-- an `i64` (the model's integers are unbounded; the engine's are not) -/
def Val.inRange : Val → Bool
  | .int i => decide (i64Min ≤ i ∧ i ≤ i64Max)
  | _ => true

/-! ### the comparator before the repair "ORDER BY compares with a total order" -/

namespace Old

/-- `compare_values` of sort.rs as it was: kinds that do not compare are "equal", NaN is "equal"
to every number, an integer meets a float through `as f64` -/
def sortCmpVals : Val → Val → Ordering
  | .bool a, .bool b => compare a.toNat b.toNat
  | .int a, .int b => compare a b
  | .flt a, .flt b => (partialCmp a b).getD .eq
  | .str a, .str b => cmpBytes a b
  | .int a, .flt b => (partialCmp (i64ToF64 a) b).getD .eq
  | .flt a, .int b => (partialCmp a (i64ToF64 b)).getD .eq
  | _, _ => .eq

def cmpRows := cmpRowsBy sortCmpVals
def rowLe := rowLeBy sortCmpVals

/-- `insertion_sort_shift_left` of `core::slice::sort` — the whole of the stable `sort_by` for
slices of at most 20 elements: every element in turn moves left past the elements it is
strictly less than (`insRight lt x l`: `x` arrives at the right end of the prefix `l`). -/
def insRight {α : Type} (lt : α → α → Bool) (x : α) (l : List α) : List α :=
  (l.reverse.dropWhile (lt x)).reverse ++ x :: (l.reverse.takeWhile (lt x)).reverse

def insSort {α : Type} (lt : α → α → Bool) (l : List α) : List α :=
  l.foldl (fun acc x => insRight lt x acc) []

/-- what `sort_by` left of at most 20 rows, whatever the comparator (beyond 20 rows an
inconsistent comparator could make it panic) -/
def sortSmall (keys : List SortKey) (rows : List Row) : List Row :=
  insSort (fun a b => cmpRows keys a b == .lt) rows

end Old

/-! ## D. `aggregate.rs`: `count(*)`, `count(col)` without GROUP BY -/

/-- `value.is_some() && !matches!(value, Some(Value::Null))` -/
def nonNullAt (col : Nat) (r : Row) : Bool :=
  match r[col]? with
  | some .null => false
  | some _ => true
  | none => false

/-- the two `AggregateState::Count` counters after the rows of one chunk -/
def countStep (col : Nat) (st : Nat × Nat) (c : List Row) : Nat × Nat :=
  c.foldl (fun s r => (s.1 + 1, if nonNullAt col r then s.2 + 1 else s.2)) st

/-- `SimpleAggregateOperator::next`, iterated: one output chunk with one row, whatever the input -/
def simpleAgg (col : Nat) (cs : List (List Row)) : List (List (Nat × Nat)) :=
  [[cs.foldl (countStep col) (0, 0)]]

/-- `HashAggregateOperator` with no group columns: all rows fall into the group of the empty key;
without any input row there is no group and — the "no data" special case being unreachable,
`results` is always `Some` after `aggregate()` — no output at all -/
def hashAgg0 (col : Nat) (cs : List (List Row)) : List (List (Nat × Nat)) :=
  if cs.flatten.isEmpty then [] else [[cs.foldl (countStep col) (0, 0)]]

/-- `HashAggregateOperator` without group columns as it is now (SWITCH: becomes `simpleAgg` with
the repair "a hash aggregate without group columns returns one row for an empty input") -/
def hashAggCoded (col : Nat) (cs : List (List Row)) : List (List (Nat × Nat)) := simpleAgg col cs

/-! ## E. chains -/

inductive Stage where
  | filter (e : Ex)
  /-- `DistinctOperator::new` (`none`, all columns) / `on_columns` -/
  | distinct (cols : Option (List Nat))
  | sort (keys : List SortKey)
  | skip (n : Nat)
  | limit (n : Nat)
  /-- `LimitSkipOperator` -/
  | window (s n : Nat)
  deriving Repr

/-- `RowKey::from_row`: one key part per column, floats by bit pattern in their own variant; a
column the chunk does not have gives the NULL part -/
def rowKey (cols : Option (List Nat)) (r : Row) : List Val :=
  match cols with
  | none => r
  | some cs => cs.map (fun c => r[c]?.getD .null)

/-- one pull operator over its child's chunk list -/
def Stage.pull (cap : Nat) : Stage → List (List Row) → List (List Row)
  | .filter e, cs => filterOp (passes Quirks.code e) cs
  | .distinct cols, cs => Ops.distinctOp (rowKey cols) cap [] cs
  | .sort keys, cs => sortOp cap keys cs
  | .skip n, cs => Ops.skipOp n 0 cs
  | .limit n, cs => Ops.limitOp n 0 cs
  | .window s n, cs => Ops.limitSkipOp s n 0 0 cs

def pullChain (cap : Nat) : List Stage → List (List Row) → List (List Row)
  | [], cs => cs
  | st :: rest, cs => pullChain cap rest (st.pull cap cs)

/-- keep the first row of every key, in input order -/
def dedupBy {κ : Type} [DecidableEq κ] (key : Row → κ) : List κ → List Row → List Row
  | _, [] => []
  | seen, r :: rs => if key r ∈ seen then dedupBy key seen rs else r :: dedupBy key (key r :: seen) rs

/-- list-level specification of one stage -/
def Stage.spec : Stage → List Row → List Row
  | .filter e, rows => rows.filter (passes Quirks.code e)
  | .distinct cols, rows => dedupBy (rowKey cols) [] rows
  | .sort keys, rows => rows.mergeSort (rowLe keys)
  | .skip n, rows => rows.drop n
  | .limit n, rows => rows.take n
  | .window s n, rows => (rows.drop s).take n

/-- the same with ORDER BY under the specification's total order of all values -/
def Stage.specT : Stage → List Row → List Row
  | .sort keys, rows => rows.mergeSort (specRowLe keys)
  | st, rows => st.spec rows

def specChainT : List Stage → List Row → List Row
  | [], rows => rows
  | st :: rest, rows => specChainT rest (st.specT rows)

def specChain : List Stage → List Row → List Row
  | [], rows => rows
  | st :: rest, rows => specChain rest (st.spec rows)

/-- `split_chunks` of the harness: the listed sizes, then whatever is left as one more chunk -/
def splitChunks {α : Type} : List Nat → List α → List (List α)
  | [], rows => if rows.isEmpty then [] else [rows]
  | n :: ns, rows => rows.take n :: splitChunks ns (rows.drop n)

/-! ## F. query level: a node property that is missing has no value -/

mutual
/-- at query level a row is a node and a NULL cell is a property the node does not have:
`Property` access then yields no value (`None`), not `Some(Null)` -/
def Ex.onNode : Ex → Row → Ex
  | .lit v, _ => .lit v
  | .col k, r => if r[k]? == some .null then .mis else .col k
  | .mis, _ => .mis
  | .bin op l rr, r => .bin op (l.onNode r) (rr.onNode r)
  | .un op e, r => .un op (e.onNode r)
  | .inl l items, r => .inl (l.onNode r) (items.onNode r)
def ExList.onNode : ExList → Row → ExList
  | .nil, _ => .nil
  | .cons h t, r => .cons (h.onNode r) (t.onNode r)
end

/-- `WHERE p` on a node -/
def passesNode (q : Quirks) (e : Ex) (r : Row) : Bool := passes q (e.onNode r) r

end Grafeo.Ops2
