import GrafeoModel.Model.Hnsw
/-!
Model of graph CONSTRUCTION AND MAINTENANCE of `crates/grafeo-core/src/index/vector/hnsw.rs`
(`HnswIndex::insert`, `select_neighbors_heuristic`, `prune_neighbors_with_distances`,
`HnswIndex::remove`) and of the integer parts of `quantization.rs` (C18).

As the code is:

* `nodes : HashMap<NodeId, HnswNode>` ↦ an association list `NodeMap` (`find` / `put` / `modify`);
  a node's level is `nbrs.length - 1`.
* `random_level()` draws from an RNG: the level is an INPUT of `insert`.
* `remove(entry point)` takes `nodes.keys().next()` of a std `HashMap` (random per map) as the new
  entry point: the choice is an INPUT (`pick`; any present id may come out, `choose`), and
  `max_level` is NOT recomputed (as in the code).
* `insert` of an id that is already present replaces the node (fresh empty lists, new level) but
  leaves the links other nodes hold to it; the beam search may then find the id itself.
* distances are abstract: `dist : V → V → Nat` (an order key; the driver uses exact integer
  distances of grid vectors), `covers dcs dcq` stands for
  `vector_distance(cv, sv) < alpha * candidate.distance`, `missing` for `f32::MAX` (the distance of
  an id that is not in the map).
* `search_layer` / `search_layer_single` are the functions of `Model/Hnsw.lean` (fuel = `Cfg.fuel`).
* the three pruning passes of `insert` (collect, compute distances, apply) are modelled as two:
  pass 2 reads only vectors and the list it is about to replace, so fusing 2 and 3 is exact.

Floating point (scalar / product quantisation arithmetic, f32 distances) is NOT modelled; the
scalar quantiser is modelled on integers for power-of-two steps, where the f32 arithmetic is exact.

No imports besides `Model/Hnsw.lean`: this file is linked into `gdriver`.
-/
namespace Grafeo.HnswBuild
open Grafeo.Hnsw

structure Node (V : Type) where
  vec : V
  nbrs : List (List Nat)

abbrev NodeMap (V : Type) := List (Nat × Node V)

structure Cfg (V : Type) where
  m : Nat
  mMax : Nat
  efc : Nat
  fuel : Nat
  dist : V → V → Nat
  covers : Nat → Nat → Bool
  missing : Nat

structure Index (V : Type) where
  nodes : NodeMap V
  entry : Option Nat
  maxLevel : Nat

variable {V : Type}

/-! ### the hash map -/

def find : NodeMap V → Nat → Option (Node V)
  | [], _ => none
  | (k', n) :: r, k => if k' = k then some n else find r k

def keys (ns : NodeMap V) : List Nat := ns.map (·.1)

/-- `HashMap::insert` -/
def put : NodeMap V → Nat → Node V → NodeMap V
  | [], k, n => [(k, n)]
  | (k', n') :: r, k, n => if k' = k then (k, n) :: r else (k', n') :: put r k n

/-- `if let Some(x) = nodes.get_mut(&k) { f(x) }` -/
def modify : NodeMap V → Nat → (Node V → Node V) → NodeMap V
  | [], _, _ => []
  | (k', n') :: r, k, f => if k' = k then (k', f n') :: r else (k', n') :: modify r k f

/-- `node.neighbors[lc] = l` (callers guard `lc < neighbors.len()`; out of range: no change) -/
def setLayer (ns : NodeMap V) (k lc : Nat) (l : List Nat) : NodeMap V :=
  modify ns k (fun n => { n with nbrs := n.nbrs.set lc l })

/-- `nodes.get(&x)` and `layer < node.neighbors.len()`, else nothing to iterate -/
def adjAt (ns : NodeMap V) (lc : Nat) (x : Nat) : List Nat :=
  match find ns x with
  | some n => n.nbrs.getD lc []
  | none => []

/-- `node_distance(nodes, q, x)` -/
def dq (c : Cfg V) (ns : NodeMap V) (q : V) (x : Nat) : Nat :=
  match find ns x with
  | some n => c.dist q n.vec
  | none => c.missing

/-! ### `select_neighbors_heuristic` -/

/-- `selected.iter().any(|(_, sv)| vector_distance(cv, sv) < alpha * candidate.distance)` -/
def coveredBy (c : Cfg V) (ns : NodeMap V) (cv : V) (dcq : Nat) (sel : List Nat) : Bool :=
  sel.any fun s =>
    match find ns s with
    | some sn => c.covers (c.dist cv sn.vec) dcq
    | none => false

/-- loop body; `break` at `selected.len() >= m` = skipping the rest (the list never shrinks) -/
def selectStep (c : Cfg V) (ns : NodeMap V) (d : Nat → Nat) (m : Nat) (sel : List Nat) (cand : Nat) :
    List Nat :=
  if m ≤ sel.length then sel
  else
    match find ns cand with
    | none => sel
    | some cn => if coveredBy c ns cn.vec (d cand) sel then sel else sel ++ [cand]

def selectHeur (c : Cfg V) (ns : NodeMap V) (d : Nat → Nat) (cands : List Nat) (m : Nat) : List Nat :=
  cands.foldl (selectStep c ns d m) []

/-! ### linking and pruning -/

/-- first pass: `neighbor.neighbors[lc].push(id)`; remember who now exceeds `m_max` -/
def linkStep (id lc mMax : Nat) (acc : NodeMap V × List Nat) (nb : Nat) : NodeMap V × List Nat :=
  match find acc.1 nb with
  | none => acc
  | some n =>
    if lc < n.nbrs.length then
      let l' := n.nbrs.getD lc [] ++ [id]
      (setLayer acc.1 nb lc l', if mMax < l'.length then acc.2 ++ [nb] else acc.2)
    else acc

/-- second + third pass for one marked neighbour: `prune_neighbors_with_distances`
(stable sort by the distance from the neighbour's own vector, `take(m)`) -/
def pruneOne (c : Cfg V) (lc mMax : Nat) (ns : NodeMap V) (nb : Nat) : NodeMap V :=
  match find ns nb with
  | none => ns
  | some n =>
    if lc < n.nbrs.length then
      let l := n.nbrs.getD lc []
      if l.length ≤ mMax then ns
      else setLayer ns nb lc ((sortBy (dq c ns n.vec) l).take mMax)
    else ns

/-- body of `for lc in (0..=level.min(current_max_level)).rev()`; returns the next `current_ep` -/
def layerStep (c : Cfg V) (id : Nat) (v : V) (lc : Nat) (ns : NodeMap V) (cur : Nat) :
    NodeMap V × Nat :=
  let mMax := if lc = 0 then c.mMax else c.m
  let d := dq c ns v
  let cands := searchLayer (adjAt ns lc) d c.efc c.fuel cur
  let selected := selectHeur c ns d cands mMax
  let ns1 := setLayer ns id lc selected
  let linked := selected.foldl (linkStep id lc mMax) (ns1, [])
  let ns3 := linked.2.foldl (pruneOne c lc mMax) linked.1
  (ns3, selected.headD cur)

/-- the layer loop, `n` = number of layers still to do (current layer `n - 1`) -/
def layers (c : Cfg V) (id : Nat) (v : V) : Nat → NodeMap V → Nat → NodeMap V
  | 0, ns, _ => ns
  | lc + 1, ns, cur =>
    let r := layerStep c id v lc ns cur
    layers c id v lc r.1 r.2

/-- `for lc in (level + 1..=current_max_level).rev() { current_ep = search_layer_single(..) }`;
`n` = number of layers still to do (current layer `lo + n`) -/
def descendFrom (c : Cfg V) (ns : NodeMap V) (v : V) (lo : Nat) : Nat → Nat → Nat
  | 0, cur => cur
  | n + 1, cur =>
    descendFrom c ns v lo n (searchLayerSingle (adjAt ns (lo + n + 1)) (dq c ns v) c.fuel cur)

/-- `HnswIndex::insert` with the drawn level as an argument -/
def insert (c : Cfg V) (ix : Index V) (id level : Nat) (v : V) : Index V :=
  let node : Node V := { vec := v, nbrs := List.replicate (level + 1) [] }
  match ix.entry with
  | none => { nodes := put ix.nodes id node, entry := some id, maxLevel := level }
  | some ep =>
    let ns0 := put ix.nodes id node
    let cur := descendFrom c ns0 v level (ix.maxLevel - level) ep
    let ns1 := layers c id v (min level ix.maxLevel + 1) ns0 cur
    if ix.maxLevel < level then { nodes := ns1, entry := some id, maxLevel := level }
    else { nodes := ns1, entry := some ep, maxLevel := ix.maxLevel }

/-! ### `remove` -/

/-- `nodes.keys().next()`: any key may come out; `pick` is the one that did (first key if `pick`
is not a key — the choice is total) -/
def choose (pick : Nat) (ks : List Nat) : Option Nat :=
  if pick ∈ ks then some pick else ks.head?

/-- `neighbors.retain(|&n| n != id)` on every list of every node -/
def unlink (ns : NodeMap V) (id : Nat) : NodeMap V :=
  ns.map fun p => (p.1, { p.2 with nbrs := p.2.nbrs.map (fun l => l.filter (· ≠ id)) })

def eraseKey (ns : NodeMap V) (id : Nat) : NodeMap V := ns.filter (fun p => p.1 ≠ id)

/-- `HnswIndex::remove` (the returned flag is `found`) -/
def remove (ix : Index V) (id pick : Nat) : Index V × Bool :=
  match find ix.nodes id with
  | none => (ix, false)
  | some _ =>
    let ns := unlink (eraseKey ix.nodes id) id
    let e := if ix.entry = some id then choose pick (keys ns) else ix.entry
    ({ nodes := ns, entry := e, maxLevel := ix.maxLevel }, true)

/-! ### histories -/

inductive Op (V : Type) where
  | ins (id level : Nat) (v : V)
  | rem (id pick : Nat)

def empty : Index V := { nodes := [], entry := none, maxLevel := 0 }

def step (c : Cfg V) (ix : Index V) : Op V → Index V
  | .ins id level v => insert c ix id level v
  | .rem id pick => (remove ix id pick).1

def run (c : Cfg V) (ops : List (Op V)) : Index V := ops.foldl (step c) empty

/-- `len()` -/
def Index.len (ix : Index V) : Nat := ix.nodes.length

/-- what `verif_dump` shows, as the graph type the search model works on -/
def Index.toGraph (ix : Index V) : Graph :=
  { nodes := keys ix.nodes, nbrs := fun x l => adjAt ix.nodes l x, entry := ix.entry,
    maxLevel := ix.maxLevel }

/-! ### executable invariant checkers (verdicts printed by the driver; the harness computes the
same verdicts on the real dump) -/

/-- all lists of all nodes, with owner and layer -/
def allLists (ns : NodeMap V) : List (Nat × Nat × List Nat) :=
  (keys ns).flatMap fun k =>
    match find ns k with
    | none => []
    | some n => (List.range n.nbrs.length).map fun i => (k, i, n.nbrs.getD i [])

def levelOf (ns : NodeMap V) (x : Nat) : Option Nat := (find ns x).map (fun n => n.nbrs.length - 1)

/-- (a) every neighbour id is a present node -/
def chkA (ix : Index V) : Bool :=
  (allLists ix.nodes).all fun t => t.2.2.all fun x => (find ix.nodes x).isSome
/-- (b) no node lists itself -/
def chkB (ix : Index V) : Bool := (allLists ix.nodes).all fun t => !(t.2.2.contains t.1)
/-- (c) no list has duplicates -/
def chkC (ix : Index V) : Bool := (allLists ix.nodes).all fun t => nodupB t.2.2
/-- (d) length ≤ M0 on layer 0, ≤ M above -/
def chkD (m mMax : Nat) (ix : Index V) : Bool :=
  (allLists ix.nodes).all fun t => decide (t.2.2.length ≤ if t.2.1 = 0 then mMax else m)
/-- (e) a node is listed on layer `l` only if its level is at least `l` -/
def chkE (ix : Index V) : Bool :=
  (allLists ix.nodes).all fun t => t.2.2.all fun x =>
    match levelOf ix.nodes x with
    | some lv => decide (t.2.1 ≤ lv)
    | none => true
/-- (f1) an entry point exists iff the index is non-empty, and it is a present node -/
def chkF1 (ix : Index V) : Bool :=
  match ix.entry with
  | none => ix.nodes.isEmpty
  | some e => (find ix.nodes e).isSome
/-- (f2) the entry point sits on `max_level`, which is the greatest level -/
def chkF2 (ix : Index V) : Bool :=
  match ix.entry with
  | none => true
  | some e => levelOf ix.nodes e == some ix.maxLevel &&
      (keys ix.nodes).all fun k =>
        match levelOf ix.nodes k with
        | some lv => decide (lv ≤ ix.maxLevel)
        | none => true
/-- (g) `len()` = number of distinct present ids -/
def chkG (ix : Index V) : Bool := nodupB (keys ix.nodes)

/-- the invariants that hold after EVERY history (`Props/C18Build.lean`): `ok` or the failing letters -/
def verdictCore (m mMax : Nat) (ix : Index V) : String :=
  let bad := (if chkA ix then [] else ["a"]) ++ (if chkD m mMax ix then [] else ["d"]) ++
    (if chkF1 ix then [] else ["f1"]) ++ (if chkG ix then [] else ["g"])
  if bad.isEmpty then "ok" else "viol:" ++ ",".intercalate bad

/-- the shape invariants that re-inserting a present id / removing the entry point can break -/
def verdictShape (ix : Index V) : String :=
  let bad := (if chkB ix then [] else ["b"]) ++ (if chkC ix then [] else ["c"]) ++
    (if chkE ix then [] else ["e"]) ++ (if chkF2 ix then [] else ["f2"])
  if bad.isEmpty then "ok" else "viol:" ++ ",".intercalate bad

/-! ### quantisation (`quantization.rs`), integer parts -/

/-- `u64::count_ones` -/
def popcount : Nat → Nat
  | 0 => 0
  | n + 1 => (n + 1) % 2 + popcount ((n + 1) / 2)
decreasing_by omega

/-- `BinaryQuantizer::hamming_distance` on packed words (`zip` stops at the shorter slice) -/
def hammingWords : List Nat → List Nat → Nat
  | a :: as, b :: bs => popcount (a ^^^ b) + hammingWords as bs
  | _, _ => 0

/-- sign bits: `v >= 0.0` -/
def signBits (v : List Int) : List Bool := v.map (fun x => decide (0 ≤ x))

/-- value of little-endian bits -/
def bitsVal : List Bool → Nat
  | [] => 0
  | b :: bs => (if b then 1 else 0) + 2 * bitsVal bs

/-- `BinaryQuantizer::quantize`: `(len + 63) / 64` words, bit `i % 64` of word `i / 64`;
fuel = number of words -/
def packWords : Nat → List Bool → List Nat
  | 0, _ => []
  | n + 1, bs => bitsVal (bs.take 64) :: packWords n (bs.drop 64)

def bqQuantize (v : List Int) : List Nat := packWords ((v.length + 63) / 64) (signBits v)

/-- the specification: number of positions where the bits differ -/
def diffBits : List Bool → List Bool → Nat
  | a :: as, b :: bs => (if a = b then 0 else 1) + diffBits as bs
  | _, _ => 0

/-- `ScalarQuantizer::with_ranges(min = mn, max = mn + 255·s)` with `s` a power of two, on integer
inputs (every f32 operation is then exact): `scale = 1/s`, `inv_scale = s`;
`quantize x = ((x - mn) * scale).clamp(0, 255) as u8`, `dequantize q = mn + q * inv_scale` -/
def sqQuantize (mn : Int) (s : Nat) (x : Int) : Nat :=
  if x < mn then 0 else min 255 ((x - mn).toNat / s)

def sqDequantize (mn : Int) (s : Nat) (q : Nat) : Int := mn + (q * s : Nat)

/-- `distance_squared_u8` numerator on codes when all steps are `s`: `Σ (a-b)² · s²` -/
def sqDistSqCodes (s : Nat) : List Nat → List Nat → Nat
  | a :: as, b :: bs => ((a : Int) - b).natAbs ^ 2 * s * s + sqDistSqCodes s as bs
  | _, _ => 0

end Grafeo.HnswBuild
