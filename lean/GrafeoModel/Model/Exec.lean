/-
Model of the parallel-execution building blocks of
`crates/grafeo-core/src/execution/parallel/{morsel,merge}.rs`:
`generate_morsels`, `merge_sorted_runs` (k-way merge; the heap is "pop a run whose head is
minimal"), `MergeableAccumulator::{add, merge}` over integers.
-/
namespace Grafeo.Exec

structure Morsel where
  id : Nat
  start : Nat
  stop : Nat
  deriving DecidableEq, Repr

/-- the loop `for (id, start) in (0..total).step_by(size).enumerate()`; fuel = total. -/
def morselsFrom (total size : Nat) : Nat → Nat → Nat → List Morsel
  | 0, _, _ => []
  | fuel + 1, id, start =>
    if start ≥ total then []
    else ⟨id, start, min (start + size) total⟩ :: morselsFrom total size fuel (id + 1) (start + size)

/-- `generate_morsels(total_rows, morsel_size, _)` -/
def generateMorsels (total size : Nat) : List Morsel :=
  if total = 0 ∨ size = 0 then [] else morselsFrom total size total 0 0

/-! ### k-way merge -/

/-- index of the first run whose head is minimal among the heads (none if all runs are empty) -/
def pickMin : List (List Int) → Option Nat
  | [] => none
  | r :: rs =>
    match r, pickMin rs with
    | [], none => none
    | [], some j => some (j + 1)
    | _ :: _, none => some 0
    | x :: _, some j =>
      match rs[j]? with
      | some (y :: _) => if y < x then some (j + 1) else some 0
      | _ => some 0

/-- remove the head of run `i` -/
def popRun : List (List Int) → Nat → List (List Int)
  | [], _ => []
  | r :: rs, 0 => r.tail :: rs
  | r :: rs, i + 1 => r :: popRun rs i

def headOf (runs : List (List Int)) (i : Nat) : Option Int :=
  match runs[i]? with
  | some (x :: _) => some x
  | _ => none

/-- `merge_sorted_runs` for ascending single-key rows, with an arbitrary tie-breaking / heap
discipline `pick` (the theorems assume only that `pick` returns a run with a minimal head). -/
def mergeWith (pick : List (List Int) → Option Nat) : Nat → List (List Int) → List Int
  | 0, _ => []
  | fuel + 1, runs =>
    match pick runs with
    | none => []
    | some i =>
      match headOf runs i with
      | none => []
      | some x => x :: mergeWith pick fuel (popRun runs i)

def totalLen (runs : List (List Int)) : Nat := (runs.map List.length).foldl (· + ·) 0

def mergeSortedRuns (runs : List (List Int)) : List Int := mergeWith pickMin (totalLen runs) runs

/-! ### mergeable accumulators (integers) -/

structure Acc where
  count : Int
  sum : Int
  min : Option Int
  max : Option Int
  first : Option Int
  deriving DecidableEq, Repr

def Acc.new : Acc := ⟨0, 0, none, none, none⟩

def optMin (m : Option Int) (v : Int) : Option Int :=
  match m with | none => some v | some m => some (if v < m then v else m)

def optMax (m : Option Int) (v : Int) : Option Int :=
  match m with | none => some v | some m => some (if v > m then v else m)

/-- `add` for a non-null integer -/
def Acc.add (a : Acc) (v : Int) : Acc :=
  { count := a.count + 1
    sum := a.sum + v
    min := optMin a.min v          -- `if self.min.is_none() || new < min { min = new }`
    max := optMax a.max v
    first := match a.first with | none => some v | some f => some f }

/-- `merge` -/
def Acc.merge (a b : Acc) : Acc :=
  { count := a.count + b.count
    sum := a.sum + b.sum
    min := match b.min with | none => a.min | some bm => optMin a.min bm
    max := match b.max with | none => a.max | some bm => optMax a.max bm
    first := match a.first with | none => b.first | some f => some f }

def Acc.ofList (vs : List Int) : Acc := vs.foldl Acc.add Acc.new

end Grafeo.Exec
