import GrafeoModel.Model.Lpg

/-!
# `LpgStore` node operations under thread interleavings (C20, property-graph clause)

One step of a thread = what the real code does between two yield points
(`crates/grafeo-core/src/graph/lpg/store.rs`, non-tiered build, store epoch 0, every label already
in the catalog so that `get_or_create_label_id` takes its read path):

  create_node([l…])   alloc   `next_node_id.fetch_add`, label ids looked up        ↦ `Pc.idle → crLabel`
                      per label: `label_index.write()` insert                       ↦ `Pc.crLabel`
                      `node_labels.write()` insert                                  ↦ `Pc.crNodeLabels`
                      `nodes.write()` insert                                        ↦ `Pc.crNodes`
  delete_node(id)     `nodes.write()` held: chain, label structures, properties     ↦ `Pc.del`
  add_label(id, l)    pre-check under `nodes.read()` (picked up with the operation) ↦ `Pc.idle → addUpd`
                      `nodes.write()` held: re-check, node_labels, label_index      ↦ `Pc.addUpd`
  remove_label(id, l) pre-check; then `nodes.write()` held                          ↦ `Pc.remUpd`
  set_node_property   `nodes.write()` held: property index, column, count           ↦ `Pc.setP`
  remove_node_property  the same                                                    ↦ `Pc.remP`

The ghost `log` records the operations whose single effect step is atomic, in the order of those
steps, with their results. No imports beyond the sequential model: linked into `gdriver`.
-/
namespace Grafeo.LpgConc
open Grafeo.Lpg

inductive COp where
  | create (labels : List Nat)
  | delete (id : Nat)
  | addLabel (id l : Nat)
  | remLabel (id l : Nat)
  | setProp (id key : Nat) (v : String)
  | remProp (id key : Nat)
deriving Repr, DecidableEq

inductive Pc where
  | idle
  | crLabel (id : Nat) (todo all : List Nat)
  | crNodeLabels (id : Nat) (all : List Nat)
  | crNodes (id : Nat) (all : List Nat)
  | del (id : Nat)
  | addUpd (id l : Nat)
  | remUpd (id l : Nat)
  | setP (id key : Nat) (v : String)
  | remP (id key : Nat)
deriving Repr, DecidableEq

structure Thread where
  pc : Pc := .idle
  todo : List COp := []
  /-- textual results, oldest first: a created id, `1`/`0`, `-` for a property write -/
  results : List String := []
deriving Repr

structure State where
  store : Store
  threads : List Thread := []
  log : List (Nat × COp × String) := []
deriving Repr

def done (t : Thread) (r : String) : Thread := { t with pc := .idle, results := t.results ++ [r] }
def b2s (b : Bool) : String := if b then "1" else "0"

def nodeLive (s : Store) (id : Nat) : Bool :=
  match aget s.nodes id with
  | some c => chainVisibleAt c s.epoch
  | none => false

/-- the sequential effect of an operation whose mutation is one critical section -/
def applyAtomic (s : Store) : COp → Store × String
  | .delete id => let r := s.deleteNodeAt id s.epoch; (r.1, b2s r.2)
  | .addLabel id l => let r := s.addLabel id l; (r.1, b2s r.2)
  | .remLabel id l => let r := s.removeLabel id l; (r.1, b2s r.2)
  | .setProp id k v => (s.setNodeProp id k v, "-")
  | .remProp id k => let r := s.removeNodeProp id k; (r.1, b2s r.2.isSome)
  | .create labels => let r := s.createNode labels s.epoch systemTx; (r.1, toString r.2)

def stepThread (i : Nat) (s : Store) (log : List (Nat × COp × String)) (t : Thread) :
    Store × List (Nat × COp × String) × Thread :=
  match t.pc with
  | .idle =>
    match t.todo with
    | [] => (s, log, t)
    | .create labels :: rest =>
      -- `fetch_add` on the id counter; labels are de-duplicated by the hash set only in node_labels
      let id := s.nextNode
      let s' := { s with nextNode := id + 1 }
      (s', log, { t with todo := rest, pc := match labels with
        | [] => .crNodeLabels id labels
        | _ => .crLabel id labels labels })
    | .delete id :: rest => (s, log, { t with todo := rest, pc := .del id })
    | .addLabel id l :: rest =>
      if nodeLive s id then (s, log, { t with todo := rest, pc := .addUpd id l })
      else (s, log ++ [(i, .addLabel id l, "0")], done { t with todo := rest } "0")
    | .remLabel id l :: rest =>
      if nodeLive s id then (s, log, { t with todo := rest, pc := .remUpd id l })
      else (s, log ++ [(i, .remLabel id l, "0")], done { t with todo := rest } "0")
    | .setProp id k v :: rest => (s, log, { t with todo := rest, pc := .setP id k v })
    | .remProp id k :: rest => (s, log, { t with todo := rest, pc := .remP id k })
  | .crLabel id todo all =>
    match todo with
    | [] => (s, log, { t with pc := .crNodeLabels id all })
    | l :: more =>
      let s' := { s with labelIdx := aset s.labelIdx l (sinsert ((aget s.labelIdx l).getD []) id) }
      (s', log, { t with pc := match more with
        | [] => .crNodeLabels id all
        | _ => .crLabel id more all })
  | .crNodeLabels id all =>
    ({ s with nodeLabels := aset s.nodeLabels id (all.foldl sinsert []) }, log, { t with pc := .crNodes id all })
  | .crNodes id all =>
    ({ s with nodes := aset s.nodes id [⟨s.epoch, systemTx, none⟩] }, log ++ [(i, .create all, toString id)], done t (toString id))
  | .del id => let r := applyAtomic s (.delete id); (r.1, log ++ [(i, .delete id, r.2)], done t r.2)
  | .addUpd id l => let r := applyAtomic s (.addLabel id l); (r.1, log ++ [(i, .addLabel id l, r.2)], done t r.2)
  | .remUpd id l => let r := applyAtomic s (.remLabel id l); (r.1, log ++ [(i, .remLabel id l, r.2)], done t r.2)
  | .setP id k v => let r := applyAtomic s (.setProp id k v); (r.1, log ++ [(i, .setProp id k v, r.2)], done t r.2)
  | .remP id k => let r := applyAtomic s (.remProp id k); (r.1, log ++ [(i, .remProp id k, r.2)], done t r.2)

def Thread.finished (t : Thread) : Bool := t.pc == .idle && t.todo.isEmpty

def step (st : State) (i : Nat) : State :=
  match st.threads[i]? with
  | none => st
  | some t =>
    let r := stepThread i st.store st.log t
    { store := r.1, log := r.2.1, threads := st.threads.set i r.2.2 }

def runSched (st : State) (sched : List Nat) : State := sched.foldl step st

def finishThread : Nat → State → Nat → State
  | 0, st, _ => st
  | fuel + 1, st, i =>
    match st.threads[i]? with
    | none => st
    | some t => if t.finished then st else finishThread fuel (step st i) i

def finishAll (fuel : Nat) (st : State) : State :=
  (List.range st.threads.length).foldl (finishThread fuel) st

/-- the store the threads start from: `n0` unlabelled nodes and an index on property key 0 -/
def initStore (n0 : Nat) : Store :=
  let s := (List.range n0).foldl (fun s _ => (s.createNode [] 0 systemTx).1) ({} : Store)
  s.createIndex 0

def init (n0 : Nat) (progs : List (List COp)) : State :=
  { store := initStore n0, threads := progs.map (fun p => { todo := p }) }

/-- do the label index and the property index agree with the primary data on the live nodes? -/
def consistent (s : Store) : Bool :=
  let live := s.nodeIds
  let labels := (s.labelIdx.map (·.1)) ++ (s.nodeLabels.flatMap (·.2))
  labels.all (fun l =>
    let viaIdx := (s.nodesByLabel l).filter (fun _ => true)
    let viaScan := live.filter (fun id => (s.nodeLabelsOf id).contains l)
    viaIdx.all (fun id => viaScan.contains id) && viaScan.all (fun id => viaIdx.contains id) &&
    viaIdx.all (fun id => (viaIdx.filter (· == id)).length == 1))

end Grafeo.LpgConc
