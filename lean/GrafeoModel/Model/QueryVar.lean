import GrafeoModel.Model.Query

/-!
# Variable-length hops `(a)-[:T*lo..hi]->(b)` (C08)

Specification: sequences of `k` pattern-matching edges, `lo ≤ k ≤ hi`, each binding `b` to the end
node; `k = 0` binds `b` to the start node itself. With `distinctEdges` (openCypher: a relationship
is not traversed twice within one pattern) the sequences are **trails**; without it (GQL's default
path mode WALK) they are walks.

As-is model (`crates/grafeo-core/src/execution/operators/variable_length_expand.rs`,
`process_input_row`): a breadth-first enumeration of **walks** that starts at depth 1 — an edge may
be used again, and the zero-length match is never produced.

No imports beyond the fixed-length model: linked into `gdriver`.
-/
namespace Grafeo.Query

/-- does edge `e` lead from node id `a` to node id `c` under the hop's direction and type? -/
def stepOk (h : Hop) (a c : Nat) (e : Edge) : Bool :=
  tyOk h e &&
  (match h.dir with
   | .out => e.src == a && e.dst == c
   | .inc => e.dst == a && e.src == c
   | .both => (e.src == a && e.dst == c) || (e.dst == a && e.src == c))

namespace Spec

/-- end nodes of the trails of exactly `k` further steps from `a` that avoid the edges `used` -/
def trails (g : Graph) (h : Hop) (distinctEdges : Bool) : Nat → Node → List Nat → List Node
  | 0, a, _ => [a]
  | k + 1, a, used =>
    g.nodes.flatMap (fun c =>
      g.edges.flatMap (fun e =>
        if stepOk h a.id c.id e && !(distinctEdges && used.contains e.id)
        then trails g h distinctEdges k c (e.id :: used) else []))

def varBindings (g : Graph) (start : NodePat) (h : Hop) (distinctEdges : Bool) (lo hi : Nat) : List Binding :=
  (g.nodes.filter (labelOk start)).flatMap (fun a =>
    (List.range (hi + 1 - lo)).flatMap (fun i =>
      ((trails g h distinctEdges (lo + i) a []).filter (labelOk h.target)).map (fun c => [a, c])))

end Spec

namespace Pipe

/-- adjacency of node id `a` as `edges_from(a, direction)` lists it, restricted to the edge type -/
def neighbours (g : Graph) (h : Hop) (a : Nat) : List Nat :=
  let outs := (g.edges.filter (fun e => e.src == a)).filter (tyOk h)
  let ins := (g.edges.filter (fun e => e.dst == a)).filter (tyOk h)
  match h.dir with
  | .out => outs.map (·.dst)
  | .inc => ins.map (·.src)
  | .both => outs.map (·.dst) ++ (ins.filter (fun e => e.src != a)).map (·.src)

/-- node ids reached by walks of exactly `k ≥ 1` steps (`frontier` at depth `k`) -/
def level (g : Graph) (h : Hop) (a : Nat) : Nat → List Nat
  | 0 => [a]
  | k + 1 => (level g h a k).flatMap (neighbours g h)

def varBindings (g : Graph) (start : NodePat) (h : Hop) (lo hi : Nat) : List Binding :=
  (g.nodes.filter (labelOk start)).flatMap (fun a =>
    (List.range (hi + 1 - lo)).flatMap (fun i =>
      -- depth 0 is never emitted
      if lo + i = 0 then []
      else (level g h a.id (lo + i)).filterMap (fun cid =>
        match g.node? cid with
        | some c => if labelOk h.target c then some [a, c] else none
        | none => none)))

end Pipe

def Spec.evalVar (g : Graph) (q : Q) (h : Hop) (distinctEdges : Bool) (lo hi : Nat) : List (List Val) :=
  finish q (Spec.varBindings g q.start h distinctEdges lo hi)

def Pipe.execVar (g : Graph) (q : Q) (h : Hop) (lo hi : Nat) : List (List Val) :=
  finish q (Pipe.varBindings g q.start h lo hi)

end Grafeo.Query
