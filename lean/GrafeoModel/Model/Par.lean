import GrafeoModel.Model.Exec
import GrafeoModel.Model.F64

/-!
Model of `crates/grafeo-core/src/execution/parallel/{source,fold,scheduler}.rs` (C17), as the
code is.

* §1 sources: every `ParallelSource` and the partition source its `create_partition(morsel)`
  returns, as the loop `while let Some(chunk) = src.next_chunk(chunk_size)`.
* §2 fold: rayon's `items.fold(init, f).reduce(init, m)` over an explicit split/merge tree
  (`Shape`), and the concrete helpers of `fold.rs`.
* §3 scheduler: `MorselScheduler` / `WorkerHandle` as a state machine whose steps are the
  individual atomic operations of the Rust methods.
-/
namespace Grafeo.Par
open Grafeo.Exec

/-! ## 1. sources -/

/-- what a consumer that drains a source observes: the emitted chunks as row ranges
`[a, b)` of the underlying table, a source that never returns `None`, or a slice panic. -/
inductive Res where
  | ok (rs : List (Nat × Nat))
  | loop
  | panic
  deriving DecidableEq, Repr

def Res.cons (r : Nat × Nat) : Res → Res
  | .ok rs => .ok (r :: rs)
  | x => x

/-- `next_chunk` loop shared by `ParallelVectorSource`/`PartitionedVectorSource`
(`clamp = false`: `&col[position..end]` panics beyond the column), `RangeSource`/`RangePartition`
(`clamp = false`, `L` = anything ≥ `stop`: rows are computed, nothing is indexed) and
`Parallel/PartitionedTripleScanSource`, `Parallel/PartitionedNodeScanSource` (`clamp = true`:
`.min(self.triples.len())`).  `L` = number of readable rows, `stop` = `end_row`,
`pos` = `position`; one unit of fuel per `next_chunk` call. -/
def drainSlice (L : Nat) (clamp : Bool) (cs stop : Nat) : Nat → Nat → Res
  | 0, _ => .loop
  | fuel + 1, pos =>
    if pos ≥ stop ∨ (clamp = true ∧ pos ≥ L) then .ok []
    else
      let e0 := min (pos + cs) stop
      let e := if clamp then min e0 L else e0
      if e > L then .panic
      else (drainSlice L clamp cs stop fuel e).cons (pos, e)

/-- the partition source of morsel `[start, stop)` drained with chunk size `cs`
(`stop + 2` calls are enough whenever `cs > 0`; with `cs = 0` no number of calls is). -/
def partRanges (L : Nat) (clamp : Bool) (start stop cs : Nat) : Res :=
  drainSlice L clamp cs stop (stop + 2) start

/-- the unpartitioned source (`total_rows() = n0`): same loop from position 0. -/
def wholeRanges (L : Nat) (clamp : Bool) (n0 cs : Nat) : Res := partRanges L clamp 0 n0 cs

/-- rows `[a, b)` of a table -/
def sliceRows {α : Type} (rows : List α) (r : Nat × Nat) : List α := (rows.drop r.1).take (r.2 - r.1)

/-- all rows a drained source delivered (nothing for `loop` / `panic`) -/
def resRows {α : Type} (rows : List α) : Res → List α
  | .ok rs => (rs.map (sliceRows rows)).flatten
  | _ => []

def Res.isOk : Res → Bool
  | .ok _ => true
  | _ => false

/-- morsels that follow each other without gap or overlap from row `a` to row `b` -/
def contig (a : Nat) : List Morsel → Nat → Bool
  | [], b => a == b
  | m :: ms, b => m.start == a && decide (m.start ≤ m.stop) && contig m.stop ms b

/-! ### `ParallelChunkSource` / `PartitionedChunkSource` -/

/-- `cumulative_rows` (with `base = 0`) -/
def cumRows {α : Type} : Nat → List (List α) → List Nat
  | base, [] => [base]
  | base, c :: cs => base :: cumRows (base + c.length) cs

/-- `find_chunk_index`: `binary_search_by(|c| c.cmp(&row))` on the sorted `cumulative_rows`;
`Ok(i)`/`Err(i)` are both mapped to "last index whose entry is ≤ row", clamped to the last chunk.
With zero-row chunks `cumulative_rows` has duplicates and `Ok(i)` is *a* match: the pinned std
(`core::slice::binary_search_by`, branch-free version) returns the last one, which is what this
function computes; `findChunkIndexFirst` is the other extreme the std contract allows. -/
def findChunkIndex (cum : List Nat) (nchunks row : Nat) : Nat :=
  min ((cum.takeWhile (· ≤ row)).length - 1) (nchunks - 1)

/-- a `binary_search` that returns the FIRST of several equal entries (allowed by its contract) -/
def findChunkIndexFirst (cum : List Nat) (nchunks row : Nat) : Nat :=
  if cum.contains row then min (cum.takeWhile (· < row)).length (nchunks - 1)
  else min ((cum.takeWhile (· ≤ row)).length - 1) (nchunks - 1)

/-- `PartitionedChunkSource::next_chunk` loop, `find` = the index search used -/
def drainChunkPartWith {α : Type} (find : List Nat → Nat → Nat → Nat) (chunks : List (List α))
    (cum : List Nat) (cs stop : Nat) : Nat → Nat → List (List α)
  | 0, _ => []
  | fuel + 1, cur =>
    if cur ≥ stop ∨ chunks.isEmpty then []
    else
      let idx := find cum chunks.length cur
      let chunk := chunks.getD idx []
      let off := cur - cum.getD idx 0
      let n := min (min (chunk.length - off) (stop - cur)) cs
      if n = 0 then []
      else (chunk.drop off).take n :: drainChunkPartWith find chunks cum cs stop fuel (cur + n)

def drainChunkPart {α : Type} (chunks : List (List α)) (cs start stop : Nat) : List (List α) :=
  drainChunkPartWith findChunkIndex chunks (cumRows 0 chunks) cs stop (stop + 2) start

/-- `ParallelChunkSource::next_chunk` ignores the chunk size and hands out the stored chunks -/
def drainChunkWhole {α : Type} (chunks : List (List α)) : List (List α) := chunks

/-! ## 2. fold / reduce -/

/-- how rayon cut the input: leaves are the contiguous pieces (in input order) that one
`fold` folder consumed sequentially, nodes are the `reduce` calls. Every binary tree over
every split into contiguous pieces (empty pieces included) is a `Shape`. -/
inductive Shape (α : Type) where
  | leaf (xs : List α)
  | node (l r : Shape α)
  deriving Repr

def Shape.items {α : Type} : Shape α → List α
  | .leaf xs => xs
  | .node l r => l.items ++ r.items

/-- `items.fold(init, f).reduce(init, m)`: a leaf folds its piece from `init()` and hands the
accumulator to a reduce folder that starts from `init()` as well (`m init acc`). -/
def foldReduce {α β : Type} (init : β) (f : β → α → β) (m : β → β → β) : Shape α → β
  | .leaf xs => m init (xs.foldl f init)
  | .node l r => m (foldReduce init f m l) (foldReduce init f m r)

/-- the shape rayon-core 1.13 produces inside a one-thread pool: `LengthSplitter` starts with
`splits = current_num_threads() = 1`, so the input is cut once, at `len / 2`, if `len ≥ 2`. -/
def shape1 {α : Type} (xs : List α) : Shape α :=
  if xs.length < 2 then .leaf xs else .node (.leaf (xs.take (xs.length / 2))) (.leaf (xs.drop (xs.length / 2)))

/-! ### the helpers of `fold.rs` -/

/-- `parallel_count` -/
def countF {α : Type} (p : α → Bool) (c : Nat) (x : α) : Nat := c + (if p x then 1 else 0)
def parCount {α : Type} (p : α → Bool) : Shape α → Nat := foldReduce 0 (countF p) (· + ·)

/-- `i64` wrapping addition (release builds) -/
def wrap64 (z : Int) : Int := (z + 9223372036854775808) % 18446744073709551616 - 9223372036854775808
def wadd (a b : Int) : Int := wrap64 (a + b)
/-- `parallel_sum_i64`, release profile -/
def parSumI64 : Shape Int → Int := foldReduce 0 wadd wadd

/-- `i64` addition with overflow checks (debug / `overflow-checks = true`): `none` = panic -/
def cadd (a b : Option Int) : Option Int :=
  match a, b with
  | some x, some y =>
    if -9223372036854775808 ≤ x + y ∧ x + y ≤ 9223372036854775807 then some (x + y) else none
  | _, _ => none
/-- `parallel_sum_i64` with overflow checks -/
def parSumI64Checked : Shape Int → Option Int :=
  foldReduce (some 0) (fun s x => cadd s (some x)) cadd

/-- `f64` addition of two integer-valued doubles: the exact sum rounded to 53 significant bits,
ties to even (valid while the sum stays below 2^1023). -/
def rne53Nat (n : Nat) : Nat :=
  let l := F64.bitLen n
  if l ≤ 53 then n
  else
    let sh := l - 53
    let q := n / 2 ^ sh
    let r := n % 2 ^ sh
    let half := 2 ^ (sh - 1)
    if r > half ∨ (r = half ∧ q % 2 = 1) then (q + 1) * 2 ^ sh else q * 2 ^ sh
def rne53 (z : Int) : Int := if z ≥ 0 then (rne53Nat z.toNat : Int) else -(rne53Nat (-z).toNat : Int)
def fadd (a b : Int) : Int := rne53 (a + b)
/-- `parallel_sum` over integer-valued doubles -/
def parSumF : Shape Int → Int := foldReduce 0 fadd fadd

/-- elements whose `Ord` looks at the key only (`tag` tells equal elements apart) -/
abbrev KV := Int × Nat

/-- `parallel_min`: fold step `Some(m) if m < val => m, _ => val` -/
def minF (acc : Option KV) (x : KV) : Option KV :=
  match acc with
  | some m => if m.1 < x.1 then some m else some x
  | none => some x
/-- `parallel_min`: reduce step `if va < vb { va } else { vb }` -/
def minM (a b : Option KV) : Option KV :=
  match a, b with
  | some va, some vb => some (if va.1 < vb.1 then va else vb)
  | some v, none => some v
  | none, some v => some v
  | none, none => none
def parMin : Shape KV → Option KV := foldReduce none minF minM

def maxF (acc : Option KV) (x : KV) : Option KV :=
  match acc with
  | some m => if m.1 > x.1 then some m else some x
  | none => some x
def maxM (a b : Option KV) : Option KV :=
  match a, b with
  | some va, some vb => some (if va.1 > vb.1 then va else vb)
  | some v, none => some v
  | none, some v => some v
  | none, none => none
def parMax : Shape KV → Option KV := foldReduce none maxF maxM

/-- `parallel_try_collect` -/
def tcF {α ρ ε : Type} (process : α → Except ε ρ) (acc : List ρ × List ε) (x : α) : List ρ × List ε :=
  match process x with
  | .ok r => (acc.1 ++ [r], acc.2)
  | .error e => (acc.1, acc.2 ++ [e])
def tcM {ρ ε : Type} (a b : List ρ × List ε) : List ρ × List ε := (a.1 ++ b.1, a.2 ++ b.2)
def parTryCollect {α ρ ε : Type} (process : α → Except ε ρ) : Shape α → List ρ × List ε :=
  foldReduce ([], []) (tcF process) tcM

/-- `parallel_partition`: the `HashMap<K, Vec<V>>` as an association list -/
def pushKey {κ ν : Type} [DecidableEq κ] (k : κ) (vs : List ν) : List (κ × List ν) → List (κ × List ν)
  | [] => [(k, vs)]
  | (k', ws) :: rest => if k' = k then (k', ws ++ vs) :: rest else (k', ws) :: pushKey k vs rest
def partF {α κ ν : Type} [DecidableEq κ] (keyFn : α → κ) (valFn : α → ν) (map : List (κ × List ν)) (x : α) :
    List (κ × List ν) := pushKey (keyFn x) [valFn x] map
/-- `for (key, values) in map2 { map1.entry(key).or_default().append(values) }` (in the order the
second map happens to iterate) -/
def partM {κ ν : Type} [DecidableEq κ] (m1 m2 : List (κ × List ν)) : List (κ × List ν) :=
  m2.foldl (fun acc kv => pushKey kv.1 kv.2 acc) m1
def parPartition {α κ ν : Type} [DecidableEq κ] (keyFn : α → κ) (valFn : α → ν) : Shape α → List (κ × List ν) :=
  foldReduce [] (partF keyFn valFn) partM
def bucket {κ ν : Type} [DecidableEq κ] (map : List (κ × List ν)) (k : κ) : List ν :=
  match map with
  | [] => []
  | (k', ws) :: rest => if k' = k then ws else bucket rest k

/-! ### `parallel_stats` before commit 1e0886f (kept for the regression theorem) -/
namespace Old
/-- `parallel_stats` over integer-valued doubles and NaN (`none`) -/
abbrev FV := Option Int
def fvLt (a b : FV) : Bool :=
  match a, b with
  | some x, some y => decide (x < y)
  | _, _ => false
def fvAdd (a b : FV) : FV :=
  match a, b with
  | some x, some y => some (x + y)
  | _, _ => none
/-- `f64::min` / `f64::max`: a NaN operand is ignored -/
def fvMin (a b : FV) : FV :=
  match a, b with
  | some x, some y => some (min x y)
  | none, b => b
  | a, none => a
def fvMax (a b : FV) : FV :=
  match a, b with
  | some x, some y => some (max x y)
  | none, b => b
  | a, none => a

structure Stats where
  count : Nat
  sum : FV
  min : Option FV
  max : Option FV
  deriving DecidableEq, Repr

def Stats.init : Stats := ⟨0, some 0, none, none⟩
def statsF (s : Stats) (v : FV) : Stats :=
  ⟨s.count + 1, fvAdd s.sum v,
   some (match s.min with | some m => if fvLt m v then m else v | none => v),
   some (match s.max with | some m => if fvLt v m then m else v | none => v)⟩
def optMerge (g : FV → FV → FV) (a b : Option FV) : Option FV :=
  match a, b with
  | some x, some y => some (g x y)
  | some v, none => some v
  | none, some v => some v
  | none, none => none
def statsM (a b : Stats) : Stats :=
  ⟨a.count + b.count, fvAdd a.sum b.sum, optMerge fvMin a.min b.min, optMerge fvMax a.max b.max⟩
def parStats : Shape FV → Stats := foldReduce Stats.init statsF statsM
end Old

/-! ### `parallel_stats` (after commit 1e0886f: the fold step uses `f64::min`/`f64::max` like the
reduce step) -/

/-- an `f64` as far as `min`/`max`/`<` see it: `none` = NaN; `some (k, tag)` = the number `k`
(integer-valued in the stream), `tag` tells apart values that compare equal but differ in bits
(`+0.0` = `(0, 0)`, `-0.0` = `(0, 1)`). -/
abbrev FB := Option KV

/-- `f64::min`: a NaN operand is ignored; for operands that compare equal (`+0.0`/`-0.0`) the std
documentation allows either one — `tieLeft` is the choice the compiled call makes. -/
def fbMin (tieLeft : Bool) (a b : FB) : FB :=
  match a, b with
  | some x, some y => some (if x.1 < y.1 then x else if y.1 < x.1 then y else if tieLeft then x else y)
  | none, b => b
  | a, none => a
def fbMax (tieLeft : Bool) (a b : FB) : FB :=
  match a, b with
  | some x, some y => some (if x.1 > y.1 then x else if y.1 > x.1 then y else if tieLeft then x else y)
  | none, b => b
  | a, none => a

def fbNum : FB → Option Int
  | some x => some x.1
  | none => none
def fsAdd (a b : Option Int) : Option Int :=
  match a, b with
  | some x, some y => some (x + y)
  | _, _ => none

structure Stats where
  count : Nat
  sum : Option Int          -- exact; NaN = none (the f64 rounding of sums is `parSumF`'s subject)
  min : Option FB
  max : Option FB
  deriving DecidableEq, Repr

def Stats.init : Stats := ⟨0, some 0, none, none⟩
/-- fold step: `Some(min.map_or(val, |m| m.min(val)))`; `tF` = tie choice of these two calls -/
def statsF (tF : Bool) (s : Stats) (v : FB) : Stats :=
  ⟨s.count + 1, fsAdd s.sum (fbNum v),
   some (match s.min with | some m => fbMin tF m v | none => v),
   some (match s.max with | some m => fbMax tF m v | none => v)⟩
def optMerge (g : FB → FB → FB) (a b : Option FB) : Option FB :=
  match a, b with
  | some x, some y => some (g x y)
  | some v, none => some v
  | none, some v => some v
  | none, none => none
/-- reduce step; `tR` = tie choice of its `a.min(b)` / `a.max(b)` calls -/
def statsM (tR : Bool) (a b : Stats) : Stats :=
  ⟨a.count + b.count, fsAdd a.sum b.sum, optMerge (fbMin tR) a.min b.min, optMerge (fbMax tR) a.max b.max⟩
def parStats (tF tR : Bool) : Shape FB → Stats := foldReduce Stats.init (statsF tF) (statsM tR)

/-! ## 3. scheduler -/

def M64 : Nat := 18446744073709551616

/-- `MorselScheduler` + the local queues of the registered `WorkerHandle`s (morsels = their ids;
injector and `Worker::new_fifo` queues are FIFO at both ends used here). -/
structure Sched where
  global : List Nat
  locals : List (List Nat)
  active : Nat
  total : Nat
  subDone : Bool
  done : Bool
  wpn : Option Nat
  deriving DecidableEq, Repr

/-- `MorselScheduler::new(w)` uses `NumaConfig::auto_detect(w)` -/
def autoWpn (w : Nat) : Option Nat := if w > 8 then some ((w + 1) / 2) else none

def Sched.init (w : Nat) (wpn : Option Nat) : Sched :=
  ⟨[], List.replicate w [], 0, 0, false, false, wpn⟩

/-! atomic steps (one shared-memory operation each) -/

/-- `global_queue.push(m)` -/
def submitPush (m : Nat) (s : Sched) : Sched := { s with global := s.global ++ [m] }
/-- `active_morsels.fetch_add(k)`; `total_submitted.fetch_add(k)` -/
def submitCount (k : Nat) (s : Sched) : Sched :=
  { s with active := (s.active + k) % M64, total := (s.total + k) % M64 }
/-- `submission_done.store(true)` -/
def finishStore (s : Sched) : Sched := { s with subDone := true }
/-- `if active_morsels.load() == 0 { done.store(true) }` -/
def finishCheck (s : Sched) : Sched := if s.active = 0 then { s with done := true } else s
/-- `get_global_work` -/
def getGlobal (s : Sched) : Option Nat × Sched :=
  match s.global with
  | [] => (none, s)
  | m :: g => (some m, { s with global := g })

/-- pop the front of queue `w` -/
def popAt : List (List Nat) → Nat → Option Nat × List (List Nat)
  | [], _ => (none, [])
  | q :: qs, 0 =>
    match q with
    | [] => (none, q :: qs)
    | m :: q' => (some m, q' :: qs)
  | q :: qs, w + 1 => let r := popAt qs w; (r.1, q :: r.2)

def pushAt : List (List Nat) → Nat → Nat → List (List Nat)
  | [], _, _ => []
  | q :: qs, 0, m => (q ++ [m]) :: qs
  | q :: qs, w + 1, m => q :: pushAt qs w m

/-- `local_queue.pop()` / `stealer.steal()` on worker `w`'s queue -/
def popLocal (w : Nat) (s : Sched) : Option Nat × Sched :=
  let r := popAt s.locals w
  (r.1, { s with locals := r.2 })

def workerNode (wpn : Option Nat) (id : Nat) : Nat :=
  match wpn with
  | none => 0
  | some k => id / k

/-- victims of `steal_work(my)` in the order tried: same NUMA node first, then the others -/
def victims (s : Sched) (my : Nat) : List Nat :=
  let n := s.locals.length
  let order := (List.range (n - 1)).map (fun i => (my + (i + 1)) % n)
  order.filter (fun v => workerNode s.wpn v == workerNode s.wpn my)
    ++ order.filter (fun v => workerNode s.wpn v != workerNode s.wpn my)

def stealFrom (s : Sched) : List Nat → Option Nat × Sched
  | [] => (none, s)
  | v :: vs =>
    match popLocal v s with
    | (some m, s') => (some m, s')
    | (none, _) => stealFrom s vs

/-- `steal_work(my)` -/
def stealWork (my : Nat) (s : Sched) : Option Nat × Sched :=
  if s.locals.length ≤ 1 then (none, s) else stealFrom s (victims s my)

/-- `local_queue.push(m)` of `push_local` -/
def pushLocalPush (w m : Nat) (s : Sched) : Sched := { s with locals := pushAt s.locals w m }
/-- `active_morsels.fetch_add(1)` of `push_local` -/
def pushLocalCount (s : Sched) : Sched := { s with active := (s.active + 1) % M64 }

/-- `complete_morsel`: `prev = fetch_sub(1)` (wraps); `if prev == 1 && submission_done { done = true }` -/
def complete (s : Sched) : Sched :=
  let s' := { s with active := (s.active + (M64 - 1)) % M64 }
  if s.active = 1 ∧ s.subDone = true then { s' with done := true } else s'

/-! whole methods, as a single thread runs them -/

def submit (m : Nat) (s : Sched) : Sched := submitCount 1 (submitPush m s)
def submitBatch (ms : List Nat) (s : Sched) : Sched := submitCount ms.length (ms.foldl (fun s m => submitPush m s) s)
def finishSubmission (s : Sched) : Sched := finishCheck (finishStore s)
def pushLocal (w m : Nat) (s : Sched) : Sched := pushLocalCount (pushLocalPush w m s)
/-- `WorkerHandle::get_work`: local queue, global queue, steal -/
def getWork (w : Nat) (s : Sched) : Option Nat × Sched :=
  match popLocal w s with
  | (some m, s') => (some m, s')
  | (none, _) =>
    match getGlobal s with
    | (some m, s') => (some m, s')
    | (none, _) => stealWork w s

end Grafeo.Par
