/-!
Model of the search CONTROL LOGIC of `crates/grafeo-core/src/index/vector/hnsw.rs` (C18).

Floating point is not modelled.  The distance of a stored node to the query is an abstract
`d : Nat → Nat` (node id → order key).  The driver instantiates `d` with the f32 bit pattern the
real kernel produced for that node, passed through the monotone map `ordKey` (so that comparing
keys as naturals is `OrderedFloat`'s order on non-NaN values, `-0.0 = +0.0` included).

  HnswIndex::search_layer_single   ↦ `searchLayerSingle`  (greedy walk on one upper layer)
  HnswIndex::search_layer          ↦ `searchLayer`        (beam search: `candidates` min-heap,
                                                           `results` max-heap bounded by `ef`,
                                                           `visited` set, final sort)
  HnswIndex::search_with_ef        ↦ `searchWithEf`
  HnswIndex::batch_search_with_ef  ↦ `batchSearch`
  brute_force_knn (mod.rs)         ↦ `bruteForceKnn`      (stable sort by distance, truncate k)

The binary heaps are modelled as lists: `candidates.pop()` removes an element of least distance,
`results.pop()` an element of greatest distance.  Which of several elements with EQUAL distance a
binary heap hands out is not modelled (first occurrence here); the correspondence stream compares
results textually only on inputs whose distances are pairwise distinct.  None of the theorems of
`Props/C18.lean` depends on the choice.

The `loop`/`while` loops carry a fuel argument; the theorems hold for every fuel value
(`c18_search_returns_k_when_reachable` asks for fuel ≥ the number of reachable nodes).

No imports: this file is linked into the `gdriver` executable.
-/
namespace Grafeo.Hnsw

/-- The layered graph as `HnswIndex::verif_dump` shows it.  `nbrs id level` is the neighbour list
of node `id` at `level` (`[]` when the node does not exist or has fewer levels — the code's
`nodes.get(&id)` / `layer < node.neighbors.len()` guards). -/
structure Graph where
  nodes : List Nat
  nbrs : Nat → Nat → List Nat
  entry : Option Nat
  maxLevel : Nat

/-! ### greedy descent (`search_layer_single`) -/

/-- the `for &neighbor in &node.neighbors[layer]` loop: keep the strictly closer one -/
def greedyStep (d : Nat → Nat) (ns : List Nat) (cur : Nat) : Nat :=
  ns.foldl (fun c n => if d n < d c then n else c) cur

/-- `loop { … if !changed { break } }`; `changed` ⇔ the walk moved to a strictly closer node -/
def searchLayerSingle (adj : Nat → List Nat) (d : Nat → Nat) : Nat → Nat → Nat
  | 0, cur => cur
  | fuel + 1, cur =>
    let nxt := greedyStep d (adj cur) cur
    if d nxt < d cur then searchLayerSingle adj d fuel nxt else cur

/-- `for lc in (1..=max_level).rev() { current_ep = search_layer_single(.., current_ep, lc) }` -/
def descend (G : Graph) (d : Nat → Nat) (fuel : Nat) : Nat → Nat → Nat
  | 0, cur => cur
  | lvl + 1, cur =>
    descend G d fuel lvl (searchLayerSingle (fun x => G.nbrs x (lvl + 1)) d fuel cur)

/-! ### the two heaps, as lists -/

def argMin (d : Nat → Nat) : Nat → List Nat → Nat
  | b, [] => b
  | b, x :: xs => if d x < d b then argMin d x xs else argMin d b xs

def argMax (d : Nat → Nat) : Nat → List Nat → Nat
  | b, [] => b
  | b, x :: xs => if d b < d x then argMax d x xs else argMax d b xs

/-- `BinaryHeap<Neighbor>::peek` (least distance) -/
def minOf (d : Nat → Nat) : List Nat → Option Nat
  | [] => none
  | x :: xs => some (argMin d x xs)

/-- `BinaryHeap<FurthestCandidate>::peek` (greatest distance) -/
def maxOf (d : Nat → Nat) : List Nat → Option Nat
  | [] => none
  | x :: xs => some (argMax d x xs)

/-- pop the greatest element `n` times (stops on the empty heap) -/
def evictN (d : Nat → Nat) : Nat → List Nat → List Nat
  | 0, l => l
  | n + 1, l =>
    match maxOf d l with
    | none => l
    | some m => evictN d n (l.erase m)

/-- `while results.len() > ef { results.pop(); }` -/
def evict (d : Nat → Nat) (ef : Nat) (l : List Nat) : List Nat :=
  evictN d (l.length - ef) l

/-! ### beam search (`search_layer`) -/

structure St where
  cands : List Nat
  results : List Nat
  visited : List Nat

/-- `results.len() < ef || results.peek().map_or(true, |f| dist < f.distance)` -/
def shouldAdd (d : Nat → Nat) (ef : Nat) (results : List Nat) (n : Nat) : Bool :=
  decide (results.length < ef) ||
    (match maxOf d results with
     | none => true
     | some f => decide (d n < d f))

/-- body of `for &neighbor in &node.neighbors[layer]` -/
def visitNbr (d : Nat → Nat) (ef : Nat) (s : St) (n : Nat) : St :=
  if n ∈ s.visited then s
  else if shouldAdd d ef s.results n then
    { cands := n :: s.cands, results := evict d ef (n :: s.results), visited := n :: s.visited }
  else
    { s with visited := n :: s.visited }

/-- the `break` test after `candidates.pop()` -/
def stopNow (d : Nat → Nat) (ef : Nat) (results : List Nat) (c : Nat) : Bool :=
  match maxOf d results with
  | none => false
  | some f => decide (d f < d c) && decide (ef ≤ results.length)

/-- `while let Some(current) = candidates.pop() { … }` -/
def searchLoop (adj : Nat → List Nat) (d : Nat → Nat) (ef : Nat) : Nat → St → St
  | 0, s => s
  | fuel + 1, s =>
    match minOf d s.cands with
    | none => s
    | some c =>
      let s1 : St := { s with cands := s.cands.erase c }
      if stopNow d ef s.results c then s1
      else searchLoop adj d ef fuel ((adj c).foldl (visitNbr d ef) s1)

/-! ### sorting (`sort_by(OrderedFloat)`; stable insertion sort on a key) -/

def insertBy {α : Type} (key : α → Nat) (x : α) : List α → List α
  | [] => [x]
  | y :: ys => if key x ≤ key y then x :: y :: ys else y :: insertBy key x ys

def sortBy {α : Type} (key : α → Nat) (l : List α) : List α :=
  l.foldr (insertBy key) []

def initSt (ep : Nat) : St := { cands := [ep], results := [ep], visited := [ep] }

/-- `search_layer`: the ids of the `ef` best nodes found, closest first -/
def searchLayer (adj : Nat → List Nat) (d : Nat → Nat) (ef fuel ep : Nat) : List Nat :=
  sortBy d (searchLoop adj d ef fuel (initSt ep)).results

/-- `search_with_ef` -/
def searchWithEf (G : Graph) (d : Nat → Nat) (k ef fuel : Nat) : List (Nat × Nat) :=
  match G.entry with
  | none => []
  | some e =>
    if G.nodes.isEmpty then []
    else
      let ep := descend G d fuel G.maxLevel e
      ((searchLayer (fun x => G.nbrs x 0) d (max ef k) fuel ep).take k).map (fun i => (i, d i))

/-- `batch_search_with_ef`: one distance function per query -/
def batchSearch (G : Graph) (ds : List (Nat → Nat)) (k ef fuel : Nat) : List (List (Nat × Nat)) :=
  ds.map (fun d => searchWithEf G d k ef fuel)

/-- `brute_force_knn`: `(id, distance)` pairs, stable sort by distance, `truncate(k)` -/
def bruteForceKnn (k : Nat) (xs : List (Nat × Nat)) : List (Nat × Nat) :=
  (sortBy (fun p => p.2) xs).take k

/-! ### `brute_force_knn` when a distance is NaN

`results.sort_by(|a, b| a.1.partial_cmp(&b.1).unwrap_or(Equal))`: with a NaN the comparator is no
longer a total order, so the result depends on the sorting algorithm.  For at most 20 elements
`sort_by` is std's `insertion_sort_shift_left`: element `i` is moved left past every element it is
strictly less than and stops at the first one it is not — a NaN (`none`) is "equal" to everything,
never moves and lets nothing pass. -/

/-- `a.partial_cmp(b).unwrap_or(Equal) == Less`; `none` is NaN -/
def lessPartial (a b : Option Nat) : Bool :=
  match a, b with
  | some x, some y => decide (x < y)
  | _, _ => false

/-- insert `x` at the tail of a sorted prefix, given REVERSED (last element first) -/
def insertTail {α : Type} (less : α → α → Bool) (x : α) : List α → List α
  | [] => [x]
  | y :: ys => if less x y then y :: insertTail less x ys else x :: y :: ys

/-- `insertion_sort_shift_left(v, 1, is_less)` -/
def stdInsertionSort {α : Type} (less : α → α → Bool) (l : List α) : List α :=
  (l.foldl (fun revPre x => insertTail less x revPre) []).reverse

/-- `brute_force_knn` on at most 20 pairs whose distance may be NaN (`none`) -/
def bruteForceKnnNan (k : Nat) (xs : List (Nat × Option Nat)) : List (Nat × Option Nat) :=
  (stdInsertionSort (fun a b => lessPartial a.2 b.2) xs).take k

/-! ### order key for f32 bit patterns (non-NaN) -/

/-- monotone map from f32 bit patterns to naturals: `a < b` as floats ⇔ `ordKey a < ordKey b`,
and `-0.0`, `+0.0` get the same key (they are equal for `OrderedFloat` and `partial_cmp`). -/
def ordKey (bits : Nat) : Nat :=
  if bits < 2147483648 then 2147483648 + bits else 2147483648 - (bits - 2147483648)

/-! ### executable result checker (the specification of a search result) -/

def sortedByKey : List (Nat × Nat) → Bool
  | [] => true
  | [_] => true
  | a :: b :: rest => decide (a.2 ≤ b.2) && sortedByKey (b :: rest)

def nodupB : List Nat → Bool
  | [] => true
  | x :: xs => !(xs.contains x) && nodupB xs

/-- verdict on a result list: `sound`, or the first clause that fails -/
def checkSound (nodes : List Nat) (d : Nat → Nat) (k : Nat) (r : List (Nat × Nat)) : String :=
  if k < r.length then "more-than-k"
  else if !(nodupB (r.map (·.1))) then "duplicate-id"
  else if !(r.all (fun p => nodes.contains p.1)) then "id-not-in-index"
  else if !(r.all (fun p => p.2 == d p.1)) then "wrong-distance"
  else if !(sortedByKey r) then "not-sorted"
  else "sound"

/-- verdict on a brute-force result: sorted, `min k n` long, a sub-multiset of the input, and
nothing left out is closer than something returned -/
def checkKnn (k : Nat) (xs r : List (Nat × Nat)) : String :=
  if r.length != min k xs.length then "wrong-length"
  else if !(sortedByKey r) then "not-sorted"
  else
    let rest := r.foldl (fun acc p => acc.erase p) xs
    if rest.length + r.length != xs.length then "not-from-input"
    else if !(r.all (fun a => rest.all (fun b => decide (a.2 ≤ b.2)))) then "not-nearest"
    else "exact"

end Grafeo.Hnsw
