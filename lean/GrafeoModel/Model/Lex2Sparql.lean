import GrafeoModel.Model.Lex2

/-
C12 — executable model of the SPARQL lexer, `crates/grafeo-adapters/src/query/sparql/lexer.rs`
(`Lexer::next_token`, `skip_whitespace_and_comments`, `is_iri_start`, `scan_iri`,
`scan_variable_rest`, `scan_blank_node_label`, `scan_string`, `scan_long_string`, `scan_number`,
`scan_identifier_or_keyword`, `scan_prefixed_name_local`, every operator arm).

`advance` is guarded here (`if self.position < self.input.len()`), i.e. `Lex.adv`.  The arms of the
`match ch` are on pairwise distinct literals, so the arms that only `advance()` are grouped.
Keyword lookup is not modelled: a name without `:` is `word` (keyword or `PrefixedName` without
colon), a name with `:` is `pname`.
-/
namespace Grafeo.Lex2.Sparql
open Grafeo.Lex Grafeo.Lex2

/-- `is_pname_start_char` -/
def isPnameStart (c : Char) : Bool := isAlpha c || c == '_' || c.toNat > 0x7F

/-- `is_pname_char` -/
def isPnameChar (c : Char) : Bool := isAlnum c || c == '_' || c == '-' || c.toNat > 0x7F

/-- label characters of `scan_blank_node_label` -/
def isBnodeChar (c : Char) : Bool := isAlnum c || c == '_' || c == '-' || c == '.'

/-- line comment: `while position < len && current_char() != '\n' { position += len_utf8 }` -/
def skipLine : List Char → Nat → Cur
  | [], n => ⟨[], n⟩
  | ch :: r, n => if ch == '\n' then ⟨ch :: r, n⟩ else skipLine r (n + utf8Len ch)

/-- one iteration of `while position < len { … }` in `skip_whitespace_and_comments`;
`none` = loop condition false or `break` -/
def skipStep (c : Cur) : Option Cur :=
  match c.rest with
  | [] => none
  | ch :: r =>
    if isWs ch then some ⟨r, c.pos + utf8Len ch⟩
    else if ch == '#' then some (skipLine (ch :: r) c.pos)
    else none

def skipWs (c : Cur) : Cur := iter skipStep (c.rest.length + 1) c

/-- `is_iri_start` (called after the `<` has been consumed) -/
def isIriStart (c : Cur) : Bool :=
  match c.rest with
  | [] => false
  | ch :: _ => !(ch == ' ') && !(ch == '\n') && !(ch == '=')

/-- `scan_iri` after its opening `advance()` -/
def scanIriBody : List Char → Nat → K × Cur
  | [], n => (.error, ⟨[], n⟩)                                   -- unterminated
  | ch :: r, n =>
    if ch == '>' then (.iri, ⟨r, n + utf8Len ch⟩)
    else if ch == '\\' then
      match r with
      | [] => (.error, ⟨[], n + utf8Len ch⟩)
      | e :: r' => scanIriBody r' (n + utf8Len ch + utf8Len e)
    else if isWs ch && ch != ' ' then (.error, ⟨ch :: r, n⟩)      -- newline etc.: return, nothing consumed
    else scanIriBody r (n + utf8Len ch)

/-- short string body -/
def scanShortBody (q : Char) : List Char → Nat → K × Cur
  | [], n => (.error, ⟨[], n⟩)
  | ch :: r, n =>
    if ch == q then (.str, ⟨r, n + utf8Len ch⟩)
    else if ch == '\\' then
      match r with
      | [] => (.error, ⟨[], n + utf8Len ch⟩)
      | e :: r' => scanShortBody q r' (n + utf8Len ch + utf8Len e)
    else if ch == '\n' then (.error, ⟨ch :: r, n⟩)
    else scanShortBody q r (n + utf8Len ch)

/-- `scan_long_string`; `k` = `consecutive_quotes` -/
def scanLongBody (q : Char) : Nat → List Char → Nat → K × Cur
  | _, [], n => (.error, ⟨[], n⟩)
  | k, ch :: r, n =>
    if ch == q then
      if k + 1 ≥ 3 then (.lstr, ⟨r, n + utf8Len ch⟩) else scanLongBody q (k + 1) r (n + utf8Len ch)
    else if ch == '\\' then
      match r with
      | [] => (.error, ⟨[], n + utf8Len ch⟩)
      | e :: r' => scanLongBody q 0 r' (n + utf8Len ch + utf8Len e)
    else scanLongBody q 0 r (n + utf8Len ch)

/-- `scan_string` (entered AT the opening quote) -/
def scanString (c : Cur) : K × Cur :=
  let q := cur c
  let c1 := adv c
  if cur c1 == q && peek c1 == q then
    let c3 := adv (adv c1)
    scanLongBody q 0 c3.rest c3.pos
  else scanShortBody q c1.rest c1.pos

/-- the loop of `scan_number`; result = (`has_dot`, `has_exponent`, cursor) -/
def scanNum (hasDot hasExp : Bool) : List Char → Nat → (Bool × Bool) × Cur
  | [], n => ((hasDot, hasExp), ⟨[], n⟩)
  | ch :: r, n =>
    if isDigit ch then scanNum hasDot hasExp r (n + utf8Len ch)
    else if ch == '.' && !hasDot && !hasExp then
      match r with
      | [] => ((hasDot, hasExp), ⟨ch :: r, n⟩)                    -- peek = '\0': break
      | d :: t =>
        if isDigit d then scanNum true hasExp (d :: t) (n + utf8Len ch)
        else ((hasDot, hasExp), ⟨ch :: r, n⟩)
    else if (ch == 'e' || ch == 'E') && !hasExp then
      match r with
      | [] => ((hasDot, true), ⟨[], n + utf8Len ch⟩)
      | s :: r' =>
        if s == '+' || s == '-' then scanNum hasDot true r' (n + utf8Len ch + utf8Len s)
        else scanNum hasDot true (s :: r') (n + utf8Len ch)
    else ((hasDot, hasExp), ⟨ch :: r, n⟩)

/-- `scan_number` (entered AT the first digit) -/
def scanNumber (c : Cur) : K × Cur :=
  let r := scanNum false false c.rest c.pos
  (if r.1.2 then .flt else if r.1.1 then .dec else .int, r.2)

/-- `scan_prefixed_name_local` (the `:` is already consumed) -/
def scanLocal : List Char → Nat → Cur
  | [], n => ⟨[], n⟩
  | ch :: r, n =>
    if isPnameChar ch || ch == '.' || ch == '-' then
      if ch == '.' && (isWs (cur ⟨r, n⟩) || cur ⟨r, n⟩ == '\x00') then ⟨ch :: r, n⟩
      else scanLocal r (n + utf8Len ch)
    else ⟨ch :: r, n⟩

/-- `scan_identifier_or_keyword` (entered AT the first character) -/
def scanIdentKw (c : Cur) : K × Cur :=
  let c1 := skipWhile isPnameChar c.rest c.pos
  if cur c1 == ':' then
    let c2 := adv c1
    (.pname, scanLocal c2.rest c2.pos)
  else (.word, c1)

/-- `if current_char() == x { advance(); A } else { B }` with `A`, `B` both `punct` -/
def opt1 (x : Char) (c : Cur) : K × Cur := if cur c == x then (.punct, adv c) else (.punct, c)

/-- the `match ch { … }` of `next_token`; `c` = cursor AT `ch` -/
def scanTok (ch : Char) (c : Cur) : K × Cur :=
  let c1 := adv c
  if ch == '(' || ch == ')' || ch == ']' || ch == '{' || ch == '}' || ch == '.' || ch == ',' ||
     ch == ';' || ch == '+' || ch == '-' || ch == '*' || ch == '/' || ch == '=' || ch == '@' then
    (.punct, c1)
  else if ch == '[' then opt1 ']' c1
  else if ch == ':' then
    if isPnameChar (cur c1) then (.pname, scanLocal c1.rest c1.pos) else (.punct, c1)
  else if ch == '!' then opt1 '=' c1
  else if ch == '<' then
    if cur c1 == '=' then (.punct, adv c1)
    else if isIriStart c1 then scanIriBody c1.rest c1.pos   -- `position = start; scan_iri()`
    else (.punct, c1)
  else if ch == '>' then opt1 '=' c1
  else if ch == '&' then if cur c1 == '&' then (.punct, adv c1) else (.error, c1)
  else if ch == '|' then opt1 '|' c1
  else if ch == '^' then opt1 '^' c1
  else if ch == '?' then
    if isAlnum (cur c1) || cur c1 == '_' then (.var, skipWhile isIdentCont c1.rest c1.pos)
    else (.punct, c1)
  else if ch == '$' then (.var, skipWhile isIdentCont c1.rest c1.pos)
  else if ch == '_' then
    if peek c == ':' then
      let c2 := adv c1
      (.bnode, skipWhile isBnodeChar c2.rest c2.pos)
    else scanIdentKw c
  else if ch == '\'' || ch == '"' then scanString c
  else if isDigit ch then scanNumber c
  else if isPnameStart ch then scanIdentKw c
  else (.error, c1)

/-- `next_token` -/
def nextToken (c0 : Cur) : Tok × Cur :=
  let c := skipWs c0
  match c.rest with
  | [] => (⟨.eof, c.pos, c.pos⟩, c)
  | ch :: _ =>
    let r := scanTok ch c
    (⟨r.1, c.pos, r.2.pos⟩, r.2)

def tokenize (input : List Char) : List Tok := tokenizeWith nextToken input

end Grafeo.Lex2.Sparql
