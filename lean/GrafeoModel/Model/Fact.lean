/-
Model of the factorized representation of grafeo-core
(`execution/factorized_chunk.rs`, `factorized_vector.rs`, `factorized_iter.rs`,
`operators/factorized_expand.rs`, `operators/factorized_filter.rs`,
`operators/factorized_aggregate.rs`) — as the code is — and its specification:
the flat relation a chunk denotes.

Values are `Option Int` (`none` = `Value::Null`, `some i` = `Value::Int64 i`; node and edge ids read
through `get_value` are `Int64`s too).  All columns of one level have the same `FactorizedState`
(every constructor in the Rust code builds them that way), so the offsets are stored once per level.
Both op-line parsers reject a level whose columns have different lengths.
-/
namespace Grafeo.Fact

/-- `FactorizationLevel`: `cols` = the `data` of each `FactorizedVector`, `offs` = their shared
`FactorizedState` (`none` = Flat, `some offsets` = Unflat with `parent_count = offsets.len - 1`). -/
structure Level where
  cols : List (List (Option Int))
  offs : Option (List Nat)
  groupCount : Nat
  mults : List Nat
deriving Repr, DecidableEq

/-- `FactorizedChunk` (the `ChunkState` only mirrors `levels.len` and `logical_row_count`, plus an optional
selection that no reader consults: see `filterOp`). -/
structure Chunk where
  levels : List Level
  lrc : Nat
deriving Repr, DecidableEq

def Chunk.empty : Chunk := { levels := [], lrc := 0 }

/-! ### FactorizedVector -/

/-- `FactorizedVector::parent_count` -/
def parentCount (data : List (Option Int)) : Option (List Nat) → Nat
  | none => data.length
  | some o => o.length - 1

/-- `FactorizedVector::range_for_parent` -/
def rangeForParent (offs : Option (List Nat)) (p : Nat) : Nat × Nat :=
  match offs with
  | none => (p, p + 1)
  | some o => if p ≥ o.length - 1 then (0, 0) else (o.getD p 0, o.getD (p + 1) 0)

/-- `for phys_idx in start..end { if let Some(v) = data.get_value(phys_idx) { push } }` -/
def slice (d : List α) (s e : Nat) : List α := (d.drop s).take (e - s)

/-! ### construction -/

/-- `FactorizedChunk::with_flat_level` (`FactorizationLevel::flat`) -/
def withFlatLevel (cols : List (List (Option Int))) : Chunk :=
  let n := match cols with | [] => 0 | d :: _ => d.length
  { levels := [{ cols := cols, offs := none, groupCount := n, mults := List.replicate n 1 }], lrc := n }

/-- `(0..parent_count).map(|i| offsets[i+1] - offsets[i])` on `u32`; `none` = subtraction overflow
(a panic in the harness build, which has debug assertions on). -/
def diffs : List Nat → Option (List Nat)
  | a :: b :: rest =>
    if b < a then none else
      match diffs (b :: rest) with
      | none => none
      | some ds => some ((b - a) :: ds)
  | _ => some []

/-- the parent-to-children step shared by `recompute_logical_row_count` and
`compute_path_multiplicities`: parent `i` (carrying `pc`) contributes `mults[i]` copies of `pc`;
parents beyond `mults.len()` contribute nothing. -/
def stepCounts : List Nat → List Nat → List Nat
  | [], _ => []
  | _ :: _, [] => []
  | pc :: cs, m :: ms => List.replicate m pc ++ stepCounts cs ms

/-- `compute_path_multiplicities` -/
def pathMults : List Level → List Nat
  | [] => []
  | l0 :: rest => rest.foldl (fun cs l => stepCounts cs l.mults) (List.replicate l0.groupCount 1)

/-- `recompute_logical_row_count` (the same loop; only the length of the vector is kept) -/
def recompute (levels : List Level) : Nat := (pathMults levels).length

/-- `FactorizedChunk::add_level`; `none` = panic (`offsets[i+1] - offsets[i]` overflow, or the
debug assertions of `FactorizedVector::unflat`: offsets non-empty, last offset = data length). -/
def addLevel (c : Chunk) (cols : List (List (Option Int))) (offs : List Nat) : Option Chunk :=
  match diffs offs with
  | none => none
  | some ms =>
    if cols.any (fun d => offs.isEmpty || offs.getLast? != some d.length) then none
    else
      let l : Level := { cols := cols, offs := some offs, groupCount := ms.sum, mults := ms }
      let levels := c.levels ++ [l]
      some { levels := levels, lrc := if levels.length == 1 then ms.sum else recompute levels }

/-! ### row iteration: the mixed-radix counters -/

def hasCol (levels : List Level) (lvl : Nat) : Bool :=
  match levels[lvl]? with
  | some l => !l.cols.isEmpty
  | none => false

/-- `level.columns.first().map(|c| c.range_for_parent(p))`, `(0,0)` without a column -/
def lvlRange (levels : List Level) (lvl p : Nat) : Nat × Nat :=
  match levels[lvl]? with
  | some l => if l.cols.isEmpty then (0, 0) else rangeForParent l.offs p
  | none => (0, 0)

def gc0 (levels : List Level) : Nat :=
  match levels with
  | [] => 0
  | l :: _ => l.groupCount

/-- "reset all deeper levels to their start positions" (in increasing level order) -/
def resetDeeper (levels : List Level) (idx : List Nat) (deeper : List Nat) : List Nat :=
  deeper.foldl (fun ix d =>
    if hasCol levels d then ix.set d (lvlRange levels d (ix.getD (d - 1) 0)).1 else ix) idx

/-- one raw counter step: the deepest level that can advance is incremented, deeper ones are reset -/
def advanceRawAux (levels : List Level) (idx : List Nat) : List Nat → Option (List Nat)
  | [] => none
  | lvl :: more =>
    let e := if lvl == 0 then gc0 levels else (lvlRange levels lvl (idx.getD (lvl - 1) 0)).2
    if idx.getD lvl 0 + 1 < e then
      some (resetDeeper levels (idx.set lvl (idx.getD lvl 0 + 1))
        (List.range' (lvl + 1) (levels.length - (lvl + 1))))
    else advanceRawAux levels idx more

def advanceRaw (levels : List Level) (idx : List Nat) : Option (List Nat) :=
  advanceRawAux levels idx (List.range levels.length).reverse

/-- `PrecomputedIter::is_valid_position` -/
def pcValid (levels : List Level) (idx : List Nat) : Bool :=
  (List.range levels.length).all fun lvl =>
    if lvl == 0 then decide (idx.getD 0 0 < gc0 levels)
    else
      hasCol levels lvl &&
        (let r := lvlRange levels lvl (idx.getD (lvl - 1) 0)
         decide (r.1 < r.2) && decide (r.1 ≤ idx.getD lvl 0) && decide (idx.getD lvl 0 < r.2))

/-- `FactorizedRowIterator::has_valid_deepest_range` -/
def riValid (levels : List Level) (idx : List Nat) : Bool :=
  decide (levels.length ≤ 1) ||
    (List.range' 1 (levels.length - 1)).all fun lvl =>
      hasCol levels lvl &&
        (let r := lvlRange levels lvl (idx.getD (lvl - 1) 0)
         decide (r.1 < r.2))

/-- advance until a valid position is reached (`advance_to_next_valid` / the recursion of `advance`) -/
def advanceValid (valid : List Nat → Bool) (levels : List Level) : Nat → List Nat → Option (List Nat)
  | 0, _ => none
  | f + 1, idx =>
    match advanceRaw levels idx with
    | none => none
    | some i => if valid i then some i else advanceValid valid levels f i

def iterLoop (valid : List Nat → Bool) (levels : List Level) (fuel : Nat) : Nat → List Nat → List (List Nat)
  | 0, _ => []
  | f + 1, idx =>
    idx :: (match advanceValid valid levels fuel idx with
            | none => []
            | some i => iterLoop valid levels fuel f i)

/-- a bound on the number of raw positions (every raw step increases the index tuple lexicographically) -/
def iterFuel (levels : List Level) : Nat :=
  levels.foldl (fun acc l =>
    acc * ((max l.groupCount (max ((l.cols.map List.length).foldl max 0)
      (((l.offs.getD []).foldl max 0)))) + 2)) 1 + 1

/-- `PrecomputedIter::compute_all_indices` (= what `StreamingIter` yields) -/
def pcRows (levels : List Level) : List (List Nat) :=
  if levels.isEmpty then [] else
    let fuel := iterFuel levels
    let init := resetDeeper levels (List.replicate levels.length 0) (List.range' 1 (levels.length - 1))
    if pcValid levels init then iterLoop (pcValid levels) levels fuel fuel init
    else match advanceValid (pcValid levels) levels fuel init with
      | none => []
      | some i => iterLoop (pcValid levels) levels fuel fuel i

/-- `FactorizedRowIterator` (`logical_row_iter`): starts from all zeros -/
def riRows (levels : List Level) : List (List Nat) :=
  if levels.isEmpty || gc0 levels == 0 then [] else
    let fuel := iterFuel levels
    let init := List.replicate levels.length 0
    if riValid levels init then iterLoop (riValid levels) levels fuel fuel init
    else match advanceValid (riValid levels) levels fuel init with
      | none => []
      | some i => iterLoop (riValid levels) levels fuel fuel i

/-- `FactorizedVector::flatten(None)` -/
def vecFlatten (d : List (Option Int)) : Option (List Nat) → List (Option Int)
  | none => d
  | some o => (List.range (o.length - 1)).flatMap fun p =>
      let r := rangeForParent (some o) p
      slice d r.1 r.2

/-- `FactorizedChunk::flatten`: the output columns -/
def flattenCols (c : Chunk) : List (List (Option Int)) :=
  match c.levels with
  | [] => []
  | [l] => l.cols.map fun d => vecFlatten d l.offs
  | levels =>
    let tuples := riRows levels
    levels.zipIdx.flatMap fun (l, li) =>
      l.cols.map fun d => tuples.filterMap fun t => d[t.getD li 0]?

/-! ### filter_deepest -/

def prefixSums : List Nat → List Nat
  | [] => [0]
  | m :: ms => 0 :: (prefixSums ms).map (· + m)

def passes (p : Option Int → Bool) (fcol : List (Option Int)) (j : Nat) : Bool :=
  match fcol[j]? with
  | some v => p v
  | none => false

/-- `FactorizedChunk::filter_deepest` (`filter_deepest_multi` with a predicate reading one column is
the same loop); outer `none` = the method's `None`. -/
def filterDeepest (c : Chunk) (ci : Nat) (p : Option Int → Bool) : Option Chunk :=
  match c.levels.getLast? with
  | none => none
  | some dl =>
    match dl.cols[ci]? with
    | none => none
    | some fcol =>
      let pc := parentCount fcol dl.offs
      let segs : List (List Nat) := (List.range pc).map fun q =>
        let r := rangeForParent dl.offs q
        (List.range' r.1 (r.2 - r.1)).filter (passes p fcol)
      let newMults := segs.map List.length
      if newMults.sum == 0 then some Chunk.empty
      else
        let nl : Level :=
          { cols := dl.cols.map fun d => segs.flatten.filterMap fun j => d[j]?
            offs := some (prefixSums newMults)
            groupCount := newMults.sum
            mults := newMults }
        let levels := c.levels.dropLast ++ [nl]
        some { levels := levels, lrc := recompute levels }

/-! ### aggregates on the factorized form -/

def deepestCol (c : Chunk) (ci : Nat) : Option (List (Option Int)) :=
  match c.levels.getLast? with
  | none => none
  | some dl => dl.cols[ci]?

/-- `FactorizedAggregate::CountColumn` -/
def countColumn (c : Chunk) (ci : Nat) : Int :=
  match deepestCol c ci with
  | none => 0
  | some col =>
    ((pathMults c.levels).zipIdx.map fun (m, j) =>
      match col[j]? with
      | some (some _) => (m : Int)
      | _ => 0).sum

/-- `sum_deepest` (the f64 accumulation is exact below 2^53: integers here) -/
def sumDeepest (c : Chunk) (ci : Nat) : Option Int :=
  match deepestCol c ci with
  | none => none
  | some col =>
    some (((pathMults c.levels).zipIdx.map fun (m, j) =>
      match col[j]? with
      | some (some v) => v * (m : Int)
      | _ => 0).sum)

/-- `avg_deepest`: numerator and denominator of `sum / logical_row_count` -/
def avgDeepest (c : Chunk) (ci : Nat) : Option (Int × Nat) :=
  if c.lrc == 0 then none else
    match sumDeepest c ci with
    | none => none
    | some s => some (s, c.lrc)

/-- `value_less_than` on Null / Int64 -/
def valueLt : Option Int → Option Int → Bool
  | none, none => false
  | none, some _ => true
  | some _, none => false
  | some x, some y => decide (x < y)

/-- `min_deepest`; outer `none` = no column / no value (`Value::Null` after `unwrap_or`) -/
def minDeepest (c : Chunk) (ci : Nat) : Option (Option Int) :=
  match deepestCol c ci with
  | none => none
  | some col => col.foldl (fun acc v =>
      match acc with
      | none => some v
      | some cur => if valueLt v cur then some v else some cur) none

def maxDeepest (c : Chunk) (ci : Nat) : Option (Option Int) :=
  match deepestCol c ci with
  | none => none
  | some col => col.foldl (fun acc v =>
      match acc with
      | none => some v
      | some cur => if valueLt cur v then some v else some cur) none

/-! ### the expand chain (`FactorizedExpandChain` / `LazyFactorizedChainOperator`) over an adjacency
function `adj : node → [(edge id, target)]` (`get_neighbors`, in `edges_from` order) -/

def nodeOf (v : Option Int) : Option Nat :=
  match v with
  | some i => if i < 0 then none else some i.toNat
  | none => none

/-- offsets and the two new columns (`_edge`, `_target`) for a list of source values; `none` = a
source that is not a node id (`Expected node ID in source column`) -/
def expandCols (adj : Nat → List (Nat × Nat)) : List (Option Int) → Option (List Nat × List (Option Int) × List (Option Int))
  | [] => some ([0], [], [])
  | v :: vs =>
    match nodeOf v with
    | none => none
    | some s =>
      match expandCols adj vs with
      | none => none
      | some (offs, es, ts) =>
        let ns := adj s
        some (0 :: offs.map (· + ns.length),
              ns.map (fun n => some (n.1 : Int)) ++ es, ns.map (fun n => some (n.2 : Int)) ++ ts)

inductive ChainRes where
  | err
  | noResult
  | chunk (c : Chunk)
deriving Repr

/-- the first `expand` of a chain: `process_chunk` on the merged source rows, kept only if a level
was added; an empty source gives no result -/
def chainFirst (adj : Nat → List (Nat × Nat)) (srcs : List (Option Int)) : ChainRes :=
  if srcs.isEmpty then .noResult else
    match expandCols adj srcs with
    | none => .err
    | some (offs, es, ts) =>
      if es.isEmpty then .noResult
      else match addLevel (withFlatLevel [srcs]) [es, ts] offs with
        | none => .err
        | some c => .chunk c

/-- a later `expand`: `expand_deepest_level` on column `sc` of the deepest level -/
def chainNext (adj : Nat → List (Nat × Nat)) (sc : Nat) (r : ChainRes) : ChainRes :=
  match r with
  | .err => .err
  | .noResult => .noResult
  | .chunk c =>
    match deepestCol c sc with
    | none => .noResult
    | some col =>
      match expandCols adj col with
      | none => .err
      | some (offs, es, ts) =>
        if es.isEmpty then .noResult
        else match addLevel c [es, ts] offs with
          | none => .err
          | some c' => .chunk c'

/-- `hops ≥ 1` expansions: the first on the source column, the others on `_target` (column 1) -/
def chain (adj : Nat → List (Nat × Nat)) (srcs : List (Option Int)) (hops : Nat) : ChainRes :=
  match hops with
  | 0 => .noResult
  | h + 1 => (List.range h).foldl (fun r _ => chainNext adj 1 r) (chainFirst adj srcs)

/-! ### specification: the flat relation a chunk denotes

A row has one entry per level (`β` = the values of that level's columns, or the physical index);
the flat row is their concatenation.  Level 0 contributes one row per value; every further level
replaces row `k` by its `mults[k]` extensions, which take consecutive values of the level: the flat
(row-duplicating) expand. -/

def expandGen : List (List β) → List Nat → List β → List (List β)
  | [], _, _ => []
  | _ :: _, [], _ => []
  | r :: rs, m :: ms, vs => (vs.take m).map (fun v => r ++ [v]) ++ expandGen rs ms (vs.drop m)

def denoteGen (f : Level → List β) : List Level → List (List β)
  | [] => []
  | l0 :: rest => rest.foldl (fun rows l => expandGen rows l.mults (f l)) ((f l0).map fun v => [v])

def Level.rowAt (l : Level) (j : Nat) : List (Option Int) := l.cols.map fun d => (d[j]?).join

def Level.valRows (l : Level) : List (List (Option Int)) := (List.range l.groupCount).map l.rowAt

def Level.idxs (l : Level) : List Nat := List.range l.groupCount

/-- the denoted relation, one entry per level -/
def denote (levels : List Level) : List (List (List (Option Int))) := denoteGen Level.valRows levels

/-- the flat relation -/
def flatRows (levels : List Level) : List (List (Option Int)) := (denote levels).map List.flatten

/-- the physical index tuples of the denoted rows -/
def denoteIdx (levels : List Level) : List (List Nat) := denoteGen Level.idxs levels

/-- value of column `ci` of the deepest level in a denoted row -/
def lastVal (ci : Nat) (r : List (List (Option Int))) : Option Int :=
  match r.getLast? with
  | some v => (v[ci]?).join
  | none => none

/-- SQL-style aggregates over a list of values: nulls are skipped -/
def nonNull (vs : List (Option Int)) : List Int := vs.filterMap id

def specSum (vs : List (Option Int)) : Int := (nonNull vs).sum
def specCountCol (vs : List (Option Int)) : Int := (nonNull vs).length
def specAvg (vs : List (Option Int)) : Option (Int × Nat) :=
  if (nonNull vs).isEmpty then none else some ((nonNull vs).sum, (nonNull vs).length)
def specMin (vs : List (Option Int)) : Option Int :=
  (nonNull vs).foldl (fun acc v => match acc with | none => some v | some a => if v < a then some v else some a) none
def specMax (vs : List (Option Int)) : Option Int :=
  (nonNull vs).foldl (fun acc v => match acc with | none => some v | some a => if a < v then some v else some a) none

/-- the flat multi-hop expand: every row is replaced by one extension per neighbour of its last node -/
def flatHop (adj : Nat → List (Nat × Nat)) (src : List (List (Option Int)) → Option Int)
    (rows : List (List (List (Option Int)))) : List (List (List (Option Int))) :=
  rows.flatMap fun r =>
    match nodeOf (src r) with
    | none => []
    | some s => (adj s).map fun n => r ++ [[some (n.1 : Int), some (n.2 : Int)]]

def flatChain (adj : Nat → List (Nat × Nat)) (srcs : List (Option Int)) (hops : Nat) :
    List (List (List (Option Int))) :=
  match hops with
  | 0 => []
  | h + 1 => (List.range h).foldl (fun rows _ => flatHop adj (lastVal 1) rows)
      (flatHop adj (lastVal 0) (srcs.map fun v => [[v]]))

/-! ### the h-hop pattern from query text with one edge-type label (stream op `qcase`)

All edges carry the same stored type, so whether a hop matches is one boolean per hop:
`firstOk` for the first hop, `laterOk` for the others.  Flat execution (`ExpandOperator`) and the
first factorized hop (`FactorizedExpandOperator::get_neighbors`) compare with
`eq_ignore_ascii_case`; since 9e9ba35 `FactorizedExpandChain::expand_deepest_level` does too
(`laterHopOk`); before, it compared with `==` (`Old.laterHopOk`). -/

def hopPairs (edges : List (Nat × Nat)) (ok : Bool) (rows : List (Nat × Nat)) : List (Nat × Nat) :=
  rows.flatMap fun r => if ok then edges.filterMap (fun e => if e.1 == r.2 then some (r.1, e.2) else none) else []

/-- `(v0, vh)` for every path of `hops` edges -/
def qcaseRows (n : Nat) (edges : List (Nat × Nat)) (firstOk laterOk : Bool) (hops : Nat) : List (Nat × Nat) :=
  match hops with
  | 0 => []
  | h + 1 => (List.range h).foldl (fun rows _ => hopPairs edges laterOk rows)
      (hopPairs edges firstOk ((List.range n).map fun i => (i, i)))

/-- whether a hop after the first matches, given the two comparisons of the stored type with the
type in the query (`ci` = ignoring ASCII case, `exact` = `==`): every hop ignores case -/
def laterHopOk (_fact : Bool) (_hops : Nat) (ci _exact : Bool) : Bool := ci

namespace Old
/-- before 9e9ba35: with factorized execution on, a chain is planned for two or more hops and its
later hops compared the edge type exactly -/
def laterHopOk (fact : Bool) (hops : Nat) (ci exact : Bool) : Bool :=
  if fact && decide (hops ≥ 2) then exact else ci
end Old

/-! ### well-formed chunks (what the constructors build) -/

def wfChain : Nat → List Level → Prop
  | _, [] => True
  | n, l :: ls => l.mults.length = n ∧ l.groupCount = l.mults.sum ∧ l.offs = some (prefixSums l.mults) ∧
      (∀ d ∈ l.cols, d.length = l.groupCount) ∧ wfChain l.groupCount ls

def wfLevels : List Level → Prop
  | [] => True
  | l0 :: rest => (∀ d ∈ l0.cols, d.length = l0.groupCount) ∧ wfChain l0.groupCount rest

end Grafeo.Fact
