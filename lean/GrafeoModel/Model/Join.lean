import GrafeoModel.Model.Ops2
/-
Model of the join operators of `crates/grafeo-core/src/execution/operators/join.rs`
(C08, stream `join`): `HashKey::from_value`, `HashJoinOperator` (build phase chunk by chunk,
probe phase with its resume state, the unmatched-build phase of RIGHT / FULL) and
`NestedLoopJoinOperator` with `EqualityCondition` / no condition.

A child operator is the list of chunks its `next()` calls return before `None`; a chunk is the
list of its rows; a row is the list of its cells (`Ops2.Val`). The output builder has capacity
`cap` (2048 in the code: `DataChunkBuilder::with_capacity(schema, 2048)`), a parameter here.

Resume state of the hash join, as kept between two `next()` calls:
  `cur`  = the rows of `current_probe_chunk` from `current_probe_row` on (head = current row),
  `pend` = `none` when `current_matches.is_empty() && current_match_position == 0` (the key of
           the current row still has to be looked up), `some ms` when the operator returned in
           the middle of a probe row: `ms = current_matches[current_match_position..]`,
  `unm`  = `some rows` once `emitting_unmatched` is set (`rows` = what `unmatched_chunk_idx /
           unmatched_row_idx` still have to walk over, already filtered by `build_matched`).
-/
namespace Grafeo.Join
open Grafeo.Ops2 (Val)
open Grafeo.F64 (feq)

abbrev Row := List Val
abbrev Chunk := List Row
/-- `(chunk_index, row_index)` into the materialised build side -/
abbrev Id := Nat × Nat

inductive JT where
  | inner | left | right | full | cross | semi | anti
  deriving DecidableEq, Repr

/-- `HashKey` without `Composite` -/
inductive HK where
  | null
  | bool (b : Bool)
  | int (i : Int)
  | str (s : List Nat)
  deriving DecidableEq, Repr

/-- `HashKey` (one level of `Composite`: the modelled values have no lists) -/
inductive HKey where
  | one (k : HK)
  | comp (ks : List HK)
  deriving DecidableEq, Repr

/-- `bits as i64` -/
def toI64 (bits : Nat) : Int := if bits < 2 ^ 63 then (bits : Int) else (bits : Int) - 2 ^ 64

/-- `HashKey::from_value` -/
def HK.ofVal : Val → HK
  | .null => .null
  | .bool b => .bool b
  | .int i => .int i
  | .flt bits => .int (toI64 bits)          -- `HashKey::Int64(f.to_bits() as i64)`
  | .str s => .str s

/-- `extract_key`: one key column gives the plain key, anything else a `Composite`
(a missing cell counts as NULL) -/
def extractKey (cols : List Nat) (r : Row) : HKey :=
  match cols with
  | [c] => .one (HK.ofVal (r.getD c .null))
  | cs => .comp (cs.map fun c => HK.ofVal (r.getD c .null))

def JT.keepsNull : JT → Bool
  | .left | .right | .full => true
  | _ => false
def JT.tracksBuild : JT → Bool
  | .right | .full => true
  | _ => false
def JT.padsLeft : JT → Bool
  | .left | .full => true
  | _ => false

/-! ### the hash table: key → row ids in insertion order -/

abbrev Table := List (HKey × List Id)

/-- `hash_table.get(&key).cloned().unwrap_or_default()` -/
def Table.get : Table → HKey → List Id
  | [], _ => []
  | (k', ids) :: t, k => if k' = k then ids else Table.get t k

/-- `hash_table.contains_key(&key)` -/
def Table.has : Table → HKey → Bool
  | [], _ => false
  | (k', _) :: t, k => if k' = k then true else Table.has t k

/-- `hash_table.entry(key).or_default().push(id)` -/
def Table.push : Table → HKey → Id → Table
  | [], k, id => [(k, [id])]
  | (k', ids) :: t, k, id => if k' = k then (k', ids ++ [id]) :: t else (k', ids) :: Table.push t k id

def rowsFrom (ci : Nat) : Nat → Chunk → List (Id × Row)
  | _, [] => []
  | ri, r :: rs => ((ci, ri), r) :: rowsFrom ci (ri + 1) rs

/-- every build row with its `(chunk_idx, row)`, in the order `build_hash_table` sees them -/
def indexedFrom : Nat → List Chunk → List (Id × Row)
  | _, [] => []
  | ci, c :: cs => rowsFrom ci 0 c ++ indexedFrom (ci + 1) cs

/-- one row of `build_hash_table`: a NULL key is skipped unless the join is LEFT / RIGHT / FULL -/
def buildStep (jt : JT) (bkeys : List Nat) (t : Table) (e : Id × Row) : Table :=
  if extractKey bkeys e.2 = .one .null ∧ jt.keepsNull = false then t
  else t.push (extractKey bkeys e.2) e.1

def buildTable (jt : JT) (bkeys : List Nat) (chunks : List Chunk) : Table :=
  (indexedFrom 0 chunks).foldl (buildStep jt bkeys) []

/-- `build_chunks[ci]` row `ri` -/
def deref (chunks : List Chunk) (id : Id) : Row := (chunks.getD id.1 []).getD id.2 []

structure Env where
  jt : JT
  pkeys : List Nat
  cap : Nat
  lcols : Nat
  rcols : Nat
  bchunks : List Chunk
  ht : Table

def nulls (n : Nat) : Row := List.replicate n Val.null

/-- the build half of an unmatched probe row: NULLs only `if !self.build_chunks.is_empty()` -/
def Env.pad (E : Env) : Row := if E.bchunks.isEmpty then [] else nulls E.rcols

/-- `build_matched[ci][ri] = true` when both indices are in range -/
def mark (bm : List (List Bool)) (id : Id) : List (List Bool) :=
  match bm[id.1]? with
  | some row => if id.2 < row.length then bm.set id.1 (row.set id.2 true) else bm
  | none => bm

/-- the `while current_match_position < current_matches.len()` loop: returns the builder, the
matches not emitted yet and whether it returned because the builder was full -/
def emitMatches (cap : Nat) (mk : Id → Row) : List Id → List Row → List Row × List Id × Bool
  | [], b => (b, [], false)
  | m :: ms, b =>
    if (b ++ [mk m]).length ≥ cap then (b ++ [mk m], ms, true)
    else emitMatches cap mk ms (b ++ [mk m])

structure PR where
  b : List Row
  rest : List Row
  pend : Option (List Id)
  bm : List (List Bool)
  full : Bool

/-- the `while current_probe_row < probe_rows.len()` loop of `next` over the unfinished rows of
the current probe chunk -/
def probeLoop (E : Env) : List Row → Option (List Id) → List Row → List (List Bool) → PR
  | [], _, b, bm => ⟨b, [], none, bm, false⟩
  | l :: ls, pend, b, bm =>
    let key := extractKey E.pkeys l
    if E.jt = .semi ∧ pend = none then
      -- emit, `continue`: no `is_full` test on this path
      probeLoop E ls none (if E.ht.has key then b ++ [l] else b) bm
    else if E.jt = .anti ∧ pend = none then
      probeLoop E ls none (if E.ht.has key then b else b ++ [l]) bm
    else
      let ms := match pend with
        | some p => p
        | none => E.ht.get key
      if pend = none ∧ ms = [] then
        let b' := if E.jt.padsLeft then b ++ [l ++ E.pad] else b
        if b'.length ≥ E.cap then ⟨b', ls, none, bm, true⟩ else probeLoop E ls none b' bm
      else
        let r := emitMatches E.cap (fun m => l ++ deref E.bchunks m) ms b
        let bm' := if E.jt.tracksBuild then (ms.take (ms.length - r.2.1.length)).foldl mark bm else bm
        if r.2.2 then ⟨r.1, l :: ls, some r.2.1, bm', true⟩
        else if r.1.length ≥ E.cap then ⟨r.1, ls, none, bm', true⟩
        else probeLoop E ls none r.1 bm'

structure HState where
  probe : List Chunk
  cur : Option (List Row)
  pend : Option (List Id)
  bm : List (List Bool)
  unm : Option (List Row)

/-- the build rows `emit_unmatched_build` walks over and emits -/
def unmatchedRows (E : Env) (bm : List (List Bool)) : List Row :=
  ((bm.zip E.bchunks).flatMap fun p => (p.1.zip p.2).filterMap fun q =>
    if q.1 then none else some (nulls E.lcols ++ q.2))

/-- `emit_unmatched_build` -/
def emitU (E : Env) (u : List Row) (s : HState) : Option Chunk × HState :=
  if u.take E.cap = [] then (none, { s with unm := some u })
  else (some (u.take E.cap), { s with unm := some (u.drop E.cap) })

/-- the outer `loop` of `next` from the point where a new probe chunk has to be fetched (the
builder is empty there) -/
def pullLoop (E : Env) : List Chunk → List (List Bool) → Option Chunk × HState
  | [], bm =>
    if E.jt.tracksBuild then
      emitU E (unmatchedRows E bm) ⟨[], none, none, bm, some (unmatchedRows E bm)⟩
    else (none, ⟨[], none, none, bm, none⟩)
  | c :: cs, bm =>
    let r := probeLoop E c none [] bm
    if r.full then (some r.b, ⟨cs, some r.rest, r.pend, r.bm, none⟩)
    else if r.b ≠ [] then (some r.b, ⟨cs, none, none, r.bm, none⟩)
    else pullLoop E cs r.bm

/-- `HashJoinOperator::next` after the build phase -/
def hjNext (E : Env) (s : HState) : Option Chunk × HState :=
  match s.unm with
  | some u => emitU E u s
  | none =>
    match s.cur with
    | some rest =>
      let r := probeLoop E rest s.pend [] s.bm
      if r.full then (some r.b, ⟨s.probe, some r.rest, r.pend, r.bm, none⟩)
      else if r.b ≠ [] then (some r.b, ⟨s.probe, none, none, r.bm, none⟩)
      else pullLoop E s.probe r.bm
    | none => pullLoop E s.probe s.bm

/-- the consumer: call `next` until it returns `None` (at most `fuel` chunks) -/
def drain {σ : Type} (next : σ → Option Chunk × σ) : Nat → σ → List Chunk × Bool
  | 0, _ => ([], false)
  | f + 1, s =>
    match next s with
    | (none, _) => ([], true)
    | (some c, s') => (c :: (drain next f s').1, (drain next f s').2)

def mkEnv (jt : JT) (pkeys bkeys : List Nat) (cap lcols rcols : Nat) (build : List Chunk) : Env :=
  ⟨jt, pkeys, cap, lcols, rcols, build, buildTable jt bkeys build⟩

def initBm (jt : JT) (build : List Chunk) : List (List Bool) :=
  if jt.tracksBuild then build.map (fun c => c.map fun _ => false) else []

def hjInit (jt : JT) (probe build : List Chunk) : HState := ⟨probe, none, none, initBm jt build, none⟩

/-- the hash join as a function from the two children's chunk lists to its output chunks -/
def hashJoin (jt : JT) (pkeys bkeys : List Nat) (cap lcols rcols : Nat) (probe build : List Chunk)
    (fuel : Nat) : List Chunk × Bool :=
  drain (hjNext (mkEnv jt pkeys bkeys cap lcols rcols build)) fuel (hjInit jt probe build)

/-! ### nested loop join -/

/-- derived `PartialEq` of `Value` -/
def valDerivedEq : Val → Val → Bool
  | .null, .null => true
  | .bool a, .bool b => a == b
  | .int a, .int b => a == b
  | .flt a, .flt b => feq a b
  | .str a, .str b => a == b
  | _, _ => false

/-- `EqualityCondition::evaluate` -/
def eqCond (lc rc : Nat) (l r : Row) : Bool :=
  match l[lc]?, r[rc]? with
  | some a, some b => valDerivedEq a b
  | _, _ => false

structure NEnv where
  jt : JT
  cap : Nat
  rcols : Nat
  cond : Row → Row → Bool
  /-- all rows of `right_chunks`, in order -/
  rights : List Row
  /-- `right_chunks.is_empty()` -/
  noRight : Bool

/-- the two `while` loops over the right side for one left row: builder, rights not visited,
`current_left_matched`, returned-because-full -/
def nlInner (N : NEnv) (l : Row) : List Row → List Row → Bool → List Row × List Row × Bool × Bool
  | [], b, m => (b, [], m, false)
  | r :: rs, b, m =>
    if N.cond l r then
      if (b ++ [l ++ r]).length ≥ N.cap then (b ++ [l ++ r], rs, true, true)
      else nlInner N l rs (b ++ [l ++ r]) true
    else nlInner N l rs b m

structure NR where
  b : List Row
  rest : List Row
  rpos : Option (List Row × Bool)
  full : Bool

/-- the `while current_left_row < left_rows.len()` loop; `rpos = none`: the right position is
`(0, 0)` (the matched flag is reset), `some (rs, m)`: resumed in the middle of a left row -/
def nlLoop (N : NEnv) : List Row → Option (List Row × Bool) → List Row → NR
  | [], _, b => ⟨b, [], none, false⟩
  | l :: ls, rp, b =>
    let st := rp.getD (N.rights, false)
    let r := nlInner N l st.1 b st.2
    if r.2.2.2 then ⟨r.1, l :: ls, some (r.2.1, r.2.2.1), true⟩
    else if N.jt = .left ∧ r.2.2.1 = false then
      if (r.1 ++ [l ++ nulls N.rcols]).length ≥ N.cap then ⟨r.1 ++ [l ++ nulls N.rcols], ls, none, true⟩
      else nlLoop N ls none (r.1 ++ [l ++ nulls N.rcols])
    else nlLoop N ls none r.1

structure NState where
  left : List Chunk
  cur : Option (List Row)
  rpos : Option (List Row × Bool)

def nlPull (N : NEnv) : List Chunk → Option Chunk × NState
  | [] => (none, ⟨[], none, none⟩)
  | c :: cs =>
    let r := nlLoop N c none []
    if r.full then (some r.b, ⟨cs, some r.rest, r.rpos⟩)
    else if r.b ≠ [] then (some r.b, ⟨cs, none, none⟩)
    else nlPull N cs

/-- `NestedLoopJoinOperator::next` after the right side is materialised -/
def nlNext (N : NEnv) (s : NState) : Option Chunk × NState :=
  if N.noRight ∧ N.jt ≠ .left then (none, s)
  else
    match s.cur with
    | some rest =>
      let r := nlLoop N rest s.rpos []
      if r.full then (some r.b, ⟨s.left, some r.rest, r.rpos⟩)
      else if r.b ≠ [] then (some r.b, ⟨s.left, none, none⟩)
      else nlPull N s.left
    | none => nlPull N s.left

def mkNEnv (jt : JT) (cap rcols : Nat) (cond : Row → Row → Bool) (right : List Chunk) : NEnv :=
  ⟨jt, cap, rcols, cond, right.flatten, right.isEmpty⟩

def nlJoin (jt : JT) (cap rcols : Nat) (cond : Row → Row → Bool) (left right : List Chunk)
    (fuel : Nat) : List Chunk × Bool :=
  drain (nlNext (mkNEnv jt cap rcols cond right)) fuel ⟨left, none, none⟩

/-! ### specification: the relational definitions -/
namespace Spec

/-- `a = b` is TRUE in the three-valued logic of the query languages: both operands have a
value and the values are equal (numbers compared as numbers: `1 = 1.0`, `0.0 = -0.0`,
NaN equal to nothing) -/
def keyEq (a b : Val) : Bool := a != .null && b != .null && Grafeo.Ops2.valuesEqual false a b

/-- `l.k1 = r.k1 AND …` over the key column pairs -/
def keysMatch (lk rk : List Nat) (l r : Row) : Bool :=
  (lk.zip rk).all fun p => keyEq (l.getD p.1 .null) (r.getD p.2 .null)

def inner (θ : Row → Row → Bool) (L R : List Row) : List Row :=
  L.flatMap fun l => (R.filter (θ l)).map (l ++ ·)

/-- left outer join, an unmatched left row in the place of its matches -/
def leftOuter (θ : Row → Row → Bool) (rcols : Nat) (L R : List Row) : List Row :=
  L.flatMap fun l => if R.filter (θ l) = [] then [l ++ nulls rcols] else (R.filter (θ l)).map (l ++ ·)

def semi (θ : Row → Row → Bool) (L R : List Row) : List Row := L.filter fun l => R.any (θ l)
def anti (θ : Row → Row → Bool) (L R : List Row) : List Row := L.filter fun l => !R.any (θ l)
def cross (L R : List Row) : List Row := inner (fun _ _ => true) L R

/-- the build rows no probe row matches, NULL-padded on the left -/
def rightOnly (θ : Row → Row → Bool) (lcols : Nat) (L R : List Row) : List Row :=
  (R.filter fun r => !L.any (fun l => θ l r)).map (nulls lcols ++ ·)

def rightOuter (θ : Row → Row → Bool) (lcols : Nat) (L R : List Row) : List Row :=
  inner θ L R ++ rightOnly θ lcols L R
def fullOuter (θ : Row → Row → Bool) (lcols rcols : Nat) (L R : List Row) : List Row :=
  leftOuter θ rcols L R ++ rightOnly θ lcols L R

end Spec

/-- the match relation the hash join implements: equal `HashKey`s, and (unless the join keeps
NULL keys in the table) not the plain NULL key -/
def hmatch (jt : JT) (pkeys bkeys : List Nat) (l r : Row) : Bool :=
  decide (extractKey bkeys r = extractKey pkeys l) &&
    !(decide (extractKey bkeys r = .one .null) && !jt.keepsNull)


/-! ### leapfrog join (`operators/leapfrog_join.rs` over `index/trie.rs`)

Inputs are materialised; every row whose key cells are all non-NULL `Int64` enters the input's
trie under the path of its key cells (`as u64`). `execute_leapfrog` intersects the FIRST trie
level only; `collect_row_ids_at_key` then takes, per input, the rows stored exactly at `[key]`
and the rows stored exactly at `[key, child]` for every child in ascending order — whatever the
child is, and nothing below the second level. The result rows are the cartesian products per key
(rightmost input fastest), 2048 per chunk. (The trie stores row ids; the model stores the rows
they point to. The leapfrog search itself is modelled by its result: the ascending intersection
of the first-level key sets.) -/

/-- `i as u64` -/
def u64 (i : Int) : Nat := (i % 2 ^ 64).toNat

/-- `extract_join_keys` on `Int64` columns -/
def lfPath (keys : List Nat) (r : Row) : Option (List Nat) :=
  keys.mapM fun c => match r.getD c .null with
    | .int i => some (u64 i)
    | _ => none

def lfEntries (keys : List Nat) (chunks : List Chunk) : List (List Nat × Row) :=
  chunks.flatten.filterMap fun r => (lfPath keys r).map fun p => (p, r)

def insertNat (a : Nat) : List Nat → List Nat
  | [] => [a]
  | b :: bs => if a < b then a :: b :: bs else if a = b then b :: bs else b :: insertNat a bs

/-- ascending, without duplicates -/
def sortDedup (xs : List Nat) : List Nat := xs.foldr insertNat []

/-- the sorted keys of the trie's first level -/
def lfKeys1 (es : List (List Nat × Row)) : List Nat := sortDedup (es.filterMap fun e => e.1.head?)

/-- `collect_row_ids_at_key` -/
def lfRowsAt (es : List (List Nat × Row)) (key : Nat) : List Row :=
  (es.filter fun e => e.1 == [key]).map (·.2) ++
  (sortDedup (es.filterMap fun e => match e.1 with
      | k :: c :: _ => if k == key then some c else none
      | _ => none)).flatMap fun c => (es.filter fun e => e.1 == [key, c]).map (·.2)

/-- `advance_expansion`: the rightmost input moves fastest -/
def lfProduct : List (List Row) → List Row
  | [] => [[]]
  | rs :: rest => rs.flatMap fun r => (lfProduct rest).map (r ++ ·)

def lfRows (keys : List Nat) (inputs : List (List Chunk)) : List Row :=
  match inputs.map (lfEntries keys) with
  | [] => []
  | e0 :: es =>
    ((lfKeys1 e0).filter fun k => es.all fun e => (lfKeys1 e).contains k).flatMap fun k =>
      if ((e0 :: es).map (lfRowsAt · k)).all (fun rs => !rs.isEmpty) then lfProduct ((e0 :: es).map (lfRowsAt · k))
      else []

def chunksOf (cap : Nat) : Nat → List Row → List Chunk
  | 0, _ => []
  | f + 1, rows => if rows.isEmpty then [] else rows.take cap :: chunksOf cap f (rows.drop cap)

/-- `LeapfrogJoinOperator` as a function from its inputs to its output chunks -/
def lfJoin (cap : Nat) (keys : List Nat) (inputs : List (List Chunk)) : List Chunk :=
  chunksOf cap (lfRows keys inputs).length (lfRows keys inputs)

def lfTuples : List (List Row) → List (List Row)
  | [] => [[]]
  | rs :: rest => rs.flatMap fun r => (lfTuples rest).map (r :: ·)

/-- the definition (what the equivalent plan of inner hash joins returns): one row from each
input, all with the same, NULL-free key -/
def Spec.leapfrog (keys : List Nat) (inputs : List (List Chunk)) : List Row :=
  ((lfTuples (inputs.map List.flatten)).filter fun t =>
    match t.map (lfPath keys) with
    | some p :: rest => rest.all (· == some p)
    | _ => false).map List.flatten

end Grafeo.Join
