import GrafeoModel.Model.Lpg
import GrafeoModel.Model.Wal
/-
Model of persistence at the `GrafeoDB` level (`crates/grafeo-engine/src/database.rs`):
which API calls append which WAL records (`log_wal`), what `close` / `wal_checkpoint` append,
and what `open` does (`WalRecovery::recover` commit rule, then `apply_wal_records`).
One log file, no rotation (a rotation needs 64 MB of log through `GrafeoDB`).
-/
namespace Grafeo.Persist
open Grafeo.Lpg Grafeo.Wal

inductive WRec where
  | createNode (id : Nat) (labels : List Nat)
  | deleteNode (id : Nat)
  | createEdge (id src dst ty : Nat)
  | deleteEdge (id : Nat)
  | setNodeProp (id key : Nat) (v : String)
  | setEdgeProp (id key : Nat) (v : String)
  | addLabel (id l : Nat)
  | removeLabel (id l : Nat)
  | removeNodeProp (id key : Nat)
  | txCommit
  | txAbort
  | checkpoint
  deriving Repr

def WRec.kind : WRec → Kind
  | .txCommit => .commit
  | .txAbort => .abort
  | .checkpoint => .checkpoint
  | _ => .data

structure Db where
  live : Store := {}
  log : List WRec := []          -- everything ever appended to the log file
  isOpen : Bool := true

/-- `apply_wal_records` -/
def applyRec (s : Store) : WRec → Store
  | .createNode id ls => s.createNodeWithId id ls
  | .deleteNode id => (s.deleteNodeAt id s.epoch).1
  | .createEdge id a b t => s.createEdgeWithId id a b t
  | .deleteEdge id => (s.deleteEdgeAt id s.epoch).1
  | .setNodeProp id k v => s.setNodeProp id k v
  | .setEdgeProp id k v => s.setEdgeProp id k v
  | .addLabel id l => (s.addLabel id l).1
  | .removeLabel id l => (s.removeLabel id l).1
  | .removeNodeProp id k => (s.removeNodeProp id k).1
  | _ => s

/-- `GrafeoDB::open` on an existing directory: recover, replay, keep appending to the same file. -/
def Db.reopen (d : Db) : Db :=
  let recs := replay WRec.kind d.log
  { live := recs.foldl applyRec ({} : Store), log := d.log, isOpen := true }

/-- `close()`: commit marker, checkpoint marker (both logged), sync. -/
def Db.close (d : Db) : Db :=
  if d.isOpen then { d with log := d.log ++ [.txCommit, .checkpoint], isOpen := false } else d

/-- `wal_checkpoint()`: commit marker, then checkpoint marker (repaired code; the pinned code
wrote the checkpoint marker alone, which made recovery discard everything logged before it). -/
def Db.walCheckpoint (d : Db) : Db := { d with log := d.log ++ [.txCommit, .checkpoint] }

end Grafeo.Persist

namespace Grafeo.Persist
open Grafeo.Lpg Grafeo.Wal

/-- the logged fragment of the `GrafeoDB` API, plus checkpoint and close→reopen -/
inductive LOp where
  | createNode (labels : List Nat)
  | deleteNode (id : Nat)
  | createEdge (src dst ty : Nat)
  | deleteEdge (id : Nat)
  | setNodeProp (id key : Nat) (v : String)
  | setEdgeProp (id key : Nat) (v : String)
  | addLabel (id l : Nat)
  | removeLabel (id l : Nat)
  | removeNodeProp (id key : Nat)
  | checkpoint
  | closeReopen
  deriving Repr

/-- what each call does to the live store and which records it appends (`database.rs`) -/
def Db.api (d : Db) : LOp → Db
  | .createNode ls =>
    let (s', id) := d.live.createNode ls d.live.epoch systemTx
    { d with live := s', log := d.log ++ [.createNode id ls] }
  | .deleteNode id =>
    let (s', ok) := d.live.deleteNodeAt id d.live.epoch
    { d with live := s', log := if ok then d.log ++ [.deleteNode id] else d.log }
  | .createEdge a b t =>
    let (s', id) := d.live.createEdge a b t d.live.epoch systemTx
    { d with live := s', log := d.log ++ [.createEdge id a b t] }
  | .deleteEdge id =>
    let (s', ok) := d.live.deleteEdgeAt id d.live.epoch
    { d with live := s', log := if ok then d.log ++ [.deleteEdge id] else d.log }
  | .setNodeProp id k v => { d with live := d.live.setNodeProp id k v, log := d.log ++ [.setNodeProp id k v] }
  | .setEdgeProp id k v => { d with live := d.live.setEdgeProp id k v, log := d.log ++ [.setEdgeProp id k v] }
  | .addLabel id l =>
    let (s', ok) := d.live.addLabel id l
    { d with live := s', log := if ok then d.log ++ [.addLabel id l] else d.log }
  | .removeLabel id l =>
    let (s', ok) := d.live.removeLabel id l
    { d with live := s', log := if ok then d.log ++ [.removeLabel id l] else d.log }
  | .removeNodeProp id k =>
    -- `remove_node_property`: logged when something was removed (repaired code; the pinned code
    -- logged nothing, so the property was back after reopen)
    let (s', old) := d.live.removeNodeProp id k
    { d with live := s', log := if old.isSome then d.log ++ [.removeNodeProp id k] else d.log }
  | .checkpoint => d.walCheckpoint
  | .closeReopen => d.close.reopen

end Grafeo.Persist

namespace Grafeo.Persist
open Grafeo.Lpg

def insertNat (x : Nat) : List Nat → List Nat
  | [] => [x]
  | y :: ys => if y < x then y :: insertNat x ys else x :: y :: ys

def sortNat (l : List Nat) : List Nat := l.foldr insertNat []

/-- `export_snapshot`→`import_snapshot`, `to_memory` and `save`→`open` all do the same thing:
enumerate the source with `all_nodes()` / `all_edges()` (at the **store** epoch) and re-create
every entity with its id, labels and properties. -/
def copyStore (s : Store) : Store :=
  let s1 := (sortNat s.nodeIds).foldl (fun acc id =>
    let a := acc.createNodeWithId id (s.nodeLabelsOf id)
    (s.nodePropsOf id).foldl (fun a2 kv => a2.setNodeProp id kv.1 kv.2) a) ({} : Store)
  (sortNat s.edgeIds).foldl (fun acc id =>
    match aget s.edges id with
    | some (_, r) =>
      let a := acc.createEdgeWithId id r.src r.dst r.ty
      ((aget s.eprops id).getD []).foldl (fun a2 kv => a2.setEdgeProp id kv.1 kv.2) a
    | none => acc) s1

end Grafeo.Persist
