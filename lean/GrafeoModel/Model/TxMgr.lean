import GrafeoModel.Generated.Constants
/-
Model of `crates/grafeo-engine/src/transaction/manager.rs` (`TransactionManager`).

Representation: transaction ids are handed out consecutively from `firstTxId`, so the two
hash maps `transactions` and `committed_epochs` are one list of slots indexed by
`id - firstTxId`; `none` = no entry (never begun, or removed by `gc`). Each slot carries the
`TxInfo` fields and `cepoch`, the entry of `committed_epochs` for that id (both maps are only
ever updated together, under the `transactions` write lock). Hash-map iteration order is
irrelevant: every loop of `commit` only asks whether *some* entry satisfies a test.

Entities (`EntityId::Node(n)` / `Edge(e)`) are natural-number codes.
-/

namespace Grafeo.TxMgr

inductive TxState where
  | active | committed | aborted
  deriving DecidableEq, Repr

inductive Iso where
  | readCommitted | snapshot | serializable
  deriving DecidableEq, Repr

structure Tx where
  state : TxState
  iso : Iso
  start : Nat
  wset : List Nat
  rset : List Nat
  cepoch : Option Nat
  deriving DecidableEq, Repr

structure Mgr where
  epoch : Nat
  slots : List (Option Tx)
  deriving DecidableEq, Repr

def firstTxId : Nat := Generated.firstTxId

def init : Mgr := ⟨0, []⟩

def Mgr.get (m : Mgr) (i : Nat) : Option Tx :=
  match m.slots[i]? with
  | some (some t) => some t
  | _ => none

inductive CommitRes where
  | ok (epoch : Nat)
  | invalid            -- TransactionError::InvalidState
  | writeConflict      -- TransactionError::WriteConflict
  | serFail            -- TransactionError::SerializationFailure
  deriving DecidableEq, Repr

/-- `begin_with_isolation`: slot index of the new transaction (id = index + firstTxId). -/
def Mgr.begin (m : Mgr) (iso : Iso) : Mgr × Nat :=
  ({ m with slots := m.slots ++ [some ⟨.active, iso, m.epoch, [], [], none⟩] }, m.slots.length)

/-- `record_write`: `false` = `Err(InvalidState)`. -/
def Mgr.recordWrite (m : Mgr) (i e : Nat) : Mgr × Bool :=
  match m.get i with
  | none => (m, false)
  | some t =>
    if t.state ≠ .active then (m, false)
    else ({ m with slots := m.slots.set i (some { t with wset := if e ∈ t.wset then t.wset else e :: t.wset }) }, true)

def Mgr.recordRead (m : Mgr) (i e : Nat) : Mgr × Bool :=
  match m.get i with
  | none => (m, false)
  | some t =>
    if t.state ≠ .active then (m, false)
    else ({ m with slots := m.slots.set i (some { t with rset := if e ∈ t.rset then t.rset else e :: t.rset }) }, true)

def intersects (a b : List Nat) : Bool := a.any (fun x => b.contains x)

/-- some *other* retained transaction satisfies `p` (`for (other_tx, other_info) in txns.iter()`). -/
def anyOther (m : Mgr) (i : Nat) (p : Tx → Bool) : Bool :=
  (List.range m.slots.length).any (fun j => j != i && match m.get j with
    | some u => p u
    | none => false)

/-- first loop of `commit` (with the epoch guard of the `fix:` commit): a retained
transaction in state Committed, not known to have committed at or before our start, whose
write set meets ours. -/
def wwLoop1 (m : Mgr) (i : Nat) (t : Tx) : Bool :=
  anyOther m i (fun u => u.state == .committed &&
    !(match u.cepoch with | some e => e ≤ t.start | none => false) &&
    intersects t.wset u.wset)

/-- second loop: over `committed_epochs`, entries newer than our start. -/
def wwLoop2 (m : Mgr) (i : Nat) (t : Tx) : Bool :=
  anyOther m i (fun u => (match u.cepoch with | some e => e > t.start | none => false) &&
    intersects t.wset u.wset)

def ssiLoop1 (m : Mgr) (i : Nat) (t : Tx) : Bool :=
  anyOther m i (fun u => (match u.cepoch with | some e => e > t.start | none => false) &&
    intersects t.rset u.wset)

def ssiLoop2 (m : Mgr) (i : Nat) (t : Tx) : Bool :=
  anyOther m i (fun u => u.state == .committed && intersects t.rset u.wset &&
    (match u.cepoch with | some e => e > t.start | none => false))

/-- `commit` -/
def Mgr.commit (m : Mgr) (i : Nat) : Mgr × CommitRes :=
  match m.get i with
  | none => (m, .invalid)
  | some t =>
    if t.state ≠ .active then (m, .invalid)
    else if wwLoop1 m i t || wwLoop2 m i t then (m, .writeConflict)
    else if t.iso == .serializable && !t.rset.isEmpty && (ssiLoop1 m i t || ssiLoop2 m i t) then (m, .serFail)
    else
      let e := m.epoch + 1
      ({ epoch := e, slots := m.slots.set i (some { t with state := .committed, cepoch := some e }) }, .ok e)

/-- `abort`: `false` = `Err(InvalidState)`. -/
def Mgr.abort (m : Mgr) (i : Nat) : Mgr × Bool :=
  match m.get i with
  | none => (m, false)
  | some t =>
    if t.state ≠ .active then (m, false)
    else ({ m with slots := m.slots.set i (some { t with state := .aborted }) }, true)

def activeStarts (m : Mgr) : List Nat :=
  m.slots.filterMap (fun s => match s with
    | some t => if t.state == .active then some t.start else none
    | none => none)

def listMin : List Nat → Option Nat
  | [] => none
  | x :: xs => match listMin xs with
    | none => some x
    | some y => some (min x y)

/-- `min_active_epoch` -/
def Mgr.minActiveEpoch (m : Mgr) : Nat := (listMin (activeStarts m)).getD m.epoch

def Mgr.activeCount (m : Mgr) : Nat := (activeStarts m).length

/-- the retention rule of `gc`: is this slot removed? -/
def gcRemoves (minStart : Option Nat) (t : Tx) : Bool :=
  match t.state with
  | .active => false
  | .aborted => true
  | .committed =>
    match minStart with
    | some ms => (match t.cepoch with | some ce => ce < ms | none => false)
    | none => true

/-- `gc`: returns the number of removed entries. -/
def Mgr.gc (m : Mgr) : Mgr × Nat :=
  let ms := listMin (activeStarts m)
  let slots' := m.slots.map (fun s => match s with
    | some t => if gcRemoves ms t then none else some t
    | none => none)
  ({ m with slots := slots' },
   (m.slots.filter (fun s => match s with | some t => gcRemoves ms t | none => false)).length)

/-! ### operations and ghost-instrumented run -/

inductive Op where
  | begin (iso : Iso)
  | write (i e : Nat)
  | read (i e : Nat)
  | commit (i : Nat)
  | abort (i : Nat)
  | gc
  deriving DecidableEq, Repr

inductive Out where
  | id (i : Nat)
  | flag (b : Bool)
  | commit (r : CommitRes)
  | count (n : Nat)
  deriving DecidableEq, Repr

def step (m : Mgr) : Op → Mgr × Out
  | .begin iso => let (m', i) := m.begin iso; (m', .id i)
  | .write i e => let (m', b) := m.recordWrite i e; (m', .flag b)
  | .read i e => let (m', b) := m.recordRead i e; (m', .flag b)
  | .commit i => let (m', r) := m.commit i; (m', .commit r)
  | .abort i => let (m', b) := m.abort i; (m', .flag b)
  | .gc => let (m', n) := m.gc; (m', .count n)

/-- what a successful commit published: a history variable, never read by `step`. -/
structure Rec where
  tx : Nat
  iso : Iso
  start : Nat
  wset : List Nat
  rset : List Nat
  epoch : Nat
  deriving DecidableEq, Repr

/-- ghost-instrumented step: the log grows by one record exactly when `commit` answers `ok`. -/
def gstep (g : Mgr × List Rec) (op : Op) : (Mgr × List Rec) × Out :=
  let (m', out) := step g.1 op
  match op, out with
  | .commit i, .commit (.ok e) =>
    match g.1.get i with
    | some t => ((m', ⟨i, t.iso, t.start, t.wset, t.rset, e⟩ :: g.2), out)
    | none => ((m', g.2), out)
  | _, _ => ((m', g.2), out)

def grun (ops : List Op) : Mgr × List Rec := ops.foldl (fun g op => (gstep g op).1) (init, [])

def outputs (ops : List Op) : List Out :=
  (ops.foldl (fun (acc : (Mgr × List Rec) × List Out) op =>
    let (g', o) := gstep acc.1 op; (g', o :: acc.2)) ((init, []), [])).2.reverse

end Grafeo.TxMgr
