import GrafeoModel.Model.F64
import GrafeoModel.Model.Ops
/-
Model of the push-based execution layer of `crates/grafeo-core/src/execution/`:

  A. `pipeline.rs` (`Pipeline::execute`, `push_through`, `finalize_all`, `ChunkCollector`,
     `compute_chunk_size`) and the operator state machines of `operators/push/
     {filter,project,limit,distinct,sort,aggregate}.rs`, generic in the row type;
  B. the pull operators of `operators/{filter,project,limit,distinct,sort,aggregate}.rs`
     as functions from the child's chunk list to the operator's chunk list;
  C. values, rows and the concrete predicates / expressions / sort keys / accumulators / hash
     keys the push and the pull operators use;
  D. `spill/external_sort.rs` (run generation, `std::collections::BinaryHeap` as the k-way merge
     uses it), `operators/push/sort.rs::SpillableSortPushOperator`, `spill/partition.rs`
     (`PartitionedState`) and `spill/manager.rs` file bookkeeping;
  E. `selection.rs` / `chunk.rs::filter`: selection vectors with 16-bit indices.

A chunk is the list of its selected rows. Every push operator hands at most one chunk to its
sink per `push` and at most one per `finalize`; collectors and the collecting sink drop empty
chunks, so "no chunk" and "empty chunk" are the same thing: the empty list.
-/
namespace Grafeo.Push

/-! ## A. push protocol -/

inductive Op (α κ β : Type) where
  | filter (p : α → Bool)
  | project (f : α → α)
  | limit (n : Nat)
  | skip (n : Nat)
  | skipLimit (s n : Nat)
  /-- `DistinctPushOperator` (incremental) -/
  | distinct (key : α → κ)
  /-- `DistinctMaterializingOperator` -/
  | distinctMat (key : α → κ)
  /-- `SortPushOperator`; `le a b` = `compare_rows(a, b) != Greater` -/
  | sort (le : α → α → Bool)
  /-- `AggregatePushOperator` with GROUP BY: `mk r` is the fresh group state made from the first
  row of a group, `add` feeds one row, `out` renders the group's output row -/
  | agg (key : α → κ) (mk : α → β) (add : β → α → β) (out : β → α)
  /-- `AggregatePushOperator` without GROUP BY (`global_state`) -/
  | gagg (init : β) (add : β → α → β) (out : β → List α)

/-- the mutable fields of the operator structs -/
structure St (α κ β : Type) where
  passed : Nat            -- LimitPushOperator.passed
  skipped : Nat           -- SkipPushOperator.skipped
  seen : List κ           -- HashSet<RowKey>
  buf : List α            -- SortPushOperator.buffer / DistinctMaterializingOperator.rows
  groups : List (κ × β)   -- HashMap<GroupKey, GroupState>, kept in first-insertion order
  glob : Option β         -- global_state (none = still the initial accumulators)

def St.empty {α κ β : Type} : St α κ β := ⟨0, 0, [], [], [], none⟩

section Generic
variable {α κ β : Type} [DecidableEq κ]

/-- the loop `for row in selected_indices { if seen.insert(key) { new_indices.push(row) } }`:
returns the grown set and the new rows in input order -/
def dedupStep (key : α → κ) : List κ → List α → List κ × List α
  | seen, [] => (seen, [])
  | seen, r :: rs =>
    if key r ∈ seen then dedupStep key seen rs
    else ((dedupStep key (key r :: seen) rs).1, r :: (dedupStep key (key r :: seen) rs).2)

/-- `groups.entry(key).or_insert_with(..)` followed by the accumulator updates, for one row -/
def groupAdd (key : α → κ) (mk : α → β) (add : β → α → β) : List (κ × β) → α → List (κ × β)
  | [], r => [(key r, add (mk r) r)]
  | (k, b) :: gs, r => if k = key r then (k, add b r) :: gs else (k, b) :: groupAdd key mk add gs r

/-- `LimitPushOperator::push` -/
def limitPush (n : Nat) (st : St α κ β) (c : List α) : St α κ β × List α × Bool :=
  if st.passed ≥ n then (st, [], false)
  else if c.length ≤ n - st.passed then
    ({ st with passed := st.passed + c.length }, c, decide (st.passed + c.length < n))
  else ({ st with passed := n }, c.take (n - st.passed), false)

/-- `push(chunk, sink)`: new state, the chunk handed to the sink (empty = none), and the
returned flag (`false` = early termination requested) -/
def Op.push : Op α κ β → St α κ β → List α → St α κ β × List α × Bool
  | .filter p, st, c => (st, c.filter p, true)
  | .project f, st, c => (st, c.map f, true)
  | .limit n, st, c => limitPush n st c
  | .skip s, st, c =>
    if st.skipped ≥ s then (st, c, true)
    else if c.length ≤ s - st.skipped then ({ st with skipped := st.skipped + c.length }, [], true)
    else ({ st with skipped := s }, c.drop (s - st.skipped), true)
  | .skipLimit s n, st, c =>
    if st.passed ≥ n then (st, [], false)
    else if st.skipped < s then
      if c.length ≤ s - st.skipped then ({ st with skipped := st.skipped + c.length }, [], true)
      else limitPush n { st with skipped := s } (c.drop (s - st.skipped))
    else limitPush n st c
  | .distinct key, st, c =>
    ({ st with seen := (dedupStep key st.seen c).1 }, (dedupStep key st.seen c).2, true)
  | .distinctMat key, st, c =>
    ({ st with seen := (dedupStep key st.seen c).1, buf := st.buf ++ (dedupStep key st.seen c).2 }, [], true)
  | .sort _, st, c => ({ st with buf := st.buf ++ c }, [], true)
  | .agg key mk add _, st, c => ({ st with groups := c.foldl (groupAdd key mk add) st.groups }, [], true)
  | .gagg init add _, st, c => ({ st with glob := some (c.foldl add (st.glob.getD init)) }, [], true)

/-- `finalize(sink)`: the chunk handed to the sink (empty = none) -/
def Op.finalize : Op α κ β → St α κ β → List α
  | .distinctMat _, st => st.buf
  | .sort le, st => st.buf.mergeSort le
  | .agg _ _ _ out, st => st.groups.map (fun g => out g.2)
  | .gagg init _ out, st => out (st.glob.getD init)
  | _, _ => []

/-- limit-like operators are the only ones that ever return `false` -/
def Op.isLimit : Op α κ β → Bool
  | .limit _ => true
  | .skipLimit _ _ => true
  | _ => false

abbrev Stage (α κ β : Type) := Op α κ β × St α κ β

/-- the behaviours of the pipeline layer that differ between the code before and after its
repairs (each `true` = the old behaviour) -/
structure PipeQ where
  /-- `push_through` returns at once when an intermediate operator answers `false`, dropping what
  that call put into the collector -/
  drop : Bool
  /-- pipeline breakers emit their whole result as ONE chunk in `finalize` -/
  oneChunk : Bool
  /-- `compute_chunk_size` may return 0 -/
  zeroChunk : Bool
  /-- `DEFAULT_CHUNK_SIZE` -/
  cap : Nat := 2048

/-- `SortOperator::next` / `emit_rows`: `size` rows per chunk -/
def rechunk (size : Nat) : Nat → List α → List (List α)
  | 0, _ => []
  | fuel + 1, rows => if rows.isEmpty then [] else rows.take size :: rechunk size fuel (rows.drop size)

def rechunkAll (size : Nat) (rows : List α) : List (List α) := rechunk size rows.length rows

def single (rows : List α) : List (List α) := if rows.isEmpty then [] else [rows]

/-- the chunks `finalize(sink)` hands to its sink: sort and the materializing distinct emit through
`emit_rows` (chunks of the standard size; one chunk in the old code), the aggregates one chunk -/
def Op.finalizeChunks (pq : PipeQ) : Op α κ β → St α κ β → List (List α)
  | .distinctMat key, st =>
    if pq.oneChunk then single ((Op.distinctMat (β := β) key).finalize st)
    else rechunkAll pq.cap ((Op.distinctMat (β := β) key).finalize st)
  | .sort le, st =>
    if pq.oneChunk then single ((Op.sort (κ := κ) (β := β) le).finalize st)
    else rechunkAll pq.cap ((Op.sort (κ := κ) (β := β) le).finalize st)
  | op, st => single (op.finalize st)

/-- `Pipeline::push_through` / `push_through_from`: new operator states, what reaches the real
sink, and the returned flag. An intermediate operator pushes into a `ChunkCollector`; what it
collected travels on through the remaining operators and the flags are combined. (Old code,
`pq.drop`: when the operator answered `false` the function returned at once and the collector's
content was lost.) -/
def pushThrough (pq : PipeQ) : List (Stage α κ β) → List α → List (Stage α κ β) × List α × Bool
  | [], c => ([], c, true)
  | (op, st) :: rest, c =>
    if rest.isEmpty then ([(op, (op.push st c).1)], (op.push st c).2.1, (op.push st c).2.2)
    else if (op.push st c).2.1.isEmpty || (pq.drop && !(op.push st c).2.2) then
      ((op, (op.push st c).1) :: rest, [], (op.push st c).2.2)
    else
      ((op, (op.push st c).1) :: (pushThrough pq rest (op.push st c).2.1).1,
        (pushThrough pq rest (op.push st c).2.1).2.1,
        (op.push st c).2.2 && (pushThrough pq rest (op.push st c).2.1).2.2)

theorem pushThrough_length (pq : PipeQ) (sg : List (Stage α κ β)) (c : List α) :
    (pushThrough pq sg c).1.length = sg.length := by
  induction sg generalizing c with
  | nil => rfl
  | cons s rest ih =>
    obtain ⟨op, st⟩ := s
    unfold pushThrough
    split
    · rename_i h; simp_all
    · split <;> simp [ih]

/-- the loop of `Pipeline::execute`: chunks are pushed until one push returns `false` -/
def pushAll (pq : PipeQ) : List (Stage α κ β) → List (List α) → List (Stage α κ β) × List α
  | sg, [] => (sg, [])
  | sg, c :: cs =>
    if (pushThrough pq sg c).2.2 then
      ((pushAll pq (pushThrough pq sg c).1 cs).1,
        (pushThrough pq sg c).2.1 ++ (pushAll pq (pushThrough pq sg c).1 cs).2)
    else ((pushThrough pq sg c).1, (pushThrough pq sg c).2.1)

/-- chunks pushed one after the other, the returned flags ignored (`finalize_all`) -/
def pushChunks (pq : PipeQ) : List (Stage α κ β) → List (List α) → List (Stage α κ β) × List α
  | sg, [] => (sg, [])
  | sg, c :: cs =>
    ((pushChunks pq (pushThrough pq sg c).1 cs).1,
      (pushThrough pq sg c).2.1 ++ (pushChunks pq (pushThrough pq sg c).1 cs).2)

theorem pushChunks_length (pq : PipeQ) (sg : List (Stage α κ β)) (cs : List (List α)) :
    (pushChunks pq sg cs).1.length = sg.length := by
  induction cs generalizing sg with
  | nil => rfl
  | cons c cs ih => simp [pushChunks, ih, pushThrough_length]

/-- `Pipeline::finalize_all`: operator `i` finalizes into a collector, every collected chunk is
pushed through operators `i+1..`, the returned flags are ignored. -/
def finalizeAll (pq : PipeQ) : List (Stage α κ β) → List α
  | [] => []
  | (op, st) :: rest =>
    if rest.isEmpty then (op.finalizeChunks pq st).flatten
    else (pushChunks pq rest (op.finalizeChunks pq st)).2 ++
      finalizeAll pq (pushChunks pq rest (op.finalizeChunks pq st)).1
termination_by sg => sg.length
decreasing_by
  simp [pushChunks_length]

def initStages (ops : List (Op α κ β)) : List (Stage α κ β) := ops.map (fun o => (o, St.empty))

/-- `Pipeline::execute` over a source that yields `chunks`: everything the sink receives -/
def run (pq : PipeQ) (ops : List (Op α κ β)) (chunks : List (List α)) : List α :=
  (pushAll pq (initStages ops) chunks).2 ++ finalizeAll pq (pushAll pq (initStages ops) chunks).1

/-! ### chunk size hints (`compute_chunk_size`) -/

/-- `preferred_chunk_size` folded into the running size (`Default` leaves it alone) -/
def Op.hintSize : Op α κ β → Nat → Nat
  | .limit n, size => if n < 256 then min size n else if n < 1000 then min size 512 else size
  | .skipLimit _ n, size => if n < 256 then min size n else if n < 1000 then min size 512 else size
  | _, size => size

/-- at least 1 since the repair (LIMIT 0 hints "at most 0") -/
def computeChunkSize (pq : PipeQ) (ops : List (Op α κ β)) : Nat :=
  if pq.zeroChunk then ops.foldl (fun s o => o.hintSize s) pq.cap
  else max (ops.foldl (fun s o => o.hintSize s) pq.cap) 1

/-- `VectorSource::next_chunk(size)` iterated, `size > 0` -/
def chunksOf (size : Nat) : Nat → List α → List (List α)
  | 0, _ => []
  | fuel + 1, rows => if rows.isEmpty then [] else rows.take size :: chunksOf size fuel (rows.drop size)

/-- Outcome of `Pipeline::execute` over a `VectorSource`. With a computed chunk size of 0 (old
code) the source hands out empty chunks for ever; only a saturated limit in FIRST position
stops that. -/
def runVector (pq : PipeQ) (ops : List (Op α κ β)) (rows : List α) : Option (List α) :=
  let size := computeChunkSize pq ops
  if size = 0 ∧ ¬ rows.isEmpty then
    match ops with
    | .limit 0 :: _ => some (run pq ops [[]])
    | .skipLimit _ 0 :: _ => some (run pq ops [[]])
    | _ => none                                   -- never returns
  else some (run pq ops (chunksOf size rows.length rows))

/-! ### what an operator does to a stream (used by the theorems and as the repaired pipeline) -/

/-- everything operator `op` in state `st` will hand on when it is fed `rows` and then finalized -/
def Op.sem : Op α κ β → St α κ β → List α → List α
  | .filter p, _, r => r.filter p
  | .project f, _, r => r.map f
  | .limit n, st, r => r.take (n - st.passed)
  | .skip s, st, r => r.drop (s - st.skipped)
  | .skipLimit s n, st, r => (r.drop (s - st.skipped)).take (n - st.passed)
  | .distinct key, st, r => (dedupStep key st.seen r).2
  | .distinctMat key, st, r => st.buf ++ (dedupStep key st.seen r).2
  | .sort le, st, r => (st.buf ++ r).mergeSort le
  | .agg key mk add out, st, r => (r.foldl (groupAdd key mk add) st.groups).map (fun g => out g.2)
  | .gagg init add out, st, r => out (r.foldl add (st.glob.getD init))

/-- operator after operator, each consuming the whole output of its predecessor -/
def semPipe : List (Stage α κ β) → List α → List α
  | [], r => r
  | (op, st) :: rest, r => semPipe rest (op.sem st r)

/-! ### list-level specification -/

/-- keep the first row of every key: the head, then the rest without the head's key -/
def dedupFirst (key : α → κ) : List α → List α
  | [] => []
  | r :: rs => r :: dedupFirst key (rs.filter (fun x => key x ≠ key r))
termination_by l => l.length
decreasing_by
  simp only [List.length_cons]
  apply Nat.lt_succ_of_le
  simp only [List.length_unattach]
  exact Nat.le_trans (List.length_filter_le _ _) (by simp)

/-- GROUP BY: one output row per key in order of first occurrence; the group state is made from
the group's first row and fed every row of the group in input order -/
def groupSpec (key : α → κ) (mk : α → β) (add : β → α → β) (out : β → α) (rows : List α) : List α :=
  (dedupFirst key rows).map (fun r => out ((rows.filter (fun x => key x = key r)).foldl add (mk r)))

def Op.spec : Op α κ β → List α → List α
  | .filter p, r => r.filter p
  | .project f, r => r.map f
  | .limit n, r => r.take n
  | .skip s, r => r.drop s
  | .skipLimit s n, r => (r.drop s).take n
  | .distinct key, r => dedupFirst key r
  | .distinctMat key, r => dedupFirst key r
  | .sort le, r => r.mergeSort le
  | .agg key mk add out, r => groupSpec key mk add out r
  | .gagg init add out, r => out (r.foldl add init)

def specChain : List (Op α κ β) → List α → List α
  | [], r => r
  | op :: rest, r => specChain rest (op.spec r)

/-- no limit-like operator except possibly in last position -/
def limitOnlyLast : List (Op α κ β) → Bool
  | [] => true
  | [_] => true
  | op :: rest => !op.isLimit && limitOnlyLast rest

/-! ## B. pull operators (child = list of chunks, operator = list of chunks) -/

def dropEmpty (cs : List (List α)) : List (List α) := cs.filter (fun c => !c.isEmpty)

/-- one pull operator over its child's chunk list. `cap` = `DataChunkBuilder` capacity (2048).
`FilterOperator` skips chunks in which nothing passes; `HashAggregateOperator` keeps its groups
in an `IndexMap` (first-insertion order). -/
def pullOp (cap : Nat) : Op α κ β → List (List α) → List (List α)
  | .filter p, cs => dropEmpty (cs.map (fun c => c.filter p))
  | .project f, cs => cs.map (fun c => c.map f)
  | .limit n, cs => Ops.limitOp n 0 cs
  | .skip s, cs => Ops.skipOp s 0 cs
  | .skipLimit s n, cs => Ops.limitSkipOp s n 0 0 cs
  | .distinct key, cs => Ops.distinctOp key cap [] cs
  | .distinctMat key, cs => Ops.distinctOp key cap [] cs
  | .sort le, cs => rechunkAll cap (cs.flatten.mergeSort le)
  | .agg key mk add out, cs =>
    rechunkAll cap ((cs.flatten.foldl (groupAdd key mk add) []).map (fun g => out g.2))
  | .gagg init add out, cs => [out (cs.flatten.foldl add init)]

def pullChain (cap : Nat) : List (Op α κ β) → List (List α) → List (List α)
  | [], cs => cs
  | op :: rest, cs => pullChain cap rest (pullOp cap op cs)

end Generic

/-! ## C. values, rows, and the concrete semantics of the operators -/

inductive Val where
  | null
  | bool (b : Bool)
  | int (i : Int)
  | flt (bits : Nat)
  | str (bytes : List Nat)
  deriving DecidableEq, Repr, Inhabited

abbrev Row := List Val

open Grafeo.F64

def cmpBytes : List Nat → List Nat → Ordering
  | [], [] => .eq
  | [], _ :: _ => .lt
  | _ :: _, [] => .gt
  | a :: as, b :: bs => if a < b then .lt else if a > b then .gt else cmpBytes as bs

inductive Cmp where | eq | ne | lt | le | gt | ge
  deriving DecidableEq, Repr

/-- derived `PartialEq for Value` on the five scalar variants -/
def valEq : Val → Val → Bool
  | .null, .null => true
  | .bool a, .bool b => a == b
  | .int a, .int b => a == b
  | .flt a, .flt b => feq a b
  | .str a, .str b => a == b
  | _, _ => false

/-- `compare_values` of push/filter.rs -/
def pushCmpVals : Val → Val → Option Ordering
  | .int a, .int b => some (compare a b)
  | .flt a, .flt b => partialCmp a b
  | .str a, .str b => some (cmpBytes a b)
  | .bool a, .bool b => some (compare a.toNat b.toNat)
  | _, _ => none

def cmpHolds (c : Cmp) (eq : Bool) (o : Option Ordering) : Bool :=
  match c with
  | .eq => eq
  | .ne => !eq
  | .lt => o == some .lt
  | .le => o == some .lt || o == some .eq
  | .gt => o == some .gt
  | .ge => o == some .gt || o == some .eq

/-- `ColumnPredicate::evaluate` -/
def pushPred (col : Nat) (c : Cmp) (k : Val) (r : Row) : Bool :=
  match r[col]? with
  | none => false
  | some v => cmpHolds c (valEq v k) (pushCmpVals v k)

/-- comparison of the pull side (`ExpressionPredicate` on `Variable op Literal`): integers and
floats compare numerically, booleans are not ordered. This is also the specification. -/
def refEq : Val → Val → Bool
  | .int a, .flt b => feq (i64ToF64 a) b
  | .flt a, .int b => feq a (i64ToF64 b)
  | a, b => valEq a b

def refCmpVals : Val → Val → Option Ordering
  | .int a, .int b => some (compare a b)
  | .flt a, .flt b => partialCmp a b
  | .int a, .flt b => partialCmp (i64ToF64 a) b
  | .flt a, .int b => partialCmp a (i64ToF64 b)
  | .str a, .str b => some (cmpBytes a b)
  | _, _ => none

def refPred (col : Nat) (c : Cmp) (k : Val) (r : Row) : Bool :=
  match r[col]? with
  | none => false
  | some v => cmpHolds c (refEq v k) (refCmpVals v k)

/-- comparison with the two switches in which the push and the pull predicate differ(ed):
`coerce` = integers and floats compare numerically, `boolOrd` = booleans are ordered -/
def eqWith (coerce : Bool) (a b : Val) : Bool := if coerce then refEq a b else valEq a b

def cmpValsWith (coerce boolOrd : Bool) : Val → Val → Option Ordering
  | .int a, .int b => some (compare a b)
  | .flt a, .flt b => partialCmp a b
  | .int a, .flt b => if coerce then partialCmp (i64ToF64 a) b else none
  | .flt a, .int b => if coerce then partialCmp a (i64ToF64 b) else none
  | .str a, .str b => some (cmpBytes a b)
  | .bool a, .bool b => if boolOrd then some (compare a.toNat b.toNat) else none
  | _, _ => none

def predWith (coerce boolOrd : Bool) (col : Nat) (c : Cmp) (k : Val) (r : Row) : Bool :=
  match r[col]? with
  | none => false
  | some v => cmpHolds c (eqWith coerce v k) (cmpValsWith coerce boolOrd v k)

/-! ### projection expressions (`ColumnExpr`, `ConstantExpr`, `BinaryExpr`) -/

inductive Arith where | add | sub | mul | div | mod
  deriving DecidableEq, Repr

inductive Ex where
  | col (k : Nat)
  | const (v : Val)
  | bin (op : Arith) (l r : Ex)
  deriving Repr

def wrap64 (x : Int) : Int := (x + 2 ^ 63) % 2 ^ 64 - 2 ^ 63

def i64Min : Int := -(2 ^ 63)

/-- integer branch of `BinaryExpr::evaluate`: `checked_div` / `checked_rem`, NULL when there is no
result. `none` = the process panics: the old code (`panics`) evaluated `i64::MIN / -1` and
`i64::MIN % -1` with the plain operators. -/
def arithInt (panics : Bool) (op : Arith) (l r : Int) : Option Val :=
  match op with
  | .add => some (.int (wrap64 (l + r)))
  | .sub => some (.int (wrap64 (l - r)))
  | .mul => some (.int (wrap64 (l * r)))
  | .div => if r = 0 then some .null
            else if l = i64Min ∧ r = -1 then (if panics then none else some .null)
            else some (.int (Int.tdiv l r))
  | .mod => if r = 0 then some .null
            else if l = i64Min ∧ r = -1 then (if panics then none else some .null)
            else some (.int (Int.tmod l r))

/-- `evaluate`; float arithmetic is not modelled (never generated): it yields NULL here -/
def Ex.eval : Ex → Row → Val
  | .col k, r => r[k]?.getD .null
  | .const v, _ => v
  | .bin op l r, row =>
    match l.eval row, r.eval row with
    | .int a, .int b => (arithInt false op a b).getD .null
    | _, _ => .null

def projectRow (es : List Ex) (r : Row) : Row := es.map (fun e => e.eval r)

/-! ### sort keys (`compare_rows`) -/

structure SortKey where
  col : Nat
  asc : Bool
  nullsFirst : Bool
  deriving Repr

def flipOrd : Ordering → Ordering
  | .lt => .gt | .gt => .lt | .eq => .eq

/-- push/sort.rs, spill/external_sort.rs, parallel/merge.rs `compare_values` -/
def sortCmpVals : Val → Val → Ordering
  | .bool a, .bool b => compare a.toNat b.toNat
  | .int a, .int b => compare a b
  | .flt a, .flt b => (partialCmp a b).getD .eq
  | .str a, .str b => cmpBytes a b
  | _, _ => .eq

/-- operators/sort.rs `compare_values`: additionally compares integers with floats -/
def pullSortCmpVals : Val → Val → Ordering
  | .int a, .flt b => (partialCmp (i64ToF64 a) b).getD .eq
  | .flt a, .int b => (partialCmp a (i64ToF64 b)).getD .eq
  | a, b => sortCmpVals a b

def keyCmp (cmpv : Val → Val → Ordering) (k : SortKey) (a b : Row) : Ordering :=
  let o :=
    match a[k.col]?, b[k.col]? with
    | some .null, some .null => .eq
    | some .null, _ => if k.nullsFirst then .lt else .gt
    | _, some .null => if k.nullsFirst then .gt else .lt
    | some x, some y => cmpv x y
    | _, _ => .eq
  if k.asc then o else flipOrd o

def cmpRows (cmpv : Val → Val → Ordering) : List SortKey → Row → Row → Ordering
  | [], _, _ => .eq
  | k :: ks, a, b => if keyCmp cmpv k a b = .eq then cmpRows cmpv ks a b else keyCmp cmpv k a b

/-- `sort_by(|a, b| compare_rows(a, b, keys))` keeps `a` before `b` unless `a > b` -/
def rowLe (cmpv : Val → Val → Ordering) (keys : List SortKey) (a b : Row) : Bool :=
  cmpRows cmpv keys a b != .gt

/-! ### hash keys (`hash_value` of push/distinct.rs and push/aggregate.rs) -/

def leBytes (n : Nat) : List Nat := (List.range 8).map (fun i => n / 256 ^ i % 256)

/-- the bytes fed to `DefaultHasher` for one value; the 64-bit SipHash of these bytes is the key
part (the model keeps the bytes, i.e. assumes the hash injective on them) -/
def hashFeed : Val → List Nat
  | .null => [0]
  | .bool b => [b.toNat]
  | .int i => leBytes ((i % 2 ^ 64).toNat)
  | .flt b => leBytes b
  | .str s => s ++ [255]

def hashKey (cols : Option (List Nat)) (r : Row) : List (List Nat) :=
  match cols with
  | none => r.map hashFeed
  | some cs => cs.map (fun c => match r[c]? with | some v => hashFeed v | none => leBytes 0)

/-- specification / pull side: the values themselves -/
def idKey (cols : Option (List Nat)) (r : Row) : List Val :=
  match cols with
  | none => r
  | some cs => cs.map (fun c => r[c]?.getD .null)

/-! ### accumulators (`Accumulator` of push/aggregate.rs) over integers, booleans and NULL -/

structure Acc where
  count : Int
  sum : Int                 -- the f64 sum; exact while every partial sum is below 2^53
  min : Option Val
  max : Option Val
  deriving DecidableEq, Repr

def Acc.new : Acc := ⟨0, 0, none, none⟩

/-- `compare_for_min(current, new)`: replace? -/
def replMin : Option Val → Val → Bool
  | none, _ => true
  | some (.int a), .int b => b < a
  | some (.flt a), .flt b => partialCmp b a == some .lt
  | _, _ => false

def replMax : Option Val → Val → Bool
  | none, _ => true
  | some (.int a), .int b => b > a
  | some (.flt a), .flt b => partialCmp b a == some .gt
  | _, _ => false

/-- `Accumulator::add` (strings and floats as aggregated values are not modelled) -/
def Acc.add (a : Acc) (v : Val) : Acc :=
  match v with
  | .null => a
  | _ =>
    { count := a.count + 1
      sum := match v with | .int i => a.sum + i | _ => a.sum
      min := if replMin a.min v then some v else a.min
      max := if replMax a.max v then some v else a.max }

inductive AggF where | countStar | count | sum | min | max
  deriving DecidableEq, Repr

structure AggE where
  f : AggF
  col : Nat
  deriving Repr

/-- one accumulator per aggregate expression, fed from one row -/
def accsAdd (aggs : List AggE) (accs : List Acc) (r : Row) : List Acc :=
  (aggs.zip accs).map (fun (e, a) =>
    match e.f with
    | .countStar => { a with count := a.count + 1 }
    | _ => match r[e.col]? with | some v => a.add v | none => a)

/-- `Accumulator::finalize` (push): SUM is a float, NULL when nothing was added -/
def pushFin (e : AggE) (a : Acc) : Val :=
  match e.f with
  | .countStar => .int a.count
  | .count => .int a.count
  | .sum => if a.count = 0 then .null else .flt (i64ToF64 a.sum)
  | .min => a.min.getD .null
  | .max => a.max.getD .null

/-- pull side (`AggregateState::finalize`) and specification: SUM of integers is an integer, 0 when
nothing was added -/
def refFin (e : AggE) (a : Acc) : Val :=
  match e.f with
  | .countStar => .int a.count
  | .count => .int a.count
  | .sum => .int a.sum
  | .min => a.min.getD .null
  | .max => a.max.getD .null

/-- group state: the key values of the group's first row and the accumulators -/
structure GState where
  keyVals : Row
  accs : List Acc
  deriving Repr

def gMk (gcols : List Nat) (aggs : List AggE) (r : Row) : GState :=
  ⟨gcols.map (fun c => r[c]?.getD .null), aggs.map (fun _ => Acc.new)⟩

def gAdd (aggs : List AggE) (g : GState) (r : Row) : GState := { g with accs := accsAdd aggs g.accs r }

def gOut (fin : AggE → Acc → Val) (aggs : List AggE) (g : GState) : Row :=
  g.keyVals ++ (aggs.zip g.accs).map (fun (e, a) => fin e a)

/-- global aggregation emits one row unless there is no output column at all -/
def gOutGlobal (fin : AggE → Acc → Val) (aggs : List AggE) (g : GState) : List Row :=
  if aggs.isEmpty then [] else [gOut fin aggs g]

/-- pull `GroupKey`: every key value is kept as it is (float keys by bit pattern; before the
repair a float became the integer with the same bit pattern and came out as such) -/
def pullKeyPart : Val → Val
  | v => v

def pullGMk (gcols : List Nat) (aggs : List AggE) (r : Row) : GState :=
  ⟨gcols.map (fun c => pullKeyPart (r[c]?.getD .null)), aggs.map (fun _ => Acc.new)⟩

/-! ### operator descriptions as they appear on op lines -/

inductive OpD where
  | filter (col : Nat) (c : Cmp) (k : Val)
  | project (es : List Ex)
  | limit (n : Nat)
  | skip (n : Nat)
  | skipLimit (s n : Nat)
  | distinct (cols : Option (List Nat))
  | distinctMat (cols : Option (List Nat))
  | sort (keys : List SortKey)
  | agg (gcols : List Nat) (aggs : List AggE)
  deriving Repr

/-- which of the code's deviations from the specification are switched on (`true` = the
behaviour before the repair named in the comment) -/
structure Quirks where
  hashKeys : Bool        -- distinct / group keys are per-column hashes        (repaired)
  predNoCoercion : Bool  -- ColumnPredicate: integers and floats unrelated     (repaired)
  predBoolOrder : Bool   -- ColumnPredicate: booleans are ordered              (open)
  floatSum : Bool        -- SUM is Float64 / NULL                              (open)
  dropOnStop : Bool      -- push_through drops the collector on `false`        (repaired)
  zeroChunk : Bool       -- compute_chunk_size may return 0                    (repaired)
  oneChunk : Bool        -- sort / materializing distinct emit one chunk       (repaired)
  divPanics : Bool       -- i64::MIN / -1 panics                               (repaired)
  heapTies : Bool        -- k-way merge: ties leave in heap order              (repaired)
  staleActive : Bool     -- SpillManager keeps counting deleted files          (repaired)
  leakFiles : Bool       -- PartitionedState cleanup / drop leave files        (repaired)
  flatRowHash : Bool     -- merge_distinct_results: identity = 64-bit hash     (repaired)
  physSel : Bool         -- logical positions read as physical ones            (repaired)
  deriving Repr

/-- the code before the repairs -/
def Quirks.asIs : Quirks := ⟨true, true, true, true, true, true, true, true, true, true, true, true, true⟩
/-- the specification -/
def Quirks.none : Quirks := ⟨false, false, false, false, false, false, false, false, false, false, false, false, false⟩
/-- the code as it is now: what the driver runs. Everything is repaired except the order on
booleans in the push filter and the float / NULL result of the push SUM. -/
def Quirks.current : Quirks :=
  { Quirks.none with predBoolOrder := true, floatSum := true }

def Quirks.pipe (q : Quirks) : PipeQ := { drop := q.dropOnStop, oneChunk := q.oneChunk, zeroChunk := q.zeroChunk }

abbrev K := List (List Nat) ⊕ List Val

def rowKey (q : Quirks) (cols : Option (List Nat)) (r : Row) : K :=
  if q.hashKeys then .inl (hashKey cols r) else .inr (idKey cols r)

/-- the push operator an op-line item denotes -/
def OpD.toPush (q : Quirks) : OpD → Op Row K GState
  | .filter col c k => .filter (predWith (!q.predNoCoercion) q.predBoolOrder col c k)
  | .project es => .project (projectRow es)
  | .limit n => .limit n
  | .skip n => .skip n
  | .skipLimit s n => .skipLimit s n
  | .distinct cols => .distinct (rowKey q cols)
  | .distinctMat cols => .distinctMat (rowKey q cols)
  | .sort keys => .sort (rowLe sortCmpVals keys)
  | .agg gcols aggs =>
    let fin := if q.floatSum then pushFin else refFin
    if gcols.isEmpty then .gagg (gMk [] aggs []) (gAdd aggs) (gOutGlobal fin aggs)
    else .agg (rowKey q (some gcols)) (gMk gcols aggs) (gAdd aggs) (gOut fin aggs)

/-- the pull operator tree built for the same item (as coded: reference predicate, value keys,
integer sums, integer/float comparison in ORDER BY, float group keys as bit patterns) -/
def OpD.toPull : OpD → Op Row (List Val) GState
  | .filter col c k => .filter (refPred col c k)
  | .project es => .project (projectRow es)
  | .limit n => .limit n
  | .skip n => .skip n
  | .skipLimit s n => .skipLimit s n
  | .distinct cols => .distinct (idKey cols)
  | .distinctMat cols => .distinct (idKey cols)
  | .sort keys => .sort (rowLe pullSortCmpVals keys)
  | .agg gcols aggs =>
    if gcols.isEmpty then .gagg (gMk [] aggs []) (gAdd aggs) (gOutGlobal refFin aggs)
    else .agg (fun r => (idKey (some gcols) r).map pullKeyPart) (pullGMk gcols aggs) (gAdd aggs) (gOut refFin aggs)

/-- the specification of an item -/
def OpD.toSpec (d : OpD) : Op Row K GState := d.toPush Quirks.none

/-! ## D. spilling -/

section Spill
variable {α : Type}

/-- `SpillableSortPushOperator`: (buffer, sorted runs on disk) after `push(chunk)` + `maybe_spill` -/
def xsortPush (le : α → α → Bool) (threshold : Nat) (st : List α × List (List α)) (c : List α) :
    List α × List (List α) :=
  if c.isEmpty then st
  else if (st.1 ++ c).length < threshold then (st.1 ++ c, st.2)
  else ([], st.2 ++ [(st.1 ++ c).mergeSort le])

def xsortState (le : α → α → Bool) (threshold : Nat) (chunks : List (List α)) : List α × List (List α) :=
  chunks.foldl (xsortPush le threshold) ([], [])

def popFront : List (List α) → Nat → List (List α)
  | [], _ => []
  | r :: rs, 0 => r.tail :: rs
  | r :: rs, i + 1 => r :: popFront rs i

/-! ### the merge as a specification-level process: "take the head of any run whose head is
minimal" (what a priority queue guarantees, whatever its tie-breaking) -/

def headOf (runs : List (List α)) (i : Nat) : Option α := (runs[i]?).bind List.head?

def mergeWith (pick : List (List α) → Option Nat) : Nat → List (List α) → List α
  | 0, _ => []
  | fuel + 1, runs =>
    match pick runs with
    | none => []
    | some i =>
      match headOf runs i with
      | none => []
      | some x => x :: mergeWith pick fuel (popFront runs i)

/-- first run (lowest index) whose head is minimal -/
def pickFirstMin (le : α → α → Bool) : List (List α) → Option Nat
  | [] => none
  | r :: rs =>
    match r, pickFirstMin le rs with
    | [], none => none
    | [], some j => some (j + 1)
    | _ :: _, none => some 0
    | x :: _, some j =>
      match rs[j]? with
      | some (y :: _) => if le x y then some 0 else some (j + 1)
      | _ => some 0

/-! `std::collections::BinaryHeap` as `k_way_merge` uses it. An entry is (row, run index);
`hle x y` = `x <= y` in the heap's `Ord` = `compare_rows(y.row, x.row) != Greater`. -/

def siftUp (hle : α × Nat → α × Nat → Bool) : Nat → Array (α × Nat) → Nat → Array (α × Nat)
  | 0, a, _ => a
  | fuel + 1, a, pos =>
    if pos = 0 then a
    else
      let parent := (pos - 1) / 2
      match a[pos]?, a[parent]? with
      | some x, some p => if hle x p then a else siftUp hle fuel ((a.set! pos p).set! parent x) parent
      | _, _ => a

def heapPush (hle : α × Nat → α × Nat → Bool) (a : Array (α × Nat)) (x : α × Nat) : Array (α × Nat) :=
  siftUp hle (a.size + 1) (a.push x) a.size

/-- `sift_down_to_bottom(0)`: the hole walks down along the greater child to the bottom -/
def siftDownToBottom (hle : α × Nat → α × Nat → Bool) : Nat → Array (α × Nat) → Nat → Array (α × Nat) × Nat
  | 0, a, pos => (a, pos)
  | fuel + 1, a, pos =>
    let endI := a.size
    let child := 2 * pos + 1
    if child + 1 < endI then
      match a[child]?, a[child + 1]?, a[pos]? with
      | some l, some r, some x =>
        let c := if hle l r then child + 1 else child
        let cv := if hle l r then r else l
        siftDownToBottom hle fuel ((a.set! pos cv).set! c x) c
      | _, _, _ => (a, pos)
    else if child + 1 = endI then
      match a[child]?, a[pos]? with
      | some l, some x => ((a.set! pos l).set! child x, child)
      | _, _ => (a, pos)
    else (a, pos)

/-- `BinaryHeap::pop` -/
def heapPop (hle : α × Nat → α × Nat → Bool) (a : Array (α × Nat)) : Option ((α × Nat) × Array (α × Nat)) :=
  match a.back? with
  | none => none
  | some last =>
    let a' := a.pop
    match a'[0]? with
    | none => some (last, a')
    | some top =>
      let b := a'.set! 0 last
      let (c, pos) := siftDownToBottom hle (b.size + 1) b 0
      some (top, siftUp hle (c.size + 1) c pos)

/-- the merge loop of `k_way_merge` / `merge_sorted_runs`: `runs` are the unread remainders -/
def heapMergeLoop (hle : α × Nat → α × Nat → Bool) : Nat → Array (α × Nat) → List (List α) → List α
  | 0, _, _ => []
  | fuel + 1, heap, runs =>
    match heapPop hle heap with
    | none => []
    | some ((row, i), heap') =>
      match (runs[i]?).bind List.head? with
      | some nxt => row :: heapMergeLoop hle fuel (heapPush hle heap' (nxt, i)) (popFront runs i)
      | none => row :: heapMergeLoop hle fuel heap' runs

/-- heads of the non-empty runs are pushed in run order, then the loop runs -/
def heapMerge (cmp : α → α → Ordering) (runs : List (List α)) : List α :=
  let hle : α × Nat → α × Nat → Bool := fun x y => cmp y.1 x.1 != .gt
  let init := (runs.zipIdx).foldl (fun h (ri : List α × Nat) =>
    match ri.1.head? with | some x => heapPush hle h (x, ri.2) | none => h) #[]
  heapMergeLoop hle (runs.flatten.length + 1) init (runs.map List.tail)

/-- the k-way merge of `ExternalSort::k_way_merge` and `parallel::merge_sorted_runs`. Heap entries
are ordered by the sort keys and, among equal keys, by run number; at most one entry per run is
in the heap, so the heap's minimum is unique: the head of the leftmost run with a minimal head.
(Old code, `heapTies`: keys only - ties left in the order the binary heap happened to hold them.) -/
def kWayMerge (heapTies : Bool) (cmp : α → α → Ordering) (runs : List (List α)) : List α :=
  if heapTies then heapMerge cmp runs
  else mergeWith (pickFirstMin (fun a b => cmp a b != .gt)) runs.flatten.length runs

/-- `ExternalSort::merge_all(buffer)` over the runs on disk -/
def mergeAll (heapTies : Bool) (cmp : α → α → Ordering) (runs : List (List α)) (buf : List α) : List α :=
  let le := fun a b => cmp a b != .gt
  if runs.isEmpty then buf.mergeSort le
  else if runs.length = 1 ∧ buf.isEmpty then runs.flatten
  else kWayMerge heapTies cmp (if buf.isEmpty then runs else runs ++ [buf.mergeSort le])

/-- `SpillableSortPushOperator::finalize` -/
def xsortRun (heapTies : Bool) (cmp : α → α → Ordering) (threshold : Nat) (chunks : List (List α)) : List α :=
  let le := fun a b => cmp a b != .gt
  let st := xsortState le threshold chunks
  if st.2.isEmpty then st.1.mergeSort le else mergeAll heapTies cmp st.2 st.1

/-- `parallel::merge_sorted_runs` -/
def mergeSortedRuns (heapTies : Bool) (cmp : α → α → Ordering) (runs : List (List α)) : List α :=
  if runs.length = 1 then runs.flatten else kWayMerge heapTies cmp runs

end Spill

/-! ### `PartitionedState` and the spill directory -/

/-- one partition of a `PartitionedState` created with `num_partitions = 1` -/
structure PartSt where
  inMem : Bool := true            -- partitions[0].is_some()
  data : List (Row × Int) := []   -- the entries, in memory or in the spill file
  file : Bool := false            -- spill_files[0].is_some()
  leaked : Nat := 0               -- files on disk the state no longer refers to
  deriving Repr

/-- `get_partition_mut(0)`: a spilled partition is read back and its file deleted -/
def PartSt.load (s : PartSt) : PartSt :=
  if s.inMem then s
  else if s.file then { s with inMem := true, file := false }
  else { s with inMem := true, data := [] }

/-- `spill_partition(0)`; returns whether bytes were written -/
def PartSt.spill (s : PartSt) : PartSt × Bool :=
  if !s.inMem then (s, false)
  else if s.data.isEmpty then ({ s with inMem := false }, false)
  else ({ s with inMem := false, file := true }, true)

def assocSet (k : Row) (v : Int) : List (Row × Int) → List (Row × Int)
  | [] => [(k, v)]
  | (k', v') :: rest => if k' = k then (k, v) :: rest else (k', v') :: assocSet k v rest

def assocGet (k : Row) : List (Row × Int) → Option Int
  | [] => none
  | (k', v') :: rest => if k' = k then some v' else assocGet k rest

/-- `cleanup()` deletes the spill file. (Old code, `leak`: the `SpillFile` handle was dropped
without `delete()`, the file stayed in the directory.) -/
def PartSt.cleanup (leak : Bool) (s : PartSt) : PartSt :=
  { inMem := true, data := [], file := false, leaked := s.leaked + (if leak && s.file then 1 else 0) }

/-- files left in the spill directory when the state is dropped (`Drop` deletes its file now) -/
def PartSt.leftAtDrop (leak : Bool) (s : PartSt) : Nat :=
  s.leaked + (if leak && s.file then 1 else 0)

/-- `drain_all()` -/
def PartSt.drain (s : PartSt) : PartSt × List (Row × Int) :=
  let l := s.load
  ({ l with data := [], file := false }, l.data)

def PartSt.filesOnDisk (s : PartSt) : Nat := s.leaked + (if s.file then 1 else 0)

/-! ## E. selection vectors with 16-bit indices -/

def u16 (i : Nat) : Nat := i % 65536

/-- `SelectionVector::from_predicate(count, p)` -/
def fromPredicate (count : Nat) (p : Nat → Bool) : List Nat := ((List.range count).filter p).map u16

/-- `DataChunk::filter(&selection)` on a chunk with physical rows `phys` and optional selection -/
def chunkFilter {α : Type} (phys : Array α) (sel : Option (List Nat)) (pred : List Nat) : List α :=
  (pred.filter (fun i => match sel with | none => true | some s => s.contains i)).filterMap (fun i => phys[i]?)

/-- a chunk's selected rows -/
def selRows {α : Type} (phys : Array α) (sel : Option (List Nat)) : List α :=
  match sel with
  | none => phys.toList
  | some s => s.filterMap (fun i => phys[i]?)

def selLen {α : Type} (phys : Array α) (sel : Option (List Nat)) : Nat :=
  match sel with | none => phys.size | some s => s.length

/-- `FilterPushOperator::push` on such a chunk: the predicate is evaluated at the PHYSICAL
positions `0 .. len()` where `len()` counts the SELECTED rows -/
def filterSel {α : Type} (p : α → Bool) (phys : Array α) (sel : Option (List Nat)) : List α :=
  chunkFilter phys sel (fromPredicate (selLen phys sel) (fun i => match phys[i]? with | some r => p r | none => false))

/-- `LimitPushOperator::push` truncation: `SelectionVector::new_all(remaining)` are physical
positions; `none` = the assertion `count <= 65535` fails -/
def limitSel {α : Type} (remaining : Nat) (phys : Array α) (sel : Option (List Nat)) : Option (List α) :=
  if remaining > 65535 then none
  else some (chunkFilter phys sel ((List.range remaining).map u16))

/-- `SkipPushOperator::push` partial skip -/
def skipSel {α : Type} (start : Nat) (phys : Array α) (sel : Option (List Nat)) : List α :=
  chunkFilter phys sel (fromPredicate (selLen phys sel) (fun i => i ≥ start))

/-- `DistinctPushOperator::push`: `new` are the physical positions of the new rows -/
def distinctSel {α : Type} (new : List Nat) (phys : Array α) (sel : Option (List Nat)) : List α :=
  chunkFilter phys sel (fromPredicate (selLen phys sel) (fun i => new.contains i))

/-! ### the repaired operators on a chunk with a selection vector -/

/-- `DataChunk::slice(offset, count)`: counts SELECTED rows -/
def sliceSel {α : Type} (offset count : Nat) (phys : Array α) (sel : Option (List Nat)) : List α :=
  ((selRows phys sel).drop offset).take count

/-- `FilterPushOperator::push`: the predicate narrows the existing selection (physical positions) -/
def filterSelNew {α : Type} (p : α → Bool) (phys : Array α) (sel : Option (List Nat)) : List α :=
  match sel with
  | some s => chunkFilter phys sel (s.filter (fun i => match phys[i]? with | some r => p r | none => false))
  | none => chunkFilter phys none
      (fromPredicate phys.size (fun i => match phys[i]? with | some r => p r | none => false))

end Grafeo.Push
