import GrafeoModel.Model.Codec
/-
Model of the write-ahead log framing and replay rule:
`crates/grafeo-adapters/src/storage/wal/log.rs` (`WalManager::log`) and
`recovery.rs` (`read_record`, `recover_internal`).

A frame is `u32le len ++ payload ++ u32le crc32(payload)`. The payload (bincode of a
`WalRecord`) is an opaque byte list here; `crc` and `dec` (does the payload decode, and to what
kind of record) are parameters. Bytes are naturals below 256.
-/
namespace Grafeo.Wal
open Grafeo.Codec

def frame (crc : List Nat → Nat) (p : List Nat) : List Nat :=
  leBytes 4 p.length ++ p ++ leBytes 4 (crc p)

def encodeAll (crc : List Nat → Nat) (ps : List (List Nat)) : List Nat :=
  (ps.map (frame crc)).flatten

/-- the `loop { read_record }` of one log file. `dec p = false` models a payload that
bincode cannot decode (an `Err`, which stops the file like a checksum mismatch).
Fuel bounds the recursion (each frame consumes at least 8 bytes; the byte count suffices). -/
def parseFile (crc : List Nat → Nat) (dec : List Nat → Bool) : Nat → List Nat → List (List Nat)
  | 0, _ => []
  | fuel + 1, bs =>
    if bs.length < 4 then []                       -- EOF (also: a torn length prefix)
    else
      let len := ofLe (bs.take 4)
      let rest := bs.drop 4
      if rest.length < len then []                 -- torn payload: read_exact fails
      else
        let data := rest.take len
        let rest2 := rest.drop len
        if rest2.length < 4 then []                -- torn checksum
        else if ofLe (rest2.take 4) ≠ crc data then []   -- checksum mismatch
        else if !dec data then []                  -- undecodable payload
        else data :: parseFile crc dec fuel (rest2.drop 4)

/-- `ensure_active_log` on an existing file (`valid_prefix_len` + `set_len`): before anything is
appended the file is cut at the end of its last complete record, i.e. it consists of exactly the
frames recovery reads. -/
def reopenBytes (crc : List Nat → Nat) (dec : List Nat → Bool) (bs : List Nat) : List Nat :=
  encodeAll crc (parseFile crc dec bs.length bs)

/-! ### record level: the commit rule of `recover_internal` -/

inductive Kind where
  | data | commit | abort | checkpoint
  deriving DecidableEq, Repr

/-- state of the replay loop: (current_tx_records, committed_records) -/
def replayStep (kind : α → Kind) (st : List α × List α) (r : α) : List α × List α :=
  match kind r with
  | .commit => ([], st.2 ++ st.1 ++ [r])
  | .abort => ([], st.2)
  | .checkpoint => ([], st.2 ++ [r])
  | .data => (st.1 ++ [r], st.2)

/-- `recover_internal` over the concatenated records of the files it reads: what is returned
is the committed list; pending records at the end are dropped. -/
def replay (kind : α → Kind) (rs : List α) : List α :=
  (rs.foldl (replayStep kind) ([], [])).2

/-- which log files are read: those whose sequence number is not below the checkpoint's. -/
def filesToRead (minSeq : Nat) (files : List (Nat × List Nat)) : List (Nat × List Nat) :=
  files.filter (fun f => f.1 ≥ minSeq)

/-- `recover()`: per file, parse frames until the first bad one, concatenate across files
(a bad frame stops that file only), then apply the commit rule. -/
def recover (crc : List Nat → Nat) (dec : List Nat → Bool) (kind : List Nat → Kind)
    (minSeq : Nat) (files : List (Nat × List Nat)) : List (List Nat) :=
  replay kind ((filesToRead minSeq files).flatMap (fun f => parseFile crc dec f.2.length f.2))

end Grafeo.Wal

namespace Grafeo.Wal

/-- CRC-32 (IEEE, reflected, as `crc32fast::hash`), bit by bit. -/
def crcBits : Nat → Nat → Nat
  | 0, c => c
  | n + 1, c => crcBits n (if c % 2 = 1 then (c / 2) ^^^ 0xEDB88320 else c / 2)

def crc32 (bs : List Nat) : Nat :=
  (bs.foldl (fun c b => crcBits 8 (c ^^^ b)) 0xFFFFFFFF) ^^^ 0xFFFFFFFF

/-- record kind from the bincode payload: the first byte is the variant index. -/
def kindOf (p : List Nat) : Kind :=
  match p with
  | [] => .data
  | b :: _ =>
    if b = Generated.walRecordTxCommit then .commit
    else if b = Generated.walRecordTxAbort then .abort
    else if b = Generated.walRecordCheckpoint then .checkpoint
    else .data

end Grafeo.Wal
