import GrafeoModel.Model.Lpg

/-!
# `LpgStore::create_edge` / `delete_edge` / `delete_node` under thread interleavings (C20)

`crates/grafeo-core/src/graph/lpg/store.rs` (non-tiered build, store epoch 0) and
`index/adjacency.rs` (`ChunkedAdjacency`: per node a list of `(other, edge)` entries plus a set
of deleted edge ids; readers filter the
entries by the set). `mark_deleted` is the repaired one (`fix:` af85f62: the tombstone is kept even
when the node has no list yet); the pinned behaviour is `Old.adjMark` / `Old.runSched` at the end of
this file. One step of a thread = the code between two yield points:

  create_edge(src, dst)  alloc     `next_edge_id.fetch_add`, edge type id                ↦ `idle → crEdges`
                         `edges.write()` insert                                          ↦ `crEdges`   (takes effect)
                         `forward_adj.add_edge(src, dst, id)`                            ↦ `crFwd`
                         `backward_adj.add_edge(dst, src, id)`                           ↦ `crBwd`
  delete_edge(e)         (reach the first yield point)                                   ↦ `idle → deEdges`
                         `edges.write()` held: visible? mark the chain deleted           ↦ `deEdges`   (takes effect)
                         `forward_adj.mark_deleted(src, e)`                              ↦ `deFwd`
                         `backward_adj.mark_deleted(dst, e)`                             ↦ `deBwd`
                         `edge_properties.remove_all(e)`                                 ↦ `deProps`
  delete_node(n)         (reach the yield point)                                         ↦ `idle → dnNodes`
                         `nodes.write()` held: visible? mark deleted (edges untouched)   ↦ `dnNodes`

Neither `create_edge` nor `delete_node` looks at the other's table: an edge whose endpoint is
deleted ("dangling") is also what the sequential code produces (C14's subject), so it is not a
concurrency defect. The ghost `log` lists the calls in the order of the sections at which they
take effect.
-/
namespace Grafeo.EdgeConc
open Grafeo.Lpg

structure Adj where
  entries : List (Nat × Nat) := []
  deleted : List Nat := []
  deriving Repr, DecidableEq

structure ERec where
  deleted : Bool
  src : Nat
  dst : Nat
  deriving Repr, DecidableEq

structure Store where
  nextEdge : Nat := 0
  edges : AList ERec := []
  fwd : AList Adj := []
  bwd : AList Adj := []
  nodes : AList Bool := []
  deriving Repr, DecidableEq

/-- `ChunkedAdjacency::add_edge` -/
def adjAdd (a : AList Adj) (k other e : Nat) : AList Adj :=
  let l := (aget a k).getD {}
  aset a k { l with entries := l.entries ++ [(other, e)] }

/-- `ChunkedAdjacency::mark_deleted` (repaired): `entry(src).or_insert_with(new)`, set insert -/
def adjMark (a : AList Adj) (k e : Nat) : AList Adj :=
  let l := (aget a k).getD {}
  aset a k { l with deleted := if l.deleted.contains e then l.deleted else e :: l.deleted }

/-- `ChunkedAdjacency::edges_from` -/
def adjLive (a : AList Adj) (k : Nat) : List (Nat × Nat) :=
  match aget a k with
  | none => []
  | some l => l.entries.filter (fun p => !l.deleted.contains p.2)

inductive COp where
  | create (src dst : Nat)
  | delEdge (e : Nat)
  | delNode (n : Nat)
  deriving Repr, DecidableEq

inductive Pc where
  | idle
  | crEdges (id src dst : Nat)
  | crFwd (id src dst : Nat)
  | crBwd (id src dst : Nat)
  | deEdges (e : Nat)
  | deFwd (e src dst : Nat)
  | deBwd (e dst : Nat)
  | deProps
  | dnNodes (n : Nat)
  deriving Repr, DecidableEq

structure Thread where
  pc : Pc := .idle
  todo : List COp := []
  /-- answers in program order: a created id, or 1/0 -/
  results : List Nat := []
  deriving Repr

/-- a call in the linearisation, with the id it used / the answer it gave -/
structure Ev where
  thread : Nat
  op : COp
  out : Nat
  deriving Repr, DecidableEq

structure State where
  store : Store := {}
  threads : List Thread := []
  log : List Ev := []
  deriving Repr

def done (t : Thread) (r : Nat) : Thread := { t with pc := .idle, results := t.results ++ [r] }

def stepThread (i : Nat) (s : Store) (log : List Ev) (t : Thread) : Store × List Ev × Thread :=
  match t.pc with
  | .idle =>
    match t.todo with
    | [] => (s, log, t)
    | .create src dst :: rest =>
      ({ s with nextEdge := s.nextEdge + 1 }, log, { t with todo := rest, pc := .crEdges s.nextEdge src dst })
    | .delEdge e :: rest => (s, log, { t with todo := rest, pc := .deEdges e })
    | .delNode n :: rest => (s, log, { t with todo := rest, pc := .dnNodes n })
  | .crEdges id src dst =>
    ({ s with edges := aset s.edges id ⟨false, src, dst⟩ }, log ++ [⟨i, .create src dst, id⟩], { t with pc := .crFwd id src dst })
  | .crFwd id src dst => ({ s with fwd := adjAdd s.fwd src dst id }, log, { t with pc := .crBwd id src dst })
  | .crBwd id src dst => ({ s with bwd := adjAdd s.bwd dst src id }, log, done t id)
  | .deEdges e =>
    match aget s.edges e with
    | none => (s, log ++ [⟨i, .delEdge e, 0⟩], done t 0)
    | some r =>
      if r.deleted then (s, log ++ [⟨i, .delEdge e, 0⟩], done t 0)
      else ({ s with edges := aset s.edges e { r with deleted := true } }, log ++ [⟨i, .delEdge e, 1⟩],
            { t with pc := .deFwd e r.src r.dst })
  | .deFwd e src dst => ({ s with fwd := adjMark s.fwd src e }, log, { t with pc := .deBwd e dst })
  | .deBwd e dst => ({ s with bwd := adjMark s.bwd dst e }, log, { t with pc := .deProps })
  | .deProps => (s, log, done t 1)
  | .dnNodes n =>
    match aget s.nodes n with
    | some true => ({ s with nodes := aset s.nodes n false }, log ++ [⟨i, .delNode n, 1⟩], done t 1)
    | _ => (s, log ++ [⟨i, .delNode n, 0⟩], done t 0)

def Thread.finished (t : Thread) : Bool := t.pc == .idle && t.todo.isEmpty

def step (st : State) (i : Nat) : State :=
  match st.threads[i]? with
  | none => st
  | some t =>
    let r := stepThread i st.store st.log t
    { store := r.1, log := r.2.1, threads := st.threads.set i r.2.2 }

def runSched (st : State) (sched : List Nat) : State := sched.foldl step st

def finishThread : Nat → State → Nat → State
  | 0, st, _ => st
  | fuel + 1, st, i =>
    match st.threads[i]? with
    | none => st
    | some t => if t.finished then st else finishThread fuel (step st i) i

def finishAll (fuel : Nat) (st : State) : State :=
  (List.range st.threads.length).foldl (finishThread fuel) st

def initStore (n0 : Nat) : Store := { nodes := (List.range n0).map (fun i => (i, true)) }

def init (n0 : Nat) (progs : List (List COp)) : State :=
  { store := initStore n0, threads := progs.map (fun p => { todo := p }) }

/-! ### the sequential reference: every call in one piece -/

/-- `create_edge` run alone, with the id the counter hands out given (`create_edge_with_id`) -/
def seqCreate (s : Store) (id src dst : Nat) : Store :=
  { s with nextEdge := max s.nextEdge (id + 1), edges := aset s.edges id ⟨false, src, dst⟩,
           fwd := adjAdd s.fwd src dst id, bwd := adjAdd s.bwd dst src id }

def seqDelEdge (s : Store) (e : Nat) : Store × Nat :=
  match aget s.edges e with
  | none => (s, 0)
  | some r =>
    if r.deleted then (s, 0)
    else ({ s with edges := aset s.edges e { r with deleted := true },
                   fwd := adjMark s.fwd r.src e, bwd := adjMark s.bwd r.dst e }, 1)

def seqDelNode (s : Store) (n : Nat) : Store × Nat :=
  match aget s.nodes n with
  | some true => ({ s with nodes := aset s.nodes n false }, 1)
  | _ => (s, 0)

/-- one call of the linearisation, in one piece -/
def rstep (s : Store) (ev : Ev) : Store × Nat :=
  match ev.op with
  | .create src dst => (seqCreate s ev.out src dst, ev.out)
  | .delEdge e => seqDelEdge s e
  | .delNode n => seqDelNode s n

/-- replay of a linearisation; the answers it gives -/
def replay (s : Store) : List Ev → Store × List Nat
  | [] => (s, [])
  | ev :: rest =>
    let r := rstep s ev
    let q := replay r.1 rest
    (q.1, r.2 :: q.2)

/-! ### what a reader sees -/

def liveEdges (s : Store) : List (Nat × Nat × Nat) :=
  (s.edges.filter (fun kv => !kv.2.deleted)).map (fun kv => (kv.1, kv.2.src, kv.2.dst))

def count (l : List (Nat × Nat)) (p : Nat × Nat) : Nat := (l.filter (· == p)).length

/-- forward adjacency, backward adjacency and the edge table agree: every live edge is exactly
once in the forward list of its source and in the backward list of its target, and every
adjacency entry belongs to a live edge with those endpoints -/
def consistent (s : Store) : Bool :=
  (liveEdges s).all (fun e => count (adjLive s.fwd e.2.1) (e.2.2, e.1) == 1 && count (adjLive s.bwd e.2.2) (e.2.1, e.1) == 1) &&
  s.fwd.all (fun kv => (adjLive s.fwd kv.1).all (fun p => (liveEdges s).contains (p.2, kv.1, p.1))) &&
  s.bwd.all (fun kv => (adjLive s.bwd kv.1).all (fun p => (liveEdges s).contains (p.2, p.1, kv.1)))

/-- the reader's view: live edges, live adjacency per node, live nodes (all order-insensitive
comparisons are made on the sorted dump in the driver) -/
structure View where
  edges : List (Nat × Nat × Nat)
  fwd : List (Nat × List (Nat × Nat))
  bwd : List (Nat × List (Nat × Nat))
  nodes : List Nat
  deriving Repr, DecidableEq

def view (s : Store) (nNodes : Nat) : View :=
  { edges := (List.range s.nextEdge).filterMap (fun id => match aget s.edges id with
      | some r => if r.deleted then none else some (id, r.src, r.dst)
      | none => none),
    fwd := (List.range nNodes).map (fun n => (n, adjLive s.fwd n)),
    bwd := (List.range nNodes).map (fun n => (n, adjLive s.bwd n)),
    nodes := (List.range nNodes).filter (fun n => aget s.nodes n == some true) }

/-! ### the pinned code (before `fix:` af85f62): `mark_deleted` did nothing on a node without a list -/
namespace Old

def adjMark (a : AList Adj) (k e : Nat) : AList Adj :=
  match aget a k with
  | none => a
  | some l => aset a k { l with deleted := if l.deleted.contains e then l.deleted else e :: l.deleted }

def stepThread (i : Nat) (s : Store) (log : List Ev) (t : Thread) : Store × List Ev × Thread :=
  match t.pc with
  | .deFwd e src dst => ({ s with fwd := adjMark s.fwd src e }, log, { t with pc := .deBwd e dst })
  | .deBwd e dst => ({ s with bwd := adjMark s.bwd dst e }, log, { t with pc := .deProps })
  | _ => EdgeConc.stepThread i s log t

def step (st : State) (i : Nat) : State :=
  match st.threads[i]? with
  | none => st
  | some t =>
    let r := stepThread i st.store st.log t
    { store := r.1, log := r.2.1, threads := st.threads.set i r.2.2 }

def runSched (st : State) (sched : List Nat) : State := sched.foldl step st

def finishThread : Nat → State → Nat → State
  | 0, st, _ => st
  | fuel + 1, st, i =>
    match st.threads[i]? with
    | none => st
    | some t => if t.finished then st else finishThread fuel (step st i) i

def finishAll (fuel : Nat) (st : State) : State :=
  (List.range st.threads.length).foldl (finishThread fuel) st

def seqDelEdge (s : Store) (e : Nat) : Store × Nat :=
  match aget s.edges e with
  | none => (s, 0)
  | some r =>
    if r.deleted then (s, 0)
    else ({ s with edges := aset s.edges e { r with deleted := true },
                   fwd := adjMark s.fwd r.src e, bwd := adjMark s.bwd r.dst e }, 1)

def replay (s : Store) : List Ev → Store × List Nat
  | [] => (s, [])
  | ev :: rest =>
    let r : Store × Nat := match ev.op with
      | .create src dst => (seqCreate s ev.out src dst, ev.out)
      | .delEdge e => seqDelEdge s e
      | .delNode n => seqDelNode s n
    let q := replay r.1 rest
    (q.1, r.2 :: q.2)

end Old

end Grafeo.EdgeConc
