import GrafeoModel.Model.Rdf

/-!
# SPARQL over the triple store (C13, second sentence)

Three layers, all executable:

* the **surface syntax** of the core grammar (`Grp`, `Select`, `Count`, `Update`) — what an op line
  of stream `sparql` carries and what the harness renders as SPARQL text;
* the **specification**: the standard translation of a group graph pattern to the SPARQL algebra
  (`transStd`, SPARQL 1.1 §18.2.2) and the standard bag semantics of that algebra over a set of
  triples (`eval`, §18.5), solutions being partial maps variable ↦ term;
* the **model of the code as it is**: the translation `sparql_translator.rs` performs
  (`transCode`: the elements of a group folded left to right, FILTERs on top) and the physical plan
  `planner_rdf.rs` builds and the operators of `grafeo-core` execute (`exec`): triple scans that
  hand on *lexical forms* (strings) instead of terms, nested-loop joins on equal column names,
  left joins padding with nulls, FILTER over `Value`s, UNION of branches lined up by column name,
  sort / project / distinct / skip / limit / count, and the update operators that turn strings back
  into terms by looking at them;
* `namespace Old`: the same model for the code before the repairs of this round (required
  patterns first, every OPTIONAL afterwards; DISTINCT dropped; UNION under the first branch's
  column names; a variable twice in a pattern as two columns; BOUND = "is a column"; two-valued
  `&&`/`||`; COUNT(?x) = COUNT(*); String-typed rebuilt columns; the empty group an error; updates
  reading physical instead of selected rows; DELETE WHERE one operator per pattern; the validity
  bitmap of `ValueVector`) — what the regression witnesses of `Props/C13Sparql.lean` are about.

Terms are natural-number codes of a pool of structurally distinct terms (as in `Model/Rdf.lean`);
everything the code derives from the *text* of a term is a field of `Env`.
-/
namespace Grafeo.Sparql
open Grafeo.Rdf

/-! ## environment -/

/-- what kind of RDF term a code stands for (used by the specification only) -/
inductive Kind where
  | iri | blank | plain | lang | other
  | int (n : Int)
  deriving DecidableEq, Repr

/-- a FILTER constant after `literal_to_value` -/
inductive FVal where
  | str (l : Nat)
  | int (n : Int)
  deriving DecidableEq, Repr

structure Env where
  /-- `term_to_string`: identifier of the lexical form of a term; look-alikes share it -/
  lex : Nat → Nat
  /-- identifier of the empty string -/
  emptyLex : Nat
  /-- `str::cmp` on lexical forms (strictly less) -/
  strLt : Nat → Nat → Bool
  /-- `str::parse::<f64>` on a lexical form (the pool only has integral numerals) -/
  num : Nat → Option Int
  /-- a constant of the query text after `literal_to_value` + `component_to_term`
      (language tags and unknown datatypes are dropped) -/
  litNorm : Nat → Nat
  /-- a constant inside FILTER after `translate_expression` -/
  constVal : Nat → FVal
  /-- `value_to_term`: the term a lexical form is turned back into by the update operators -/
  back : Nat → Nat
  /-- the kind of a term -/
  kind : Nat → Kind
  /-- read by `Old` only. `true`: `ValueVector` since /repo commit ea119b4 (every null is recorded);
      `false`: the vector before that commit (the validity bitmap was created at the first null and
      never grew, so every later null of a column read back as the default value `""`) -/
  vfix : Bool := true

/-! ## surface syntax -/

inductive PT where
  | var (v : Nat)
  | const (c : Nat)
  deriving DecidableEq, Repr

structure TP where
  s : PT
  p : PT
  o : PT
  deriving DecidableEq, Repr

inductive Expr where
  | eq (a b : PT)
  | ne (a b : PT)
  | lt (a b : PT)
  | bound (v : Nat)
  | not (e : Expr)
  | and (a b : Expr)
  | or (a b : Expr)
  deriving DecidableEq, Repr

/-- a group graph pattern `{ e₁ e₂ … }` as the sequence of its elements -/
inductive Grp where
  | nil
  | triples (tps : List TP) (rest : Grp)
  | optional (g : Grp) (rest : Grp)
  | union (a b : Grp) (rest : Grp)
  | group (g : Grp) (rest : Grp)
  | filter (e : Expr) (rest : Grp)
  deriving Repr

/-- the algebra both translations target -/
inductive Pat where
  | unit
  | scan (tp : TP)
  | join (a b : Pat)
  | leftJoin (a b : Pat) (cond : Option Expr)
  | union (a b : Pat)
  | filter (e : Expr) (a : Pat)
  deriving DecidableEq, Repr

structure Select where
  distinct : Bool
  proj : Option (List Nat)          -- `none` = `*`
  order : List (Nat × Bool)         -- variable, descending?
  offset : Option Nat
  limit : Option Nat
  where_ : Grp

structure Count where
  distinct : Bool                   -- COUNT(DISTINCT ?x)
  arg : Option Nat                  -- `none` = `*`
  alias : Nat
  groupBy : List Nat
  order : List (Nat × Bool)
  offset : Option Nat
  limit : Option Nat
  where_ : Grp

inductive Update where
  | insertData (ts : List Triple)
  | deleteData (ts : List Triple)
  | deleteWhere (tps : List TP)
  | modify (del ins : List TP) (where_ : Grp)

/-! ## the two translations -/

/-- `join_patterns` / the simplification `Join(Z, A) = A` -/
def joinP : Pat → Pat → Pat
  | .unit, b => b
  | a, .unit => a
  | a, b => .join a b

def bgp (tps : List TP) : Pat := tps.foldl (fun acc tp => joinP acc (.scan tp)) .unit

/-- all FILTERs of a group, combined with `&&`, left-nested -/
def conj : List Expr → Option Expr
  | [] => none
  | e :: es => some (es.foldl Expr.and e)

def withFilter (fs : List Expr) (p : Pat) : Pat :=
  match conj fs with
  | none => p
  | some e => .filter e p

/-! ### as the code does it (`translate_graph_pattern`, case `Group`)

The elements are folded in the order they are written: a required pattern is joined
(`join_patterns`), an OPTIONAL is a left join of what the group has matched so far, the FILTERs are
collected and put on top. -/

structure CParts where
  pat : Pat
  filters : List Expr

def assembleCode (p : CParts) : Pat := withFilter p.filters p.pat

def codeParts (acc : CParts) : Grp → CParts
  | .nil => acc
  | .triples tps rest => codeParts { acc with pat := joinP acc.pat (bgp tps) } rest
  | .optional g rest =>
    codeParts { acc with pat := .leftJoin acc.pat (assembleCode (codeParts ⟨.unit, []⟩ g)) none } rest
  | .union a b rest =>
    let u := Pat.union (assembleCode (codeParts ⟨.unit, []⟩ a)) (assembleCode (codeParts ⟨.unit, []⟩ b))
    codeParts { acc with pat := joinP acc.pat u } rest
  | .group g rest => codeParts { acc with pat := joinP acc.pat (assembleCode (codeParts ⟨.unit, []⟩ g)) } rest
  | .filter e rest => codeParts { acc with filters := acc.filters ++ [e] } rest

/-- the logical plan the translator produces for `{ g }` (the parser hands back a group of one
required pattern as that pattern; joining it into the enclosing group gives the same plan) -/
def transCode (g : Grp) : Pat := assembleCode (codeParts ⟨.unit, []⟩ g)

/-! ### as SPARQL 1.1 §18.2.2.6 says -/

structure SParts where
  pat : Pat
  filters : List Expr

/-- `OPTIONAL { A }`: a top-level filter of `A` becomes the condition of the left join -/
def optJoinStd (acc a : Pat) : Pat :=
  match a with
  | .filter e a' => .leftJoin acc a' (some e)
  | _ => .leftJoin acc a none

def assembleStd (p : SParts) : Pat := withFilter p.filters p.pat

/-- a basic graph pattern as `Join(… Join(Z, tp₁) …, tpₙ)` -/
def bgpStd (tps : List TP) : Pat := tps.foldl (fun acc tp => .join acc (.scan tp)) .unit

/-- the group is translated first and simplified (`Join(Z, A) = A`) afterwards, as the standard
says: `OPTIONAL { { P FILTER(F) } }` therefore keeps `F` inside the inner group (`simpUnit` is
the simplification; it does not change what `eval` returns) -/
def stdParts (acc : SParts) : Grp → SParts
  | .nil => acc
  | .triples tps rest => stdParts { acc with pat := .join acc.pat (bgpStd tps) } rest
  | .optional g rest =>
    stdParts { acc with pat := optJoinStd acc.pat (assembleStd (stdParts ⟨.unit, []⟩ g)) } rest
  | .union a b rest =>
    let u := Pat.union (assembleStd (stdParts ⟨.unit, []⟩ a)) (assembleStd (stdParts ⟨.unit, []⟩ b))
    stdParts { acc with pat := .join acc.pat u } rest
  | .group g rest => stdParts { acc with pat := .join acc.pat (assembleStd (stdParts ⟨.unit, []⟩ g)) } rest
  | .filter e rest => stdParts { acc with filters := acc.filters ++ [e] } rest

def transStd (g : Grp) : Pat := assembleStd (stdParts ⟨.unit, []⟩ g)

/-- the simplification step of §18.2.2.8 -/
def simpUnit : Pat → Pat
  | .unit => .unit
  | .scan tp => .scan tp
  | .join a b => joinP (simpUnit a) (simpUnit b)
  | .leftJoin a b c => .leftJoin (simpUnit a) (simpUnit b) c
  | .union a b => .union (simpUnit a) (simpUnit b)
  | .filter e a => .filter e (simpUnit a)

/-! ## specification: the algebra over a set of triples

A solution is a vector over the query's variables `0 … n-1`; `none` = unbound. -/

abbrev Sol := List (Option Nat)

def Sol.get (μ : Sol) (v : Nat) : Option Nat := (μ[v]?).getD none

def emptySol (n : Nat) : Sol := List.replicate n none

def compatCell (x y : Option Nat) : Bool :=
  match x, y with
  | some a, some b => a == b
  | _, _ => true

def compat (a b : Sol) : Bool := (List.zipWith compatCell a b).all id

def mergeCell (x y : Option Nat) : Option Nat :=
  match x with
  | some a => some a
  | none => y

def merge (a b : Sol) : Sol := List.zipWith mergeCell a b

def bindVar (μ : Sol) (v x : Nat) : Option Sol :=
  match μ.get v with
  | none => some (μ.set v (some x))
  | some y => if y = x then some μ else none

def bindPT (μ : Sol) (pt : PT) (x : Nat) : Option Sol :=
  match pt with
  | .const c => if c = x then some μ else none
  | .var v => bindVar μ v x

/-- the solution that maps the triple pattern onto the triple, if there is one -/
def matchTP (n : Nat) (tp : TP) (t : Triple) : Option Sol :=
  (bindPT (emptySol n) tp.s t.s).bind fun μ => (bindPT μ tp.p t.p).bind fun μ' => bindPT μ' tp.o t.o

def isLit : Kind → Bool
  | .plain | .lang | .other | .int _ => true
  | _ => false

/-- `=` (operator mapping of §17.3: numeric, simple literal, else RDFterm-equal) -/
def eqTerm (env : Env) (x y : Nat) : Option Bool :=
  match env.kind x, env.kind y with
  | .int m, .int n => some (m == n)
  | kx, ky =>
    if x = y then some true
    else if isLit kx && isLit ky then (if kx = .plain && ky = .plain then some false else none)
    else some false

/-- `<` on numerics and on simple literals; a type error otherwise -/
def ltTerm (env : Env) (x y : Nat) : Option Bool :=
  match env.kind x, env.kind y with
  | .int m, .int n => some (decide (m < n))
  | .plain, .plain => some (env.strLt (env.lex x) (env.lex y))
  | _, _ => none

def valPT (μ : Sol) : PT → Option Nat
  | .var v => μ.get v
  | .const c => some c

def and3 (a b : Option Bool) : Option Bool :=
  match a, b with
  | some false, _ => some false
  | _, some false => some false
  | some true, some true => some true
  | _, _ => none

def or3 (a b : Option Bool) : Option Bool :=
  match a, b with
  | some true, _ => some true
  | _, some true => some true
  | some false, some false => some false
  | _, _ => none

def cmp2 (f : Nat → Nat → Option Bool) (x y : Option Nat) : Option Bool :=
  match x, y with
  | some a, some b => f a b
  | _, _ => none

/-- effective boolean value of a FILTER expression; `none` = error -/
def evalE (env : Env) (μ : Sol) : Expr → Option Bool
  | .eq a b => cmp2 (eqTerm env) (valPT μ a) (valPT μ b)
  | .ne a b => (cmp2 (eqTerm env) (valPT μ a) (valPT μ b)).map (!·)
  | .lt a b => cmp2 (ltTerm env) (valPT μ a) (valPT μ b)
  | .bound v => some (μ.get v).isSome
  | .not e => (evalE env μ e).map (!·)
  | .and a b => and3 (evalE env μ a) (evalE env μ b)
  | .or a b => or3 (evalE env μ a) (evalE env μ b)

def holds (env : Env) (cond : Option Expr) (μ : Sol) : Bool :=
  match cond with
  | none => true
  | some e => evalE env μ e == some true

def joinSols (as bs : List Sol) : List Sol :=
  as.flatMap fun μ => bs.filterMap fun ν => if compat μ ν then some (merge μ ν) else none

def leftJoinOne (env : Env) (cond : Option Expr) (bs : List Sol) (μ : Sol) : List Sol :=
  let ms := bs.filterMap fun ν => if compat μ ν && holds env cond (merge μ ν) then some (merge μ ν) else none
  if ms.isEmpty then [μ] else ms

/-- bag semantics of the algebra (§18.5) over the triples `G` -/
def eval (env : Env) (n : Nat) (G : List Triple) : Pat → List Sol
  | .unit => [emptySol n]
  | .scan tp => G.filterMap (matchTP n tp)
  | .join a b => joinSols (eval env n G a) (eval env n G b)
  | .leftJoin a b cond => (eval env n G a).flatMap (leftJoinOne env cond (eval env n G b))
  | .union a b => eval env n G a ++ eval env n G b
  | .filter e a => (eval env n G a).filter fun μ => evalE env μ e == some true

/-! ## the code as it is: physical tables -/

inductive Cell where
  | null
  | str (l : Nat)
  | int (n : Int)
  deriving DecidableEq, Repr

abbrev Row := List Cell

/-- a `DataChunk`: physical rows, each with its bit of the selection vector -/
abbrev Chunk := List (Bool × Row)

structure Table where
  cols : List Nat
  chunks : List Chunk
  deriving Repr

/-- `selected_indices()` -/
def selRows (c : Chunk) : List Row := (c.filter (·.1)).map (·.2)

def Table.rows (t : Table) : List Row := t.chunks.flatMap selRows

def allSel (rows : List Row) : Chunk := rows.map fun r => (true, r)

def chunksAux {α : Type} (k : Nat) : Nat → List α → List (List α)
  | 0, _ => []
  | fuel + 1, l => if l.isEmpty then [] else l.take k :: chunksAux k fuel (l.drop k)

/-- rows leave an operator in chunks of at most `k` -/
def chunksOf {α : Type} (k : Nat) (l : List α) : List (List α) := chunksAux k l.length l

/-- a chunk built row by row (`DataChunkBuilder` over `derive_rdf_schema`: untyped columns, which
hold the strings of RDF terms, the integers of aggregates and nulls alike) -/
def rebuild (rows : List Row) : Chunk := allSel rows

/-! ### scan -/

def patPos (env : Env) : PT → Option Nat
  | .var _ => none
  | .const c => some (env.litNorm c)

def tpPattern (env : Env) (tp : TP) : Pattern := ⟨patPos env tp.s, patPos env tp.p, patPos env tp.o⟩

def ptCols : PT → List Nat
  | .var v => [v]
  | .const _ => []

/-- the variables of a triple pattern, position by position (a variable used twice is there twice) -/
def tpCols (tp : TP) : List Nat := ptCols tp.s ++ ptCols tp.p ++ ptCols tp.o

def ptBind (pt : PT) (x : Nat) : List (Nat × Nat) :=
  match pt with
  | .var v => [(v, x)]
  | .const _ => []

/-- (variable, term) for the variable positions of a pattern laid over a triple -/
def tpBinds (tp : TP) (t : Triple) : List (Nat × Nat) := ptBind tp.s t.s ++ ptBind tp.p t.p ++ ptBind tp.o t.o

/-- the first pair of every key: one column per variable -/
def firstBinds : List (Nat × Nat) → List (Nat × Nat) → List (Nat × Nat)
  | _, [] => []
  | seen, b :: rest =>
    if seen.any (fun s => s.1 == b.1) then firstBinds seen rest else b :: firstBinds (seen ++ [b]) rest

/-- `same_term`: every later position of a variable holds the term of its first position -/
def sameTerm : List (Nat × Nat) → List (Nat × Nat) → Bool
  | _, [] => true
  | seen, b :: rest =>
    match seen.find? (fun s => s.1 == b.1) with
    | some s => s.2 == b.2 && sameTerm seen rest
    | none => sameTerm (seen ++ [b]) rest

/-- the first occurrence of every variable -/
def firstKeys : List Nat → List Nat → List Nat
  | _, [] => []
  | seen, v :: rest => if seen.contains v then firstKeys seen rest else v :: firstKeys (seen ++ [v]) rest

/-- the columns of a scan: each variable once, in order of first position -/
def scanCols (tp : TP) : List Nat := firstKeys [] (tpCols tp)

def scanRow (env : Env) (tp : TP) (t : Triple) : Row :=
  (firstBinds [] (tpBinds tp t)).map fun b => Cell.str (env.lex b.2)

/-- `RdfStore::find` with the iteration order of the primary hash set given as `full` -/
def findIn (st : Store) (full : List Triple) (pat : Pattern) : List Triple :=
  match pat.s, pat.p, pat.o with
  | some s, _, _ => (idxGet st.sIdx s).filter pat.matches
  | none, some p, _ => (idxGet st.pIdx p).filter pat.matches
  | none, none, some o =>
    if st.indexObjects then (idxGet st.oIdx o).filter pat.matches else full.filter pat.matches
  | none, none, none => full.filter pat.matches

def scanChunk : Nat := 1024
def joinChunk : Nat := 2048

def scanT (env : Env) (st : Store) (full : List Triple) (tp : TP) : Table :=
  { cols := scanCols tp
    chunks := (chunksOf scanChunk
      (((findIn st full (tpPattern env tp)).filter fun t => sameTerm [] (tpBinds tp t)).map (scanRow env tp))).map allSel }

/-! ### nested-loop join on equal column names -/

def pairsFor (rc : List Nat) (a : Nat) (i : Nat) : List (Nat × Nat) :=
  (rc.zipIdx).filterMap fun bj => if a = bj.1 then some (i, bj.2) else none

/-- `shared_vars`: every pair of a left and a right column with the same name -/
def sharedPairs (lc rc : List Nat) : List (Nat × Nat) :=
  (lc.zipIdx).flatMap fun ai => pairsFor rc ai.1 ai.2

/-- `RdfJoinCondition::evaluate` (`get_value` answers `Some(Value::Null)` for a null, and
`Value::Null == Value::Null`) -/
def condPair (l r : Row) (ij : Nat × Nat) : Bool :=
  match l[ij.1]?, r[ij.2]? with
  | some a, some b => a == b
  | _, _ => false

def joinCond (pairs : List (Nat × Nat)) (l r : Row) : Bool := pairs.all (condPair l r)

/-- indices of the right columns that are not also left columns -/
def keepRight (lc rc : List Nat) : List Nat :=
  (rc.zipIdx).filterMap fun bj => if lc.contains bj.1 then none else some bj.2

def joinRow (keep : List Nat) (l r : Row) : Row := l ++ keep.map fun j => r.getD j .null

def joinOne (left : Bool) (pairs : List (Nat × Nat)) (keep : List Nat) (rrows : List Row) (l : Row) : List Row :=
  let ms := (rrows.filter (joinCond pairs l)).map (joinRow keep l)
  if left && ms.isEmpty then [l ++ List.replicate keep.length .null] else ms

def nlJoin (left : Bool) (ta tb : Table) : Table :=
  let rrows := tb.rows
  let pairs := sharedPairs ta.cols tb.cols
  let keep := keepRight ta.cols tb.cols
  let outCols := ta.cols ++ keep.map fun j => tb.cols.getD j 0
  { cols := outCols
    chunks := ta.chunks.flatMap fun c =>
      (chunksOf joinChunk ((selRows c).flatMap (joinOne left pairs keep rrows))).map rebuild }

/-! ### UNION: the branches lined up by column name -/

def firstIdx (cols : List Nat) (v : Nat) : Option Nat :=
  ((cols.zipIdx).find? fun ci => ci.1 == v).map (·.2)

/-- `ProjectExpr::Column(position of the name)` or `ProjectExpr::Constant(Null)` -/
def relayRow (bc uc : List Nat) (r : Row) : Row :=
  uc.map fun v => match firstIdx bc v with
    | some i => r.getD i .null
    | none => .null

/-- a branch whose columns are the common layout already is passed through; any other one goes
through a `ProjectOperator` (one output chunk per input chunk, selected rows only) -/
def relayChunks (bc uc : List Nat) (cs : List Chunk) : List Chunk :=
  if bc == uc then cs else cs.map fun c => rebuild ((selRows c).map (relayRow bc uc))

def unionCols (ca cb : List Nat) : List Nat := ca ++ cb.filter fun v => !ca.contains v

def unionT (ta tb : Table) : Table :=
  let uc := unionCols ta.cols tb.cols
  { cols := uc, chunks := relayChunks ta.cols uc ta.chunks ++ relayChunks tb.cols uc tb.chunks }

/-! ### FILTER over `Value`s (`RdfExpressionPredicate`) -/

inductive V where
  | null
  | str (l : Nat)
  | int (n : Int)
  | bool (b : Bool)
  deriving DecidableEq, Repr

def cellV : Cell → V
  | .null => .null
  | .str l => .str l
  | .int n => .int n

/-- the last column with that name (`HashMap` collected from `(name, index)` pairs) -/
def colIdx (cols : List Nat) (v : Nat) : Option Nat :=
  ((cols.zipIdx).filter fun ci => ci.1 == v).getLast?.map (·.2)

/-- `bound_value`: a null cell is an unbound variable and has no value -/
def boundCell : Cell → Option V
  | .null => none
  | .str l => some (.str l)
  | .int n => some (.int n)

def ptV (env : Env) (cols : List Nat) (row : Row) : PT → Option V
  | .var v => (colIdx cols v).bind fun i => (row[i]?).bind boundCell
  | .const c => match env.constVal c with
    | .str l => some (.str l)
    | .int n => some (.int n)

def asBool : V → Option Bool
  | .bool b => some b
  | _ => none

/-- `compare_values(left, right, is_lt)` -/
def ltV (env : Env) (a b : V) : Option V :=
  match a, b with
  | .int x, .int y => some (.bool (decide (x < y)))
  | .str x, .str y =>
    match env.num x, env.num y with
    | some p, some q => some (.bool (decide (p < q)))
    | _, _ => some (.bool (env.strLt x y))
  | .str x, .int y => (env.num x).map fun p => .bool (decide (p < y))
  | .int x, .str y => (env.num y).map fun q => .bool (decide (x < q))
  | _, _ => none

def evalF (env : Env) (cols : List Nat) (row : Row) : Expr → Option V
  | .eq a b => (ptV env cols row a).bind fun x => (ptV env cols row b).map fun y => .bool (x == y)
  | .ne a b => (ptV env cols row a).bind fun x => (ptV env cols row b).map fun y => .bool (x != y)
  | .lt a b => (ptV env cols row a).bind fun x => (ptV env cols row b).bind fun y => ltV env x y
  | .bound v => some (.bool (ptV env cols row (.var v)).isSome)
  | .not e => ((evalF env cols row e).bind asBool).map fun b => .bool (!b)
  | .and a b => (and3 ((evalF env cols row a).bind asBool) ((evalF env cols row b).bind asBool)).map V.bool
  | .or a b => (or3 ((evalF env cols row a).bind asBool) ((evalF env cols row b).bind asBool)).map V.bool

def passes (env : Env) (cols : List Nat) (e : Expr) (row : Row) : Bool :=
  evalF env cols row e == some (.bool true)

/-- `FilterOperator`: narrows the selection vector, drops a chunk nothing of which passes -/
def filterChunk (env : Env) (cols : List Nat) (e : Expr) (c : Chunk) : Chunk :=
  c.map fun br => (br.1 && passes env cols e br.2, br.2)

def anySel (c : Chunk) : Bool := c.any (·.1)

def filterT (env : Env) (e : Expr) (t : Table) : Table :=
  { t with chunks := (t.chunks.map (filterChunk env t.cols e)).filter anySel }

/-! ### the pattern level of the physical plan -/

/-- `SingleRowOperator`: one row without columns -/
def unitT : Table := { cols := [], chunks := [[(true, [])]] }

def exec (env : Env) (st : Store) (full : List Triple) : Pat → Table
  | .unit => unitT
  | .scan tp => scanT env st full tp
  | .join a b => nlJoin false (exec env st full a) (exec env st full b)
  | .leftJoin a b none => nlJoin true (exec env st full a) (exec env st full b)
  | .leftJoin a b (some e) =>                       -- not produced by `transCode`
    nlJoin true (exec env st full a) (filterT env e (exec env st full b))
  | .union a b => unionT (exec env st full a) (exec env st full b)
  | .filter e a => filterT env e (exec env st full a)

/-! ### solution modifiers -/

def cellLt (env : Env) (a b : Cell) : Bool :=
  match a, b with
  | .str x, .str y => env.strLt x y
  | .int x, .int y => decide (x < y)
  | _, _ => false

/-- `compare_values_with_nulls` with `NullsLast`, then the direction: `.lt`, `.eq` or `.gt` -/
def cmpKey (env : Env) (desc : Bool) (a b : Cell) : Ordering :=
  let o : Ordering :=
    match a, b with
    | .null, .null => .eq
    | .null, _ => .gt
    | _, .null => .lt
    | x, y => if cellLt env x y then .lt else if cellLt env y x then .gt else .eq
  if desc then o.swap else o

def cmpRows (env : Env) (keys : List (Nat × Bool)) (a b : Row) : Ordering :=
  match keys with
  | [] => .eq
  | (i, desc) :: rest =>
    match cmpKey env desc (a.getD i .null) (b.getD i .null) with
    | .eq => cmpRows env rest a b
    | o => o

/-- stable insertion: `x` goes behind everything that is not greater -/
def insertStable (le : Row → Row → Bool) (x : Row) : List Row → List Row
  | [] => [x]
  | y :: ys => if le y x then y :: insertStable le x ys else x :: y :: ys

/-- the stable sort (`slice::sort_by`) -/
def sortStable (le : Row → Row → Bool) (l : List Row) : List Row :=
  l.foldl (fun acc x => insertStable le x acc) []

def resolveKeys (cols : List Nat) : List (Nat × Bool) → Option (List (Nat × Bool))
  | [] => some []
  | (v, d) :: rest => (colIdx cols v).bind fun i => (resolveKeys cols rest).map fun r => (i, d) :: r

def sortT (env : Env) (keys : List (Nat × Bool)) (t : Table) : Option Table :=
  (resolveKeys t.cols keys).map fun ks =>
    let sorted := sortStable (fun a b => cmpRows env ks a b != .gt) t.rows
    { t with chunks := (chunksOf joinChunk sorted).map rebuild }

/-- `SkipOperator` -/
def skipChunks : Nat → List Chunk → List Chunk
  | _, [] => []
  | 0, cs => cs
  | k + 1, c :: cs =>
    let n := (selRows c).length
    if k + 1 ≥ n then skipChunks (k + 1 - n) cs
    else rebuild ((selRows c).drop (k + 1)) :: cs

/-- `LimitOperator` -/
def limitChunks : Nat → List Chunk → List Chunk
  | _, [] => []
  | 0, _ => []
  | k + 1, c :: cs =>
    let n := (selRows c).length
    if n = 0 then limitChunks (k + 1) cs
    else if n ≤ k + 1 then c :: limitChunks (k + 1 - n) cs
    else [rebuild ((selRows c).take (k + 1))]

def skipT (k : Option Nat) (t : Table) : Table :=
  match k with
  | none => t
  | some k => { t with chunks := skipChunks k t.chunks }

def limitT (k : Option Nat) (t : Table) : Table :=
  match k with
  | none => t
  | some k => { t with chunks := limitChunks k t.chunks }

/-- `plan_project`: a variable that is a column by its (last) index, any other one as null -/
def projectRow (cols vars : List Nat) (r : Row) : Row :=
  vars.map fun v => match colIdx cols v with
    | some i => r.getD i .null
    | none => .null

/-- `ProjectOperator`: one output chunk per input chunk -/
def projectT (vars : List Nat) (t : Table) : Table :=
  { cols := vars, chunks := t.chunks.map fun c => rebuild ((selRows c).map (projectRow t.cols vars)) }

def orderT (env : Env) (keys : List (Nat × Bool)) (t : Table) : Option Table :=
  if keys.isEmpty then some t else sortT env keys t

/-- `DistinctOperator`: the first row of every kind, chunk by chunk (a chunk that brings nothing
new is skipped) -/
def freshRows (seen : List Row) : List Row → List Row
  | [] => []
  | r :: rs => if seen.contains r then freshRows seen rs else r :: freshRows (seen ++ [r]) rs

def distinctChunks (seen : List Row) : List Chunk → List Chunk
  | [] => []
  | c :: cs =>
    let fresh := freshRows seen (selRows c)
    if fresh.isEmpty then distinctChunks seen cs else rebuild fresh :: distinctChunks (seen ++ fresh) cs

def distinctT (d : Bool) (t : Table) : Table :=
  if d then { t with chunks := distinctChunks [] t.chunks } else t

def projOpt (proj : Option (List Nat)) (t : Table) : Table :=
  match proj with
  | none => t
  | some [] => t
  | some vars => projectT vars t

/-- `translate_select` + planner for a SELECT without aggregates: WHERE, ORDER BY, projection,
DISTINCT, OFFSET, LIMIT -/
def execSelect (env : Env) (st : Store) (full : List Triple) (q : Select) : Option Table :=
  (orderT env q.order (exec env st full (transCode q.where_))).map fun t1 =>
    limitT q.limit (skipT q.offset (distinctT q.distinct (projOpt q.proj t1)))

/-! ### COUNT -/

def dedupCells : List Cell → List Cell
  | [] => []
  | c :: cs => if (dedupCells cs).contains c then dedupCells cs else c :: dedupCells cs

/-- the state of one COUNT after the rows of a group: COUNT(\*) counts rows, COUNT(?x) the rows in
which the column is not null, COUNT(DISTINCT ?x) the distinct non-null values -/
def countOf (distinct : Bool) (argIdx : Option Nat) (rows : List Row) : Int :=
  match argIdx with
  | none => rows.length
  | some i =>
    let vals := (rows.map fun r => r.getD i .null).filter (· != .null)
    if distinct then (dedupCells vals).length else vals.length

def resolveCols (cols : List Nat) : List Nat → Option (List Nat)
  | [] => some []
  | v :: rest => (colIdx cols v).bind fun i => (resolveCols cols rest).map fun r => i :: r

def groupKeys (idx : List Nat) (rows : List Row) : List (List Cell) :=
  (rows.map fun r => idx.map fun i => r.getD i .null).foldl (fun acc k => if acc.contains k then acc else acc ++ [k]) []

def argIndex (cols : List Nat) : Option Nat → Option (Option Nat)
  | none => some none
  | some v => (colIdx cols v).map some

def aggregateT (q : Count) (t : Table) : Option Table :=
  (resolveCols t.cols q.groupBy).bind fun gidx =>
  (argIndex t.cols q.arg).map fun argIdx =>
    let rows := t.rows
    if q.groupBy.isEmpty then
      { cols := [q.alias], chunks := [allSel [[Cell.int (countOf q.distinct argIdx rows)]]] }
    else
      let out := (groupKeys gidx rows).map fun k =>
        k ++ [Cell.int (countOf q.distinct argIdx (rows.filter fun r => (gidx.map fun i => r.getD i .null) == k))]
      { cols := q.groupBy ++ [q.alias], chunks := (chunksOf joinChunk out).map allSel }

def execCount (env : Env) (st : Store) (full : List Triple) (q : Count) : Option Table :=
  (aggregateT q (exec env st full (transCode q.where_))).bind fun t0 =>
  (orderT env q.order t0).map fun t1 => limitT q.limit (skipT q.offset t1)

/-! ### updates -/

def isSubjectKind : Kind → Bool
  | .iri | .blank => true
  | _ => false

/-- `is_well_formed_triple` -/
def wellFormed (env : Env) (s p : Nat) : Bool := isSubjectKind (env.kind s) && env.kind p == .iri

structure UState where
  st : Store
  full : List Triple

def UState.insert (u : UState) (t : Triple) : UState :=
  if t ∈ u.st.triples then u else { st := (u.st.insert t).1, full := u.full ++ [t] }

def UState.remove (u : UState) (t : Triple) : UState :=
  { st := (u.st.remove t).1, full := u.full.filter (· != t) }

/-- `resolve_component`: a constant through `literal_to_value`, a variable through the binding's
string and `value_to_term` -/
def resolvePT (env : Env) (cols : List Nat) (row : Row) : PT → Option Nat
  | .const c => some (env.litNorm c)
  | .var v => (colIdx cols v).bind fun i =>
    match row[i]? with
    | some (.str l) => some (env.back l)
    | some (.int n) => if 0 ≤ n then some (env.back n.toNat) else none   -- unreachable in the fragment
    | _ => none

def instantiate (env : Env) (cols : List Nat) (row : Row) (tp : TP) : Option Triple :=
  (resolvePT env cols row tp.s).bind fun s => (resolvePT env cols row tp.p).bind fun p =>
    (resolvePT env cols row tp.o).bind fun o => if wellFormed env s p then some ⟨s, p, o⟩ else none

/-- `RdfModifyOperator`: the WHERE pattern is evaluated once; every delete template is instantiated
with every selected row and removed, then every insert template likewise and inserted -/
def applyModify (env : Env) (u : UState) (del ins : List TP) (t : Table) : UState :=
  let rows := t.rows
  let u1 := (del.flatMap fun tp => rows.filterMap fun r => instantiate env t.cols r tp).foldl UState.remove u
  (ins.flatMap fun tp => rows.filterMap fun r => instantiate env t.cols r tp).foldl UState.insert u1

/-- the parser accepts a variable or an IRI as the verb of a triple pattern or template -/
def predOk (env : Env) (tp : TP) : Bool :=
  match tp.p with
  | .const c => env.kind c == .iri
  | .var _ => true

def execUpdate (env : Env) (u : UState) : Update → Option UState
  | .insertData ts =>
    if ts.all fun t => wellFormed env (env.litNorm t.s) (env.litNorm t.p) then
      some (ts.foldl (fun u t => u.insert ⟨env.litNorm t.s, env.litNorm t.p, env.litNorm t.o⟩) u)
    else none
  | .deleteData ts =>
    if ts.all fun t => wellFormed env (env.litNorm t.s) (env.litNorm t.p) then
      some (ts.foldl (fun u t => u.remove ⟨env.litNorm t.s, env.litNorm t.p, env.litNorm t.o⟩) u)
    else none
  | .deleteWhere tps =>
    -- DELETE WHERE { P } is DELETE { P } WHERE { P }
    if tps.all (predOk env) then some (applyModify env u tps [] (exec env u.st u.full (bgp tps))) else none
  | .modify del ins w =>
    if (del ++ ins).all (predOk env) then some (applyModify env u del ins (exec env u.st u.full (transCode w)))
    else none

/-! ## specification of the query forms and of the updates -/

def restrict (vars : List Nat) (μ : Sol) : Sol :=
  (List.range μ.length).map fun v => if vars.contains v then μ.get v else none

/-- DISTINCT: every solution once (the first of its kind stays where it is) -/
def dedupSols : List Sol → List Sol
  | [] => []
  | c :: cs => c :: (dedupSols cs).filter (· != c)

/-- the order of §15.1 on the terms of one class: unbound < blank < IRI < literal; IRIs and simple
literals by their text; everything else is left open by the standard (`none`) -/
def rank (env : Env) : Option Nat → Nat
  | none => 0
  | some x => match env.kind x with
    | .blank => 1
    | .iri => 2
    | _ => 3

def termLt (env : Env) (a b : Option Nat) : Bool :=
  if rank env a != rank env b then decide (rank env a < rank env b)
  else match a, b with
    | some x, some y =>
      match env.kind x, env.kind y with
      | .int m, .int n => decide (m < n)
      | _, _ => env.strLt (env.lex x) (env.lex y)
    | _, _ => false

def cmpSol (env : Env) (keys : List (Nat × Bool)) (a b : Sol) : Ordering :=
  match keys with
  | [] => .eq
  | (v, desc) :: rest =>
    let o : Ordering := if termLt env (a.get v) (b.get v) then .lt else if termLt env (b.get v) (a.get v) then .gt else .eq
    match (if desc then o.swap else o) with
    | .eq => cmpSol env rest a b
    | o' => o'

def insertSol (le : Sol → Sol → Bool) (x : Sol) : List Sol → List Sol
  | [] => [x]
  | y :: ys => if le y x then y :: insertSol le x ys else x :: y :: ys

def sortSols (le : Sol → Sol → Bool) (l : List Sol) : List Sol :=
  l.foldl (fun acc x => insertSol le x acc) []

def sliceOpt {α : Type} (offset limit : Option Nat) (l : List α) : List α :=
  let l1 := match offset with | none => l | some k => l.drop k
  match limit with | none => l1 | some k => l1.take k

/-- what the projection of a SELECT does to a solution -/
def projSol : Option (List Nat) → Sol → Sol
  | none => id
  | some vars => restrict vars

/-- SELECT (§18.2.4–18.2.5): pattern, ORDER BY, projection, DISTINCT, OFFSET/LIMIT -/
def specSelect (env : Env) (n : Nat) (G : List Triple) (q : Select) : List Sol :=
  let sols := eval env n G (transStd q.where_)
  let sorted := if q.order.isEmpty then sols else sortSols (fun a b => cmpSol env q.order a b != .gt) sols
  let projected := sorted.map (projSol q.proj)
  let dd := if q.distinct then dedupSols projected else projected
  sliceOpt q.offset q.limit dd

/-- one group of a COUNT query: the key and the number -/
structure CountRow where
  key : List (Option Nat)
  count : Nat
  deriving DecidableEq, Repr

def dedupTerms : List Nat → List Nat
  | [] => []
  | c :: cs => if (dedupTerms cs).contains c then dedupTerms cs else c :: dedupTerms cs

def specCountOf (q : Count) (sols : List Sol) : Nat :=
  match q.arg with
  | none => sols.length
  | some v =>
    let vals := sols.filterMap fun μ => μ.get v
    if q.distinct then (dedupTerms vals).length else vals.length

def specGroupKeys (vars : List Nat) (sols : List Sol) : List (List (Option Nat)) :=
  (sols.map fun μ => vars.map μ.get).foldl (fun acc k => if acc.contains k then acc else acc ++ [k]) []

/-- COUNT with GROUP BY (§18.5, Group / Aggregation / AggregateJoin) before ORDER BY and slicing -/
def specCountRows (env : Env) (n : Nat) (G : List Triple) (q : Count) : List CountRow :=
  let sols := eval env n G (transStd q.where_)
  if q.groupBy.isEmpty then [⟨[], specCountOf q sols⟩]
  else (specGroupKeys q.groupBy sols).map fun k =>
    ⟨k, specCountOf q (sols.filter fun μ => (q.groupBy.map μ.get) == k)⟩

def cmpNat (desc : Bool) (a b : Nat) : Ordering :=
  let o : Ordering := if a < b then .lt else if b < a then .gt else .eq
  if desc then o.swap else o

def cmpTerm (env : Env) (desc : Bool) (a b : Option Nat) : Ordering :=
  let o : Ordering := if termLt env a b then .lt else if termLt env b a then .gt else .eq
  if desc then o.swap else o

def keyAt (q : Count) (r : CountRow) (v : Nat) : Option Nat :=
  ((q.groupBy.zip r.key).find? fun vk => vk.1 == v).bind (·.2)

def cmpCountRow (env : Env) (q : Count) (keys : List (Nat × Bool)) (a b : CountRow) : Ordering :=
  match keys with
  | [] => .eq
  | (v, desc) :: rest =>
    match (if v = q.alias then cmpNat desc a.count b.count else cmpTerm env desc (keyAt q a v) (keyAt q b v)) with
    | .eq => cmpCountRow env q rest a b
    | o => o

def insertCR (le : CountRow → CountRow → Bool) (x : CountRow) : List CountRow → List CountRow
  | [] => [x]
  | y :: ys => if le y x then y :: insertCR le x ys else x :: y :: ys

def specCount (env : Env) (n : Nat) (G : List Triple) (q : Count) : List CountRow :=
  let rows := specCountRows env n G q
  let sorted := if q.order.isEmpty then rows
    else rows.foldl (fun acc x => insertCR (fun a b => cmpCountRow env q q.order a b != .gt) x acc) []
  sliceOpt q.offset q.limit sorted

def specInsert (set : List Triple) (t : Triple) : List Triple := if t ∈ set then set else set ++ [t]
def specRemove (set : List Triple) (t : Triple) : List Triple := set.filter (· != t)

def valOf (μ : Sol) : PT → Option Nat
  | .const c => some c
  | .var v => μ.get v

/-- instantiation of a template triple; an unbound variable or an ill-formed triple gives nothing -/
def specInst (env : Env) (μ : Sol) (tp : TP) : Option Triple :=
  (valOf μ tp.s).bind fun s => (valOf μ tp.p).bind fun p => (valOf μ tp.o).bind fun o =>
    if wellFormed env s p then some ⟨s, p, o⟩ else none

def maxVarPT : PT → Nat
  | .var v => v + 1
  | .const _ => 0

def nVarsTPs (tps : List TP) : Nat :=
  tps.foldl (fun m tp => max m (max (maxVarPT tp.s) (max (maxVarPT tp.p) (maxVarPT tp.o)))) 0

/-- SPARQL 1.1 Update §3.1: the resulting graph; `none` = the request is not legal
(a literal subject or a non-IRI predicate in ground data) -/
def specUpdate (env : Env) (n : Nat) (G : List Triple) : Update → Option (List Triple)
  | .insertData ts => if ts.all fun t => wellFormed env t.s t.p then some (ts.foldl specInsert G) else none
  | .deleteData ts => if ts.all fun t => wellFormed env t.s t.p then some (ts.foldl specRemove G) else none
  | .deleteWhere tps =>
    if tps.all (predOk env) then
      let sols := eval env n G (bgp tps)
      some ((tps.flatMap fun tp => sols.filterMap fun μ => specInst env μ tp).foldl specRemove G)
    else none
  | .modify del ins w =>
    if (del ++ ins).all (predOk env) then
      let sols := eval env n G (transStd w)
      let G1 := (del.flatMap fun tp => sols.filterMap fun μ => specInst env μ tp).foldl specRemove G
      some ((ins.flatMap fun tp => sols.filterMap fun μ => specInst env μ tp).foldl specInsert G1)
    else none

/-! ## syntactic conditions (hypotheses of the theorems in `Props/C13Sparql.lean`, signatures in
the driver) -/

/-- the column names the planner computes (`plan_join`: all left, then the right ones that are new;
`plan_union`: those of the first input) -/
def patCols : Pat → List Nat
  | .unit => []
  | .scan tp => scanCols tp
  | .join a b => patCols a ++ (patCols b).filter fun v => !(patCols a).contains v
  | .leftJoin a b _ => patCols a ++ (patCols b).filter fun v => !(patCols a).contains v
  | .union a b => unionCols (patCols a) (patCols b)
  | .filter _ a => patCols a

/-- variables bound in every solution -/
def certain : Pat → List Nat
  | .unit => []
  | .scan tp => scanCols tp
  | .join a b => certain a ++ certain b
  | .leftJoin a _ _ => certain a
  | .union a b => (certain a).filter fun v => (certain b).contains v
  | .filter _ a => certain a

def linearTP (tp : TP) : Bool := decide (tpCols tp).Nodup

def patLinear : Pat → Bool
  | .unit => true
  | .scan tp => linearTP tp
  | .join a b => patLinear a && patLinear b
  | .leftJoin a b _ => patLinear a && patLinear b
  | .union a b => patLinear a && patLinear b
  | .filter _ a => patLinear a

def patHasOptional : Pat → Bool
  | .unit => false
  | .scan _ => false
  | .leftJoin _ _ _ => true
  | .join a b => patHasOptional a || patHasOptional b
  | .union a b => patHasOptional a || patHasOptional b
  | .filter _ a => patHasOptional a

/-- `leftJoin a b (some e)` written the way the translator writes it -/
def normOpt : Pat → Pat
  | .unit => .unit
  | .scan tp => .scan tp
  | .join a b => .join (normOpt a) (normOpt b)
  | .union a b => .union (normOpt a) (normOpt b)
  | .filter e a => .filter e (normOpt a)
  | .leftJoin a b none => .leftJoin (normOpt a) (normOpt b) none
  | .leftJoin a b (some e) => .leftJoin (normOpt a) (.filter e (normOpt b)) none

def unionAligned : Pat → Bool
  | .unit => true
  | .scan _ => true
  | .join a b => unionAligned a && unionAligned b
  | .leftJoin a b _ => unionAligned a && unionAligned b
  | .union a b => patCols a == patCols b && unionAligned a && unionAligned b
  | .filter _ a => unionAligned a

def ptConsts : PT → List Nat
  | .var _ => []
  | .const c => [c]

def tpConsts (tp : TP) : List Nat := ptConsts tp.s ++ ptConsts tp.p ++ ptConsts tp.o

def exprConsts : Expr → List Nat
  | .eq a b => ptConsts a ++ ptConsts b
  | .ne a b => ptConsts a ++ ptConsts b
  | .lt a b => ptConsts a ++ ptConsts b
  | .bound _ => []
  | .not e => exprConsts e
  | .and a b => exprConsts a ++ exprConsts b
  | .or a b => exprConsts a ++ exprConsts b

def condConsts : Option Expr → List Nat
  | none => []
  | some e => exprConsts e

def patConsts : Pat → List Nat
  | .unit => []
  | .scan tp => tpConsts tp
  | .join a b => patConsts a ++ patConsts b
  | .union a b => patConsts a ++ patConsts b
  | .leftJoin a b c => patConsts a ++ patConsts b ++ condConsts c
  | .filter e a => exprConsts e ++ patConsts a

def triplesTerms (G : List Triple) : List Nat := G.flatMap fun t => [t.s, t.p, t.o]

/-- two different terms of the list are written the same way -/
def lexClash (env : Env) (terms : List Nat) : Bool :=
  terms.any fun a => terms.any fun b => a != b && env.lex a == env.lex b

/-! ## the code before the repairs of this round -/

namespace Old

/-! ### as the code does it (`translate_graph_pattern`, case `Group`) -/

structure CParts where
  basic : Pat
  opts : List Pat
  filters : List Expr

/-- step 3 of the translator: `if plan is Empty { plan = inner } else LeftJoin(plan, inner)` -/
def optJoinCode (acc o : Pat) : Pat :=
  match acc with
  | .unit => o
  | _ => .leftJoin acc o none

def assembleCode (p : CParts) : Pat :=
  withFilter p.filters (p.opts.foldl optJoinCode p.basic)

def codeParts (acc : CParts) : Grp → CParts
  | .nil => acc
  | .triples tps rest => codeParts { acc with basic := joinP acc.basic (bgp tps) } rest
  | .optional g rest =>
    codeParts { acc with opts := acc.opts ++ [assembleCode (codeParts ⟨.unit, [], []⟩ g)] } rest
  | .union a b rest =>
    let u := Pat.union (assembleCode (codeParts ⟨.unit, [], []⟩ a)) (assembleCode (codeParts ⟨.unit, [], []⟩ b))
    codeParts { acc with basic := joinP acc.basic u } rest
  | .group g rest =>
    codeParts { acc with basic := joinP acc.basic (assembleCode (codeParts ⟨.unit, [], []⟩ g)) } rest
  | .filter e rest => codeParts { acc with filters := acc.filters ++ [e] } rest

def grpAppend : Grp → Grp → Grp
  | .nil, r => r
  | .triples t rest, r => .triples t (grpAppend rest r)
  | .optional g rest, r => .optional g (grpAppend rest r)
  | .union a b rest, r => .union a b (grpAppend rest r)
  | .group g rest, r => .group g (grpAppend rest r)
  | .filter e rest, r => .filter e (grpAppend rest r)

def isSingle : Grp → Bool
  | .triples _ .nil => true
  | .optional _ .nil => true
  | .union _ _ .nil => true
  | .group _ .nil => true
  | .filter _ .nil => true
  | _ => false

/-- the parser hands back a group of exactly one element as that element; nested in another
group, a lone FILTER or OPTIONAL thereby becomes a FILTER or OPTIONAL of the outer group -/
def unwrapG : Grp → Grp
  | .nil => .nil
  | .triples t rest => .triples t (unwrapG rest)
  | .optional g rest => .optional (unwrapG g) (unwrapG rest)
  | .union a b rest => .union (unwrapG a) (unwrapG b) (unwrapG rest)
  | .group g rest => if isSingle (unwrapG g) then grpAppend (unwrapG g) (unwrapG rest) else .group (unwrapG g) (unwrapG rest)
  | .filter e rest => .filter e (unwrapG rest)

/-- the logical plan the translator produces for `{ g }` (at the top, in a UNION branch and in an
OPTIONAL a group of one element is translated on its own: the general assembly gives the same plan) -/
def transCode (g : Grp) : Pat := assembleCode (codeParts ⟨.unit, [], []⟩ (unwrapG g))

/-- an `Int64` pushed into a `String` vector: "type mismatch — push a default value" -/
def strOfCell (env : Env) : Cell → Cell
  | .int _ => .str env.emptyLex
  | c => c

/-- `push_value(Null)` before /repo commit ea119b4: the first null of a vector creates the validity
bitmap; a later one finds its index beyond the bitmap's length and stays the default value `""` -/
def degradeCell (env : Env) (seen : Bool) (c : Cell) : Bool × Cell :=
  match c with
  | .null => if seen then (true, .str env.emptyLex) else (true, .null)
  | c => (seen, c)

def degradeRow (env : Env) : List Bool → Row → List Bool × Row
  | s :: ss, c :: cs =>
    let sc := degradeCell env s c
    let rest := degradeRow env ss cs
    (sc.1 :: rest.1, sc.2 :: rest.2)
  | ss, [] => (ss, [])
  | [], cs => ([], cs)

def degradeRows (env : Env) (seen : List Bool) : List Row → List Row
  | [] => []
  | r :: rs =>
    let sr := degradeRow env seen r
    sr.2 :: degradeRows env sr.1 rs

def nullPolicy (env : Env) (w : Nat) (rows : List Row) : List Row :=
  if env.vfix then rows else degradeRows env (List.replicate w false) rows

/-- a chunk built row by row into `String` columns (`DataChunkBuilder` with `derive_rdf_schema`) -/
def rebuild (env : Env) (w : Nat) (rows : List Row) : Chunk :=
  allSel (nullPolicy env w (rows.map (·.map (strOfCell env))))

/-! ### scan -/

def patPos (env : Env) : PT → Option Nat
  | .var _ => none
  | .const c => some (env.litNorm c)

def tpPattern (env : Env) (tp : TP) : Pattern := ⟨patPos env tp.s, patPos env tp.p, patPos env tp.o⟩

def ptCols : PT → List Nat
  | .var v => [v]
  | .const _ => []

def tpCols (tp : TP) : List Nat := ptCols tp.s ++ ptCols tp.p ++ ptCols tp.o

def ptCell (env : Env) (pt : PT) (x : Nat) : List Cell :=
  match pt with
  | .var _ => [.str (env.lex x)]
  | .const _ => []

def tripleRow (env : Env) (tp : TP) (t : Triple) : Row :=
  ptCell env tp.s t.s ++ ptCell env tp.p t.p ++ ptCell env tp.o t.o

/-- `RdfStore::find` with the iteration order of the primary hash set given as `full` -/
def findIn (st : Store) (full : List Triple) (pat : Pattern) : List Triple :=
  match pat.s, pat.p, pat.o with
  | some s, _, _ => (idxGet st.sIdx s).filter pat.matches
  | none, some p, _ => (idxGet st.pIdx p).filter pat.matches
  | none, none, some o =>
    if st.indexObjects then (idxGet st.oIdx o).filter pat.matches else full.filter pat.matches
  | none, none, none => full.filter pat.matches

def scanChunk : Nat := 1024
def joinChunk : Nat := 2048

def scanT (env : Env) (st : Store) (full : List Triple) (tp : TP) : Table :=
  { cols := tpCols tp
    chunks := (chunksOf scanChunk ((findIn st full (tpPattern env tp)).map (tripleRow env tp))).map allSel }

/-! ### nested-loop join on equal column names -/

def pairsFor (rc : List Nat) (a : Nat) (i : Nat) : List (Nat × Nat) :=
  (rc.zipIdx).filterMap fun bj => if a = bj.1 then some (i, bj.2) else none

/-- `shared_vars`: every pair of a left and a right column with the same name -/
def sharedPairs (lc rc : List Nat) : List (Nat × Nat) :=
  (lc.zipIdx).flatMap fun ai => pairsFor rc ai.1 ai.2

/-- `RdfJoinCondition::evaluate` (`get_value` answers `Some(Value::Null)` for a null, and
`Value::Null == Value::Null`) -/
def condPair (l r : Row) (ij : Nat × Nat) : Bool :=
  match l[ij.1]?, r[ij.2]? with
  | some a, some b => a == b
  | _, _ => false

def joinCond (pairs : List (Nat × Nat)) (l r : Row) : Bool := pairs.all (condPair l r)

/-- indices of the right columns that are not also left columns -/
def keepRight (lc rc : List Nat) : List Nat :=
  (rc.zipIdx).filterMap fun bj => if lc.contains bj.1 then none else some bj.2

def joinRow (keep : List Nat) (l r : Row) : Row := l ++ keep.map fun j => r.getD j .null

def joinOne (left : Bool) (pairs : List (Nat × Nat)) (keep : List Nat) (rrows : List Row) (l : Row) : List Row :=
  let ms := (rrows.filter (joinCond pairs l)).map (joinRow keep l)
  if left && ms.isEmpty then [l ++ List.replicate keep.length .null] else ms

def nlJoin (env : Env) (left : Bool) (ta tb : Table) : Table :=
  let rrows := tb.rows
  let pairs := sharedPairs ta.cols tb.cols
  let keep := keepRight ta.cols tb.cols
  let outCols := ta.cols ++ keep.map fun j => tb.cols.getD j 0
  { cols := outCols
    chunks := ta.chunks.flatMap fun c =>
      (chunksOf joinChunk ((selRows c).flatMap (joinOne left pairs keep rrows))).map (rebuild env outCols.length) }

/-! ### FILTER over `Value`s (`RdfExpressionPredicate`) -/

inductive V where
  | null
  | str (l : Nat)
  | int (n : Int)
  | bool (b : Bool)
  deriving DecidableEq, Repr

def cellV : Cell → V
  | .null => .null
  | .str l => .str l
  | .int n => .int n

/-- the last column with that name (`HashMap` collected from `(name, index)` pairs) -/
def colIdx (cols : List Nat) (v : Nat) : Option Nat :=
  ((cols.zipIdx).filter fun ci => ci.1 == v).getLast?.map (·.2)

def ptV (env : Env) (cols : List Nat) (row : Row) : PT → Option V
  | .var v => (colIdx cols v).bind fun i => (row[i]?).map cellV
  | .const c => match env.constVal c with
    | .str l => some (.str l)
    | .int n => some (.int n)

def asBool : V → Option Bool
  | .bool b => some b
  | _ => none

/-- `compare_values(left, right, is_lt)` -/
def ltV (env : Env) (a b : V) : Option V :=
  match a, b with
  | .int x, .int y => some (.bool (decide (x < y)))
  | .str x, .str y =>
    match env.num x, env.num y with
    | some p, some q => some (.bool (decide (p < q)))
    | _, _ => some (.bool (env.strLt x y))
  | .str x, .int y => (env.num x).map fun p => .bool (decide (p < y))
  | .int x, .str y => (env.num y).map fun q => .bool (decide (x < q))
  | _, _ => none

def evalF (env : Env) (cols : List Nat) (row : Row) : Expr → Option V
  | .eq a b => (ptV env cols row a).bind fun x => (ptV env cols row b).map fun y => .bool (x == y)
  | .ne a b => (ptV env cols row a).bind fun x => (ptV env cols row b).map fun y => .bool (x != y)
  | .lt a b => (ptV env cols row a).bind fun x => (ptV env cols row b).bind fun y => ltV env x y
  | .bound v => some (.bool (ptV env cols row (.var v)).isSome)
  | .not e => ((evalF env cols row e).bind asBool).map fun b => .bool (!b)
  | .and a b => (evalF env cols row a).bind fun x => (evalF env cols row b).bind fun y =>
      (asBool x).bind fun p => (asBool y).map fun q => .bool (p && q)
  | .or a b => (evalF env cols row a).bind fun x => (evalF env cols row b).bind fun y =>
      (asBool x).bind fun p => (asBool y).map fun q => .bool (p || q)

def passes (env : Env) (cols : List Nat) (e : Expr) (row : Row) : Bool :=
  evalF env cols row e == some (.bool true)

/-- `FilterOperator`: narrows the selection vector, drops a chunk nothing of which passes -/
def filterChunk (env : Env) (cols : List Nat) (e : Expr) (c : Chunk) : Chunk :=
  c.map fun br => (br.1 && passes env cols e br.2, br.2)

def anySel (c : Chunk) : Bool := c.any (·.1)

def filterT (env : Env) (e : Expr) (t : Table) : Table :=
  { t with chunks := (t.chunks.map (filterChunk env t.cols e)).filter anySel }

/-! ### the pattern level of the physical plan -/

def exec (env : Env) (st : Store) (full : List Triple) : Pat → Option Table
  | .unit => none                                   -- "Empty plan"
  | .scan tp => some (scanT env st full tp)
  | .join a b =>
    (exec env st full a).bind fun ta => (exec env st full b).map fun tb => nlJoin env false ta tb
  | .leftJoin a b none =>
    (exec env st full a).bind fun ta => (exec env st full b).map fun tb => nlJoin env true ta tb
  | .leftJoin a b (some e) =>                       -- not produced by `transCode`
    (exec env st full a).bind fun ta => (exec env st full b).map fun tb => nlJoin env true ta (filterT env e tb)
  | .union a b =>
    (exec env st full a).bind fun ta => (exec env st full b).map fun tb =>
      { cols := ta.cols, chunks := ta.chunks ++ tb.chunks }
  | .filter e a => (exec env st full a).map (filterT env e)

/-! ### solution modifiers -/

def cellLt (env : Env) (a b : Cell) : Bool :=
  match a, b with
  | .str x, .str y => env.strLt x y
  | .int x, .int y => decide (x < y)
  | _, _ => false

/-- `compare_values_with_nulls` with `NullsLast`, then the direction: `.lt`, `.eq` or `.gt` -/
def cmpKey (env : Env) (desc : Bool) (a b : Cell) : Ordering :=
  let o : Ordering :=
    match a, b with
    | .null, .null => .eq
    | .null, _ => .gt
    | _, .null => .lt
    | x, y => if cellLt env x y then .lt else if cellLt env y x then .gt else .eq
  if desc then o.swap else o

def cmpRows (env : Env) (keys : List (Nat × Bool)) (a b : Row) : Ordering :=
  match keys with
  | [] => .eq
  | (i, desc) :: rest =>
    match cmpKey env desc (a.getD i .null) (b.getD i .null) with
    | .eq => cmpRows env rest a b
    | o => o

/-- stable insertion: `x` goes behind everything that is not greater -/
def insertStable (le : Row → Row → Bool) (x : Row) : List Row → List Row
  | [] => [x]
  | y :: ys => if le y x then y :: insertStable le x ys else x :: y :: ys

/-- the stable sort (`slice::sort_by`) -/
def sortStable (le : Row → Row → Bool) (l : List Row) : List Row :=
  l.foldl (fun acc x => insertStable le x acc) []

def resolveKeys (cols : List Nat) : List (Nat × Bool) → Option (List (Nat × Bool))
  | [] => some []
  | (v, d) :: rest => (colIdx cols v).bind fun i => (resolveKeys cols rest).map fun r => (i, d) :: r

def sortT (env : Env) (keys : List (Nat × Bool)) (t : Table) : Option Table :=
  (resolveKeys t.cols keys).map fun ks =>
    let sorted := sortStable (fun a b => cmpRows env ks a b != .gt) t.rows
    { t with chunks := (chunksOf joinChunk sorted).map (rebuild env t.cols.length) }

/-- `SkipOperator` -/
def skipChunks (env : Env) (w : Nat) : Nat → List Chunk → List Chunk
  | _, [] => []
  | 0, cs => cs
  | k + 1, c :: cs =>
    let n := (selRows c).length
    if k + 1 ≥ n then skipChunks env w (k + 1 - n) cs
    else rebuild env w ((selRows c).drop (k + 1)) :: cs

/-- `LimitOperator` -/
def limitChunks (env : Env) (w : Nat) : Nat → List Chunk → List Chunk
  | _, [] => []
  | 0, _ => []
  | k + 1, c :: cs =>
    let n := (selRows c).length
    if n = 0 then limitChunks env w (k + 1) cs
    else if n ≤ k + 1 then c :: limitChunks env w (k + 1 - n) cs
    else [rebuild env w ((selRows c).take (k + 1))]

def skipT (env : Env) (k : Option Nat) (t : Table) : Table :=
  match k with
  | none => t
  | some k => { t with chunks := skipChunks env t.cols.length k t.chunks }

def limitT (env : Env) (k : Option Nat) (t : Table) : Table :=
  match k with
  | none => t
  | some k => { t with chunks := limitChunks env t.cols.length k t.chunks }

def resolveCols (cols : List Nat) : List Nat → Option (List Nat)
  | [] => some []
  | v :: rest => (colIdx cols v).bind fun i => (resolveCols cols rest).map fun r => i :: r

/-- `plan_project` + `ProjectOperator`: one output chunk per input chunk -/
def projectT (env : Env) (vars : List Nat) (t : Table) : Option Table :=
  (resolveCols t.cols vars).map fun idx =>
    { cols := vars
      chunks := t.chunks.map fun c => rebuild env vars.length ((selRows c).map fun r => idx.map fun i => r.getD i .null) }

def orderT (env : Env) (keys : List (Nat × Bool)) (t : Table) : Option Table :=
  if keys.isEmpty then some t else sortT env keys t

/-- `translate_select` + planner for a SELECT without aggregates: WHERE, ORDER BY, OFFSET, LIMIT,
(DISTINCT: `plan_operator(&distinct.input)`), projection -/
def execSelect (env : Env) (st : Store) (full : List Triple) (q : Select) : Option Table :=
  (exec env st full (transCode q.where_)).bind fun t =>
  (orderT env q.order t).bind fun t1 =>
    let t2 := limitT env q.limit (skipT env q.offset t1)
    match q.proj with
    | none => some t2
    | some [] => some t2
    | some vars => projectT env vars t2

/-! ### COUNT -/

def dedupCells : List Cell → List Cell
  | [] => []
  | c :: cs => if (dedupCells cs).contains c then dedupCells cs else c :: dedupCells cs

/-- the state of one COUNT after the rows of a group: without DISTINCT every row counts (the
argument is not looked at); with DISTINCT the distinct non-null values of the column -/
def countOf (distinct : Bool) (argIdx : Option Nat) (rows : List Row) : Int :=
  if distinct then
    match argIdx with
    | none => 0
    | some i => ((dedupCells (rows.map fun r => r.getD i .null)).filter (· != .null)).length
  else rows.length

def groupKeys (idx : List Nat) (rows : List Row) : List (List Cell) :=
  (rows.map fun r => idx.map fun i => r.getD i .null).foldl (fun acc k => if acc.contains k then acc else acc ++ [k]) []

/-- the group-key columns go through `push_value` (null policy applies); the count column is `Int64` -/
def aggChunk (env : Env) (w : Nat) (rows : List Row) : Chunk :=
  allSel (nullPolicy env w rows)

def aggregateT (env : Env) (q : Count) (t : Table) : Option Table :=
  (resolveCols t.cols q.groupBy).bind fun gidx =>
  (match q.arg with
    | none => some none
    | some v => (colIdx t.cols v).map some).map fun argIdx =>
    let rows := t.rows
    if q.groupBy.isEmpty then
      { cols := [q.alias], chunks := [allSel [[.int (countOf q.distinct argIdx rows)]]] }
    else
      let out := (groupKeys gidx rows).map fun k =>
        k ++ [Cell.int (countOf q.distinct argIdx (rows.filter fun r => (gidx.map fun i => r.getD i .null) == k))]
      { cols := q.groupBy ++ [q.alias]
        chunks := (chunksOf joinChunk out).map (aggChunk env (q.groupBy.length + 1)) }

def execCount (env : Env) (st : Store) (full : List Triple) (q : Count) : Option Table :=
  (exec env st full (transCode q.where_)).bind fun t =>
  (aggregateT env q t).bind fun t0 =>
  (orderT env q.order t0).map fun t1 => limitT env q.limit (skipT env q.offset t1)

/-! ### updates -/

def isSubjectKind : Kind → Bool
  | .iri | .blank => true
  | _ => false

/-- `is_well_formed_triple` -/
def wellFormed (env : Env) (s p : Nat) : Bool := isSubjectKind (env.kind s) && env.kind p == .iri

structure UState where
  st : Store
  full : List Triple

def UState.insert (u : UState) (t : Triple) : UState :=
  if t ∈ u.st.triples then u else { st := (u.st.insert t).1, full := u.full ++ [t] }

def UState.remove (u : UState) (t : Triple) : UState :=
  { st := (u.st.remove t).1, full := u.full.filter (· != t) }

/-- `resolve_component`: a constant through `literal_to_value`, a variable through the binding's
string and `value_to_term` -/
def resolvePT (env : Env) (cols : List Nat) (row : Row) : PT → Option Nat
  | .const c => some (env.litNorm c)
  | .var v => (colIdx cols v).bind fun i =>
    match row[i]? with
    | some (.str l) => some (env.back l)
    | some (.int n) => if 0 ≤ n then some (env.back n.toNat) else none   -- unreachable in the fragment
    | _ => none

def instantiate (env : Env) (cols : List Nat) (row : Row) (tp : TP) : Option Triple :=
  (resolvePT env cols row tp.s).bind fun s => (resolvePT env cols row tp.p).bind fun p =>
    (resolvePT env cols row tp.o).bind fun o => if wellFormed env s p then some ⟨s, p, o⟩ else none

/-- the update operators walk `0..chunk.row_count()` as *physical* row numbers: of a chunk with a
selection vector they read the first `k` physical rows, `k` the number of selected rows -/
def physRows (c : Chunk) : List Row := (c.take (selRows c).length).map (·.2)

def updRows (t : Table) : List Row := t.chunks.flatMap physRows

def hasVar (tp : TP) : Bool := !(tpCols tp).isEmpty

def groundTriple (env : Env) (tp : TP) : Option Triple :=
  match tp.s, tp.p, tp.o with
  | .const s, .const p, .const o =>
    if wellFormed env (env.litNorm s) (env.litNorm p) then some ⟨env.litNorm s, env.litNorm p, env.litNorm o⟩ else none
  | _, _, _ => none

/-- DELETE WHERE: one delete operator per triple pattern, run one after the other, each
re-evaluating the pattern against the store the previous ones left -/
def deleteWhereStep (env : Env) (plan : Pat) (u : Option UState) (tp : TP) : Option UState :=
  u.bind fun u =>
    if hasVar tp then
      (exec env u.st u.full plan).map fun t =>
        ((updRows t).filterMap (fun r => instantiate env t.cols r tp)).foldl UState.remove u
    else (groundTriple env tp).map u.remove

def allGroundOk (env : Env) (tps : List TP) : Bool :=
  tps.all fun tp => hasVar tp || (groundTriple env tp).isSome

def execUpdate (env : Env) (u : UState) : Update → Option UState
  | .insertData ts =>
    if ts.all fun t => wellFormed env (env.litNorm t.s) (env.litNorm t.p) then
      some (ts.foldl (fun u t => u.insert ⟨env.litNorm t.s, env.litNorm t.p, env.litNorm t.o⟩) u)
    else none
  | .deleteData ts =>
    if ts.all fun t => wellFormed env (env.litNorm t.s) (env.litNorm t.p) then
      some (ts.foldl (fun u t => u.remove ⟨env.litNorm t.s, env.litNorm t.p, env.litNorm t.o⟩) u)
    else none
  | .deleteWhere tps =>
    -- every operator is planned before the first one runs
    if (exec env u.st u.full (bgp tps)).isSome && allGroundOk env tps then
      tps.foldl (deleteWhereStep env (bgp tps)) (some u)
    else none
  | .modify del ins w =>
    (exec env u.st u.full (transCode w)).map fun t =>
      let rows := (updRows t)
      let u1 := (del.flatMap fun tp => rows.filterMap fun r => instantiate env t.cols r tp).foldl UState.remove u
      (ins.flatMap fun tp => rows.filterMap fun r => instantiate env t.cols r tp).foldl UState.insert u1

end Old

end Grafeo.Sparql
