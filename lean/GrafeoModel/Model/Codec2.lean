import GrafeoModel.Model.Codec
/-
Model of the C15 encodings that `Model/Codec.lean` does not cover
(`crates/grafeo-core/src/storage/{dictionary,bitvec,codec}.rs`, `storage/succinct/*.rs`,
the compressed columns of `graph/lpg/property.rs`, the compressed chunks of `index/adjacency.rs`).

Conventions (as in `Model/Codec.lean`)
* `u64` words are `Nat`s below `W = 2^64`; `usize` is 64 bit; the harness is a debug build, so an
  arithmetic overflow, a shift by ≥ 64, an out-of-bounds index, a failed `assert!`/`expect` is the
  explicit outcome `Res.panic` — never a default value.
* strings are their UTF-8 byte lists (`str::len` = number of bytes, `==` = equality of bytes).
* `FxHashMap<Id, Value>` is an association list with unique keys; every loop over it that the code
  performs is order-insensitive (counting) or is followed by `sort_by_key(id)`.
* the `f64` comparisons of the codec selector (`ratio > 1.5`, `a / b > 64.0 / c`, `> 1.2`) are the
  comparisons of the exact quotients (cross-multiplied): both sides are correctly rounded quotients
  of integers below 2^40, so two different quotients differ by more than an ulp. (Checked against
  the implementation by stream `c15b`; not a theorem.)

No library imports: this file is linked into `gdriver`.
-/

namespace Grafeo.Codec2
open Grafeo.Codec

abbrev Str := List Nat

/-! ## outcome plumbing -/

def bindR {α β : Type} (r : Res α) (f : α → Res β) : Res β :=
  match r with
  | .ok a => f a
  | .err => .err
  | .panic => .panic

instance : Monad Res where
  pure := .ok
  bind := bindR

/-- `a - b` on `usize` in a build with overflow checks. -/
def usub (a b : Nat) : Res Nat := if a < b then .panic else .ok (a - b)

/-- slice indexing `xs[i]` -/
def idx {α : Type} (xs : List α) (i : Nat) : Res α :=
  match xs[i]? with
  | some x => .ok x
  | none => .panic

/-! ## single bits of a `u64` word -/

/-- `(w & (1 << j)) != 0` -/
def getBit (w j : Nat) : Bool := (w &&& (1 <<< j)) != 0
/-- `w | (1 << j)` -/
def setBit (w j : Nat) : Nat := w ||| (1 <<< j)
/-- `w & !(1 << j)` -/
def clearBit (w j : Nat) : Nat := w &&& ((W - 1) ^^^ (1 <<< j))
/-- `!w` -/
def notW (w : Nat) : Nat := (W - 1) ^^^ w

/-- `data[pos / 64] |= 1 << (pos % 64)` (in range on every path of the code, see `BVec.WF`) -/
def orBitAt (data : List Nat) (pos : Nat) : List Nat :=
  data.modify (pos / 64) (fun w => setBit w (pos % 64))

/-- `u64::count_ones` -/
def popF : Nat → Nat → Nat
  | 0, _ => 0
  | f + 1, w => w % 2 + popF f (w / 2)

def popcount (w : Nat) : Nat := popF 64 w

/-- `(len + 63) / 64` -/
def nWords (n : Nat) : Nat := (n + 63) / 64

/-! ## DictionaryEncoding / DictionaryBuilder (dictionary.rs) -/

structure Dict where
  dictionary : List Str
  codes : List Nat
  nullBitmap : Option (List Nat)
  deriving Repr, DecidableEq

def bitmapNull (bm : List Nat) (i : Nat) : Bool :=
  match bm[i / 64]? with
  | none => false
  | some w => getBit w (i % 64)

/-- `is_null` -/
def Dict.isNull (d : Dict) (i : Nat) : Bool :=
  match d.nullBitmap with
  | none => false
  | some bm => bitmapNull bm i

def Dict.lookupCode (d : Dict) (i : Nat) : Option Str :=
  match d.codes[i]? with
  | none => none
  | some c => d.dictionary[c]?

/-- `get` -/
def Dict.get (d : Dict) (i : Nat) : Option Str :=
  if d.isNull i then none else d.lookupCode i

/-- `get_code` -/
def Dict.getCode (d : Dict) (i : Nat) : Option Nat :=
  if d.isNull i then none else d.codes[i]?

/-- `iter().collect()` -/
def Dict.decode (d : Dict) : List (Option Str) := (List.range d.codes.length).map d.get

/-- position of `s` in a list of strings, counted from `k`: the `HashMap<Arc<str>, u32>` of the
builder maps every dictionary string to its position, and `encode` is `iter().position(..)`. -/
def findCode (s : Str) : List Str → Nat → Option Nat
  | [], _ => none
  | x :: xs, k => if x = s then some k else findCode s xs (k + 1)

/-- `encode` (look a value up) -/
def Dict.encode (d : Dict) (s : Str) : Option Nat := findCode s d.dictionary 0

def filterIdx (d : Dict) (c : Nat) : Nat → List Nat → List Nat
  | _, [] => []
  | i, x :: xs => if !d.isNull i && x == c then i :: filterIdx d c (i + 1) xs else filterIdx d c (i + 1) xs

/-- `filter_by_code(|x| x == c)` -/
def Dict.filterByCode (d : Dict) (c : Nat) : List Nat := filterIdx d c 0 d.codes

def strLenAt (dict : List Str) (c : Nat) : Nat :=
  match dict[c]? with
  | some s => s.length
  | none => 0

def Dict.origSize (d : Dict) : Nat := (d.codes.map (strLenAt d.dictionary)).sum
def Dict.compSize (d : Dict) : Nat := (d.dictionary.map List.length).sum + d.codes.length * 4

/-- `compression_ratio() > 1.2` -/
def Dict.ratioGt12 (d : Dict) : Bool :=
  if d.codes.isEmpty then false
  else if d.compSize = 0 then false
  else decide (5 * d.origSize > 6 * d.compSize)

structure DictBuilder where
  dictionary : List Str := []
  codes : List Nat := []
  nullPositions : List Nat := []
  deriving Repr, DecidableEq

/-- `add` (`dictionary.len() as u32` truncates) -/
def DictBuilder.add (b : DictBuilder) (s : Str) : DictBuilder :=
  match findCode s b.dictionary 0 with
  | some c => { b with codes := b.codes ++ [c] }
  | none => { b with dictionary := b.dictionary ++ [s],
                     codes := b.codes ++ [b.dictionary.length % 4294967296] }

/-- `add_null` -/
def DictBuilder.addNull (b : DictBuilder) : DictBuilder :=
  { b with nullPositions := b.nullPositions ++ [b.codes.length], codes := b.codes ++ [0] }

/-- `add_optional` -/
def DictBuilder.addOpt (b : DictBuilder) : Option Str → DictBuilder
  | some s => b.add s
  | none => b.addNull

def DictBuilder.addAll (b : DictBuilder) : List (Option Str) → DictBuilder
  | [] => b
  | v :: vs => (b.addOpt v).addAll vs

/-- `build` -/
def DictBuilder.build (b : DictBuilder) : Dict :=
  { dictionary := b.dictionary, codes := b.codes,
    nullBitmap := if b.nullPositions.isEmpty then none
                  else some (b.nullPositions.foldl orBitAt (List.replicate (nWords b.codes.length) 0)) }

def dictOf (vs : List (Option Str)) : Dict := (DictBuilder.addAll {} vs).build

/-! ## BitVector (bitvec.rs) -/

structure BVec where
  data : List Nat
  len : Nat
  deriving Repr, DecidableEq

def BVec.empty : BVec := ⟨[], 0⟩

def fromBoolsLoop : List Nat → Nat → List Bool → List Nat
  | data, _, [] => data
  | data, i, b :: bs => fromBoolsLoop (if b then orBitAt data i else data) (i + 1) bs

/-- `from_bools` -/
def BVec.fromBools (bs : List Bool) : BVec :=
  ⟨fromBoolsLoop (List.replicate (nWords bs.length) 0) 0 bs, bs.length⟩

/-- `clear_padding`: `if len % 64 > 0 { if let Some(last) = data.last_mut() { *last &= (1 << (len % 64)) - 1 } }` -/
def BVec.clearPadding (v : BVec) : BVec :=
  if v.len % 64 > 0 then ⟨v.data.modify (v.data.length - 1) (fun w => w &&& (2 ^ (v.len % 64) - 1)), v.len⟩
  else v

/-- `filled` (the unused bits of the last word are cleared) -/
def BVec.filled (n : Nat) (v : Bool) : BVec :=
  (BVec.mk (List.replicate (nWords n) (if v then W - 1 else 0)) n).clearPadding

/-- `get`: `.err` is `None` -/
def BVec.get (v : BVec) (i : Nat) : Res Bool :=
  if i ≥ v.len then .err
  else match v.data[i / 64]? with
    | none => .panic
    | some w => .ok (getBit w (i % 64))

/-- `set` -/
def BVec.set (v : BVec) (i : Nat) (b : Bool) : Res BVec :=
  if i ≥ v.len then .panic
  else match v.data[i / 64]? with
    | none => .panic
    | some _ => .ok ⟨v.data.modify (i / 64) (fun w => if b then setBit w (i % 64) else clearBit w (i % 64)), v.len⟩

/-- `push` -/
def BVec.push (v : BVec) (b : Bool) : Res BVec :=
  let data := if v.len / 64 ≥ v.data.length then v.data ++ [0] else v.data
  match data[v.len / 64]? with
  | none => if b then .panic else .ok ⟨data, v.len + 1⟩
  | some _ => .ok ⟨if b then orBitAt data v.len else data, v.len + 1⟩

def BVec.pushAll (v : BVec) : List Bool → Res BVec
  | [] => .ok v
  | b :: bs => match v.push b with
    | .ok v' => v'.pushAll bs
    | .err => .err
    | .panic => .panic

/-- `count_ones` -/
def BVec.countOnes (v : BVec) : Res Nat :=
  if v.len = 0 then .ok 0
  else if v.len / 64 > v.data.length then .panic
  else
    let c := ((v.data.take (v.len / 64)).map popcount).sum
    if v.len % 64 > 0 ∧ v.len / 64 < v.data.length then
      .ok (c + popcount (v.data.getD (v.len / 64) 0 &&& (2 ^ (v.len % 64) - 1)))
    else .ok c

/-- `count_zeros` -/
def BVec.countZeros (v : BVec) : Res Nat :=
  match v.countOnes with
  | .ok c => usub v.len c
  | .err => .err
  | .panic => .panic

def toBoolsFrom (v : BVec) : Nat → Nat → Res (List Bool)
  | 0, _ => .ok []
  | n + 1, i => match v.get i with
    | .ok b => (match toBoolsFrom v n (i + 1) with
      | .ok r => .ok (b :: r)
      | .err => .err
      | .panic => .panic)
    | .err => .panic          -- `.unwrap()` on `None`
    | .panic => .panic

/-- `to_bools` -/
def BVec.toBools (v : BVec) : Res (List Bool) := toBoolsFrom v v.len 0

def zipWords (f : Nat → Nat → Nat) (a b : BVec) : BVec :=
  (BVec.mk ((List.zipWith f a.data b.data).take (nWords (min a.len b.len))) (min a.len b.len)).clearPadding

def BVec.and (a b : BVec) : BVec := zipWords (· &&& ·) a b
def BVec.or (a b : BVec) : BVec := zipWords (· ||| ·) a b
def BVec.xor (a b : BVec) : BVec := zipWords (· ^^^ ·) a b
def BVec.not (a : BVec) : BVec := (BVec.mk (a.data.map notW) a.len).clearPadding

/-- `to_bytes`: len as u32 (LE) ++ words (LE) -/
def BVec.toBytes (v : BVec) : List Nat :=
  leBytes 4 (v.len % 4294967296) ++ (v.data.map (leBytes 8)).flatten

/-- `from_bytes`: `none` is `Err` -/
def BVec.fromBytes (bs : List Nat) : Option BVec :=
  if bs.length < 4 then none
  else if bs.length < 4 + nWords (ofLe (bs.take 4)) * 8 then none
  else match readWords (nWords (ofLe (bs.take 4))) (bs.drop 4) with
    | none => none
    | some ws => some (BVec.mk ws (ofLe (bs.take 4))).clearPadding

/-- well-formedness kept by every constructor and operation: exactly `ceil(len/64)` words below 2^64 -/
def BVec.WF (v : BVec) : Prop := v.data.length = nWords v.len ∧ ∀ w ∈ v.data, w < W

/-- no bit is set at or beyond `len`: kept by every constructor and operation -/
def BVec.Clean (v : BVec) : Prop := ∀ q, v.len ≤ q → bitmapNull v.data q = false

/-! ## CodecSelector / TypeSpecificCompressor (codec.rs) -/

inductive CodecK where
  | none | delta | bitPacked (bits : Nat) | deltaBitPacked (bits : Nat) | dictionary | bitVector | runLength
  deriving Repr, DecidableEq

/-- the codecs `select_for_integers` can return -/
inductive IntCodec where
  | none | bitPacked (bits : Nat) | deltaBitPacked (bits : Nat) | runLength
  deriving Repr, DecidableEq

def IntCodec.toK : IntCodec → CodecK
  | .none => .none
  | .bitPacked b => .bitPacked b
  | .deltaBitPacked b => .deltaBitPacked b
  | .runLength => .runLength

def runBreaks (prev : Nat) : List Nat → Nat
  | [] => 0
  | v :: vs => (if v ≠ prev then 1 else 0) + runBreaks v vs

/-- the `run_count` of `RunLengthAnalyzer` (non-empty input) -/
def runCount : List Nat → Nat
  | [] => 0
  | v :: vs => 1 + runBreaks v vs

/-- `values.windows(2).all(|w| w[0] <= w[1])` -/
def isSortedB : List Nat → Bool
  | a :: b :: r => decide (a ≤ b) && isSortedB (b :: r)
  | _ => true

/-- `rle_ratio > 64.0 / bits && rle_ratio > 1.0` with `rle_ratio = (n*8) / (r*16)` -/
def rleBeats (n r bits : Nat) : Bool := decide (n * 8 * bits > 64 * (r * 16)) && decide (n * 8 > r * 16)

/-- `select_for_integers` -/
def selectInts (vs : List Nat) : IntCodec :=
  if vs.length < 8 then .none
  else if vs.length > 2 * runCount vs ∧ 2 * (vs.length * 8) > 3 * (runCount vs * 16) then .runLength
  else if isSortedB vs then
    (if rleBeats vs.length (runCount vs) (bitsNeeded (listMax (satDeltas vs))) then .runLength
     else .deltaBitPacked (bitsNeeded (listMax (satDeltas vs))))
  else
    (if rleBeats vs.length (runCount vs) (bitsNeeded (listMax vs)) then .runLength
     else if bitsNeeded (listMax vs) < 32 then .bitPacked (bitsNeeded (listMax vs))
     else .none)

inductive CMeta where
  | none | delta (base : Int) | bitPacked (count : Nat) | deltaBitPacked (base : Int) (count : Nat)
  | dictionary (id : Nat) | runLength (runs : Nat)
  deriving Repr, DecidableEq

structure CData where
  codec : CodecK
  uncompressedSize : Nat
  data : List Nat
  cmeta : CMeta
  deriving Repr, DecidableEq

/-- `compression_ratio() > 1.2` -/
def CData.ratioGt12 (c : CData) : Bool :=
  if c.data.isEmpty then false else decide (5 * c.uncompressedSize > 6 * c.data.length)

def encodeWith (vs : List Nat) : IntCodec → CData
  | .none => ⟨.none, vs.length * 8, (vs.map (leBytes 8)).flatten, .none⟩
  | .deltaBitPacked b =>
    ⟨.deltaBitPacked b, vs.length * 8, (DBP.encode vs).toBytes,
     .deltaBitPacked (BitVec.ofNat 64 (DBP.encode vs).base).toInt vs.length⟩
  | .bitPacked b => ⟨.bitPacked b, vs.length * 8, (pack vs).toBytes, .bitPacked vs.length⟩
  | .runLength => ⟨.runLength, vs.length * 8, (Rle.encode vs).toBytes, .runLength (Rle.encode vs).runs.length⟩

/-- `compress_integers` -/
def compressInts (vs : List Nat) : CData := encodeWith vs (selectInts vs)

/-- `compress_signed_integers` -/
def compressSigned (vs : List (BitVec 64)) : CData := compressInts (vs.map (fun v => (zzEnc v).toNat))

/-- `chunks_exact(8)` of the raw bytes -/
def rawWords (bs : List Nat) : List Nat := (readWords (bs.length / 8) bs).getD []

/-- `RunLengthEncoding::from_bytes(..)?.decode()` (the reservation is bounded by the bytes present,
so an oversized run count ends in the read error) -/
def rleDecompress (data : List Nat) : Res (List Nat) :=
  match Rle.fromBytes data with
  | some r => .ok r.decode
  | none => .err

/-- `decompress_integers` -/
def decompressInts (c : CData) : Res (List Nat) :=
  match c.codec with
  | .none => .ok (rawWords c.data)
  | .deltaBitPacked _ => (match DBP.fromBytes c.data with
    | .ok e => e.decode
    | .err => .err
    | .panic => .panic)
  | .bitPacked _ => (match Packed.fromBytes c.data with
    | .ok p => p.unpack
    | .err => .err
    | .panic => .panic)
  | .runLength => rleDecompress c.data
  | _ => .err

def decodeSigned (r : Res (List Nat)) : Res (List (BitVec 64)) :=
  match r with
  | .ok ws => .ok (ws.map (fun w => zzDec (BitVec.ofNat 64 w)))
  | .err => .err
  | .panic => .panic

/-- `compress_booleans` -/
def compressBools (bs : List Bool) : CData :=
  ⟨.bitVector, bs.length, (BVec.fromBools bs).toBytes, .bitPacked bs.length⟩

/-- `decompress_booleans` -/
def decompressBools (c : CData) : Res (List Bool) :=
  match c.codec with
  | .bitVector => (match BVec.fromBytes c.data with
    | some v => v.toBools
    | none => .err)
  | _ => .err

def dedupStr : List Str → List Str
  | [] => []
  | s :: ss => if ss.contains s then dedupStr ss else s :: dedupStr ss

/-- `select_for_strings` (`unique.len() / values.len() < 0.5`) -/
def selectStrs (vs : List Str) : CodecK :=
  if vs.length < 4 then .none
  else if 2 * (dedupStr vs).length < vs.length then .dictionary else .none

/-! ## compressed property columns (graph/lpg/property.rs) -/

inductive PV where
  | null | bool (b : Bool) | int (v : BitVec 64) | float (bits : Nat) | str (s : Str)
  deriving Repr, DecidableEq

inductive CMode where
  | none | auto | eager
  deriving Repr, DecidableEq

inductive CCD where
  | ints (data : CData) (indexToId : List Nat)
  | strs (enc : Dict) (indexToId : List Nat)
  | bools (data : CData) (indexToId : List Nat)
  deriving Repr, DecidableEq

/-- `FxHashMap<Id, Value>` as an association list with unique keys -/
abbrev HotMap := List (Nat × PV)

def hmGet (m : HotMap) (id : Nat) : Option PV :=
  match m with
  | [] => none
  | (k, v) :: r => if k = id then some v else hmGet r id

def hmInsert (m : HotMap) (id : Nat) (v : PV) : HotMap :=
  match m with
  | [] => [(id, v)]
  | (k, w) :: r => if k = id then (k, v) :: r else (k, w) :: hmInsert r id v

def hmRemove (m : HotMap) (id : Nat) : HotMap :=
  match m with
  | [] => []
  | (k, w) :: r => if k = id then r else (k, w) :: hmRemove r id

structure PCol where
  values : HotMap := []
  mode : CMode := .none
  compressed : Option CCD := none
  compressedCount : Nat := 0
  deriving Repr, DecidableEq

def isInt : PV → Bool | .int _ => true | _ => false
def isStr : PV → Bool | .str _ => true | _ => false
def isBool : PV → Bool | .bool _ => true | _ => false

def intOf : PV → BitVec 64 | .int v => v | _ => 0
def strOf : PV → Str | .str s => s | _ => []
def boolOf : PV → Bool | .bool b => b | _ => false

/-- stable sort by a `u64` key (`slice::sort_by_key`): insertion from the right, an element goes
in front of the first element whose key is not smaller. (Structural recursion, so that the
witnesses below evaluate in the kernel; any two stable sorts agree.) -/
def insertBy {α : Type} (key : α → Nat) (a : α) : List α → List α
  | [] => [a]
  | y :: ys => if key a ≤ key y then a :: y :: ys else y :: insertBy key a ys

def sortBy {α : Type} (key : α → Nat) (l : List α) : List α := l.foldr (insertBy key) []

/-- `sort_by_key(|(id, _)| *id)` (stable; ids are unique) -/
def sortById (l : HotMap) : HotMap := sortBy (·.1) l

/-- `compress_as_integers` -/
def PCol.compressAsInts (c : PCol) : PCol :=
  let ints := sortById (c.values.filter (fun kv => isInt kv.2))
  if ints.length < 8 then c
  else
    let cd := compressSigned (ints.map (fun kv => intOf kv.2))
    if cd.ratioGt12 then
      { c with compressed := some (.ints cd (ints.map (·.1))), compressedCount := ints.length,
               values := c.values.filter (fun kv => !isInt kv.2) }
    else c

/-- `compress_as_strings` -/
def PCol.compressAsStrs (c : PCol) : PCol :=
  let strs := sortById (c.values.filter (fun kv => isStr kv.2))
  if strs.length < 8 then c
  else
    let enc := dictOf (strs.map (fun kv => some (strOf kv.2)))
    if enc.ratioGt12 then
      { c with compressed := some (.strs enc (strs.map (·.1))), compressedCount := strs.length,
               values := c.values.filter (fun kv => !isStr kv.2) }
    else c

/-- `compress_as_booleans` -/
def PCol.compressAsBools (c : PCol) : PCol :=
  let bs := sortById (c.values.filter (fun kv => isBool kv.2))
  if bs.length < 8 then c
  else
    { c with compressed := some (.bools (compressBools (bs.map (fun kv => boolOf kv.2))) (bs.map (·.1))),
             compressedCount := bs.length,
             values := c.values.filter (fun kv => !isBool kv.2) }

/-- `compress` (= `force_compress`) -/
def PCol.compress (c : PCol) : PCol :=
  if c.values.isEmpty then c
  else if c.compressed.isSome then c
  else if (c.values.filter (fun kv => isInt kv.2)).length > c.values.length / 2 then c.compressAsInts
  else if (c.values.filter (fun kv => isStr kv.2)).length > c.values.length / 2 then c.compressAsStrs
  else if (c.values.filter (fun kv => isBool kv.2)).length > c.values.length / 2 then c.compressAsBools
  else c

/-- the loop `for (i, id) in index_to_id.iter().enumerate() { if let Some(x) = get(i) { insert(id, mk(x)) } }` -/
def reinsertF {α : Type} (mk : α → PV) (get : Nat → Option α) : HotMap → Nat → List Nat → HotMap
  | m, _, [] => m
  | m, i, id :: ids =>
    match get i with
    | some x => reinsertF mk get (hmInsert m id (mk x)) (i + 1) ids
    | none => reinsertF mk get m (i + 1) ids

/-- `decompress_all`; a failing or panicking decoder is reported as such (`none` = would panic) -/
def PCol.decompressAll (c : PCol) : Res PCol :=
  match c.compressed with
  | none => .ok c
  | some (.ints d ids) =>
    (match decodeSigned (decompressInts d) with
     | .ok vs => .ok { c with values := reinsertF PV.int (fun i => vs[i]?) c.values 0 ids, compressed := none, compressedCount := 0 }
     | .err => .ok { c with compressed := none, compressedCount := 0 }
     | .panic => .panic)
  | some (.strs enc ids) =>
    .ok { c with values := reinsertF PV.str enc.get c.values 0 ids, compressed := none, compressedCount := 0 }
  | some (.bools d ids) =>
    (match decompressBools d with
     | .ok vs => .ok { c with values := reinsertF PV.bool (fun i => vs[i]?) c.values 0 ids, compressed := none, compressedCount := 0 }
     | .err => .ok { c with compressed := none, compressedCount := 0 }
     | .panic => .panic)

/-- `COMPRESSION_THRESHOLD`, `HOT_BUFFER_SIZE` -/
def compressionThreshold : Nat := 1000
def hotBufferSize : Nat := 4096

def CCD.ids : CCD → List Nat
  | .ints _ ids => ids
  | .strs _ ids => ids
  | .bools _ ids => ids

/-- `compressed_position`: `index_to_id.binary_search(&id).ok()` — the ids are sorted and distinct, so
this is the position of `id` in the list -/
def PCol.compressedPos (c : PCol) (id : Nat) : Option Nat :=
  match c.compressed with
  | none => none
  | some d => d.ids.idxOf? id

/-- the value at a position of the compressed part -/
def CCD.valueAt (d : CCD) (pos : Nat) : Res (Option PV) :=
  match d with
  | .ints cd _ =>
    (match decompressInts cd with
     | .ok ws => .ok ((ws[pos]?).map (fun w => PV.int (zzDec (BitVec.ofNat 64 w))))
     | .err => .ok none
     | .panic => .panic)
  | .strs enc _ => .ok ((enc.get pos).map PV.str)
  | .bools cd _ =>
    (match decompressBools cd with
     | .ok bs => .ok ((bs[pos]?).map PV.bool)
     | .err => .ok none
     | .panic => .panic)

/-- `get_compressed` -/
def PCol.getCompressed (c : PCol) (id : Nat) : Res (Option PV) :=
  match c.compressed with
  | none => .ok none
  | some d => (match d.ids.idxOf? id with
    | none => .ok none
    | some pos => d.valueAt pos)

/-- `if self.compressed_position(id).is_some() { self.decompress_all() }` -/
def PCol.thaw (c : PCol) (id : Nat) : Res PCol :=
  if (c.compressedPos id).isSome then c.decompressAll else .ok c

/-- the rest of `set` after the stale compressed copy is out of the way -/
def PCol.setHot (c : PCol) (id : Nat) (v : PV) : PCol :=
  if c.mode = .auto then
    if (hmInsert c.values id v).length ≥ hotBufferSize ∧
       (hmInsert c.values id v).length + c.compressedCount ≥ compressionThreshold
    then ({ c with values := hmInsert c.values id v } : PCol).compress
    else { c with values := hmInsert c.values id v }
  else { c with values := hmInsert c.values id v }

/-- `set` -/
def PCol.set (c : PCol) (id : Nat) (v : PV) : Res PCol :=
  match c.thaw id with
  | .ok c0 => .ok (c0.setHot id v)
  | .err => .err
  | .panic => .panic

/-- `get`: the hot buffer, then the compressed values -/
def PCol.get (c : PCol) (id : Nat) : Res (Option PV) :=
  match hmGet c.values id with
  | some v => .ok (some v)
  | none => c.getCompressed id

/-- `remove` -/
def PCol.remove (c : PCol) (id : Nat) : Res PCol :=
  match c.thaw id with
  | .ok c0 => .ok { c0 with values := hmRemove c0.values id }
  | .err => .err
  | .panic => .panic

/-- `set_compression_mode` -/
def PCol.setMode (c : PCol) (m : CMode) : Res PCol :=
  let c1 := { c with mode := m }
  if m = .none then (if c1.compressed.isSome then c1.decompressAll else .ok c1) else .ok c1

/-- `len` (= `compression_stats().value_count`) -/
def PCol.len (c : PCol) : Nat := c.values.length + c.compressedCount

def PCol.codec (c : PCol) : Option CodecK :=
  match c.compressed with
  | none => none
  | some (.ints d _) => some d.codec
  | some (.strs _ _) => some .dictionary
  | some (.bools d _) => some d.codec

/-- `PropertyStorage`: columns by key, default mode for new columns -/
structure PStore where
  cols : List (Nat × PCol) := []
  defaultMode : CMode := .none
  deriving Repr, DecidableEq

def colGet (cols : List (Nat × PCol)) (k : Nat) : Option PCol :=
  match cols with
  | [] => none
  | (k', c) :: r => if k' = k then some c else colGet r k

def colPut (cols : List (Nat × PCol)) (k : Nat) (c : PCol) : List (Nat × PCol) :=
  match cols with
  | [] => [(k, c)]
  | (k', c') :: r => if k' = k then (k', c) :: r else (k', c') :: colPut r k c

def PStore.set (s : PStore) (id k : Nat) (v : PV) : Res PStore :=
  match ((colGet s.cols k).getD { mode := s.defaultMode }).set id v with
  | .ok c => .ok { s with cols := colPut s.cols k c }
  | .err => .err
  | .panic => .panic

def PStore.get (s : PStore) (id k : Nat) : Res (Option PV) :=
  match colGet s.cols k with
  | none => .ok none
  | some c => c.get id

def PStore.remove (s : PStore) (id k : Nat) : Res PStore :=
  match colGet s.cols k with
  | none => .ok s
  | some c => (match c.remove id with
    | .ok c' => .ok { s with cols := colPut s.cols k c' }
    | .err => .err
    | .panic => .panic)

def removeAllCols (id : Nat) : List (Nat × PCol) → Res (List (Nat × PCol))
  | [] => .ok []
  | (k, c) :: r => match c.remove id, removeAllCols id r with
    | .ok c', .ok r' => .ok ((k, c') :: r')
    | .panic, _ => .panic
    | _, .panic => .panic
    | _, _ => .err

def PStore.removeAll (s : PStore) (id : Nat) : Res PStore :=
  match removeAllCols id s.cols with
  | .ok cols => .ok { s with cols := cols }
  | .err => .err
  | .panic => .panic

def PStore.forceCompressAll (s : PStore) : PStore :=
  { s with cols := s.cols.map (fun kc => (kc.1, kc.2.compress)) }

def PStore.compressAll (s : PStore) : PStore :=
  { s with cols := s.cols.map (fun kc => (kc.1, if kc.2.mode ≠ .none then kc.2.compress else kc.2)) }

def PStore.enableCompression (s : PStore) (k : Nat) (m : CMode) : Res PStore :=
  match colGet s.cols k with
  | none => .ok s
  | some c => (match c.setMode m with
    | .ok c' => .ok { s with cols := colPut s.cols k c' }
    | .err => .err
    | .panic => .panic)

def getAllCols (id : Nat) : List (Nat × PCol) → Res (List (Nat × PV))
  | [] => .ok []
  | (k, c) :: r => match c.get id, getAllCols id r with
    | .ok (some v), .ok r' => .ok ((k, v) :: r')
    | .ok none, .ok r' => .ok r'
    | .panic, _ => .panic
    | _, .panic => .panic
    | _, _ => .err

def PStore.getAll (s : PStore) (id : Nat) : Res (List (Nat × PV)) := getAllCols id s.cols

/-! ## compressed adjacency chunks (index/adjacency.rs) -/

abbrev Entry := Nat × Nat     -- (destination node id, edge id)

structure AChunk where
  entries : List Entry
  capacity : Nat
  deriving Repr, DecidableEq

structure CChunk where
  dsts : DBP
  edges : Packed
  count : Nat
  deriving Repr, DecidableEq

/-- `AdjacencyChunk::push` -/
def AChunk.push (c : AChunk) (e : Entry) : Option AChunk :=
  if c.entries.length ≥ c.capacity then none else some { c with entries := c.entries ++ [e] }

/-- `entries.sort_by_key(|(dst, _)| dst)` (stable) -/
def sortByDst (l : List Entry) : List Entry := sortBy (·.1) l

/-- `AdjacencyChunk::compress` -/
def AChunk.compress (c : AChunk) : CChunk :=
  let s := sortByDst c.entries
  ⟨DBP.encode (s.map (·.1)), pack (s.map (·.2)), s.length⟩

/-- `CompressedAdjacencyChunk::iter` -/
def CChunk.iter (c : CChunk) : Res (List Entry) :=
  match c.dsts.decode with
  | .ok ds => (match c.edges.unpack with
    | .ok es => .ok (List.zip ds es)
    | .err => .err
    | .panic => .panic)
  | .err => .err
  | .panic => .panic

/-- `memory_size` -/
def CChunk.memorySize (c : CChunk) : Nat := 8 + c.dsts.toBytes.length + c.edges.data.length * 8

structure AList where
  hot : List AChunk := []
  cold : List CChunk := []
  delta : List Entry := []
  deleted : List Nat := []
  deriving Repr, DecidableEq

def coldCompressionThreshold : Nat := 4
def deltaCompactionThreshold : Nat := 64

/-- `add_edge`: into the last hot chunk if it has room, else into the delta buffer -/
def AList.addEdge (l : AList) (e : Entry) : AList :=
  match l.hot.getLast? with
  | some last => (match last.push e with
    | some c => { l with hot := l.hot.dropLast ++ [c] }
    | none => { l with delta := l.delta ++ [e] })
  | none => { l with delta := l.delta ++ [e] }

def AList.markDeleted (l : AList) (eid : Nat) : AList :=
  if l.deleted.contains eid then l else { l with deleted := eid :: l.deleted }

/-- the drain loop of `compact`: (finished chunks, current chunk) -/
def drainLoop (cap : Nat) : List AChunk → AChunk → List Entry → List AChunk × AChunk
  | hot, cur, [] => (hot, cur)
  | hot, cur, e :: es =>
    match cur.push e with
    | some c => drainLoop cap hot c es
    | none =>
      -- `current_chunk = new(cap); current_chunk.push(..)` — the result of this push is ignored
      drainLoop cap (hot ++ [cur]) (((AChunk.mk [] cap).push e).getD (AChunk.mk [] cap)) es

/-- `maybe_compress_to_cold` (fuel = number of hot chunks) -/
def toCold : Nat → List AChunk → List CChunk → List AChunk × List CChunk
  | 0, hot, cold => (hot, cold)
  | f + 1, hot, cold =>
    if hot.length > coldCompressionThreshold then
      match hot with
      | [] => (hot, cold)
      | oldest :: rest =>
        if oldest.entries.length = 0 then toCold f rest cold
        else toCold f rest (cold ++ [oldest.compress])
    else (hot, cold)

/-- `hot_chunks.last().is_some_and(|c| !c.is_full())` -/
def lastHasRoom (hot : List AChunk) : Bool :=
  match hot.getLast? with
  | some c => decide (c.entries.length < c.capacity)
  | none => false

/-- the hot chunks of `compact` before any of them is moved to cold storage: the last chunk is
reopened if it has room, the delta buffer is drained into chunks, a non-empty last chunk is kept -/
def compactHot (hot : List AChunk) (delta : List Entry) (cap : Nat) : List AChunk :=
  if (drainLoop cap (if lastHasRoom hot then hot.dropLast else hot)
        (if lastHasRoom hot then hot.getLast?.getD (AChunk.mk [] cap) else AChunk.mk [] cap) delta).2.entries.length > 0
  then (drainLoop cap (if lastHasRoom hot then hot.dropLast else hot)
        (if lastHasRoom hot then hot.getLast?.getD (AChunk.mk [] cap) else AChunk.mk [] cap) delta).1 ++
       [(drainLoop cap (if lastHasRoom hot then hot.dropLast else hot)
        (if lastHasRoom hot then hot.getLast?.getD (AChunk.mk [] cap) else AChunk.mk [] cap) delta).2]
  else (drainLoop cap (if lastHasRoom hot then hot.dropLast else hot)
        (if lastHasRoom hot then hot.getLast?.getD (AChunk.mk [] cap) else AChunk.mk [] cap) delta).1

/-- `compact` -/
def AList.compact (l : AList) (cap : Nat) : AList :=
  if l.delta.isEmpty then l
  else
    { l with hot := (toCold (compactHot l.hot l.delta cap).length (compactHot l.hot l.delta cap) l.cold).1,
             cold := (toCold (compactHot l.hot l.delta cap).length (compactHot l.hot l.delta cap) l.cold).2,
             delta := [] }

/-- `freeze_all` -/
def AList.freezeAll (l : AList) : AList :=
  { l with hot := [],
           cold := l.cold ++ (l.hot.filter (fun c => c.entries.length > 0)).map AChunk.compress }

def coldEntries : List CChunk → Res (List Entry)
  | [] => .ok []
  | c :: cs => match c.iter with
    | .ok es => (match coldEntries cs with
      | .ok r => .ok (es ++ r)
      | .err => .err
      | .panic => .panic)
    | .err => .err
    | .panic => .panic

/-- `iter().collect()`: cold, then hot, then delta, without the deleted edge ids -/
def AList.iter (l : AList) : Res (List Entry) :=
  match coldEntries l.cold with
  | .ok ce => .ok ((ce ++ (l.hot.map (·.entries)).flatten ++ l.delta).filter (fun e => !l.deleted.contains e.2))
  | .err => .err
  | .panic => .panic

def AList.hotCount (l : AList) : Nat := ((l.hot.map (·.entries.length)).sum) + l.delta.length
def AList.coldCount (l : AList) : Nat := (l.cold.map (·.count)).sum

/-- `ChunkedAdjacency` -/
structure Adj where
  lists : List (Nat × AList) := []
  cap : Nat := 64
  edgeCount : Nat := 0
  deletedCount : Nat := 0
  deriving Repr, DecidableEq

def alGet (ls : List (Nat × AList)) (k : Nat) : Option AList :=
  match ls with
  | [] => none
  | (k', c) :: r => if k' = k then some c else alGet r k

def alPut (ls : List (Nat × AList)) (k : Nat) (c : AList) : List (Nat × AList) :=
  match ls with
  | [] => [(k, c)]
  | (k', c') :: r => if k' = k then (k', c) :: r else (k', c') :: alPut r k c

def Adj.addEdge (a : Adj) (src dst eid : Nat) : Adj :=
  { a with lists := alPut a.lists src (((alGet a.lists src).getD {}).addEdge (dst, eid)),
           edgeCount := a.edgeCount + 1 }

/-- `ChunkedAdjacency::mark_deleted`: since 7783d93 the tombstone is recorded even when `src` has no
list yet (`entry().or_insert_with`), so an insertion that arrives later stays invisible. -/
def Adj.markDeleted (a : Adj) (src eid : Nat) : Adj :=
  { a with lists := alPut a.lists src (((alGet a.lists src).getD {}).markDeleted eid),
           deletedCount := a.deletedCount + 1 }

def Adj.compact (a : Adj) : Adj :=
  { a with lists := a.lists.map (fun kl => (kl.1, kl.2.compact a.cap)) }

def Adj.compactIfNeeded (a : Adj) : Adj :=
  { a with lists := a.lists.map (fun kl =>
      (kl.1, if kl.2.delta.length ≥ deltaCompactionThreshold then kl.2.compact a.cap else kl.2)) }

def Adj.freezeAll (a : Adj) : Adj :=
  { a with lists := a.lists.map (fun kl => (kl.1, kl.2.freezeAll)) }

def Adj.edgesFrom (a : Adj) (src : Nat) : Res (List Entry) :=
  match alGet a.lists src with
  | none => .ok []
  | some l => l.iter

/-! ## SuccinctBitVector (succinct/rank_select.rs) -/

def superblockBits : Nat := 512
def blockBits : Nat := 64
def blocksPerSuperblock : Nat := 8
def selectSampleRate : Nat := 4096

structure SBV where
  inner : BVec
  superblockRanks : List Nat
  /-- one word per superblock: seven nine-bit relative ranks (blocks 1..7) -/
  blockRanks : List Nat
  select1Samples : List Nat
  select0Samples : List Nat
  onesCount : Nat
  deriving Repr, DecidableEq

/-- `while samples.len() * RATE < next { samples.push(bit_pos as u32) }` (fuel bounds the pushes) -/
def pushSamples : Nat → List Nat → Nat → Nat → List Nat
  | 0, s, _, _ => s
  | f + 1, s, next, bitPos =>
    if s.length * selectSampleRate < next then pushSamples f (s ++ [bitPos % 4294967296]) next bitPos else s

structure SbvSt where
  sb : List Nat := []
  br : List Nat := []
  s1 : List Nat := []
  s0 : List Nat := []
  ones : Nat := 0
  zeros : Nat := 0
  sbStart : Nat := 0
  deriving Repr, DecidableEq

/-- number of valid bits of word `blockIdx` -/
def bitsInWord (len blockIdx : Nat) : Nat :=
  if blockIdx * 64 + 64 ≤ len then 64 else len - blockIdx * 64

/-- ones of the word restricted to the valid bits -/
def wordOnes (len blockIdx w : Nat) : Nat :=
  if bitsInWord len blockIdx = 64 then popcount w else popcount (w &&& (2 ^ bitsInWord len blockIdx - 1))

/-- `if slot > 0 { if let Some(packed) = block_ranks.last_mut() { *packed |= rel << (9 * (slot - 1)) } }` -/
def packRank (br : List Nat) (slot rel : Nat) : List Nat :=
  if slot > 0 then br.modify (br.length - 1) (fun w => w ||| ((rel <<< (9 * (slot - 1))) % W)) else br

/-- `block_rank`: the relative rank of a block, 0 for the first block of a superblock -/
def blockRank (br : List Nat) (blockIdx : Nat) : Nat :=
  if blockIdx % 8 = 0 then 0
  else match br[blockIdx / 8]? with
    | some w => (w >>> (9 * (blockIdx % 8 - 1))) &&& 511
    | none => 0

/-- one iteration of the construction loop of `from_bitvec` -/
def sbvStep (len : Nat) (st : SbvSt) (blockIdx w : Nat) : SbvSt :=
  let newSb := blockIdx % 8 = 0
  let sb := if newSb then st.sb ++ [st.ones] else st.sb
  let sbStart := if newSb then st.ones else st.sbStart
  let wo := wordOnes len blockIdx w
  let wz := bitsInWord len blockIdx - wo
  { sb := sb
    br := packRank (if newSb then st.br ++ [0] else st.br) (blockIdx % 8) (st.ones - sbStart)
    s1 := pushSamples 64 st.s1 (st.ones + wo) (blockIdx * 64)
    s0 := pushSamples 64 st.s0 (st.zeros + wz) (blockIdx * 64)
    ones := st.ones + wo
    zeros := st.zeros + wz
    sbStart := sbStart }

def sbvLoop (len : Nat) : SbvSt → Nat → List Nat → SbvSt
  | st, _, [] => st
  | st, i, w :: ws => sbvLoop len (sbvStep len st i w) (i + 1) ws

/-- `from_bitvec` -/
def SBV.ofBVec (v : BVec) : SBV :=
  let st := sbvLoop v.len {} 0 v.data
  let sb := if st.sb.length * 512 ≤ v.len ∨ st.sb.isEmpty then st.sb ++ [st.ones] else st.sb
  ⟨v, sb, st.br, st.s1, st.s0, st.ones⟩

/-- `rank1` -/
def SBV.rank1 (s : SBV) (pos : Nat) : Res Nat :=
  if pos = 0 then .ok 0
  else if pos ≥ s.inner.len then .ok s.onesCount
  else match s.superblockRanks[pos / 512]? with
    | none => .panic
    | some r0 =>
      let r1 := r0 + blockRank s.blockRanks (pos / 64)
      if pos % 64 > 0 ∧ pos / 64 < s.inner.data.length then
        .ok (r1 + popcount (s.inner.data.getD (pos / 64) 0 &&& (2 ^ (pos % 64) - 1)))
      else .ok r1

/-- `rank0` -/
def SBV.rank0 (s : SBV) (pos : Nat) : Res Nat :=
  match s.rank1 (min pos s.inner.len) with
  | .ok r => usub (min pos s.inner.len) r
  | .err => .err
  | .panic => .panic

/-- `binary_search_superblock` (fuel = number of superblock entries) -/
def bsSuper (sb : List Nat) (target : Nat) : Nat → Nat → Nat → Res Nat
  | 0, lo, _ => .ok lo
  | f + 1, lo, hi =>
    if lo + 1 < hi then
      match sb[lo + (hi - lo) / 2]? with
      | none => .panic
      | some r => if r < target then bsSuper sb target f (lo + (hi - lo) / 2) hi
                  else bsSuper sb target f lo (lo + (hi - lo) / 2)
    else .ok lo

/-- the block scan of `select1`: last block of the superblock whose start rank is below the target -/
def blockScan (br : List Nat) (base target : Nat) : Nat → Nat → Nat → Nat
  | 0, _, cur => cur
  | n + 1, i, cur =>
    if base + blockRank br i ≥ target then cur else blockScan br base target n (i + 1) i

/-- the bit scan inside one byte -/
def selectInByte (byte : Nat) : Nat → Nat → Nat → Option Nat
  | 0, _, _ => none
  | n + 1, bit, remaining =>
    if (byte >>> bit) % 2 = 1 then
      (if remaining = 0 then some bit else selectInByte byte n (bit + 1) (remaining - 1))
    else selectInByte byte n (bit + 1) remaining

/-- the byte loop of `select_in_word`; `.panic` = the `remaining -= byte_ones` underflow that
would follow a byte scan that did not return -/
def selectBytes (word : Nat) : Nat → Nat → Nat → Res (Option Nat)
  | 0, _, _ => .ok none
  | n + 1, byteIdx, remaining =>
    let byte := (word >>> (byteIdx * 8)) % 256
    if remaining < popcount byte then
      match selectInByte byte 8 0 remaining with
      | some bit => .ok (some (byteIdx * 8 + bit))
      | none => .panic
    else selectBytes word n (byteIdx + 1) (remaining - popcount byte)

/-- `select_in_word` -/
def selectInWord (word k : Nat) : Res (Option Nat) :=
  if k ≥ popcount word then .ok none else selectBytes word 8 0 k

/-- the tail of `select1` once the block `bi` with start rank `blockBase` is known -/
def select1Word (s : SBV) (k blockBase bi : Nat) : Res (Option Nat) :=
  if k < blockBase then .panic            -- `k - block_base_rank` underflows
  else match s.inner.data[bi]? with
    | none => .ok none
    | some word =>
      (match selectInWord word (k - blockBase) with
       | .ok (some bitPos) =>
         if bi * 64 + bitPos < s.inner.len then .ok (some (bi * 64 + bitPos)) else .ok none
       | .ok none => .ok none
       | .err => .err
       | .panic => .panic)

/-- `select1` -/
def SBV.select1 (s : SBV) (k : Nat) : Res (Option Nat) :=
  if k ≥ s.onesCount then .ok none
  else
    match bsSuper s.superblockRanks (k + 1) s.superblockRanks.length
        (s.select1Samples.getD (k / selectSampleRate) 0 / 512) s.superblockRanks.length with
    | .ok sbi =>
      (match s.superblockRanks[sbi]? with
       | none => .panic
       | some base =>
         select1Word s k (base + blockRank s.blockRanks
             (blockScan s.blockRanks base (k + 1) (min ((sbi + 1) * 8) s.inner.data.length - sbi * 8) (sbi * 8) (sbi * 8)))
           (blockScan s.blockRanks base (k + 1) (min ((sbi + 1) * 8) s.inner.data.length - sbi * 8) (sbi * 8) (sbi * 8)))
    | .err => .err
    | .panic => .panic

/-- the binary search of `select0` -/
def sel0Search (s : SBV) (k : Nat) : Nat → Nat → Nat → Res Nat
  | 0, lo, _ => .ok lo
  | f + 1, lo, hi =>
    if lo < hi then
      match s.rank0 (lo + (hi - lo) / 2 + 1) with
      | .ok r => if r ≤ k then sel0Search s k f (lo + (hi - lo) / 2 + 1) hi
                 else sel0Search s k f lo (lo + (hi - lo) / 2)
      | .err => .err
      | .panic => .panic
    else .ok lo

/-- `select0` -/
def SBV.select0 (s : SBV) (k : Nat) : Res (Option Nat) :=
  match usub s.inner.len s.onesCount with
  | .ok zeros =>
    if k ≥ zeros then .ok none
    else
      (match sel0Search s k (s.inner.len + 1) (s.select0Samples.getD (k / selectSampleRate) 0) s.inner.len with
       | .ok lo =>
         if lo < s.inner.len then
           (match s.rank0 (lo + 1) with
            | .ok r => if r = k + 1 then .ok (some lo) else .ok none
            | .err => .err
            | .panic => .panic)
         else .ok none
       | .err => .err
       | .panic => .panic)
  | .err => .err
  | .panic => .panic

def SBV.countZeros (s : SBV) : Res Nat := usub s.inner.len s.onesCount

def SBV.auxSize (s : SBV) : Nat :=
s.superblockRanks.length * 4 + s.blockRanks.length * 8 + s.select1Samples.length * 4 + s.select0Samples.length * 4

def SBV.sizeBytes (s : SBV) : Nat := s.inner.data.length * 8 + s.auxSize

/-! ## EliasFano (succinct/elias_fano.rs) -/

structure EF where
  n : Nat
  univ : Nat
  maxValue : Nat
  lowerBits : Nat
  lower : BVec
  upper : SBV
  deriving Repr, DecidableEq

/-- the `assert!(values[i] > values[i-1])` loop -/
def strictlyIncreasing : List Nat → Bool
  | a :: b :: r => decide (a < b) && strictlyIncreasing (b :: r)
  | _ => true

/-- `for bit_idx in 0..lower_bits { lower.push((low >> bit_idx) & 1 == 1) }` -/
def lowBitsOf (low : Nat) : Nat → Nat → List Bool
  | 0, _ => []
  | n + 1, j => ((low >>> j) % 2 == 1) :: lowBitsOf low n (j + 1)

def lowerBitsList (mask lb : Nat) : List Nat → List Bool
  | [] => []
  | v :: vs => lowBitsOf (v &&& mask) lb 0 ++ lowerBitsList mask lb vs

/-- the upper-bits loop: `upper.set(high + i, true)` when in range -/
def setUpper (lb upperLen : Nat) : BVec → Nat → List Nat → Res BVec
  | u, _, [] => .ok u
  | u, i, v :: vs =>
    if (v >>> lb) + i < upperLen then
      match u.set ((v >>> lb) + i) true with
      | .ok u' => setUpper lb upperLen u' (i + 1) vs
      | .err => .err
      | .panic => .panic
    else setUpper lb upperLen u (i + 1) vs

/-- `lower_bits`: 0 when `universe_size <= n`, else the bit length of `universe_size / n` (computed in
`u128`, so `last + 1` is exact), at most 63 -/
def efLowerBits (n last : Nat) : Nat := if last + 1 ≤ n then 0 else min (bitLen ((last + 1) / n)) 63

/-- `lower_mask` -/
def efMask (lb : Nat) : Nat := if lb = 0 then 0 else if lb ≥ 64 then W - 1 else 2 ^ lb - 1

/-- `EliasFano::new` -/
def EF.new (vs : List Nat) : Res EF :=
  match vs.getLast? with
  | none => .ok ⟨0, 0, 0, 0, BVec.empty, SBV.ofBVec BVec.empty⟩
  | some last =>
    if !strictlyIncreasing vs then .panic
    else
      match BVec.empty.pushAll (lowerBitsList (efMask (efLowerBits vs.length last)) (efLowerBits vs.length last) vs) with
      | .ok lower =>
        if efLowerBits vs.length last ≥ 64 then .panic      -- `values[n-1] >> lower_bits`
        else
          (match setUpper (efLowerBits vs.length last) (vs.length + (last >>> efLowerBits vs.length last))
              (BVec.filled (vs.length + (last >>> efLowerBits vs.length last)) false) 0 vs with
           | .ok ub => .ok ⟨vs.length, min (last + 1) (W - 1), last, efLowerBits vs.length last, lower, SBV.ofBVec ub⟩
           | .err => .err
           | .panic => .panic)
      | .err => .err
      | .panic => .panic

/-- `get_lower` -/
def getLowerLoop (lower : BVec) (start : Nat) : Nat → Nat → Nat
  | 0, _ => 0
  | n + 1, j => (match lower.get (start + j) with
      | .ok true => 1 <<< j
      | _ => 0) ||| getLowerLoop lower start n (j + 1)

def EF.getLower (e : EF) (i : Nat) : Nat :=
  if e.lowerBits = 0 then 0 else getLowerLoop e.lower (i * e.lowerBits) e.lowerBits 0

/-- `get` -/
def EF.get (e : EF) (i : Nat) : Res Nat :=
  if i ≥ e.n then .panic
  else match e.upper.select1 i with
    | .ok (some up) =>
      if up < i then .panic
      else .ok ((((up - i) <<< e.lowerBits) % W) ||| e.getLower i)
    | .ok none => .panic            -- `.expect("index within bounds")`
    | .err => .panic
    | .panic => .panic

def efDecodeFrom (e : EF) : Nat → Nat → Res (List Nat)
  | 0, _ => .ok []
  | n + 1, i => match e.get i with
    | .ok v => (match efDecodeFrom e n (i + 1) with
      | .ok r => .ok (v :: r)
      | .err => .err
      | .panic => .panic)
    | .err => .err
    | .panic => .panic

/-- `iter().collect()` -/
def EF.decode (e : EF) : Res (List Nat) := efDecodeFrom e e.n 0

/-- binary search for the first index whose element fails `keep` (`get(mid) <= value` / `< value`) -/
def efSearch (e : EF) (keep : Nat → Bool) : Nat → Nat → Nat → Res Nat
  | 0, lo, _ => .ok lo
  | f + 1, lo, hi =>
    if lo < hi then
      match e.get (lo + (hi - lo) / 2) with
      | .ok v => if keep v then efSearch e keep f (lo + (hi - lo) / 2 + 1) hi
                 else efSearch e keep f lo (lo + (hi - lo) / 2)
      | .err => .err
      | .panic => .panic
    else .ok lo

/-- `predecessor` -/
def EF.predecessor (e : EF) (value : Nat) : Res (Option Nat) :=
  if e.n = 0 then .ok none
  else match efSearch e (fun v => decide (v ≤ value)) (e.n + 1) 0 e.n with
    | .ok lo =>
      if lo > 0 then .ok (some (lo - 1))
      else (match e.get 0 with
        | .ok v => if v ≤ value then .ok (some 0) else .ok none
        | .err => .err
        | .panic => .panic)
    | .err => .err
    | .panic => .panic

/-- `successor` -/
def EF.successor (e : EF) (value : Nat) : Res (Option Nat) :=
  if e.n = 0 then .ok none
  else match efSearch e (fun v => decide (v < value)) (e.n + 1) 0 e.n with
    | .ok lo => if lo < e.n then .ok (some lo) else .ok none
    | .err => .err
    | .panic => .panic

/-- `contains` -/
def EF.contains (e : EF) (value : Nat) : Res Bool :=
  if e.n = 0 ∨ value > e.maxValue then .ok false
  else match e.predecessor value with
    | .ok (some i) => (match e.get i with
      | .ok v => .ok (v == value)
      | .err => .err
      | .panic => .panic)
    | .ok none => .ok false
    | .err => .err
    | .panic => .panic

def EF.payloadBytes (e : EF) : Nat := e.lower.data.length * 8 + e.upper.sizeBytes

/-! ## WaveletTree (succinct/wavelet.rs) -/

structure WT where
  levels : List SBV
  height : Nat
  sigma : Nat
  len : Nat
  symbols : List Nat
  deriving Repr, DecidableEq

def insertSorted (x : Nat) : List Nat → List Nat
  | [] => [x]
  | y :: ys => if x < y then x :: y :: ys else if x = y then y :: ys else y :: insertSorted x ys

/-- `sort_unstable(); dedup()` -/
def sortDedup : List Nat → List Nat
  | [] => []
  | x :: xs => insertSorted x (sortDedup xs)

/-- `symbol_to_code.get(sym)`: position in the sorted symbol list -/
def codeOf (symbols : List Nat) (sym : Nat) : Option Nat := symbols.idxOf? sym

/-- `(code >> bit_pos) & 1 == 1` -/
def bitOf (bitPos c : Nat) : Bool := (c >>> bitPos) % 2 == 1

/-- one level: the bit vector of bit `bitPos` of every code -/
def levelBits (bitPos : Nat) (codes : List Nat) : List Bool := codes.map (bitOf bitPos)

/-- the stable partition for the next level: codes whose bit is 0 (`left`), then the others (`right`) -/
def partitionLevel (bitPos : Nat) (codes : List Nat) : List Nat :=
  codes.filter (fun c => !bitOf bitPos c) ++ codes.filter (bitOf bitPos)

/-- `build_levels` (`n` levels remaining; bit position `n - 1` first) -/
def buildLevels : Nat → List Nat → Res (List SBV)
  | 0, _ => .ok []
  | n + 1, codes =>
    match BVec.empty.pushAll (levelBits n codes) with
    | .ok bits => (match buildLevels n (partitionLevel n codes) with
      | .ok r => .ok (SBV.ofBVec bits :: r)
      | .err => .err
      | .panic => .panic)
    | .err => .err
    | .panic => .panic

/-- `WaveletTree::new` -/
def WT.new (seq : List Nat) : Res WT :=
  if seq.isEmpty then .ok ⟨[], 0, 0, 0, []⟩
  else
    let symbols := sortDedup seq
    let sigma := symbols.length
    let height := if sigma ≤ 1 then 1 else bitLen (sigma - 1)
    match buildLevels height (seq.map (fun s => (codeOf symbols s).getD 0)) with
    | .ok levels => .ok ⟨levels, height, sigma, seq.length, symbols⟩
    | .err => .err
    | .panic => .panic

/-- `bv.get(pos).unwrap_or(false)` -/
def getOrFalse (v : BVec) (pos : Nat) : Res Bool :=
  match v.get pos with
  | .ok b => .ok b
  | .err => .ok false
  | .panic => .panic

/-- the descent of `access` -/
def accessLoop : List SBV → Nat → Nat → Nat → Res Nat
  | [], _, _, code => .ok code
  | bv :: rest, h, pos, code =>
    -- `h` = number of levels from here on; this level tests bit `h - 1`
    match getOrFalse bv.inner pos with
    | .ok true =>
      (match bv.countZeros, bv.rank1 pos with
       | .ok z, .ok r => accessLoop rest (h - 1) (z + r) (code ||| (1 <<< (h - 1)))
       | _, _ => .panic)
    | .ok false =>
      (match bv.rank0 pos with
       | .ok r => accessLoop rest (h - 1) r code
       | .err => .err
       | .panic => .panic)
    | .err => .err
    | .panic => .panic

/-- `access` -/
def WT.access (w : WT) (i : Nat) : Res Nat :=
  if i ≥ w.len then .panic
  else match accessLoop w.levels w.height i 0 with
    | .ok code => .ok (w.symbols.getD code 0)
    | .err => .err
    | .panic => .panic

/-- the descent shared by `rank` and `select`: maps the interval `[lo, hi)` down to the leaves -/
def descend (code : Nat) : List SBV → Nat → Nat → Nat → Res (Nat × Nat)
  | [], _, lo, hi => .ok (lo, hi)
  | bv :: rest, h, lo, hi =>
    if !bitOf (h - 1) code then
      (match bv.rank0 lo, bv.rank0 hi with
       | .ok a, .ok b => descend code rest (h - 1) a b
       | _, _ => .panic)
    else
      (match bv.countZeros, bv.rank1 lo, bv.rank1 hi with
       | .ok z, .ok a, .ok b => descend code rest (h - 1) (z + a) (z + b)
       | _, _, _ => .panic)

/-- `rank` -/
def WT.rank (w : WT) (sym i : Nat) : Res Nat :=
  if i = 0 ∨ w.len = 0 then .ok 0
  else match codeOf w.symbols sym with
    | none => .ok 0
    | some code => (match descend code w.levels w.height 0 (min i w.len) with
      | .ok (lo, hi) => usub hi lo
      | .err => .err
      | .panic => .panic)

/-- the ascent of `select`; `levels` reversed, `h` = index of the level's bit counted from the leaves -/
def ascend (code : Nat) : List SBV → Nat → Nat → Res (Option Nat)
  | [], _, pos => .ok (some pos)
  | bv :: rest, bitPos, pos =>
    if !bitOf bitPos code then
      (match bv.select0 pos with
       | .ok (some p) => ascend code rest (bitPos + 1) p
       | .ok none => .ok none
       | .err => .err
       | .panic => .panic)
    else
      (match bv.countZeros with
       | .ok z =>
         if pos < z then .panic
         else (match bv.select1 (pos - z) with
           | .ok (some p) => ascend code rest (bitPos + 1) p
           | .ok none => .ok none
           | .err => .err
           | .panic => .panic)
       | .err => .err
       | .panic => .panic)

/-- `select` -/
def WT.select (w : WT) (sym k : Nat) : Res (Option Nat) :=
  if w.len = 0 then .ok none
  else match codeOf w.symbols sym with
    | none => .ok none
    | some code => (match descend code w.levels w.height 0 w.len with
      | .ok (lo, hi) =>
        if hi < lo then .panic
        else if k ≥ hi - lo then .ok none
        else ascend code w.levels.reverse 0 (lo + k)
      | .err => .err
      | .panic => .panic)

def accessAll (w : WT) : Nat → Nat → Res (List Nat)
  | 0, _ => .ok []
  | n + 1, i => match w.access i with
    | .ok v => (match accessAll w n (i + 1) with
      | .ok r => .ok (v :: r)
      | .err => .err
      | .panic => .panic)
    | .err => .err
    | .panic => .panic

/-- `iter().collect()` -/
def WT.decode (w : WT) : Res (List Nat) := accessAll w w.len 0

def WT.payloadBytes (w : WT) : Nat :=
  (w.levels.map SBV.sizeBytes).sum + w.symbols.length * 8 + w.symbols.length * 16

/-! ## the code before the repairs (regression witnesses only) -/

namespace Old

/-- `filled` used to fill the unused bits of the last word too -/
def BVec.filled (n : Nat) (v : Bool) : BVec := ⟨List.replicate (nWords n) (if v then W - 1 else 0), n⟩

/-- `not` used to flip the unused bits of the last word too -/
def BVec.not (a : BVec) : BVec := ⟨a.data.map notW, a.len⟩

/-- block ranks used to be stored as `relative_rank as u8`, one per block -/
def sbvStep (len : Nat) (st : SbvSt) (blockIdx w : Nat) : SbvSt :=
  { sb := if blockIdx % 8 = 0 then st.sb ++ [st.ones] else st.sb
    br := st.br ++ [(st.ones - (if blockIdx % 8 = 0 then st.ones else st.sbStart)) % 256]
    s1 := st.s1
    s0 := st.s0
    ones := st.ones + wordOnes len blockIdx w
    zeros := st.zeros
    sbStart := if blockIdx % 8 = 0 then st.ones else st.sbStart }

def sbvLoop (len : Nat) : SbvSt → Nat → List Nat → SbvSt
  | st, _, [] => st
  | st, i, w :: ws => sbvLoop len (sbvStep len st i w) (i + 1) ws

/-- `rank1` over the old index (`blockRanks` = one truncated value per block) -/
def rank1 (v : BVec) (pos : Nat) : Res Nat :=
  if pos = 0 then .ok 0
  else if pos ≥ v.len then .ok (sbvLoop v.len {} 0 v.data).ones
  else match (sbvLoop v.len {} 0 v.data).sb[pos / 512]? with
    | none => .panic
    | some r0 =>
      if pos % 64 > 0 ∧ pos / 64 < v.data.length then
        .ok (r0 + (sbvLoop v.len {} 0 v.data).br.getD (pos / 64) 0 +
          popcount (v.data.getD (pos / 64) 0 &&& (2 ^ (pos % 64) - 1)))
      else .ok (r0 + (sbvLoop v.len {} 0 v.data).br.getD (pos / 64) 0)

/-- `lower_bits` used to be the bit length of `(last + 1) / n` in `u64`, up to 64 -/
def efLowerBits (n last : Nat) : Nat := if last + 1 ≤ n then 0 else bitLen ((last + 1) / n)

/-- the two panics of the old `EliasFano::new`: `values[n-1] + 1` and `values[n-1] >> 64` -/
def efNewPanics (vs : List Nat) : Bool :=
  match vs.getLast? with
  | none => false
  | some last => decide (last + 1 ≥ W) || decide (efLowerBits vs.length last ≥ 64)

/-- `Vec::<Run>::with_capacity(run_count)` used to panic ("capacity overflow") when
`run_count * 16 > isize::MAX`, before any run was read -/
def rleDecompress (data : List Nat) : Res (List Nat) :=
  if data.length ≥ 8 ∧ ofLe (data.take 8) ≥ 2 ^ 59 then .panic
  else match Rle.fromBytes data with
    | some r => .ok r.decode
    | none => .err

/-- `get` used to look at the hot buffer only; `set` and `remove` left a compressed copy in place -/
def PCol.get (c : PCol) (id : Nat) : Option PV := hmGet c.values id
def PCol.set (c : PCol) (id : Nat) (v : PV) : PCol := c.setHot id v
def PCol.remove (c : PCol) (id : Nat) : PCol := { c with values := hmRemove c.values id }

end Old

/-! ## specifications (plain definitions the encodings are compared with) -/

namespace Spec

/-- number of `b`s among the first `pos` elements -/
def rank (b : Bool) (bs : List Bool) (pos : Nat) : Nat := ((bs.take pos).filter (· == b)).length

/-- position of the `k`-th `b` (0-indexed), counted from `off` -/
def select (b : Bool) : List Bool → Nat → Nat → Option Nat
  | [], _, _ => none
  | x :: xs, k, off =>
    if x == b then (if k = 0 then some off else select b xs (k - 1) (off + 1))
    else select b xs k (off + 1)

/-- number of `s` among the first `i` symbols -/
def symRank (seq : List Nat) (s i : Nat) : Nat := ((seq.take i).filter (· == s)).length

/-- position of the `k`-th `s` -/
def symSelect (s : Nat) : List Nat → Nat → Nat → Option Nat
  | [], _, _ => none
  | x :: xs, k, off =>
    if x == s then (if k = 0 then some off else symSelect s xs (k - 1) (off + 1))
    else symSelect s xs k (off + 1)

/-- index of the last element `≤ value` of a sorted list -/
def predecessor (vs : List Nat) (value : Nat) : Option Nat :=
  match (vs.filter (· ≤ value)).length with
  | 0 => none
  | n + 1 => some n

/-- index of the first element `≥ value` of a sorted list -/
def successor (vs : List Nat) (value : Nat) : Option Nat :=
  if (vs.filter (· < value)).length < vs.length then some (vs.filter (· < value)).length else none

/-- first-occurrence order of the non-null values -/
def distinct : List (Option Str) → List Str → List Str
  | [], acc => acc
  | none :: vs, acc => distinct vs acc
  | some s :: vs, acc => if acc.contains s then distinct vs acc else distinct vs (acc ++ [s])

end Spec

end Grafeo.Codec2
