/-
Specification of the core read-query fragment shared by GQL and Cypher (C08), and a model of
the operator pipeline the planner builds for it (scan → expand* → filter → project/aggregate →
distinct → sort → skip → limit).

* `Spec.eval` enumerates **all bindings** of the pattern variables to nodes and edges of the
  graph, keeps those that satisfy the pattern and the predicate, then applies the clauses in
  order — the property's own wording.
* `Pipe.exec` is the pipeline: label scan, one expand per hop along the adjacency of the bound
  node, the predicate applied as a filter on the expanded rows.
Values are `none` (null / missing), integers and strings; comparison is three-valued as in
`filter.rs` (`compare_values`: int–int, string–string, anything else unknown).
-/
namespace Grafeo.Query

inductive Val where
  | null
  | int (i : Int)
  | str (s : String)
  deriving DecidableEq, Repr

structure Node where
  id : Nat
  labels : List Nat
  props : List (Nat × Val)
  deriving Repr

structure Edge where
  id : Nat
  src : Nat
  dst : Nat
  ty : Nat
  deriving Repr

structure Graph where
  nodes : List Node
  edges : List Edge
  deriving Repr

inductive Dir where
  | out | inc | both
  deriving DecidableEq, Repr

structure NodePat where
  label : Option Nat
  deriving Repr

structure Hop where
  ty : Option Nat
  dir : Dir
  target : NodePat
  deriving Repr

inductive Cmp where
  | eq | ne | lt | le | gt | ge
  deriving DecidableEq, Repr

/-- `var.key <op> literal`, `var.key IS NULL`, `var.key IS NOT NULL`, or the negation of a comparison -/
inductive Pred where
  | cmp (var key : Nat) (op : Cmp) (lit : Val)
  | notCmp (var key : Nat) (op : Cmp) (lit : Val)
  | isNull (var key : Nat)
  | isNotNull (var key : Nat)
  deriving Repr

inductive Ret where
  | props (cols : List (Nat × Nat))      -- (pattern variable index, property key)
  | countStar
  deriving Repr

structure Q where
  start : NodePat
  hops : List Hop
  preds : List Pred                      -- conjunction
  ret : Ret
  distinct : Bool
  orderBy : List (Nat × Bool)            -- (column index into the projected row, ascending?)
  skip : Option Nat
  limit : Option Nat
  deriving Repr

def Graph.node? (g : Graph) (id : Nat) : Option Node := g.nodes.find? (·.id == id)

def propOf (n : Node) (k : Nat) : Val :=
  match n.props.find? (·.1 == k) with
  | some (_, v) => v
  | none => .null

def labelOk (p : NodePat) (n : Node) : Bool :=
  match p.label with
  | some l => n.labels.contains l
  | none => true

/-- three-valued comparison (`none` = unknown) -/
def cmpVals (op : Cmp) (a b : Val) : Option Bool :=
  let ord : Option Ordering := match a, b with
    | .int x, .int y => some (compare x y)
    | .str x, .str y => some (compare x y)
    | _, _ => none
  match op, ord with
  | .eq, some o => some (o == .eq)
  | .ne, some o => some (o != .eq)
  | .lt, some o => some (o == .lt)
  | .le, some o => some (o != .gt)
  | .gt, some o => some (o == .gt)
  | .ge, some o => some (o != .lt)
  -- `=` / `<>` between values of different kinds: `values_equal` answers false / true for
  -- non-null operands of different types, unknown when an operand is null
  | .eq, none => (match a, b with | .null, _ => none | _, .null => none | _, _ => some false)
  | .ne, none => (match a, b with | .null, _ => none | _, .null => none | _, _ => some true)
  | _, none => none

/-- a binding: the node bound to each pattern variable, in pattern order -/
abbrev Binding := List Node

def valAt (b : Binding) (var key : Nat) : Val :=
  match b[var]? with
  | some n => propOf n key
  | none => .null

def evalPred (b : Binding) : Pred → Option Bool
  | .cmp v k op lit => cmpVals op (valAt b v k) lit
  | .notCmp v k op lit => (cmpVals op (valAt b v k) lit).map (!·)
  | .isNull v k => some (valAt b v k == .null)
  | .isNotNull v k => some (valAt b v k != .null)

def passes (preds : List Pred) (b : Binding) : Bool := preds.all (fun p => evalPred b p == some true)

/-- edge type test of a hop -/
def tyOk (h : Hop) (e : Edge) : Bool :=
  match h.ty with | some t => e.ty == t | none => true

namespace Spec

/-- does edge `e` connect `a` to `c` in the way the hop demands? -/
def hopMatches (h : Hop) (a c : Node) (e : Edge) : Bool :=
  tyOk h e &&
  (match h.dir with
   | .out => e.src == a.id && e.dst == c.id
   | .inc => e.dst == a.id && e.src == c.id
   | .both => (e.src == a.id && e.dst == c.id) || (e.dst == a.id && e.src == c.id))

/-- all bindings: every choice of a node per variable and an edge per hop -/
def extend (g : Graph) : List Hop → Binding → List Binding
  | [], b => [b]
  | h :: hs, b =>
    match b.getLast? with
    | none => []
    | some a =>
      g.nodes.flatMap (fun c =>
        g.edges.flatMap (fun e =>
          if hopMatches h a c e && labelOk h.target c then extend g hs (b ++ [c]) else []))

def bindings (g : Graph) (q : Q) : List Binding :=
  (g.nodes.filter (labelOk q.start)).flatMap (fun a => extend g q.hops [a])

end Spec

namespace Pipe

/-- expand along the adjacency of the bound node: out-edges, in-edges or both -/
def expandStep (g : Graph) (h : Hop) (b : Binding) : List Binding :=
  match b.getLast? with
  | none => []
  | some a =>
    let outs := g.edges.filter (fun e => e.src == a.id)
    let ins := g.edges.filter (fun e => e.dst == a.id)
    let cands : List (Edge × Nat) := match h.dir with
      | .out => outs.map (fun e => (e, e.dst))
      | .inc => ins.map (fun e => (e, e.src))
      -- forward adjacency chained with backward adjacency; a self-loop sits in both lists of its
      -- node and is taken from the forward one only (`LpgStore::edges_from`, `Direction::Both`)
      | .both => outs.map (fun e => (e, e.dst)) ++ (ins.filter (fun e => e.src != a.id)).map (fun e => (e, e.src))
    cands.filterMap (fun (e, cid) =>
      if tyOk h e then
        match g.node? cid with
        | some c => if labelOk h.target c then some (b ++ [c]) else none
        | none => none
      else none)

def bindings (g : Graph) (q : Q) : List Binding :=
  q.hops.foldl (fun rows h => rows.flatMap (expandStep g h)) ((g.nodes.filter (labelOk q.start)).map (fun a => [a]))

end Pipe

/-! ### clauses after the pattern (shared by spec and pipeline) -/

def project (cols : List (Nat × Nat)) (b : Binding) : List Val := cols.map (fun (v, k) => valAt b v k)

def dedup : List (List Val) → List (List Val)
  | [] => []
  | r :: rs => r :: (dedup rs).filter (· != r)

def valLt (a b : Val) : Bool :=
  match a, b with
  | .int x, .int y => x < y
  | .str x, .str y => x < y
  | _, _ => false

def rowLt (keys : List (Nat × Bool)) (a b : List Val) : Bool :=
  match keys with
  | [] => false
  | (i, asc) :: rest =>
    let x := a.getD i .null
    let y := b.getD i .null
    if x == y then rowLt rest a b
    else if asc then valLt x y else valLt y x

def insertBy (lt : List Val → List Val → Bool) (x : List Val) : List (List Val) → List (List Val)
  | [] => [x]
  | y :: ys => if lt x y then x :: y :: ys else y :: insertBy lt x ys

def sortRows (keys : List (Nat × Bool)) (rows : List (List Val)) : List (List Val) :=
  rows.foldr (insertBy (rowLt keys)) []

/-- the clauses after the pattern, in clause order: WHERE, RETURN (projection or count),
DISTINCT over the projected rows, ORDER BY, SKIP, LIMIT. The planner builds exactly this
sequence of operators above the pattern (Filter, Project, Distinct, Sort, Skip, Limit), so the
specification and the pipeline share it; they differ in how the bindings are found. -/
def finish (q : Q) (bs : List Binding) : List (List Val) :=
  let kept := bs.filter (passes q.preds)
  let rows : List (List Val) := match q.ret with
    | .props cols => kept.map (project cols)
    | .countStar => [[.int kept.length]]
  let rows := if q.distinct then dedup rows else rows
  let rows := if q.orderBy.isEmpty then rows else sortRows q.orderBy rows
  let rows := match q.skip with | some s => rows.drop s | none => rows
  match q.limit with | some n => rows.take n | none => rows

def Spec.eval (g : Graph) (q : Q) : List (List Val) := finish q (Spec.bindings g q)
def Pipe.exec (g : Graph) (q : Q) : List (List Val) := finish q (Pipe.bindings g q)

end Grafeo.Query
