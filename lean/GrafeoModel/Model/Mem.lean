/-!
# Model of `BufferManager` accounting under thread interleavings (C20, memory clause)

`crates/grafeo-common/src/memory/buffer/manager.rs`, `grant.rs`.

Shared state: the `allocated` total and the four per-region counters (`AtomicUsize`), the hard
limit.  Every access to a shared atomic is one step of the model; everything a thread computes
between two accesses is local and folded into the step that follows the access it depends on.

  try_allocate / try_allocate_raw
      try_reserve(size)                      attempt 1
        load allocated                       ↦ step at `Pc.load`
        loop: checked_add + limit check      ↦ local (folded into the load / failed-CAS step)
              compare_exchange_weak          ↦ step at `Pc.cas cur`
      (failed) run_eviction_cycle(true)      ↦ no registered consumer in the modelled runs: reads only
      try_reserve(size)                      attempt 2
      region_allocated[r].fetch_add          ↦ step at `Pc.region`
  MemoryGrant::drop → release
      allocated.fetch_sub                    ↦ step at `Pc.relTotal`
      region_allocated[r].fetch_sub          ↦ step at `Pc.relRegion`

`asIs = true` is the code before commit "fix: the buffer manager checks its hard limit and
reserves in one atomic step": the limit check used the loaded value and the increment was a
separate `fetch_add`.

No imports: linked into `gdriver`.
-/
namespace Grafeo.Mem

inductive Op where
  | alloc (size region : Nat)
  /-- drop the `k`-th grant this thread still holds (no-op when there is none) -/
  | drop (k : Nat)
deriving Repr, DecidableEq

inductive Pc where
  | idle
  | load (size region attempt : Nat)
  | cas (size region attempt cur : Nat)
  | region (size region : Nat)
  | relTotal (size region : Nat)
  | relRegion (size region : Nat)
deriving Repr, DecidableEq

structure Thread where
  pc : Pc := .idle
  todo : List Op := []
  /-- outcome of each finished `alloc`, oldest first -/
  results : List Bool := []
  /-- grants held: (size, region) -/
  held : List (Nat × Nat) := []
deriving Repr

structure State where
  hard : Nat
  allocated : Nat := 0
  regions : List Nat := [0, 0, 0, 0]
  threads : List Thread := []
  /-- greatest value `allocated` ever had (ghost) -/
  maxAlloc : Nat := 0
deriving Repr

def addAt (l : List Nat) (i d : Nat) : List Nat := l.mapIdx (fun j x => if j = i then x + d else x)
def subAt (l : List Nat) (i d : Nat) : List Nat := l.mapIdx (fun j x => if j = i then x - d else x)

/-- the attempt failed its limit check: second attempt after the eviction cycle, or give up -/
def failAttempt (t : Thread) (size region attempt : Nat) : Thread :=
  if attempt = 1 then { t with pc := .load size region 2 }
  else { t with pc := .idle, results := t.results ++ [false] }

/-- one atomic step of thread `t` on the shared counters -/
def stepThread (asIs : Bool) (hard allocated : Nat) (regions : List Nat) (t : Thread) :
    Nat × List Nat × Thread :=
  match t.pc with
  | .idle =>
    match t.todo with
    | [] => (allocated, regions, t)
    | .alloc s r :: rest => (allocated, regions, { t with pc := .load s r 1, todo := rest })
    | .drop k :: rest =>
      match t.held[k]? with
      | none => (allocated, regions, { t with todo := rest })
      | some (s, r) =>
        -- `MemoryGrant::drop` releases only `if size > 0`
        if s = 0 then (allocated, regions, { t with todo := rest, held := t.held.eraseIdx k })
        else (allocated, regions, { t with pc := .relTotal s r, todo := rest, held := t.held.eraseIdx k })
  | .load s r a =>
    -- `allocated.load`; the limit check on the loaded value is local
    if allocated + s > hard then (allocated, regions, failAttempt t s r a)
    else (allocated, regions, { t with pc := .cas s r a allocated })
  | .cas s r a cur =>
    if asIs then
      -- before the fix: an unconditional `fetch_add` after the check
      (allocated + s, regions, { t with pc := .region s r })
    else if allocated = cur then
      (cur + s, regions, { t with pc := .region s r })
    else
      -- the CAS failed and returned the current value; re-check locally
      if allocated + s > hard then (allocated, regions, failAttempt t s r a)
      else (allocated, regions, { t with pc := .cas s r a allocated })
  | .region s r =>
    (allocated, addAt regions r s, { t with pc := .idle, results := t.results ++ [true], held := t.held ++ [(s, r)] })
  | .relTotal s r => (allocated - s, regions, { t with pc := .relRegion s r })
  | .relRegion s r => (allocated, subAt regions r s, { t with pc := .idle })

def Thread.done (t : Thread) : Bool := t.pc == .idle && t.todo.isEmpty

/-- thread `i` takes one step (nothing happens when `i` is out of range or finished) -/
def step (asIs : Bool) (st : State) (i : Nat) : State :=
  match st.threads[i]? with
  | none => st
  | some t =>
    let (a, rs, t') := stepThread asIs st.hard st.allocated st.regions t
    { st with allocated := a, regions := rs, threads := st.threads.set i t', maxAlloc := max st.maxAlloc a }

def runSched (asIs : Bool) (st : State) (sched : List Nat) : State := sched.foldl (step asIs) st

/-- after the schedule, the threads run to completion one after the other (lowest index first);
`fuel` bounds the steps per thread (every program finishes when run alone) -/
def finishThread (asIs : Bool) : Nat → State → Nat → State
  | 0, st, _ => st
  | fuel + 1, st, i =>
    match st.threads[i]? with
    | none => st
    | some t => if t.done then st else finishThread asIs fuel (step asIs st i) i

def finishAll (asIs : Bool) (fuel : Nat) (st : State) : State :=
  (List.range st.threads.length).foldl (finishThread asIs fuel) st

def init (hard : Nat) (progs : List (List Op)) : State :=
  { hard := hard, threads := progs.map (fun p => { todo := p }) }

def heldTotal (st : State) : Nat := (st.threads.map (fun t => (t.held.map (·.1)).sum)).sum

end Grafeo.Mem
