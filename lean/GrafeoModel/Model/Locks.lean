/-!
# Lock-order model (C20, deadlock clause)

A thread holds some locks and may be waiting for one more.  A system state is deadlocked when a
non-empty set of threads each wait for a lock that a thread of the set holds.  If every nested
acquisition in the code (`held → wanted`, the edges `tools/extract_locks.py` regenerates from the
source) goes from a lower to a higher rank, no state is deadlocked.

Conservative: read and write guards are not distinguished (a shared guard is treated as if it
excluded everyone), so the theorem covers `parking_lot`'s writer-priority policy, where a queued
writer turns a read-read cycle into a deadlock.
-/
namespace Grafeo.Locks

structure Thread where
  held : List String
  wants : Option String
deriving Repr

def rankOf (rank : List (String × Nat)) (l : String) : Nat :=
  match rank.find? (fun p => p.1 == l) with
  | some p => p.2
  | none => 0

/-- every edge goes strictly upwards in rank (checked by `decide` on the generated tables) -/
def edgesRespectRank (edges : List (String × String × String)) (rank : List (String × Nat)) : Bool :=
  edges.all (fun e => decide (rankOf rank e.1 < rankOf rank e.2.1))

/-- a thread's nested acquisition is one the extraction saw -/
def Respects (edges : List (String × String × String)) (t : Thread) : Prop :=
  ∀ w, t.wants = some w → ∀ h ∈ t.held, ∃ f, (h, w, f) ∈ edges

/-- a non-empty set of threads, each waiting for a lock held inside the set -/
def Deadlocked (ts : List Thread) : Prop :=
  ts ≠ [] ∧ ∀ t ∈ ts, ∃ w, t.wants = some w ∧ ∃ t' ∈ ts, w ∈ t'.held

end Grafeo.Locks
