/-
Model of the property-graph store `crates/grafeo-core/src/graph/lpg/store.rs` (`LpgStore`,
non-tiered build) together with the visibility rules of `grafeo-common/src/mvcc.rs`.

What is versioned and what is not follows the source exactly:
* nodes and edges have a version chain (here: the list of versions, newest first; every code
  path creates exactly one version per entity, `mark_deleted` stamps it in place,
  `remove_versions_by` drops it);
* labels (`node_labels`), the label index, properties, the property indexes and the adjacency
  lists are single-version side tables, changed in place.

Ids, labels, edge types and property keys are natural-number codes; property values are opaque
tokens compared for equality (`String`).
-/
namespace Grafeo.Lpg

/-- `TxId::SYSTEM` -/
def systemTx : Nat := 1

/-- `EpochId::PENDING`: the stamp of a version whose transaction has not committed -/
def pendingEpoch : Nat := 2 ^ 64 - 1

structure Ver where
  created : Nat            -- created_epoch
  owner : Nat              -- created_by
  deleted : Option Nat     -- deleted_epoch
  deriving DecidableEq, Repr

/-- `VersionInfo::is_visible_at` -/
def Ver.visibleAt (v : Ver) (epoch : Nat) : Bool :=
  v.created ≤ epoch && (match v.deleted with | some d => d > epoch | none => true)

/-- `VersionInfo::is_visible_to` -/
def Ver.visibleTo (v : Ver) (epoch tx : Nat) : Bool :=
  if v.owner = tx then v.deleted.isNone else v.visibleAt epoch

structure EdgeRec where
  src : Nat
  dst : Nat
  ty : Nat
  deriving DecidableEq, Repr

abbrev AList (ν : Type) := List (Nat × ν)

def aget {ν : Type} (l : AList ν) (k : Nat) : Option ν :=
  match l with
  | [] => none
  | (k', v) :: rest => if k' = k then some v else aget rest k

def aset {ν : Type} (l : AList ν) (k : Nat) (v : ν) : AList ν :=
  match l with
  | [] => [(k, v)]
  | (k', v') :: rest => if k' = k then (k, v) :: rest else (k', v') :: aset rest k v

def aerase {ν : Type} (l : AList ν) (k : Nat) : AList ν := l.filter (fun kv => kv.1 != k)

def sinsert (s : List Nat) (x : Nat) : List Nat := if x ∈ s then s else s ++ [x]
def serase (s : List Nat) (x : Nat) : List Nat := s.filter (· != x)

structure Store where
  epoch : Nat := 0                         -- the store's own counter (`current_epoch`)
  nextNode : Nat := 0
  nextEdge : Nat := 0
  nodes : AList (List Ver) := []           -- id ↦ version chain
  nodeLabels : AList (List Nat) := []      -- id ↦ label set
  labelIdx : AList (List Nat) := []        -- label ↦ node set
  nprops : AList (AList String) := []      -- id ↦ key ↦ value token
  edges : AList (List Ver × EdgeRec) := []
  eprops : AList (AList String) := []
  fwd : AList (List (Nat × Nat)) := []     -- src ↦ live (dst, edge) entries
  bwd : AList (List (Nat × Nat)) := []     -- dst ↦ live (src, edge) entries
  hasBwd : Bool := true
  pidx : AList (List (String × List Nat)) := []   -- key ↦ value token ↦ node set
  deriving Repr

/-- `chain.visible_at(epoch)` is `Some(record)` (records are never flagged deleted themselves) -/
def chainVisibleAt (c : List Ver) (epoch : Nat) : Bool := c.any (·.visibleAt epoch)
def chainVisibleTo (c : List Ver) (epoch tx : Nat) : Bool := c.any (·.visibleTo epoch tx)

/-- `VersionChain::mark_deleted`: the first version without a deletion stamp gets one. -/
def chainMarkDeleted (epoch : Nat) : List Ver → List Ver
  | [] => []
  | v :: vs => if v.deleted.isNone then { v with deleted := some epoch } :: vs else v :: chainMarkDeleted epoch vs

/-! ### nodes -/

/-- `create_node_versioned(labels, epoch, tx)` -/
def Store.createNode (s : Store) (labels : List Nat) (epoch tx : Nat) : Store × Nat :=
  let id := s.nextNode
  let lset := labels.foldl sinsert []
  let lidx := labels.foldl (fun idx l => aset idx l (sinsert ((aget idx l).getD []) id)) s.labelIdx
  ({ s with nextNode := id + 1, nodes := aset s.nodes id [⟨epoch, tx, none⟩],
            nodeLabels := aset s.nodeLabels id lset, labelIdx := lidx }, id)

/-- `create_node_with_id` (WAL replay / import): store epoch, SYSTEM, bumps the id counter. -/
def Store.createNodeWithId (s : Store) (id : Nat) (labels : List Nat) : Store :=
  let lset := labels.foldl sinsert []
  let lidx := labels.foldl (fun idx l => aset idx l (sinsert ((aget idx l).getD []) id)) s.labelIdx
  { s with nextNode := if id ≥ s.nextNode then id + 1 else s.nextNode,
           nodes := aset s.nodes id [⟨s.epoch, systemTx, none⟩],
           nodeLabels := aset s.nodeLabels id lset, labelIdx := lidx }

def Store.nodeLabelsOf (s : Store) (id : Nat) : List Nat := (aget s.nodeLabels id).getD []
def Store.nodePropsOf (s : Store) (id : Nat) : AList String := (aget s.nprops id).getD []

/-- `get_node_versioned` / `get_node_at_epoch`: `some (labels, props)` when visible. -/
def Store.getNodeTo (s : Store) (id epoch tx : Nat) : Option (List Nat × AList String) :=
  match aget s.nodes id with
  | none => none
  | some c => if chainVisibleTo c epoch tx then some (s.nodeLabelsOf id, s.nodePropsOf id) else none

def Store.getNodeAt (s : Store) (id epoch : Nat) : Option (List Nat × AList String) :=
  match aget s.nodes id with
  | none => none
  | some c => if chainVisibleAt c epoch then some (s.nodeLabelsOf id, s.nodePropsOf id) else none

/-- property index maintenance on set (`update_property_index_on_set`) -/
def pidxRemove (vals : List (String × List Nat)) (v : String) (id : Nat) : List (String × List Nat) :=
  match vals with
  | [] => []
  | (v', ids) :: rest =>
    if v' = v then
      let ids' := serase ids id
      if ids'.isEmpty then rest else (v', ids') :: rest
    else (v', ids) :: pidxRemove rest v id

def pidxAdd (vals : List (String × List Nat)) (v : String) (id : Nat) : List (String × List Nat) :=
  match vals with
  | [] => [(v, [id])]
  | (v', ids) :: rest => if v' = v then (v', sinsert ids id) :: rest else (v', ids) :: pidxAdd rest v id

/-- `delete_node_at_epoch` (no detach): stamps the chain, drops labels, label-index entries and
properties; adjacency and property indexes are left alone. -/
def Store.deleteNodeAt (s : Store) (id epoch : Nat) : Store × Bool :=
  match aget s.nodes id with
  | none => (s, false)
  | some c =>
    if !chainVisibleAt c epoch then (s, false)
    else
      let ls := s.nodeLabelsOf id
      let lidx := ls.foldl (fun idx l => match aget idx l with
        | some set => aset idx l (serase set id)
        | none => idx) s.labelIdx
      -- every indexed property of the node is taken out of its index first (repaired code)
      let pidx := (s.nodePropsOf id).foldl (fun px kv => match aget px kv.1 with
        | some vals => aset px kv.1 (pidxRemove vals kv.2 id)
        | none => px) s.pidx
      ({ s with nodes := aset s.nodes id (chainMarkDeleted epoch c),
                nodeLabels := aerase s.nodeLabels id, labelIdx := lidx,
                nprops := aerase s.nprops id, pidx := pidx }, true)

/-- does the entity have a version that is not deleted (committed or pending)? -/
def chainAlive (c : List Ver) : Bool := chainVisibleAt c pendingEpoch

/-- `set_node_property`: nothing is written for a node that does not exist (never created, rolled
back or deleted). -/
def Store.setNodeProp (s : Store) (id key : Nat) (v : String) : Store :=
  if !((aget s.nodes id).map chainAlive).getD false then s else
  let old := aget (s.nodePropsOf id) key
  let pidx := match aget s.pidx key with
    | none => s.pidx
    | some vals =>
      let vals1 := match old with | some o => pidxRemove vals o id | none => vals
      aset s.pidx key (pidxAdd vals1 v id)
  { s with nprops := aset s.nprops id (aset (s.nodePropsOf id) key v), pidx := pidx }

/-- `remove_node_property` -/
def Store.removeNodeProp (s : Store) (id key : Nat) : Store × Option String :=
  let old := aget (s.nodePropsOf id) key
  let pidx := match aget s.pidx key, old with
    | some vals, some o => aset s.pidx key (pidxRemove vals o id)
    | _, _ => s.pidx
  let props' := aerase (s.nodePropsOf id) key
  ({ s with nprops := if (aget s.nprops id).isSome then aset s.nprops id props' else s.nprops, pidx := pidx }, old)

/-- `add_label` (store epoch) -/
def Store.addLabel (s : Store) (id l : Nat) : Store × Bool :=
  match aget s.nodes id with
  | none => (s, false)
  | some c =>
    if !chainVisibleAt c s.epoch then (s, false)
    else if l ∈ s.nodeLabelsOf id then (s, false)
    else ({ s with nodeLabels := aset s.nodeLabels id (s.nodeLabelsOf id ++ [l]),
                   labelIdx := aset s.labelIdx l (sinsert ((aget s.labelIdx l).getD []) id) }, true)

/-- `remove_label` (store epoch). The source first looks the label string up in `label_to_id`
and answers `false` when it has no id; a label without an id is carried by no node, so that
early exit is subsumed by the membership test below and `label_to_id` is not modelled. -/
def Store.removeLabel (s : Store) (id l : Nat) : Store × Bool :=
  match aget s.nodes id with
  | none => (s, false)
  | some c =>
    if !chainVisibleAt c s.epoch then (s, false)
    else match aget s.nodeLabels id with
      | none => (s, false)
      | some ls =>
        if l ∉ ls then (s, false)
        else ({ s with nodeLabels := aset s.nodeLabels id (serase ls l),
                       labelIdx := match aget s.labelIdx l with
                         | some set => aset s.labelIdx l (serase set id)
                         | none => s.labelIdx }, true)

/-- `nodes_by_label` -/
def Store.nodesByLabel (s : Store) (l : Nat) : List Nat := (aget s.labelIdx l).getD []

/-- `node_ids()` / `node_count()`: enumeration at the *store's* epoch. -/
def Store.nodeIds (s : Store) : List Nat :=
  (s.nodes.filter (fun kv => chainVisibleAt kv.2 s.epoch)).map (·.1)

/-! ### edges -/

def adjAdd (a : AList (List (Nat × Nat))) (k other e : Nat) : AList (List (Nat × Nat)) :=
  aset a k ((aget a k).getD [] ++ [(other, e)])

def adjDel (a : AList (List (Nat × Nat))) (k e : Nat) : AList (List (Nat × Nat)) :=
  match aget a k with
  | none => a
  | some l => aset a k (l.filter (fun p => p.2 != e))

/-- `create_edge_versioned` -/
def Store.createEdge (s : Store) (src dst ty epoch tx : Nat) : Store × Nat :=
  let id := s.nextEdge
  ({ s with nextEdge := id + 1, edges := aset s.edges id ([⟨epoch, tx, none⟩], ⟨src, dst, ty⟩),
            fwd := adjAdd s.fwd src dst id,
            bwd := if s.hasBwd then adjAdd s.bwd dst src id else s.bwd }, id)

def Store.createEdgeWithId (s : Store) (id src dst ty : Nat) : Store :=
  { s with nextEdge := if id ≥ s.nextEdge then id + 1 else s.nextEdge,
           edges := aset s.edges id ([⟨s.epoch, systemTx, none⟩], ⟨src, dst, ty⟩),
           fwd := adjAdd s.fwd src dst id,
           bwd := if s.hasBwd then adjAdd s.bwd dst src id else s.bwd }

def Store.getEdgeTo (s : Store) (id epoch tx : Nat) : Option (EdgeRec × AList String) :=
  match aget s.edges id with
  | none => none
  | some (c, r) => if chainVisibleTo c epoch tx then some (r, (aget s.eprops id).getD []) else none

/-- `delete_edge_at_epoch` -/
def Store.deleteEdgeAt (s : Store) (id epoch : Nat) : Store × Bool :=
  match aget s.edges id with
  | none => (s, false)
  | some (c, r) =>
    if !chainVisibleAt c epoch then (s, false)
    else ({ s with edges := aset s.edges id (chainMarkDeleted epoch c, r),
                   fwd := adjDel s.fwd r.src id,
                   bwd := if s.hasBwd then adjDel s.bwd r.dst id else s.bwd,
                   eprops := aerase s.eprops id }, true)

def Store.setEdgeProp (s : Store) (id key : Nat) (v : String) : Store :=
  if !((aget s.edges id).map (fun e => chainAlive e.1)).getD false then s else
  { s with eprops := aset s.eprops id (aset ((aget s.eprops id).getD []) key v) }

/-- `edges_from(node, Outgoing)` / `Incoming` -/
def Store.outEdges (s : Store) (n : Nat) : List (Nat × Nat) := (aget s.fwd n).getD []
def Store.inEdges (s : Store) (n : Nat) : List (Nat × Nat) :=
  if s.hasBwd then (aget s.bwd n).getD []
  else (s.edges.filter (fun kv => chainVisibleAt kv.2.1 s.epoch && kv.2.2.dst == n)).map (fun kv => (kv.2.2.src, kv.1))

def Store.edgeIds (s : Store) : List Nat :=
  (s.edges.filter (fun kv => chainVisibleAt kv.2.1 s.epoch)).map (·.1)

/-- `delete_node_edges` (DETACH): outgoing then incoming, each through `delete_edge` (store epoch). -/
def Store.deleteNodeEdges (s : Store) (n : Nat) : Store :=
  let es := (s.outEdges n).map (·.2) ++ (s.inEdges n).map (·.2)
  es.foldl (fun st e => (st.deleteEdgeAt e st.epoch).1) s

/-! ### property index -/

/-- `create_property_index`: built from the nodes enumerated at the store epoch. -/
def Store.createIndex (s : Store) (key : Nat) : Store :=
  if (aget s.pidx key).isSome then s
  else
    let vals := s.nodeIds.foldl (fun acc id => match aget (s.nodePropsOf id) key with
      | some v => pidxAdd acc v id
      | none => acc) []
    { s with pidx := aset s.pidx key vals }

def Store.dropIndex (s : Store) (key : Nat) : Store := { s with pidx := aerase s.pidx key }

/-- `find_nodes_by_property` -/
def Store.findByProp (s : Store) (key : Nat) (v : String) : List Nat :=
  match aget s.pidx key with
  | some vals => ((vals.find? (fun p => p.1 == v)).map (·.2)).getD []
  | none => s.nodeIds.filter (fun id => aget (s.nodePropsOf id) key == some v)

/-- `discard_uncommitted_versions(tx)`: only the version chains are touched. -/
def Store.discard (s : Store) (tx : Nat) : Store :=
  -- edges all of whose versions belong to `tx` disappear altogether: their adjacency entries and
  -- properties go too (`discard_uncommitted_versions`)
  let gone := s.edges.filter (fun kv => kv.2.1.any (fun v => v.owner == tx) && kv.2.1.all (fun v => v.owner == tx))
  let s1 := gone.foldl (fun st kv =>
    { st with fwd := adjDel st.fwd kv.2.2.src kv.1,
              bwd := if st.hasBwd then adjDel st.bwd kv.2.2.dst kv.1 else st.bwd,
              eprops := aerase st.eprops kv.1 }) s
  { s1 with nodes := (s.nodes.map (fun kv => (kv.1, kv.2.filter (fun v => v.owner != tx)))).filter (fun kv => !kv.2.isEmpty),
            edges := (s.edges.map (fun kv => (kv.1, (kv.2.1.filter (fun v => v.owner != tx), kv.2.2)))).filter (fun kv => !kv.2.1.isEmpty) }

/-- `sync_epoch`: the store's counter follows the manager's, never backwards -/
def Store.syncEpoch (s : Store) (e : Nat) : Store := { s with epoch := max s.epoch e }

def restamp (tx e : Nat) (c : List Ver) : List Ver :=
  c.map (fun v => if v.owner == tx && v.created == pendingEpoch then { v with created := e } else v)

/-- `finalize_versions(tx, commit_epoch)`: pending versions of `tx` get the commit epoch -/
def Store.finalize (s : Store) (tx e : Nat) : Store :=
  { s with nodes := s.nodes.map (fun kv => (kv.1, restamp tx e kv.2)),
           edges := s.edges.map (fun kv => (kv.1, (restamp tx e kv.2.1, kv.2.2))),
           epoch := max s.epoch e }

/-- `all_node_ids()`: every node that has a version, visible or not -/
def Store.allNodeIds (s : Store) : List Nat := s.nodes.map (·.1)

/-- `node_count()` / `edge_count()`: live at `EpochId::PENDING`, i.e. open transactions' work included -/
def Store.nodeCount (s : Store) : Nat := (s.nodes.filter (fun kv => chainVisibleAt kv.2 pendingEpoch)).length
def Store.edgeCount (s : Store) : Nat := (s.edges.filter (fun kv => chainVisibleAt kv.2.1 pendingEpoch)).length

end Grafeo.Lpg
