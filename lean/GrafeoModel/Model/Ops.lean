import GrafeoModel.Generated.Constants
/-
Model of the pull-based operators of `crates/grafeo-core/src/execution/operators/`:
`limit.rs` (LimitOperator, SkipOperator, LimitSkipOperator), `union.rs`, `distinct.rs`.

A child operator is the list of chunks its successive `next()` calls return before `None`;
a chunk is the list of its selected rows. Each operator is the function from the child's
chunk list to the list of chunks its own `next()` returns until it first returns `None`
(the consumer stops at the first `None`).
-/
namespace Grafeo.Ops

variable {α : Type}

/-- `LimitOperator::next`, iterated. `returned` is the operator's counter. -/
def limitOp (limit : Nat) : Nat → List (List α) → List (List α)
  | _, [] => []
  | returned, c :: cs =>
    if returned ≥ limit then []
    else if c.length = 0 then limitOp limit returned cs            -- `continue`
    else if c.length ≤ limit - returned then c :: limitOp limit (returned + c.length) cs
    else [c.take (limit - returned)]                               -- next call: returned ≥ limit

/-- `SkipOperator::next`, iterated. -/
def skipOp (skip : Nat) : Nat → List (List α) → List (List α)
  | _, [] => []
  | skipped, c :: cs =>
    if skipped < skip then
      let toSkip := min (skip - skipped) c.length
      if toSkip ≥ c.length then skipOp skip (skipped + c.length) cs     -- skip entire chunk
      else c.drop toSkip :: skipOp skip skip cs
    else c :: skipOp skip skipped cs                                      -- pass through

/-- `LimitSkipOperator::next`, iterated. -/
def limitSkipOp (skip limit : Nat) : Nat → Nat → List (List α) → List (List α)
  | _, _, [] => []
  | skipped, returned, c :: cs =>
    if returned ≥ limit then []
    else if c.length = 0 then limitSkipOp skip limit skipped returned cs
    else
      let toSkip := if skipped < skip then min (skip - skipped) c.length else 0
      if skipped < skip ∧ toSkip ≥ c.length then limitSkipOp skip limit (skipped + c.length) returned cs
      else
        let skipped' := if skipped < skip then skip else skipped
        let toReturn := min (c.length - toSkip) (limit - returned)
        if toReturn = 0 then []
        else (c.drop toSkip).take toReturn :: limitSkipOp skip limit skipped' (returned + toReturn) cs

/-- `UnionOperator::next`, iterated: inputs drained in order. -/
def unionOp (inputs : List (List (List α))) : List (List α) := inputs.flatten

/-- one chunk of `DistinctOperator::next`: returns (seen', emitted rows, stoppedEarly).
When the builder (capacity `cap`) fills up the operator returns at once — whatever is left of
the input chunk is never looked at again (since the repair the capacity is at least the size of
the input chunk, so that only happens at its last row). -/
def distinctChunk [DecidableEq κ] (key : α → κ) (cap : Nat) :
    List κ → List α → List α → List κ × List α
  | seen, acc, [] => (seen, acc)
  | seen, acc, r :: rs =>
    if key r ∈ seen then distinctChunk key cap seen acc rs
    else
      let acc' := acc ++ [r]
      if acc'.length ≥ cap then (key r :: seen, acc')            -- `builder.is_full()` → return
      else distinctChunk key cap (key r :: seen) acc' rs

/-- `DistinctOperator::next`, iterated: chunks with no new row are skipped. -/
def distinctOp [DecidableEq κ] (key : α → κ) (cap : Nat) : List κ → List (List α) → List (List α)
  | _, [] => []
  | seen, c :: cs =>
    -- the builder has room for the whole input chunk: `chunk.row_count().max(2048)`
    let (seen', out) := distinctChunk key (max cap c.length) seen [] c
    if out.length > 0 then out :: distinctOp key cap seen' cs else distinctOp key cap seen' cs

end Grafeo.Ops
