/-
IEEE-754 binary64 *comparison and classification* on bit patterns (no arithmetic), and the
`i64 as f64` conversion (round to nearest, ties to even), as used by
`crates/grafeo-common/src/types/value.rs` (`OrderedFloat64`, `OrderableValue`, `HashableValue`).
A float is its 64-bit pattern as a `Nat` below `2^64`.
-/
namespace Grafeo.F64

def expField (b : Nat) : Nat := (b / 2 ^ 52) % 2 ^ 11
def fracField (b : Nat) : Nat := b % 2 ^ 52
def signBit (b : Nat) : Nat := (b / 2 ^ 63) % 2
def mag (b : Nat) : Nat := b % 2 ^ 63

/-- `f.is_nan()` -/
def isNaN (b : Nat) : Bool := expField b == 2047 && fracField b != 0

/-- for non-NaN patterns: a key whose integer order is the IEEE order (−0 and +0 both map to 0;
sign–magnitude patterns of the same sign are ordered like their magnitudes). -/
def key (b : Nat) : Int := if signBit b = 1 then -(mag b : Int) else (mag b : Int)

/-- `a == b` on `f64` -/
def feq (a b : Nat) : Bool := !isNaN a && !isNaN b && key a == key b

/-- `a.partial_cmp(&b)` -/
def partialCmp (a b : Nat) : Option Ordering :=
  if isNaN a || isNaN b then none else some (compare (key a) (key b))

/-- number of binary digits -/
def bitLenF : Nat → Nat → Nat
  | 0, _ => 0
  | f + 1, n => if n = 0 then 0 else bitLenF f (n / 2) + 1
def bitLen (n : Nat) : Nat := bitLenF n n

/-- bits of the `f64` nearest to the natural number `m` (ties to even), `m < 2^64`. -/
def natToF64 (m : Nat) : Nat :=
  if m = 0 then 0
  else
    let l := bitLen m                 -- m ∈ [2^(l-1), 2^l)
    if l ≤ 53 then
      -- exact: mantissa = m shifted up to 53 bits
      let mant := m * 2 ^ (53 - l)
      (l - 1 + 1023) * 2 ^ 52 + (mant - 2 ^ 52)
    else
      let sh := l - 53
      let q := m / 2 ^ sh
      let r := m % 2 ^ sh
      let half := 2 ^ (sh - 1)
      let q' := if r > half || (r == half && q % 2 == 1) then q + 1 else q
      -- q' may have become 2^53: the formula below still yields the right pattern
      -- (mantissa overflow carries into the exponent field)
      (l - 1 + 1023) * 2 ^ 52 + (q' - 2 ^ 52)

/-- `(i as f64).to_bits()` for an `i64` -/
def i64ToF64 (i : Int) : Nat :=
  if i ≥ 0 then natToF64 i.toNat else 2 ^ 63 + natToF64 (-i).toNat

end Grafeo.F64
