/-
IEEE-754 binary64 *comparison and classification* on bit patterns (no arithmetic), and the
`i64 as f64` conversion (round to nearest, ties to even), as used by
`crates/grafeo-common/src/types/value.rs` (`OrderedFloat64`, `OrderableValue`, `HashableValue`).
A float is its 64-bit pattern as a `Nat` below `2^64`.
-/
namespace Grafeo.F64

def expField (b : Nat) : Nat := (b / 2 ^ 52) % 2 ^ 11
def fracField (b : Nat) : Nat := b % 2 ^ 52
def signBit (b : Nat) : Nat := (b / 2 ^ 63) % 2
def mag (b : Nat) : Nat := b % 2 ^ 63

/-- `f.is_nan()` -/
def isNaN (b : Nat) : Bool := expField b == 2047 && fracField b != 0

/-- for non-NaN patterns: a key whose integer order is the IEEE order (−0 and +0 both map to 0;
sign–magnitude patterns of the same sign are ordered like their magnitudes). -/
def key (b : Nat) : Int := if signBit b = 1 then -(mag b : Int) else (mag b : Int)

/-- `a == b` on `f64` -/
def feq (a b : Nat) : Bool := !isNaN a && !isNaN b && key a == key b

/-- `a.partial_cmp(&b)` -/
def partialCmp (a b : Nat) : Option Ordering :=
  if isNaN a || isNaN b then none else some (compare (key a) (key b))

/-- number of binary digits -/
def bitLenF : Nat → Nat → Nat
  | 0, _ => 0
  | f + 1, n => if n = 0 then 0 else bitLenF f (n / 2) + 1
def bitLen (n : Nat) : Nat := bitLenF n n

/-- bits of the `f64` nearest to the natural number `m` (ties to even), `m < 2^64`. -/
def natToF64 (m : Nat) : Nat :=
  if m = 0 then 0
  else
    let l := bitLen m                 -- m ∈ [2^(l-1), 2^l)
    if l ≤ 53 then
      -- exact: mantissa = m shifted up to 53 bits
      let mant := m * 2 ^ (53 - l)
      (l - 1 + 1023) * 2 ^ 52 + (mant - 2 ^ 52)
    else
      let sh := l - 53
      let q := m / 2 ^ sh
      let r := m % 2 ^ sh
      let half := 2 ^ (sh - 1)
      let q' := if r > half || (r == half && q % 2 == 1) then q + 1 else q
      -- q' may have become 2^53: the formula below still yields the right pattern
      -- (mantissa overflow carries into the exponent field)
      (l - 1 + 1023) * 2 ^ 52 + (q' - 2 ^ 52)

/-- `(i as f64).to_bits()` for an `i64` -/
def i64ToF64 (i : Int) : Nat :=
  if i ≥ 0 then natToF64 i.toNat else 2 ^ 63 + natToF64 (-i).toNat

/-! ### Exact value, `trunc`, `as i64` (added for the exact Int64/Float64 comparison of
`OrderableValue`) -/

/-- significand, with the implicit leading bit of a normal number -/
def sig (b : Nat) : Nat := if expField b = 0 then fracField b else 2 ^ 52 + fracField b

/-- `|value| · 2^1074` as a natural number: every finite `f64` is an integer multiple of `2^-1074`
(`e - 1` is truncated subtraction: subnormals and the first binade share the scale `2^0`).
The formula is also evaluated on infinity / NaN patterns, where it only serves monotonicity. -/
def absScaled (b : Nat) : Nat := sig b * 2 ^ (expField b - 1)

/-- the exact value of a finite pattern, times `2^1074` -/
def scaled (b : Nat) : Int := if signBit b = 1 then -(absScaled b : Int) else (absScaled b : Int)

/-- `f.trunc().to_bits()`: round toward zero to an integral float. Below 1 in magnitude the result
is a zero of the same sign; from `2^52` on (and for infinities / NaN) the value is returned as is;
in between the fractional mantissa bits are cleared. -/
def truncBits (b : Nat) : Nat :=
  let e := expField b
  if e < 1023 then signBit b * 2 ^ 63
  else if e ≥ 1075 then b
  else b - b % 2 ^ (1075 - e)

/-- `f as i64`: NaN gives 0, otherwise truncate toward zero and saturate. -/
def f64ToI64 (b : Nat) : Int :=
  if isNaN b then 0
  else
    let t : Int := if signBit b = 1 then -((absScaled b / 2 ^ 1074 : Nat) : Int) else ((absScaled b / 2 ^ 1074 : Nat) : Int)
    if t < -(2 ^ 63 : Int) then -(2 ^ 63 : Int) else if t > 2 ^ 63 - 1 then 2 ^ 63 - 1 else t

/-- `a >= b` on `f64` (false when either side is NaN) -/
def fge (a b : Nat) : Bool := !isNaN a && !isNaN b && decide (key b ≤ key a)

/-- `a < b` on `f64` (false when either side is NaN) -/
def flt (a b : Nat) : Bool := !isNaN a && !isNaN b && decide (key a < key b)

/-- bits of `9223372036854775808.0_f64` (`2^63`) and of its negation -/
def twoPow63 : Nat := 0x43E0000000000000
def negTwoPow63 : Nat := 0xC3E0000000000000

end Grafeo.F64
