/-
C19 — specification of the graph algorithms of
`crates/grafeo-adapters/src/plugins/algorithms/{shortest_path,traversal,components,mst}.rs`
and small executable **result checkers** (translation validation).

Nothing here re-implements an algorithm.  The first half is the mathematical definition over a
finite directed multigraph `es : List (Nat × Nat × Int)` (source, target, weight): walks with their
cost, reachability, minimum distance, cycles.  The second half are boolean checkers that take a
*result together with a certificate order* and accept only correct results; `Props/C19.lean`
proves each of them sound.  The (unverified) searches that produce the certificates live in
`Driver/Algo.lean`; unverified search + verified checker is sound.

Import-free on purpose (linked into the `gdriver` executable).
-/
namespace Grafeo.Graph

/-- a directed weighted edge `(source, target, weight)`; parallel edges and self-loops allowed -/
abbrev Edge := Nat × Nat × Int

structure Graph where
  /-- nodes are `0 .. n-1` -/
  n : Nat
  edges : List Edge

/-! ### specification -/

/-- `Walk es u v c`: there is a directed walk from `u` to `v` along edges of `es` whose weights sum
to `c` (the empty walk has cost 0; edges and nodes may repeat). -/
inductive Walk (es : List Edge) : Nat → Nat → Int → Prop
  | nil (u : Nat) : Walk es u u 0
  | snoc {u v x : Nat} {c w : Int} : Walk es u v c → (v, x, w) ∈ es → Walk es u x (c + w)

/-- `Hops es u v k`: there is a walk from `u` to `v` with exactly `k` edges -/
inductive Hops (es : List Edge) : Nat → Nat → Nat → Prop
  | nil (u : Nat) : Hops es u u 0
  | snoc {u v x k : Nat} {w : Int} : Hops es u v k → (v, x, w) ∈ es → Hops es u x (k + 1)

/-- `v` is reachable from `u` -/
def Reach (es : List Edge) (u v : Nat) : Prop := ∃ c, Walk es u v c

/-- `d` is the shortest-path distance from `s` to `v`: attained by a walk, and a lower bound for
every walk. -/
def IsDist (es : List Edge) (s v : Nat) (d : Int) : Prop :=
  Walk es s v d ∧ ∀ c, Walk es s v c → d ≤ c

/-- there is a closed walk with at least one edge -/
def Cyclic (es : List Edge) : Prop := ∃ u x w c, (u, x, w) ∈ es ∧ Walk es x u c

/-- a cycle of negative total weight can be reached from `s` -/
def NegCycleFrom (es : List Edge) (s : Nat) : Prop :=
  ∃ u a k, Walk es s u a ∧ Walk es u u k ∧ k < 0

def flip (e : Edge) : Edge := (e.2.1, e.1, e.2.2)

/-- every edge reversed -/
def rev (es : List Edge) : List Edge := es.map flip

/-- the graph read as undirected: every edge in both directions -/
def sym (es : List Edge) : List Edge := es ++ es.map flip

/-- every edge with weight 1 (hop counts) -/
def unit (es : List Edge) : List Edge := es.map fun e => (e.1, e.2.1, (1 : Int))

def totalWeight (es : List Edge) : Int := (es.map fun e => e.2.2).foldl (· + ·) 0

/-! ### checkers -/

/-- every edge leaving a listed node lands on a listed node -/
def closedUnder (es : List Edge) (l : List Nat) : Bool :=
  es.all fun e => !l.contains e.1 || l.contains e.2.1

/-- every element of the second list has an in-neighbour among the elements before it
(`pre` = the elements already seen, newest first) -/
def justified (es : List Edge) : List Nat → List Nat → Bool
  | _, [] => true
  | pre, v :: rest =>
    (es.any fun e => e.2.1 == v && pre.contains e.1) && justified es (v :: pre) rest

/-- certificate for "the nodes reachable from `s` are exactly the elements of `order`":
`order` starts with `s`, has no duplicates, every later element has an in-neighbour earlier in the
list, and the list is closed under out-edges. -/
def checkReachOrder (es : List Edge) (s : Nat) (order : List Nat) : Bool :=
  match order with
  | [] => false
  | h :: t => h == s && justified es [h] t && closedUnder es order && decide order.Nodup

/-- `(v, d)` is explained by a tight edge from an earlier entry: `d = d(u) + w` for an edge
`(u, v, w)` and an earlier entry `(u, d(u))` -/
def tight (es : List Edge) (pre : List (Nat × Int)) (v : Nat) (d : Int) : Bool :=
  es.any fun e => e.2.1 == v && pre.any fun q => q.1 == e.1 && q.2 + e.2.2 == d

def ssspJustified (es : List Edge) : List (Nat × Int) → List (Nat × Int) → Bool
  | _, [] => true
  | pre, q :: rest => tight es pre q.1 q.2 && ssspJustified es (q :: pre) rest

/-- every edge out of a listed node is relaxed and lands on a listed node -/
def relaxed (es : List Edge) (r : List (Nat × Int)) : Bool :=
  es.all fun e =>
    match r.lookup e.1 with
    | none => true
    | some du =>
      match r.lookup e.2.1 with
      | none => false
      | some dv => decide (dv ≤ du + e.2.2)

/-- certificate for single-source shortest paths (any integer weights): `r` lists `(node, dist)`,
starts with `(s, 0)`, each later entry is explained by a tight edge from an earlier entry, every
edge out of a listed node is relaxed (`d v ≤ d u + w`) and lands on a listed node, no node twice.
Accepts only if no negative cycle is reachable (then `d s = 0` could not be relaxed). -/
def checkSssp (es : List Edge) (s : Nat) (r : List (Nat × Int)) : Bool :=
  match r with
  | [] => false
  | q :: t =>
    q.1 == s && q.2 == 0 && ssspJustified es [q] t && relaxed es r && decide (r.map Prod.fst).Nodup

/-- follow the listed edges from `u`; every edge must be an edge of the graph and start where the
previous one ended; yields the end node and the total weight -/
def walkEnd (es : List Edge) : Nat → List Edge → Option (Nat × Int)
  | u, [] => some (u, 0)
  | u, e :: rest =>
    if e.1 == u && es.contains e then
      match walkEnd es e.2.1 rest with
      | some (x, c) => some (x, e.2.2 + c)
      | none => none
    else none

/-- `cyc` is a non-empty closed chain of edges of the graph -/
def checkCycle (es : List Edge) (cyc : List Edge) : Bool :=
  match cyc with
  | [] => false
  | e :: _ =>
    match walkEnd es e.1 cyc with
    | some (x, _) => x == e.1
    | none => false

/-- `order` certifies the reach set of `s`; `cyc` is a closed chain of negative total weight that
starts at a node of that set -/
def checkNegCycle (es : List Edge) (s : Nat) (order : List Nat) (cyc : List Edge) : Bool :=
  checkReachOrder es s order &&
  match cyc with
  | [] => false
  | e :: _ =>
    order.contains e.1 &&
    match walkEnd es e.1 cyc with
    | some (x, c) => x == e.1 && decide (c < 0)
    | none => false

/-- `order` lists `0 .. n-1` exactly once and every edge goes forward in it -/
def checkTopo (es : List Edge) (n : Nat) (order : List Nat) : Bool :=
  decide order.Nodup && (order.all fun v => decide (v < n)) &&
  ((List.range n).all fun v => order.contains v) &&
  es.all fun e => decide (order.idxOf e.1 < order.idxOf e.2.1)

/-- weakly connected components: every class is given as a reach order (over the symmetrised
edges) from its first element, and the classes cover `0 .. n-1` -/
def checkWcc (es : List Edge) (n : Nat) (classes : List (List Nat)) : Bool :=
  (classes.all fun c =>
    match c with
    | [] => false
    | r :: _ => checkReachOrder (sym es) r c) &&
  ((List.range n).all fun v => classes.any fun c => c.contains v)

/-- strongly connected components: every class is given as a forward reach order `F` and a
backward reach order `B` from the same root; the class is `F ∩ B` (`sccClass`); the classes
cover `0 .. n-1` -/
def checkScc (es : List Edge) (n : Nat) (cert : List (List Nat × List Nat)) : Bool :=
  (cert.all fun fb =>
    match fb.1 with
    | [] => false
    | r :: _ => checkReachOrder es r fb.1 && checkReachOrder (rev es) r fb.2) &&
  ((List.range n).all fun v => cert.any fun fb => fb.1.contains v && fb.2.contains v)

def sccClass (fb : List Nat × List Nat) : List Nat := fb.1.filter fun v => fb.2.contains v

/-- spanning sub-multigraph: `t` uses only edges of the graph, `classes` are the weak components
of `t` (certified as for `checkWcc`), every class is closed under the edges of the whole graph
(so `t` connects whatever the graph connects), and `|t| + #classes = n` (the edge count of a
forest with these components). -/
def checkSpanning (es : List Edge) (n : Nat) (t : List Edge) (classes : List (List Nat)) : Bool :=
  (t.all fun e => es.contains e) && checkWcc t n classes &&
  (classes.all fun c => closedUnder (sym es) c) && t.length + classes.length == n

/-- executable cycle-property test (no theorem attached, see `Props/C19.lean`): for every edge
`(u, v, w)` of the graph, `u` and `v` are already connected by tree edges of weight `≤ w`;
`conn t u v` is a connectivity oracle supplied by the caller. -/
def checkCycleProperty (conn : List Edge → Nat → Nat → Bool) (es t : List Edge) : Bool :=
  es.all fun e => conn (t.filter fun f => decide (f.2.2 ≤ e.2.2)) e.1 e.2.1

end Grafeo.Graph
