import GrafeoModel.Generated.Constants
/-
Model of the integer codecs of `crates/grafeo-core/src/storage/{delta,bitpack,runlength}.rs`.

Conventions
* `u64` values are `Nat`s below `W = 2^64`; every operation that can leave that range in
  Rust (`<<`, `wrapping_add`) is followed by an explicit `% W` here.
* `i64` values are `BitVec 64` (two's complement), so wrapping arithmetic is the
  arithmetic of the type.
* A Rust panic is an explicit `none` / `Except` outcome, never a default value.

No library imports (only the generated constants): this file is linked into `gdriver`.
-/

namespace Grafeo.Codec

def W : Nat := 18446744073709551616

/-! ## little-endian byte strings -/

/-- `k` little-endian bytes of `n` (`n.to_le_bytes()` for a `k`-byte integer). -/
def leBytes : Nat → Nat → List Nat
  | 0, _ => []
  | k + 1, n => (n % 256) :: leBytes k (n / 256)

/-- value of a little-endian byte list (`uN::from_le_bytes`). -/
def ofLe : List Nat → Nat
  | [] => 0
  | b :: bs => b + 256 * ofLe bs

/-! ## zig-zag (delta.rs `zigzag_encode/zigzag_decode`, runlength.rs twins) -/

/-- `((value << 1) ^ (value >> 63)) as u64` with `>>` arithmetic on `i64`. -/
def zzEnc (v : BitVec 64) : BitVec 64 := (v <<< 1) ^^^ (v.sshiftRight Generated.zigzagShift)

/-- `((value >> 1) as i64) ^ (-((value & 1) as i64))`. -/
def zzDec (v : BitVec 64) : BitVec 64 := (v >>> 1) ^^^ (-(v &&& 1))

/-! ## DeltaEncoding (unsigned) -/

structure DeltaEnc where
  base : Nat
  deltas : List Nat
  count : Nat
  deriving Repr, DecidableEq

/-- `values.windows(2).map(|w| w[1].saturating_sub(w[0]))` — `Nat` subtraction saturates. -/
def satDeltas : List Nat → List Nat
  | a :: b :: rest => (b - a) :: satDeltas (b :: rest)
  | _ => []

def DeltaEnc.encode (vs : List Nat) : DeltaEnc :=
  match vs with
  | [] => ⟨0, [], 0⟩
  | v :: _ => ⟨v, satDeltas vs, vs.length⟩

/-- the loop `current = current.wrapping_add(delta); result.push(current)`. -/
def wrapSums (cur : Nat) : List Nat → List Nat
  | [] => []
  | d :: ds => ((cur + d) % W) :: wrapSums ((cur + d) % W) ds

def DeltaEnc.decode (e : DeltaEnc) : List Nat :=
  if e.count = 0 then [] else e.base :: wrapSums e.base e.deltas

/-- `to_bytes`: base (8 LE) ++ count as u32 (4 LE) ++ deltas (8 LE each). -/
def DeltaEnc.toBytes (e : DeltaEnc) : List Nat :=
  leBytes 8 e.base ++ leBytes 4 (e.count % 4294967296) ++ (e.deltas.map (leBytes 8)).flatten

/-- read `n` 8-byte little-endian words. -/
def readWords : Nat → List Nat → Option (List Nat)
  | 0, _ => some []
  | n + 1, bs =>
    if bs.length < 8 then none
    else match readWords n (bs.drop 8) with
      | none => none
      | some ws => some (ofLe (bs.take 8) :: ws)

/-- `from_bytes`: `none` is the `Err` result. -/
def DeltaEnc.fromBytes (bs : List Nat) : Option DeltaEnc :=
  if bs.length < Generated.deltaHeaderLen then none
  else
    let base := ofLe (bs.take 8)
    let count := ofLe ((bs.drop 8).take 4)
    match readWords (count - 1) (bs.drop 12) with
    | none => none
    | some ds => some ⟨base, ds, count⟩

/-! ## DeltaEncoding (signed) -/

structure SDeltaEnc where
  base : BitVec 64
  deltas : List (BitVec 64)
  count : Nat
  deriving DecidableEq

/-- wrapping signed deltas, zig-zag encoded: `zigzag_encode(w[1].wrapping_sub(w[0]))`. -/
def zzDeltas : List (BitVec 64) → List (BitVec 64)
  | a :: b :: rest => zzEnc (b - a) :: zzDeltas (b :: rest)
  | _ => []

/-- `encode_signed` -/
def SDeltaEnc.encode (vs : List (BitVec 64)) : SDeltaEnc :=
  match vs with
  | [] => ⟨0, [], 0⟩
  | v :: _ => ⟨zzEnc v, zzDeltas vs, vs.length⟩

/-- `current = current.wrapping_add(zigzag_decode(delta))` -/
def sWrapSums (cur : BitVec 64) : List (BitVec 64) → List (BitVec 64)
  | [] => []
  | d :: ds => (cur + zzDec d) :: sWrapSums (cur + zzDec d) ds

/-- `decode_signed` -/
def SDeltaEnc.decode (e : SDeltaEnc) : List (BitVec 64) :=
  if e.count = 0 then [] else zzDec e.base :: sWrapSums (zzDec e.base) e.deltas

/-! ## BitPackedInts -/

structure Packed where
  data : List Nat
  bits : Nat
  count : Nat
  deriving Repr, DecidableEq

/-- number of binary digits, by halving (`fuel` bounds the recursion; `n` itself suffices). -/
def bitLenF : Nat → Nat → Nat
  | 0, _ => 0
  | f + 1, n => if n = 0 then 0 else bitLenF f (n / 2) + 1

/-- `64 - value.leading_zeros()` = number of binary digits. -/
def bitLen (n : Nat) : Nat := bitLenF n n

/-- `bits_needed` -/
def bitsNeeded (v : Nat) : Nat := if v = 0 then 1 else bitLen v

/-- `if bits >= 64 { u64::MAX } else { (1 << bits) - 1 }` -/
def mask (bits : Nat) : Nat := if bits ≥ 64 then W - 1 else 2 ^ bits - 1

/-- one `u64` word holding the values `vs` (at most `64 / bits` of them), value `j` at bit
offset `j * bits`:  `data[word] |= (value & mask) << ((i % vpw) * bits)`. -/
def packWord (bits : Nat) : Nat → List Nat → Nat
  | _, [] => 0
  | j, v :: vs => (((v &&& mask bits) <<< (j * bits)) % W) ||| packWord bits (j + 1) vs

/-- split into chunks of `n` (`i / values_per_word`). Fuel = length. -/
def chunksOf (n : Nat) : Nat → List Nat → List (List Nat)
  | 0, _ => []
  | _, [] => []
  | f + 1, l => l.take n :: chunksOf n f (l.drop n)

/-- `pack_with_bits`; `bits = 0` stores nothing (values are asserted to be 0). -/
def packWithBits (vs : List Nat) (bits : Nat) : Packed :=
  if vs = [] then ⟨[], bits, 0⟩
  else if bits = 0 then ⟨[], 0, vs.length⟩
  else ⟨(chunksOf (64 / bits) vs.length vs).map (packWord bits 0), bits, vs.length⟩

def listMax : List Nat → Nat
  | [] => 0
  | v :: vs => max v (listMax vs)

/-- `pack` -/
def pack (vs : List Nat) : Packed :=
  if vs = [] then ⟨[], 0, 0⟩ else packWithBits vs (bitsNeeded (listMax vs))

/-- `get`, with the slice index made explicit: `none` = index ≥ count,
`some none` would be an out-of-bounds panic on `data[word_idx]`. -/
def Packed.slot (p : Packed) (i : Nat) : Option Nat :=
  let vpw := 64 / p.bits
  match p.data[i / vpw]? with
  | none => none
  | some w => some ((w >>> ((i % vpw) * p.bits)) &&& mask p.bits)

inductive Res (α : Type) where
  | ok : α → Res α
  | err : Res α      -- `Err(..)` / `None` returned
  | panic : Res α    -- the Rust code would panic here
  deriving Repr, DecidableEq

def Packed.get (p : Packed) (i : Nat) : Res Nat :=
  if i ≥ p.count then .err
  else if p.bits = 0 then .ok 0
  else if p.bits > 64 then .panic           -- `64 / bits = 0` then `index / 0`
  else match p.slot i with
    | some v => .ok v
    | none => .panic

def unpackLoop (p : Packed) : Nat → Nat → Option (List Nat)
  | 0, _ => some []
  | n + 1, i => match p.slot i with
    | none => none
    | some v => match unpackLoop p n (i + 1) with
      | none => none
      | some r => some (v :: r)

def Packed.unpack (p : Packed) : Res (List Nat) :=
  if p.count = 0 then .ok []
  else if p.bits = 0 then .ok (List.replicate p.count 0)
  else if p.bits > 64 then .panic
  else match unpackLoop p p.count 0 with
    | some r => .ok r
    | none => .panic

def Packed.toBytes (p : Packed) : List Nat :=
  (p.bits % 256) :: (leBytes 4 (p.count % 4294967296) ++ (p.data.map (leBytes 8)).flatten)

/-- `from_bytes` as in the source: a width byte above 64 makes `64 / bits = 0` and the
following division panics (outside C15's statement, which only feeds `to_bytes` output
back; kept so that the model is the code). -/
def Packed.fromBytes (bs : List Nat) : Res Packed :=
  if bs.length < Generated.bitpackHeaderLen then .err
  else
    let bits := bs.headD 0
    let count := ofLe ((bs.drop 1).take 4)
    if bits > 64 && count ≠ 0 then .panic
    else
      let nw := if bits = 0 || count = 0 then 0 else (count + 64 / bits - 1) / (64 / bits)
      match readWords nw (bs.drop 5) with
      | none => .err
      | some ws => .ok ⟨ws, bits, count⟩

/-! ## DeltaBitPacked -/

structure DBP where
  base : Nat
  deltas : Packed
  deriving Repr, DecidableEq

/-- `encode`: a sequence with a single value has no deltas and records the width 1
(`pack_with_bits(&[], 1)`), which keeps it apart from the empty sequence. -/
def DBP.encode (vs : List Nat) : DBP :=
  match vs with
  | [] => ⟨0, pack []⟩
  | v :: _ => ⟨v, if satDeltas vs = [] then packWithBits [] 1 else pack (satDeltas vs)⟩

/-- `is_empty`: `deltas.is_empty() && base == 0 && deltas.bits_per_value() == 0` -/
def DBP.isEmpty (d : DBP) : Bool := d.deltas.count = 0 && d.base = 0 && d.deltas.bits = 0

/-- `decode` -/
def DBP.decode (d : DBP) : Res (List Nat) :=
  if d.isEmpty then .ok []
  else match d.deltas.unpack with
    | .ok ds => .ok (d.base :: wrapSums d.base ds)
    | .err => .err
    | .panic => .panic

def DBP.len (d : DBP) : Nat :=
  if d.isEmpty then 0 else d.deltas.count + 1

/-- the code before the repair: a single `0` was encoded like the empty sequence and the
emptiness test was `deltas.is_empty() && base == 0` (regression witness) -/
def Old.DBP.encode (vs : List Nat) : DBP :=
  match vs with
  | [] => ⟨0, pack []⟩
  | v :: _ => ⟨v, pack (satDeltas vs)⟩

def Old.DBP.decode (d : DBP) : Res (List Nat) :=
  if d.deltas.count = 0 && d.base = 0 then .ok []
  else match d.deltas.unpack with
    | .ok ds => .ok (d.base :: wrapSums d.base ds)
    | .err => .err
    | .panic => .panic

def Old.DBP.len (d : DBP) : Nat :=
  if d.deltas.count = 0 && d.base = 0 then 0 else d.deltas.count + 1

def DBP.toBytes (d : DBP) : List Nat := leBytes 8 d.base ++ d.deltas.toBytes

def DBP.fromBytes (bs : List Nat) : Res DBP :=
  if bs.length < 8 then .err
  else match Packed.fromBytes (bs.drop 8) with
    | .ok p => .ok ⟨ofLe (bs.take 8), p⟩
    | .err => .err
    | .panic => .panic

/-! ## RunLengthEncoding -/

structure Rle where
  runs : List (Nat × Nat)     -- (value, length)
  total : Nat
  deriving Repr, DecidableEq

/-- the encode loop with its two registers `current_value`, `current_length`. -/
def rleLoop (cv cl : Nat) : List Nat → List (Nat × Nat)
  | [] => [(cv, cl)]
  | v :: vs => if v = cv then rleLoop cv (cl + 1) vs else (cv, cl) :: rleLoop v 1 vs

def Rle.encode (vs : List Nat) : Rle :=
  match vs with
  | [] => ⟨[], 0⟩
  | v :: rest => ⟨rleLoop v 1 rest, vs.length⟩

def Rle.fromRuns (runs : List (Nat × Nat)) : Rle :=
  ⟨runs, (runs.map (·.2)).foldl (· + ·) 0⟩

def Rle.decode (r : Rle) : List Nat :=
  (r.runs.map (fun (v, n) => List.replicate n v)).flatten

def rleGetLoop (index : Nat) (offset : Nat) : List (Nat × Nat) → Option Nat
  | [] => none
  | (v, n) :: rs => if index < offset + n then some v else rleGetLoop index (offset + n) rs

def Rle.get (r : Rle) (i : Nat) : Option Nat :=
  if i ≥ r.total then none else rleGetLoop i 0 r.runs

def Rle.toBytes (r : Rle) : List Nat :=
  leBytes 8 r.runs.length ++ (r.runs.map (fun (v, n) => leBytes 8 v ++ leBytes 8 n)).flatten

def readRuns : Nat → List Nat → Option (List (Nat × Nat))
  | 0, _ => some []
  | n + 1, bs =>
    if bs.length < 16 then none
    else match readRuns n (bs.drop 16) with
      | none => none
      | some rs => some ((ofLe (bs.take 8), ofLe ((bs.drop 8).take 8)) :: rs)

def Rle.fromBytes (bs : List Nat) : Option Rle :=
  if bs.length < 8 then none
  else match readRuns (ofLe (bs.take 8)) (bs.drop 8) with
    | none => none
    | some rs => some (Rle.fromRuns rs)

/-- SignedRunLengthEncoding -/
def SRle.encode (vs : List (BitVec 64)) : Rle := Rle.encode (vs.map (fun v => (zzEnc v).toNat))
def SRle.decode (r : Rle) : List (BitVec 64) := r.decode.map (fun n => zzDec (BitVec.ofNat 64 n))

end Grafeo.Codec
