import GrafeoModel.Model.F64
/-
Model of the storage half of C10 ("indexes, pruning, caching and execution strategy change speed,
not answers"):

* `crates/grafeo-core/src/index/zone_map.rs`      `ZoneMapEntry::might_contain_*`, `compare_values`
* `crates/grafeo-core/src/graph/lpg/property.rs`  `PropertyColumn` (`set`, `remove`,
  `update_zone_map_on_insert`, `rebuild_zone_map`, `might_match`), `PropertyStorage`
  (`set`, `remove`, `remove_all`, `might_match`, `might_match_range`, `rebuild_zone_maps`)
* `crates/grafeo-core/src/graph/lpg/store.rs`     `create_node`, `delete_node`,
  `set_node_property`, `remove_node_property`, `create_property_index`, `drop_property_index`,
  `update_property_index_on_set/_on_remove`, `find_nodes_by_property`, `find_nodes_by_properties`,
  `find_nodes_in_range` (`value_in_range`, `compare_values_for_range`)
* `crates/grafeo-core/src/execution/operators/filter.rs`  `values_equal`, `compare_values`
  (the semantics of a generic `WHERE n.k <op> literal`)
* `crates/grafeo-engine/src/query/planner.rs`     `plan_filter`: zone-map check → index path →
  range path → generic filter, for one comparison of a node property with a literal.

Pinned to /repo at cc52572 (after the repairs 4373a2f, c174383, dc17651, ae73952, 6ff036d, 65e98ae).

Values: Null, Bool, Int64, Float64 (bit pattern, see `Model/F64.lean`), String (UTF-8 bytes).
Hash-map iteration order (only observable through `rebuild_zone_map` on a column that holds
mutually incomparable values) is an explicit argument of the `rebuild` operation.
-/
namespace Grafeo.ZoneMap
open Grafeo.F64

inductive V where
  | null
  | bool (b : Bool)
  | int (i : Int)
  | float (bits : Nat)
  | str (s : List Nat)
  deriving DecidableEq, Repr, Inhabited

/-- lexicographic order of byte strings (`str::cmp` on UTF-8 is bytewise) -/
def cmpBytes : List Nat → List Nat → Ordering
  | [], [] => .eq
  | [], _ :: _ => .lt
  | _ :: _, [] => .gt
  | a :: as, b :: bs => if a < b then .lt else if b < a then .gt else cmpBytes as bs

/-- `compare_values` of `property.rs` and of `zone_map.rs` (the two copies are identical):
Int/Int, Float/Float (`partial_cmp`), String/String, Bool/Bool, Int/Float through `as f64`;
everything else is incomparable. -/
def cmp : V → V → Option Ordering
  | .int a, .int b => some (compare a b)
  | .float a, .float b => partialCmp a b
  | .str a, .str b => some (cmpBytes a b)
  | .bool a, .bool b => some (compare a.toNat b.toNat)
  | .int a, .float b => partialCmp (i64ToF64 a) b
  | .float a, .int b => partialCmp a (i64ToF64 b)
  | _, _ => none

inductive Op where
  | eq | ne | lt | le | gt | ge
  deriving DecidableEq, Repr, Inhabited

/-! ### `ZoneMapEntry` (no Bloom filter: `PropertyColumn` never attaches one) -/

structure ZM where
  min : Option V := none
  max : Option V := none
  nullCount : Nat := 0
  rowCount : Nat := 0
  deriving DecidableEq, Repr, Inhabited

def ZM.isAllNull (z : ZM) : Bool := decide (z.rowCount > 0) && z.nullCount == z.rowCount
def ZM.mightContainNonNull (z : ZM) : Bool := decide (z.rowCount > z.nullCount)

/-- the `match (cmp_min, cmp_max)` of `might_contain_equal` -/
def eqBounds (v : V) (nonNull : Bool) : Option V → Option V → Bool
  | some mn, some mx => !(cmp v mn == some .lt) && !(cmp v mx == some .gt)
  | _, _ => nonNull

def ZM.mightEqual (z : ZM) (v : V) : Bool :=
  if v = .null then decide (z.nullCount > 0)
  else if z.isAllNull then false
  else eqBounds v z.mightContainNonNull z.min z.max

def lessVerdict (incl : Bool) : Option Ordering → Bool
  | some .lt => true
  | some .eq => incl
  | some .gt => false
  | none => true

def greaterVerdict (incl : Bool) : Option Ordering → Bool
  | some .gt => true
  | some .eq => incl
  | some .lt => false
  | none => true

def lessOn (incl : Bool) (nullCount : Nat) (v : V) : Option V → Bool
  | some m => lessVerdict incl (cmp m v)
  | none => decide (nullCount > 0)

def greaterOn (incl : Bool) (nullCount : Nat) (v : V) : Option V → Bool
  | some m => greaterVerdict incl (cmp m v)
  | none => decide (nullCount > 0)

/-- `might_contain_less_than(value, inclusive)` -/
def ZM.mightLess (z : ZM) (v : V) (incl : Bool) : Bool := lessOn incl z.nullCount v z.min
/-- `might_contain_greater_than(value, inclusive)` -/
def ZM.mightGreater (z : ZM) (v : V) (incl : Bool) : Bool := greaterOn incl z.nullCount v z.max

def lowerOk (z : ZM) (incl : Bool) : Option V → Bool
  | some lo => z.mightGreater lo incl
  | none => true
def upperOk (z : ZM) (incl : Bool) : Option V → Bool
  | some hi => z.mightLess hi incl
  | none => true

/-- `might_contain_range(lower, upper, lower_inclusive, upper_inclusive)` -/
def ZM.mightRange (z : ZM) (lo hi : Option V) (loIncl hiIncl : Bool) : Bool :=
  lowerOk z loIncl lo && upperOk z hiIncl hi

/-! ### `PropertyColumn` -/

/-- `std::mem::discriminant` of a `Value` -/
def discr : V → Nat
  | .null => 0 | .bool _ => 1 | .int _ => 2 | .float _ => 3 | .str _ => 4

/-- new minimum and "this value is not bounded by min/max": it does not compare with the
minimum, or it is of another variant (an integer next to a float: the lossy `as f64` comparison
is not transitive above 2^53) -/
def newMin (v : V) : Option V → Option V × Bool
  | none => (some v, false)
  | some cur =>
    match cmp v cur with
    | some .lt => (some v, discr v != discr cur)
    | some _ => (some cur, discr v != discr cur)
    | none => (some cur, true)

def newMax (v : V) : Option V → Option V
  | none => some v
  | some cur => if cmp v cur = some .gt then some v else some cur

/-- One step of `update_zone_map_on_insert` / of the loop in `rebuild_zone_map`
(state: zone map and the `mixed` flag). -/
def zmAdd (s : ZM × Bool) (v : V) : ZM × Bool :=
  if v = .null then
    ({ s.1 with nullCount := s.1.nullCount + 1, rowCount := s.1.rowCount + 1 }, s.2)
  else
    ({ min := (newMin v s.1.min).1, max := newMax v s.1.max,
       nullCount := s.1.nullCount, rowCount := s.1.rowCount + 1 },
     s.2 || (newMin v s.1.min).2)

/-- association lists (hash maps whose order is unobservable) -/
def aget {α : Type} (l : List (Nat × α)) (k : Nat) : Option α :=
  match l with
  | [] => none
  | (k', a) :: rest => if k' = k then some a else aget rest k

def aerase {α : Type} (l : List (Nat × α)) (k : Nat) : List (Nat × α) :=
  l.filter (fun p => p.1 != k)

def aset {α : Type} (l : List (Nat × α)) (k : Nat) (a : α) : List (Nat × α) :=
  (k, a) :: aerase l k

structure Col where
  vals : List (Nat × V) := []
  zm : ZM := {}
  dirty : Bool := false
  mixed : Bool := false
  deriving Repr, Inhabited

/-- `PropertyColumn::set`: the zone map is widened by the new value; an overwritten value is
not retracted from it. -/
def Col.set (c : Col) (id : Nat) (v : V) : Col :=
  { vals := aset c.vals id v
    zm := (zmAdd (c.zm, c.mixed) v).1
    dirty := c.dirty
    mixed := (zmAdd (c.zm, c.mixed) v).2 }

/-- `PropertyColumn::remove` -/
def Col.remove (c : Col) (id : Nat) : Col :=
  if (aget c.vals id).isSome then { c with vals := aerase c.vals id, dirty := true } else c

/-- the values in the iteration order `ord` (ids), then those `ord` does not mention
(`ord` is meant to be duplicate-free; ids are unique in `vals`) -/
def orderedVals (vals : List (Nat × V)) (ord : List Nat) : List V :=
  ord.flatMap (fun id => (vals.filter (fun p => p.1 == id)).map (·.2)) ++
    (vals.filter (fun p => !ord.contains p.1)).map (·.2)

/-- `rebuild_zone_map`; `ord` = iteration order of the hash map -/
def Col.rebuild (c : Col) (ord : List Nat) : Col :=
  { vals := c.vals
    zm := ((orderedVals c.vals ord).foldl zmAdd ({}, false)).1
    dirty := false
    mixed := ((orderedVals c.vals ord).foldl zmAdd ({}, false)).2 }

/-! #### `v - f64::EPSILON`, `v + f64::EPSILON` (IEEE round-to-nearest-even), on bit patterns -/

def isFinite (b : Nat) : Bool := expField b != 2047

/-- a finite double as an integer multiple of 2^-1074 (sign dropped) -/
def scaledMag (b : Nat) : Nat :=
  if expField b = 0 then fracField b else (2 ^ 52 + fracField b) * 2 ^ (expField b - 1)

def scaled (b : Nat) : Int := if signBit b = 1 then -(scaledMag b : Int) else (scaledMag b : Int)

/-- the mantissa (53 bits, or 2^53 after a carry) of the double nearest to `m`, where `l` is the
bit length of `m` and `l > 53`: ties to even -/
def roundQ (m l : Nat) : Nat :=
  let sh := l - 53
  let q := m / 2 ^ sh
  let r := m % 2 ^ sh
  let half := 2 ^ (sh - 1)
  if r > half || (r == half && q % 2 == 1) then q + 1 else q

/-- magnitude bits of the double nearest to `m · 2^-1074` (a carry out of the largest binade
lands on the pattern of infinity) -/
def roundMag (m : Nat) : Nat :=
  if m < 2 ^ 53 then m     -- subnormals and the first normal binade: exact, bits = m
  else (bitLen m - 52) * 2 ^ 52 + (roundQ m (bitLen m) - 2 ^ 52)

/-- bits of the double nearest to `s · 2^-1074` (`x − x` is `+0.0`) -/
def roundSigned (s : Int) : Nat :=
  if s ≥ 0 then roundMag s.toNat else 2 ^ 63 + roundMag (-s).toNat

/-- `v + d·f64::EPSILON` for `d = ±1`; infinities stay, NaN is handled by the caller -/
def addEps (b : Nat) (d : Int) : Nat :=
  if isFinite b then roundSigned (scaled b + d * 2 ^ 1022) else b

def numBits : V → Option Nat
  | .int i => some (i64ToF64 i)
  | .float b => some b
  | _ => none

def neVerdict (v : V) : Option V → Option V → Bool
  | some mn, some mx => !(cmp mn v == some .eq && cmp mx v == some .eq)
  | _, _ => true

/-- `Eq`: a numeric literal is looked for with the filter's tolerance, as the interval
`[v − ε, v + ε]`; a NaN literal is never pruned -/
def eqVerdict (z : ZM) (v : V) : Bool :=
  match numBits v with
  | some b =>
    if isNaN b then true
    else z.mightRange (some (.float (addEps b (-1)))) (some (.float (addEps b 1))) true true
  | none => z.mightEqual v

def matchOn (z : ZM) (v : V) : Op → Bool
  | .eq => eqVerdict z v
  | .ne => if z.nullCount > 0 then true else neVerdict v z.min z.max
  | .lt => z.mightLess v false
  | .le => z.mightLess v true
  | .gt => z.mightGreater v false
  | .ge => z.mightGreater v true

/-- `PropertyColumn::might_match`: a stale (`dirty`) or `mixed` column is never pruned -/
def Col.mightMatch (c : Col) (op : Op) (v : V) : Bool :=
  if c.dirty || c.mixed then true else matchOn c.zm v op

/-- `PropertyColumn::might_match_range` -/
def Col.mightRange (c : Col) (lo hi : Option V) (loIncl hiIncl : Bool) : Bool :=
  if c.dirty || c.mixed then true else c.zm.mightRange lo hi loIncl hiIncl

/-! ### `PropertyStorage` (key ↦ column) -/

abbrev Storage := List (Nat × Col)

def Storage.get (st : Storage) (id key : Nat) : Option V :=
  match aget st key with
  | some c => aget c.vals id
  | none => none

/-- `set`: `entry(key).or_insert_with(new).set(id, value)` -/
def Storage.set (st : Storage) (id key : Nat) (v : V) : Storage :=
  aset st key (((aget st key).getD {}).set id v)

/-- `remove`: `get_mut(key).and_then(|c| c.remove(id))` — no column is created -/
def Storage.remove (st : Storage) (id key : Nat) : Storage :=
  match aget st key with
  | some c => aset st key (c.remove id)
  | none => st

/-- `remove_all` -/
def Storage.removeAll (st : Storage) (id : Nat) : Storage :=
  st.map (fun p => (p.1, p.2.remove id))

/-- `get_all`: the (key, value) pairs of one entity -/
def Storage.getAll (st : Storage) (id : Nat) : List (Nat × V) :=
  st.filterMap (fun p => (aget p.2.vals id).map (fun v => (p.1, v)))

/-- `rebuild_zone_maps`; `ords` gives the iteration order per key -/
def Storage.rebuild (st : Storage) (ords : List (Nat × List Nat)) : Storage :=
  st.map (fun p => (p.1, p.2.rebuild ((aget ords p.1).getD [])))

/-- `might_match`: no column ⇒ `true` -/
def Storage.mightMatch (st : Storage) (key : Nat) (op : Op) (v : V) : Bool :=
  match aget st key with
  | some c => c.mightMatch op v
  | none => true

/-- `might_match_range` -/
def Storage.mightRange (st : Storage) (key : Nat) (lo hi : Option V) (loIncl hiIncl : Bool) : Bool :=
  match aget st key with
  | some c => c.mightRange lo hi loIncl hiIncl
  | none => true

def Storage.zone (st : Storage) (key : Nat) : Option ZM := (aget st key).map (·.zm)

/-! ### the comparison semantics in play -/

/-- `Value: PartialEq` (derived): floats by IEEE `==`. Used by the scan of
`find_nodes_by_property` and by `find_nodes_by_properties`. -/
def valEq : V → V → Bool
  | .null, .null => true
  | .bool a, .bool b => a == b
  | .int a, .int b => a == b
  | .float a, .float b => feq a b
  | .str a, .str b => a == b
  | _, _ => false

/-- `HashableValue: Eq` on these variants: floats by bit pattern, the rest derived — i.e.
structural identity. The key equality of a property index. -/
def hvEq (a b : V) : Bool := decide (a = b)

/-- `compare_values_for_range` of `store.rs`: the same cases as `cmp` (Int/Float through
`as f64` since dc17651; booleans are ordered here, unlike in the filter) -/
def cmpR : V → V → Option Ordering
  | .int a, .int b => some (compare a b)
  | .float a, .float b => partialCmp a b
  | .str a, .str b => some (cmpBytes a b)
  | .bool a, .bool b => some (compare a.toNat b.toNat)
  | .int a, .float b => partialCmp (i64ToF64 a) b
  | .float a, .int b => partialCmp a (i64ToF64 b)
  | _, _ => none

def lowerIn (incl : Bool) : Option Ordering → Bool
  | some .lt => false
  | some .eq => incl
  | some .gt => true
  | none => false
def upperIn (incl : Bool) : Option Ordering → Bool
  | some .gt => false
  | some .eq => incl
  | some .lt => true
  | none => false

def lowerSat (x : V) (incl : Bool) : Option V → Bool
  | some lo => lowerIn incl (cmpR x lo)
  | none => true
def upperSat (x : V) (incl : Bool) : Option V → Bool
  | some hi => upperIn incl (cmpR x hi)
  | none => true

/-- `value_in_range` -/
def valueInRange (x : V) (lo hi : Option V) (loIncl hiIncl : Bool) : Bool :=
  lowerSat x loIncl lo && upperSat x hiIncl hi

/-! #### the engine's filter semantics (`filter.rs`) -/

/-- `(a - b).abs() < f64::EPSILON` with IEEE round-to-nearest-even subtraction: an infinite or
NaN operand gives ±inf or NaN (not `<`); for finite operands the rounded difference is below
2^-52 exactly when the exact difference is below the midpoint 2^-52 − 2^-106 between 2^-52 and
its predecessor (the tie rounds to the even neighbour 2^-52). In units of 2^-1074. -/
def epsClose (a b : Nat) : Bool :=
  isFinite a && isFinite b && decide ((scaled a - scaled b).natAbs < 2 ^ 1022 - 2 ^ 968)

/-- `values_equal` -/
def fEq : V → V → Bool
  | .null, .null => true
  | .bool a, .bool b => a == b
  | .int a, .int b => a == b
  | .float a, .float b => feq a b || epsClose a b     -- `a == b ||`: inf − inf is NaN
  | .str a, .str b => a == b
  | .int a, .float b => epsClose (i64ToF64 a) b
  | .float b, .int a => epsClose (i64ToF64 a) b
  | _, _ => false

/-- `compare_values` of `filter.rs`: `partial_cmp` (NaN unordered), Int/Float through `as f64`,
no Bool/Bool -/
def fCmp : V → V → Option Ordering
  | .int a, .int b => some (compare a b)
  | .float a, .float b => partialCmp a b
  | .str a, .str b => some (cmpBytes a b)
  | .int a, .float b => partialCmp (i64ToF64 a) b
  | .float a, .int b => partialCmp a (i64ToF64 b)
  | _, _ => none

/-- does a stored value `x` satisfy `x <op> v` in a generic filter (`eval_binary_op`; a `None`
result rejects the row) -/
def fsat (op : Op) (x v : V) : Bool :=
  match op with
  | .eq => fEq x v
  | .ne => !fEq x v
  | .lt => fCmp x v == some .lt
  | .le => fCmp x v == some .lt || fCmp x v == some .eq
  | .gt => fCmp x v == some .gt
  | .ge => fCmp x v == some .gt || fCmp x v == some .eq

/-- the exact semantics induced by the zone map's own order `cmp` -/
def zEq (x v : V) : Bool := (x == .null && v == .null) || cmp x v == some .eq

def zsat (op : Op) (x v : V) : Bool :=
  match op with
  | .eq => zEq x v
  | .ne => !zEq x v
  | .lt => cmp x v == some .lt
  | .le => cmp x v == some .lt || cmp x v == some .eq
  | .gt => cmp x v == some .gt
  | .ge => cmp x v == some .gt || cmp x v == some .eq

def boundOp (lower incl : Bool) : Op :=
  if lower then (if incl then .ge else .gt) else (if incl then .le else .lt)

/-- range membership under a pointwise semantics `sat` -/
def satRange (sat : Op → V → V → Bool) (x : V) (lo hi : Option V) (loIncl hiIncl : Bool) : Bool :=
  (match lo with | some l => sat (boundOp true loIncl) x l | none => true) &&
  (match hi with | some h => sat (boundOp false hiIncl) x h | none => true)

/-! ### `LpgStore`: nodes, node properties, property indexes -/

/-- a property index as a relation (value, node): `DashMap<HashableValue, FxHashSet<NodeId>>` -/
abbrev Rel := List (V × Nat)

def relInsert (r : Rel) (v : V) (n : Nat) : Rel := if (v, n) ∈ r then r else (v, n) :: r
def relRemove (r : Rel) (v : V) (n : Nat) : Rel := r.filter (fun p => !(p.1 == v && p.2 == n))
def relLookup (r : Rel) (v : V) : List Nat := (r.filter (fun p => hvEq p.1 v)).map (·.2)

structure Store where
  next : Nat := 0
  live : List Nat := []
  props : Storage := []
  idx : List (Nat × Rel) := []
  deriving Repr, Inhabited

def Store.hasIndex (s : Store) (key : Nat) : Bool := (aget s.idx key).isSome

/-- `create_node` -/
def Store.createNode (s : Store) : Store :=
  { s with next := s.next + 1, live := s.next :: s.live }

def dropOld (r : Rel) (n : Nat) : Option V → Rel
  | some o => relRemove r o n
  | none => r

/-- `update_property_index_on_set` -/
def Store.idxOnSet (s : Store) (n key : Nat) (v : V) : List (Nat × Rel) :=
  match aget s.idx key with
  | some r => aset s.idx key (relInsert (dropOld r n (s.props.get n key)) v n)
  | none => s.idx

/-- `update_property_index_on_remove` -/
def idxOnRemove (idx : List (Nat × Rel)) (props : Storage) (n key : Nat) : List (Nat × Rel) :=
  match aget idx key with
  | some r => aset idx key (dropOld r n (props.get n key))
  | none => idx

/-- `set_node_property`: nothing is written for an id that is not a live node -/
def Store.setProp (s : Store) (n key : Nat) (v : V) : Store :=
  if n ∈ s.live then { s with idx := s.idxOnSet n key v, props := s.props.set n key v } else s

/-- `remove_node_property` -/
def Store.removeProp (s : Store) (n key : Nat) : Store :=
  { s with idx := idxOnRemove s.idx s.props n key, props := s.props.remove n key }

/-- `delete_node`: a live node leaves `live`, every index on one of its keys, and all columns.
The source walks the node's keys (`get_all`) and calls `update_property_index_on_remove` for
each; that touches exactly the indexes on keys the node has a value for, which is what the map
over the indexes below does. -/
def Store.deleteNode (s : Store) (n : Nat) : Store :=
  if n ∈ s.live then
    { s with
      live := s.live.filter (· != n)
      idx := s.idx.map (fun p => (p.1, dropOld p.2 n (s.props.get n p.1)))
      props := s.props.removeAll n }
  else s

def Store.builtRel (s : Store) (key : Nat) : Rel :=
  s.live.filterMap (fun n => (s.props.get n key).map (fun v => (v, n)))

/-- `create_property_index`: built from the *live* nodes (`node_ids()`) -/
def Store.createIndex (s : Store) (key : Nat) : Store :=
  if s.hasIndex key then s
  else { s with idx := aset s.idx key (s.builtRel key) }

/-- `drop_property_index` -/
def Store.dropIndex (s : Store) (key : Nat) : Store := { s with idx := aerase s.idx key }

def Store.rebuild (s : Store) (ords : List (Nat × List Nat)) : Store :=
  { s with props := s.props.rebuild ords }

def holds (x : Option V) (p : V → Bool) : Bool :=
  match x with
  | some a => p a
  | none => false

/-- the scan half of `find_nodes_by_property` -/
def Store.scanFind (s : Store) (key : Nat) (v : V) : List Nat :=
  s.live.filter (fun n => holds (s.props.get n key) (fun x => valEq x v))

/-- `find_nodes_by_property` -/
def Store.find (s : Store) (key : Nat) (v : V) : List Nat :=
  match aget s.idx key with
  | some r => relLookup r v
  | none => s.scanFind key v

/-- the scan of `find_nodes_in_range` -/
def Store.scanRange (s : Store) (key : Nat) (lo hi : Option V) (loIncl hiIncl : Bool) : List Nat :=
  s.live.filter (fun n => holds (s.props.get n key) (fun x => valueInRange x lo hi loIncl hiIncl))

/-- `find_nodes_in_range`: zone-map check, then scan -/
def Store.findRange (s : Store) (key : Nat) (lo hi : Option V) (loIncl hiIncl : Bool) : List Nat :=
  if s.props.mightRange key lo hi loIncl hiIncl then s.scanRange key lo hi loIncl hiIncl else []

/-- `find_nodes_by_properties` (conditions are ANDed): indexed conditions are looked up first
(an empty lookup ends the search; the smallest one becomes the start set, ties keep the first),
otherwise the first condition is scanned; the remaining conditions are checked with
`Value ==`. -/
def bestStart (s : Store) : List (Nat × V) → Nat → Option (Nat × List Nat) → Option (Option (Nat × List Nat))
  | [], _, best => some best
  | (k, v) :: rest, i, best =>
    match aget s.idx k with
    | some r =>
      let m := relLookup r v
      if m.isEmpty then none
      else
        match best with
        | none => bestStart s rest (i + 1) (some (i, m))
        | some (j, b) => if m.length < b.length then bestStart s rest (i + 1) (some (i, m))
                         else bestStart s rest (i + 1) (some (j, b))
    | none => bestStart s rest (i + 1) best

def retainConds (s : Store) (skip : Nat) : List (Nat × V) → Nat → List Nat → List Nat
  | [], _, cands => cands
  | (k, v) :: rest, i, cands =>
    if i = skip then retainConds s skip rest (i + 1) cands
    else retainConds s skip rest (i + 1)
      (cands.filter (fun n => holds (s.props.get n k) (fun x => valEq x v)))

def Store.findProps (s : Store) (conds : List (Nat × V)) : List Nat :=
  match conds with
  | [] => s.live
  | (k0, v0) :: _ =>
    match bestStart s conds 0 none with
    | none => []
    | some (some (i, m)) => retainConds s i conds 0 m
    | some none => retainConds s 0 conds 0 (s.find k0 v0)

/-! ### the planner's treatment of `MATCH (n) WHERE n.key <op> literal` (`plan_filter`) -/

def Op.isRange : Op → Bool
  | .lt | .le | .gt | .ge => true
  | _ => false

/-- the generic path: scan of the live nodes, predicate evaluated by `filter.rs`
(missing property ⇒ `None` ⇒ row rejected) -/
def Store.genericPath (s : Store) (key : Nat) (op : Op) (lit : V) : List Nat :=
  s.live.filter (fun n => holds (s.props.get n key) (fun x => fsat op x lit))

/-- `f as i64` when `f.fract() == 0.0`, for a finite `f` (value = (2^52+frac)·2^(exp−1075));
only used for 2 ≤ |f| < 2^53 -/
def floatToInt (b : Nat) : Option Int :=
  let m := 2 ^ 52 + fracField b
  let e := expField b
  let mag : Option Nat :=
    if e ≥ 1075 then some (m * 2 ^ (e - 1075))
    else if m % 2 ^ (1075 - e) = 0 then some (m / 2 ^ (1075 - e)) else none
  mag.map (fun n => if signBit b = 1 then -(n : Int) else (n : Int))

/-- `lookup_keys_for_equality`: the stored values an equality with the literal accepts, as index
keys — or `none` when no small set of keys covers them (numbers below magnitude 2, where the
tolerance reaches neighbouring floats; floats from 2^53 on; NaN, infinities, null) -/
def lookupKeys : V → Option (List V)
  | .str s => some [.str s]
  | .bool b => some [.bool b]
  | .int n => if n.natAbs ≥ 2 then some [.int n, .float (i64ToF64 n)] else none
  | .float f =>
    -- `f.abs() >= 2.0 && f.abs() < 2^53` on the magnitude bits (NaN and inf are above)
    if mag f ≥ 0x4000000000000000 ∧ mag f < 0x4340000000000000 then
      some (match floatToInt f with
        | some i => [.float f, .int i]
        | none => [.float f])
    else none
  | .null => none

/-- the index path (`try_plan_filter_with_property_index`, one equality condition): the union of
`find_nodes_by_property` over the lookup keys, then the whole predicate again on top
(`get_node` of a node that is not live yields no property, so such a candidate is rejected) -/
def Store.indexPath (s : Store) (key : Nat) (lit : V) : List Nat :=
  (((lookupKeys lit).getD []).flatMap (fun k => s.find key k)).filter
    (fun n => s.live.contains n && holds (s.props.get n key) (fun x => fsat .eq x lit))

/-- the bounds the planner hands to `find_nodes_in_range` for `n.key <op> lit` -/
def rangeArgs (op : Op) (lit : V) : Option V × Option V × Bool × Bool :=
  match op with
  | .lt => (none, some lit, false, false)
  | .le => (none, some lit, false, true)
  | .gt => (some lit, none, false, false)
  | .ge => (some lit, none, true, false)
  | _ => (none, none, false, false)

/-- the range path (`try_plan_filter_with_range_index` → `find_nodes_in_range`), the whole
predicate re-applied to its candidates (6ff036d) -/
def Store.rangePath (s : Store) (key : Nat) (op : Op) (lit : V) : List Nat :=
  (s.findRange key (rangeArgs op lit).1 (rangeArgs op lit).2.1 (rangeArgs op lit).2.2.1
      (rangeArgs op lit).2.2.2).filter
    (fun n => s.live.contains n && holds (s.props.get n key) (fun x => fsat op x lit))

inductive Path where
  | pruned | index | range | generic
  deriving DecidableEq, Repr

/-- decision order of `plan_filter` (the zone-map check applies: `n` is bound by the node scan) -/
def Store.choosePath (s : Store) (key : Nat) (op : Op) (lit : V) : Path :=
  if !s.props.mightMatch key op lit then .pruned
  else if op = .eq && (lookupKeys lit).isSome && s.hasIndex key then .index
  else if op.isRange then .range
  else .generic

def Store.runPath (s : Store) (key : Nat) (op : Op) (lit : V) : Path → List Nat
  | .pruned => []
  | .index => s.indexPath key lit
  | .range => s.rangePath key op lit
  | .generic => s.genericPath key op lit

def Store.planFilter (s : Store) (key : Nat) (op : Op) (lit : V) : List Nat :=
  s.runPath key op lit (s.choosePath key op lit)

/-! ### operation histories -/

inductive ColOp where
  | set (id : Nat) (v : V)
  | remove (id : Nat)
  | rebuild (ord : List Nat)
  deriving Repr

def Col.step (c : Col) : ColOp → Col
  | .set id v => c.set id v
  | .remove id => c.remove id
  | .rebuild ord => c.rebuild ord

def Col.run (ops : List ColOp) : Col := ops.foldl Col.step {}

inductive SOp where
  | node
  | set (n key : Nat) (v : V)
  | remove (n key : Nat)
  | delnode (n : Nat)
  | rebuild (ords : List (Nat × List Nat))
  | index (key : Nat)
  | dropindex (key : Nat)
  deriving Repr

def Store.step (s : Store) : SOp → Store
  | .node => s.createNode
  | .set n key v => s.setProp n key v
  | .remove n key => s.removeProp n key
  | .delnode n => s.deleteNode n
  | .rebuild ords => s.rebuild ords
  | .index key => s.createIndex key
  | .dropindex key => s.dropIndex key

def Store.run (ops : List SOp) : Store := ops.foldl Store.step {}

end Grafeo.ZoneMap
