import GrafeoModel.Model.Rdf

/-!
# `RdfStore::insert` / `remove` under thread interleavings (C20, triple-store clause)

One step of a thread = one critical section of `crates/grafeo-core/src/graph/rdf/store.rs`:

  insert   check   `triples.read().contains`                    ↦ step at `Pc.insCheck`
           write   `triples.write()` held: set, subject, predicate, object index ↦ `Pc.insWrite`
  remove   write   `triples.write()` held: set and the three indexes            ↦ `Pc.remWrite`

`asIs = true` is the code before commit "fix: the triple store updates its indexes under the
primary lock": the set and each index were separate critical sections (`insS`, `insP`, `insO`,
`remS`, `remP`, `remO`).

The ghost `log` records every completed operation with its result at its linearisation point.
No imports beyond the sequential model: linked into `gdriver`.
-/
namespace Grafeo.RdfConc
open Grafeo.Rdf

inductive COp where
  | insert (t : Triple)
  | remove (t : Triple)
deriving Repr, DecidableEq

inductive Pc where
  | idle
  | insCheck (t : Triple)
  | insWrite (t : Triple)
  | remWrite (t : Triple)
  -- the separate index sections of the code before the repair
  | insS (t : Triple) | insP (t : Triple) | insO (t : Triple)
  | remS (t : Triple) | remP (t : Triple) | remO (t : Triple)
deriving Repr, DecidableEq

structure Thread where
  pc : Pc := .idle
  todo : List COp := []
  results : List Bool := []
deriving Repr

structure State where
  store : Store
  threads : List Thread := []
  /-- ghost: (thread, operation, result) in linearisation order -/
  log : List (Nat × COp × Bool) := []
deriving Repr

def finishOp (t : Thread) (r : Bool) : Thread := { t with pc := .idle, results := t.results ++ [r] }

/-- one critical section of thread `t` (index `i`) -/
def stepThread (asIs : Bool) (i : Nat) (st : Store) (log : List (Nat × COp × Bool)) (t : Thread) :
    Store × List (Nat × COp × Bool) × Thread :=
  match t.pc with
  | .idle =>
    match t.todo with
    | [] => (st, log, t)
    | .insert x :: rest => (st, log, { t with pc := .insCheck x, todo := rest })
    | .remove x :: rest => (st, log, { t with pc := .remWrite x, todo := rest })
  | .insCheck x =>
    if x ∈ st.triples then (st, log ++ [(i, .insert x, false)], finishOp t false)
    else (st, log, { t with pc := .insWrite x })
  | .insWrite x =>
    if asIs then
      if x ∈ st.triples then (st, log ++ [(i, .insert x, false)], finishOp t false)
      else ({ st with triples := st.triples ++ [x] }, log ++ [(i, .insert x, true)], { t with pc := .insS x })
    else
      let r := st.insert x
      (r.1, log ++ [(i, .insert x, r.2)], finishOp t r.2)
  | .remWrite x =>
    if asIs then
      if x ∉ st.triples then (st, log ++ [(i, .remove x, false)], finishOp t false)
      else ({ st with triples := st.triples.filter (fun y => y != x) }, log ++ [(i, .remove x, true)], { t with pc := .remS x })
    else
      let r := st.remove x
      (r.1, log ++ [(i, .remove x, r.2)], finishOp t r.2)
  | .insS x => ({ st with sIdx := idxPush st.sIdx x.s x }, log, { t with pc := .insP x })
  | .insP x => ({ st with pIdx := idxPush st.pIdx x.p x }, log, { t with pc := .insO x })
  | .insO x => ({ st with oIdx := if st.indexObjects then idxPush st.oIdx x.o x else st.oIdx }, log, finishOp t true)
  | .remS x => ({ st with sIdx := idxRemove st.sIdx x.s x }, log, { t with pc := .remP x })
  | .remP x => ({ st with pIdx := idxRemove st.pIdx x.p x }, log, { t with pc := .remO x })
  | .remO x => ({ st with oIdx := if st.indexObjects then idxRemove st.oIdx x.o x else st.oIdx }, log, finishOp t true)

def Thread.done (t : Thread) : Bool := t.pc == .idle && t.todo.isEmpty

def step (asIs : Bool) (s : State) (i : Nat) : State :=
  match s.threads[i]? with
  | none => s
  | some t =>
    let r := stepThread asIs i s.store s.log t
    { store := r.1, log := r.2.1, threads := s.threads.set i r.2.2 }

def runSched (asIs : Bool) (s : State) (sched : List Nat) : State := sched.foldl (step asIs) s

def finishThread (asIs : Bool) : Nat → State → Nat → State
  | 0, s, _ => s
  | fuel + 1, s, i =>
    match s.threads[i]? with
    | none => s
    | some t => if t.done then s else finishThread asIs fuel (step asIs s i) i

def finishAll (asIs : Bool) (fuel : Nat) (s : State) : State :=
  (List.range s.threads.length).foldl (finishThread asIs fuel) s

def init (indexObjects : Bool) (progs : List (List COp)) : State :=
  { store := Store.new indexObjects, threads := progs.map (fun p => { todo := p }) }

/-- sequential replay of a list of operations, with their results -/
def applyOp (st : Store) : COp → Store × Bool
  | .insert x => st.insert x
  | .remove x => st.remove x

def replay (st : Store) : List COp → Store × List Bool
  | [] => (st, [])
  | op :: rest =>
    let r := applyOp st op
    let r' := replay r.1 rest
    (r'.1, r.2 :: r'.2)

/-- do the indexes agree with the primary set? (executable form of `Rdf.Inv`'s content) -/
def consistent (st : Store) : Bool :=
  let keysOk := fun (idx : Index) (key : Triple → Nat) =>
    idx.all (fun kv => !kv.2.isEmpty && kv.2.all (fun t => key t == kv.1 && st.triples.contains t)) &&
    st.triples.all (fun t => (idxGet idx (key t)).count t == 1)
  keysOk st.sIdx (·.s) && keysOk st.pIdx (·.p) && (!st.indexObjects || keysOk st.oIdx (·.o))

end Grafeo.RdfConc
