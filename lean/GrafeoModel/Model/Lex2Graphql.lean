import GrafeoModel.Model.Lex2

/-
C12 — executable model of the GraphQL lexer, `crates/grafeo-adapters/src/query/graphql/lexer.rs`
(`Lexer::next_token`, `tokenize`, `skip_whitespace_and_comments`, `read_string`,
`read_block_string`, `read_number`, `read_name`).  `dedent_block_string` works on the decoded value,
not on the cursor, and is not modelled.

The lexer walks a `Peekable<Chars>`; `advance` adds `len_utf8` to `position` and does nothing at end
of input.  `is_name_start` / `is_name_continue` use the Unicode tables `char::is_alphabetic` and
`char::is_numeric`: the model takes them as parameters `al`, `nu` (every theorem holds for all
predicates).

As the code is: a lone `.` / `..` and every character that starts no token yield `TokenKind::Eof`
(with a NON-empty span), and `tokenize` stops at the first `Eof` — the rest of the text is silently
dropped.  That is not a crash; `tokenize` below stops there as well.
-/
namespace Grafeo.Lex2.Graphql
open Grafeo.Lex Grafeo.Lex2

/-- comment: `while let Some(c) = peek() { if c == '\n' || c == '\r' { break } advance() }` -/
def skipLine : List Char → Nat → Cur
  | [], n => ⟨[], n⟩
  | ch :: r, n => if ch == '\n' || ch == '\r' then ⟨ch :: r, n⟩ else skipLine r (n + utf8Len ch)

/-- one iteration of the `loop { match self.peek() { … } }`; `none` = `_ => break` -/
def skipStep (c : Cur) : Option Cur :=
  match c.rest with
  | [] => none
  | ch :: r =>
    if isWs ch || ch == ',' then some ⟨r, c.pos + utf8Len ch⟩
    else if ch == '#' then some (skipLine (ch :: r) c.pos)
    else if ch == Char.ofNat 0xFEFF then some ⟨r, c.pos + utf8Len ch⟩
    else none

def skipWs (c : Cur) : Cur := iter skipStep (c.rest.length + 1) c

/-- `read_string` (opening quote consumed); `k` = pending unconditional `advance()`s of the
`for _ in 0..4` after `\u` -/
def readStr : Nat → List Char → Nat → Cur
  | _, [], n => ⟨[], n⟩
  | k + 1, ch :: r, n => readStr k r (n + utf8Len ch)
  | 0, ch :: r, n =>
    if ch == '\\' then
      match r with
      | [] => ⟨[], n + utf8Len ch⟩
      | e :: r' =>
        if e == 'u' then readStr 4 r' (n + utf8Len ch + utf8Len e)
        else readStr 0 r' (n + utf8Len ch + utf8Len e)
    else if ch == '"' then ⟨r, n + utf8Len ch⟩
    else readStr 0 r (n + utf8Len ch)

/-- the next two characters are `""` -/
def startsQQ : List Char → Bool
  | a :: b :: _ => a == '"' && b == '"'
  | _ => false

/-- `read_block_string` (opening `"""` consumed); `k` = pending unconditional `advance()`s (the three
after `\""`: only two quotes are checked, three characters are consumed) -/
def readBlock : Nat → List Char → Nat → Cur
  | _, [], n => ⟨[], n⟩
  | k + 1, ch :: r, n => readBlock k r (n + utf8Len ch)
  | 0, ch :: r, n =>
    if ch == '"' then
      if startsQQ r then advW utf8Len (advW utf8Len ⟨r, n + utf8Len ch⟩)   -- closing `"""`
      else readBlock 0 r (n + utf8Len ch)
    else if ch == '\\' then
      if startsQQ r then readBlock 3 r (n + utf8Len ch) else readBlock 0 r (n + utf8Len ch)
    else readBlock 0 r (n + utf8Len ch)

/-- `is_name_continue` -/
def nameCont (al nu : Char → Bool) (c : Char) : Bool := al c || nu c || c == '_'

/-- the `match self.advance()` of `next_token` for `Some(ch)`; `c` = cursor AFTER `ch` -/
def scanTok (al nu : Char → Bool) (ch : Char) (c : Cur) : K × Cur :=
  if ch == '!' || ch == '$' || ch == '&' || ch == '(' || ch == ')' || ch == ':' || ch == '=' ||
     ch == '@' || ch == '[' || ch == ']' || ch == '{' || ch == '}' || ch == '|' then (.punct, c)
  else if ch == '.' then
    if cur c == '.' && peek c == '.' then (.punct, advW utf8Len (advW utf8Len c))
    else (.eof, c)                                              -- "Invalid single dot"
  else if ch == '"' then
    if cur c == '"' && peek c == '"' then
      let c2 := advW utf8Len (advW utf8Len c)
      (.lstr, readBlock 0 c2.rest c2.pos)
    else (.str, readStr 0 c.rest c.pos)
  else if isDigit ch || ch == '-' then
    let r := readNum utf8Len false false c.rest c.pos
    (if r.1 then .flt else .int, r.2)
  else if al ch || ch == '_' then (.word, skipWhileW utf8Len (nameCont al nu) c.rest c.pos)
  else (.eof, c)                                                -- `_ => TokenKind::Eof`

/-- `next_token` -/
def nextToken (al nu : Char → Bool) (c0 : Cur) : Tok × Cur :=
  let c := skipWs c0
  match c.rest with
  | [] => (⟨.eof, c.pos, c.pos⟩, c)
  | ch :: r =>
    let x := scanTok al nu ch ⟨r, c.pos + utf8Len ch⟩
    (⟨x.1, c.pos, x.2.pos⟩, x.2)

/-- `tokenize`: stops at the first `Eof` -/
def tokenize (al nu : Char → Bool) (input : List Char) : List Tok :=
  tokenizeWith (nextToken al nu) input

end Grafeo.Lex2.Graphql
