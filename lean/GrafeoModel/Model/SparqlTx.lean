import GrafeoModel.Model.Rdf
/-
Model of SPARQL `INSERT DATA` / `DELETE DATA` / `SELECT` issued through
`Session::execute_sparql` inside and outside explicit session transactions
(`session.rs`: begin_tx / commit / rollback / execute_sparql → `RdfPlanner::with_tx_id`;
`planner_rdf.rs`: RdfInsertTripleOperator, RdfDeleteTripleOperator, RdfTripleScanOperator;
`rdf/store.rs`: insert_in_tx / remove_in_tx / commit_tx / rollback_tx).

As the code is: updates inside a transaction are pushed to the buffer of the session's
transaction id; commit applies the buffer in order; rollback drops it; **every read
(`RdfTripleScanOperator::ensure_triples`) calls `store.find`, never `find_with_pending`**, so
a read inside a transaction sees the currently committed set only (not a snapshot, and not
the transaction's own writes).
-/
namespace Grafeo.SparqlTx
open Grafeo.Rdf

/-- pool triple `k`: `<http://e/s{k/4}> <http://e/p{k%2}> <http://e/o{k%4}>` -/
def tripleOf (k : Nat) : Triple := ⟨k / 4, k % 2, k % 4⟩
def codeOf (t : Triple) : Nat := 4 * t.s + t.o

inductive Step where
  | begin (s : Nat)
  | commit (s : Nat)
  | rollback (s : Nat)
  | ins (s : Nat) (t : Triple)
  | del (s : Nat) (t : Triple)
  | query (s : Nat)
  | ask (s : Nat) (t : Triple)
  deriving Repr

inductive Res where
  | ok
  | err
  | rows (ts : List Triple)
  deriving Repr, DecidableEq

def setCur (cur : Nat → Option Nat) (s : Nat) (v : Option Nat) : Nat → Option Nat :=
  fun x => if x = s then v else cur x

structure St where
  store : Store
  bufs : Buffers
  cur : Nat → Option Nat      -- `Session::current_tx` of session s
  next : Nat                   -- `TransactionManager::begin` hands out fresh ids

def St.init : St := ⟨Store.new true, [], fun _ => none, 1⟩

def allPat : Pattern := ⟨none, none, none⟩
def pointPat (t : Triple) : Pattern := ⟨some t.s, some t.p, some t.o⟩

/-- `commit_tx`: take the buffer out and apply it in order. -/
def commitTx (store : Store) (bufs : Buffers) (tx : Nat) : Store × Buffers :=
  (applyPending store ((bufGet bufs tx).getD []), bufDrop bufs tx)

def step (st : St) : Step → St × Option Res
  | .begin s =>
    match st.cur s with
    | some _ => (st, some .err)
    | none => ({ st with cur := setCur st.cur s (some st.next), next := st.next + 1 }, some .ok)
  | .commit s =>
    match st.cur s with
    | none => (st, some .err)
    | some tx =>
      let r := commitTx st.store st.bufs tx
      ({ st with store := r.1, bufs := r.2, cur := setCur st.cur s none }, some .ok)
  | .rollback s =>
    match st.cur s with
    | none => (st, some .err)
    | some tx => ({ st with bufs := bufDrop st.bufs tx, cur := setCur st.cur s none }, some .ok)
  | .ins s t =>
    match st.cur s with
    | some tx => ({ st with bufs := bufPush st.bufs tx (.ins t) }, none)
    | none => ({ st with store := (st.store.insert t).1 }, none)
  | .del s t =>
    match st.cur s with
    | some tx => ({ st with bufs := bufPush st.bufs tx (.del t) }, none)
    | none => ({ st with store := (st.store.remove t).1 }, none)
  | .query _ => (st, some (.rows (st.store.find allPat)))
  | .ask _ t => (st, some (.rows (st.store.find (pointPat t))))

def runFrom (st : St) : List Step → St × List Res
  | [] => (st, [])
  | x :: rest =>
    let r := step st x
    let r' := runFrom r.1 rest
    (r'.1, (match r.2 with | some o => [o] | none => []) ++ r'.2)

def run (steps : List Step) : St × List Res := runFrom St.init steps

/-- ghost: the operations committed so far, in commit order (auto-commit updates count as
one-operation transactions). -/
def logFrom (st : St) : List Step → List Pending
  | [] => []
  | x :: rest =>
    (match x with
      | .commit s => (match st.cur s with | some tx => (bufGet st.bufs tx).getD [] | none => [])
      | .ins s t => (match st.cur s with | some _ => [] | none => [.ins t])
      | .del s t => (match st.cur s with | some _ => [] | none => [.del t])
      | _ => []) ++ logFrom (step st x).1 rest

/-! ### specification: sequential set semantics

Per session an optional list of own operations (in order) and, for the snapshot comparison
only, the committed set at BEGIN. -/

structure Spec where
  committed : Store
  own : Nat → Option (List Pending)
  snap : Nat → Option Store

def Spec.init : Spec := ⟨Store.new true, fun _ => none, fun _ => none⟩

def setF {α : Type} (f : Nat → α) (s : Nat) (v : α) : Nat → α := fun x => if x = s then v else f x

/-- what a read of session `s` must see (C13, weaker form: current committed set ⊕ own
operations in order). -/
def Spec.view (sp : Spec) (s : Nat) : Store :=
  match sp.own s with
  | none => sp.committed
  | some ops => applyPending sp.committed ops

/-- C01's form: committed set at BEGIN ⊕ own operations (used for the signature only). -/
def Spec.snapView (sp : Spec) (s : Nat) : Store :=
  match sp.own s, sp.snap s with
  | some ops, some st0 => applyPending st0 ops
  | _, _ => sp.committed

def specStep (sp : Spec) : Step → Spec × Option Res
  | .begin s =>
    match sp.own s with
    | some _ => (sp, some .err)
    | none => ({ sp with own := setF sp.own s (some []), snap := setF sp.snap s (some sp.committed) }, some .ok)
  | .commit s =>
    match sp.own s with
    | none => (sp, some .err)
    | some ops => ({ committed := applyPending sp.committed ops, own := setF sp.own s none,
                     snap := setF sp.snap s none }, some .ok)
  | .rollback s =>
    match sp.own s with
    | none => (sp, some .err)
    | some _ => ({ sp with own := setF sp.own s none, snap := setF sp.snap s none }, some .ok)
  | .ins s t =>
    match sp.own s with
    | some ops => ({ sp with own := setF sp.own s (some (ops ++ [.ins t])) }, none)
    | none => ({ sp with committed := (sp.committed.insert t).1 }, none)
  | .del s t =>
    match sp.own s with
    | some ops => ({ sp with own := setF sp.own s (some (ops ++ [.del t])) }, none)
    | none => ({ sp with committed := (sp.committed.remove t).1 }, none)
  | .query s => (sp, some (.rows ((sp.view s).triples.filter allPat.matches)))
  | .ask s t => (sp, some (.rows ((sp.view s).triples.filter (pointPat t).matches)))

def specRunFrom (sp : Spec) : List Step → Spec × List Res
  | [] => (sp, [])
  | x :: rest =>
    let r := specStep sp x
    let r' := specRunFrom r.1 rest
    (r'.1, (match r.2 with | some o => [o] | none => []) ++ r'.2)

def specRun (steps : List Step) : Spec × List Res := specRunFrom Spec.init steps

/-- snapshot variant of the outputs (sig only): reads use `snapView`. -/
def snapRunFrom (sp : Spec) : List Step → List Res
  | [] => []
  | x :: rest =>
    let r := specStep sp x
    let o : Option Res := match x with
      | .query s => some (.rows ((sp.snapView s).triples.filter allPat.matches))
      | .ask s t => some (.rows ((sp.snapView s).triples.filter (pointPat t).matches))
      | _ => r.2
    (match o with | some o => [o] | none => []) ++ snapRunFrom r.1 rest

/-- snapshot variant without own writes: what the model would print if it read the committed
set at BEGIN (isolates `rdf-read-not-snapshot` from `rdf-own-writes-invisible`). -/
def snapOnlyFrom (sp : Spec) : List Step → List Res
  | [] => []
  | x :: rest =>
    let r := specStep sp x
    let base (s : Nat) : Store := match sp.snap s with | some st0 => st0 | none => sp.committed
    let o : Option Res := match x with
      | .query s => some (.rows ((base s).triples.filter allPat.matches))
      | .ask s t => some (.rows ((base s).triples.filter (pointPat t).matches))
      | _ => r.2
    (match o with | some o => [o] | none => []) ++ snapOnlyFrom r.1 rest

/-- committed-only variant: every read sees the current committed set. -/
def commOnlyFrom (sp : Spec) : List Step → List Res
  | [] => []
  | x :: rest =>
    let r := specStep sp x
    let o : Option Res := match x with
      | .query _ => some (.rows (sp.committed.triples.filter allPat.matches))
      | .ask _ t => some (.rows (sp.committed.triples.filter (pointPat t).matches))
      | _ => r.2
    (match o with | some o => [o] | none => []) ++ commOnlyFrom r.1 rest

/-- insertion sort on codes, for canonical output -/
def insSorted (x : Nat) : List Nat → List Nat
  | [] => [x]
  | y :: ys => if x ≤ y then x :: y :: ys else y :: insSorted x ys
def sortNat (xs : List Nat) : List Nat := xs.foldr insSorted []

def Res.canon : Res → Res
  | .rows ts => .rows ((sortNat (ts.map codeOf)).map tripleOf)
  | r => r

end Grafeo.SparqlTx
