/-
Logical plan algebra of `crates/grafeo-engine/src/query/plan.rs` (the read operators the GQL and
Cypher translators emit), a denotational semantics for it, and the three rewrites of
`crates/grafeo-engine/src/query/optimizer/mod.rs` **as the code computes them** (C09):

* `Expr.vars`            = `collect_variables` / `extract_variables`          (l. 842–930)
* `passesThrough`, `containsSubquery` = `passes_through`, `contains_subquery` (added by the repair)
* `outVars`              = `collect_output_variables_recursive`               (l. 782–839)
* `tryPush`, `pushFilters` = `try_push_filter_into`, `push_filters_down`      (l. 611–772)
* `reqCols`, `pushProj`  = `collect_required_columns`, `push_projections_recursive` (l. 173–423)
* `joinCheck`            = a checker for the output of `reorder_joins`        (l. 431–605; DPccp and
                           the float cost model are not transliterated, their result is validated)

Sets (`HashSet<String>`) are lists here: the code only asks membership / disjointness questions.
Import-free: this file is linked into `gdriver`.
-/
namespace Grafeo.Plan

/-! ## values, rows, expressions -/

/-- `str` carries the lower-case hex of the UTF-8 bytes (order and equality of hex strings are the
order and equality of the byte strings); `other` is any value the protocol does not interpret. -/
inductive Val where
  | null
  | bool (b : Bool)
  | int (i : Int)
  | str (hex : String)
  | node (id : Nat)
  | edge (id : Nat)
  | other (tok : String)
  deriving DecidableEq, Repr, Inhabited

abbrev Row := List (String × Val)

/-- first binding of a column name (the planner resolves `Variable(name)` by column name) -/
def look (v : String) : Row → Option Val
  | [] => none
  | (k, x) :: r => if k = v then some x else look v r

def Row.get (r : Row) (v : String) : Val := (look v r).getD .null

/-- Expressions. n-ary nodes (`FunctionCall`, `List`, `Map`, `IndexAccess`, `SliceAccess`, `Case`,
`ListComprehension`) are one constructor `call tag info args` whose argument list is spelled with
`argCons`/`argNil` of the same type, so that every function below is plain structural recursion.
`subq` is `ExistsSubquery` / `CountSubquery`: `collect_variables` reports **no** variable for it. -/
inductive Expr where
  | lit (v : Val)
  | var (x : String)
  | prop (x k : String)
  | bin (op : String) (l r : Expr)
  | un (op : String) (e : Expr)
  | vf (tag x : String)                 -- Labels / Type / Id
  | param (x : String)
  | subq (tag fp : String)
  | call (tag : String) (info : List String) (args : Expr)
  | argNil
  | argCons (e rest : Expr)
  deriving DecidableEq, Repr, Inhabited

/-- `collect_variables` -/
def Expr.vars : Expr → List String
  | .lit _ => []
  | .var x => [x]
  | .prop x _ => [x]
  | .bin _ l r => l.vars ++ r.vars
  | .un _ e => e.vars
  | .vf _ x => [x]
  | .param _ => []
  | .subq _ _ => []
  | .call _ _ a => a.vars
  | .argNil => []
  | .argCons e r => e.vars ++ r.vars

/-- no subquery inside: the expression's value is a function of the row's bindings of `vars` -/
def Expr.local : Expr → Bool
  | .subq _ _ => false
  | .bin _ l r => l.local && r.local
  | .un _ e => e.local
  | .call _ _ a => a.local
  | .argCons e r => e.local && r.local
  | _ => true

/-! ## graph and environment -/

structure Node where
  id : Nat
  labels : List String
  props : List (String × Val)
  deriving Repr

structure Edge where
  id : Nat
  src : Nat
  dst : Nat
  ty : String
  props : List (String × Val)
  deriving Repr

/-- Everything an evaluation depends on besides the plan: the graph, and interpretations of the
symbols the model leaves uninterpreted (function calls, parameters, subqueries, the rows of
operators outside the algebra). Theorems quantify over all of it. -/
structure Env where
  nodes : List Node
  edges : List Edge
  fn : String → List String → List Val → Val
  vfn : String → Val → Val
  param : String → Val
  subq : String → String → Row → Val
  otherRows : String → String → List Row

def Val.ofTok (t : String) : Val :=
  match t.toList with
  | 'N' :: _ => .null
  | 'B' :: r => .bool (r == ['1'])
  | 'I' :: r => match (String.ofList r).toInt? with | some i => .int i | none => .other t
  | 'S' :: r => .str (String.ofList r)
  | _ => .other t

def Val.tok : Val → String
  | .null => "N"
  | .bool b => if b then "B1" else "B0"
  | .int i => "I" ++ toString i
  | .str h => "S" ++ h
  | .node i => "n" ++ toString i
  | .edge i => "e" ++ toString i
  | .other t => t

def propOf (ps : List (String × Val)) (k : String) : Val := (look k ps).getD .null

def Env.prop (env : Env) (x : Val) (k : String) : Val :=
  match x with
  | .node i => match env.nodes.find? (·.id == i) with | some n => propOf n.props k | none => .null
  | .edge i => match env.edges.find? (·.id == i) with | some e => propOf e.props k | none => .null
  | _ => .null

/-- three-valued comparison as in `filter.rs::compare_values` / `values_equal` (unknown = `null`) -/
def cmpOp (op : String) (a b : Val) : Val :=
  let ord : Option Ordering := match a, b with
    | .int x, .int y => some (compare x y)
    | .str x, .str y => some (compare x y)
    | _, _ => none
  match ord with
  | some o =>
    if op = "eq" then .bool (o == .eq) else if op = "ne" then .bool (o != .eq)
    else if op = "lt" then .bool (o == .lt) else if op = "le" then .bool (o != .gt)
    else if op = "gt" then .bool (o == .gt) else .bool (o != .lt)
  | none =>
    if a = .null ∨ b = .null then .null
    else if op = "eq" then .bool (a == b) else if op = "ne" then .bool (a != b) else .null

def binOp (op : String) (a b : Val) : Val :=
  if op = "and" then
    (match a, b with
     | .bool false, _ => .bool false
     | _, .bool false => .bool false
     | .bool true, .bool true => .bool true
     | _, _ => .null)
  else if op = "or" then
    (match a, b with
     | .bool true, _ => .bool true
     | _, .bool true => .bool true
     | .bool false, .bool false => .bool false
     | _, _ => .null)
  else if op = "xor" then
    (match a, b with
     | .bool x, .bool y => .bool (x != y)
     | _, _ => .null)
  else if op = "add" then (match a, b with | .int x, .int y => .int (x + y) | _, _ => .null)
  else if op = "sub" then (match a, b with | .int x, .int y => .int (x - y) | _, _ => .null)
  else if op = "mul" then (match a, b with | .int x, .int y => .int (x * y) | _, _ => .null)
  else if op = "eq" ∨ op = "ne" ∨ op = "lt" ∨ op = "le" ∨ op = "gt" ∨ op = "ge" then cmpOp op a b
  else .null

def unOp (op : String) (a : Val) : Val :=
  if op = "not" then (match a with | .bool b => .bool (!b) | _ => .null)
  else if op = "neg" then (match a with | .int i => .int (-i) | _ => .null)
  else if op = "isnull" then .bool (a == .null)
  else if op = "isnotnull" then .bool (a != .null)
  else .null

/-- value list of an expression in a row: scalar nodes give a singleton, `argCons` chains give the
argument values in order -/
def evalL (env : Env) (ρ : Row) : Expr → List Val
  | .lit v => [v]
  | .var x => [ρ.get x]
  | .prop x k => [env.prop (ρ.get x) k]
  | .bin op l r => [binOp op ((evalL env ρ l).headD .null) ((evalL env ρ r).headD .null)]
  | .un op e => [unOp op ((evalL env ρ e).headD .null)]
  | .vf tag x => [env.vfn tag (ρ.get x)]
  | .param x => [env.param x]
  | .subq tag fp => [env.subq tag fp ρ]
  | .call tag m a => [env.fn tag m (evalL env ρ a)]
  | .argNil => []
  | .argCons e r => evalL env ρ e ++ evalL env ρ r

def evalE (env : Env) (ρ : Row) (e : Expr) : Val := (evalL env ρ e).headD .null

/-- a filter keeps the rows on which its predicate is `true` (not unknown, not anything else) -/
def keep (env : Env) (pred : Expr) (ρ : Row) : Bool := evalE env ρ pred == .bool true

/-! ## plans -/

abbrev Item := Expr × Option String

structure ExpandSpec where
  src : String
  dst : String
  edge : Option String
  dir : String                      -- out | in | both
  ty : Option String
  minHops : Nat
  maxHops : Option Nat
  alias : Option String
  deriving DecidableEq, Repr

structure AggSpec where
  func : String
  distinct : Bool
  expr : Option Expr
  alias : Option String
  pct : Option String
  deriving DecidableEq, Repr

inductive JoinType where
  | inner | left | right | full | cross | semi | anti
  deriving DecidableEq, Repr

inductive Plan where
  | scan (v : String) (label : Option String)
  | scanIn (v : String) (label : Option String) (input : Plan)     -- `NodeScanOp.input = Some(..)`
  | expand (s : ExpandSpec) (input : Plan)
  | filter (pred : Expr) (input : Plan)
  | project (items : List Item) (input : Plan)
  | ret (distinct : Bool) (items : List Item) (input : Plan)
  | join (ty : JoinType) (conds : List (Expr × Expr)) (left right : Plan)
  | limit (n : Nat) (input : Plan)
  | skip (n : Nat) (input : Plan)
  | sort (keys : List (Expr × Bool)) (input : Plan)
  | distinct (cols : Option (List String)) (input : Plan)
  | agg (groupBy : List Expr) (aggs : List AggSpec) (having : Option Expr) (input : Plan)
  | other (name fp : String) (cols : List String)     -- any other operator; `cols` = its output columns
  deriving DecidableEq, Repr, Inhabited

/-! ### the optimizer's variable analyses -/

def aggAliases (aggs : List AggSpec) : List String := aggs.filterMap (·.alias)

def exprsVars : List Expr → List String
  | [] => []
  | e :: es => e.vars ++ exprsVars es

/-- grouping keys that are bare variables -/
def bareVars : List Expr → List String
  | [] => []
  | .var x :: es => x :: bareVars es
  | _ :: es => bareVars es

/-- what a projection / return list reports: its aliases and its bare (unaliased) variables -/
def handedOn : List Item → List String
  | [] => []
  | (_, some a) :: rest => a :: handedOn rest
  | (.var x, none) :: rest => x :: handedOn rest
  | (_, none) :: rest => handedOn rest

/-- `collect_output_variables_recursive` (after cc52572). A chained `NodeScan` hands on what its
input binds; `Project` and `Return` report exactly their aliases and bare variables and are not
descended into; a semi/anti join reports its left side only. Still an approximation: `Aggregate`
reports its grouping keys that are bare variables and its aliases, an `Expand` does not report its
path-length column, unaliased computed items and operators outside the list (`LeftJoin`, `Unwind`,
`ShortestPath`, …) report nothing (`outputsKnown` tells whether such an operator is present). -/
def outVars : Plan → List String
  | .scan v _ => [v]
  | .scanIn v _ i => v :: outVars i
  | .expand s i => s.dst :: (s.edge.toList ++ outVars i)
  | .filter _ i => outVars i
  | .project items _ => handedOn items
  | .ret _ items _ => handedOn items
  | .join ty _ l r =>
    match ty with
    | .semi => outVars l
    | .anti => outVars l
    | _ => outVars l ++ outVars r
  | .limit _ i => outVars i
  | .skip _ i => outVars i
  | .sort _ i => outVars i
  | .distinct _ i => outVars i
  | .agg gb aggs _ _ => bareVars gb ++ aggAliases aggs
  | .other _ _ _ => []

/-- `outputs_known`: does `collect_output_variables` know every operator of this tree?
(`Project`, `Return`, `Aggregate` report their own lists and are not entered) -/
def outputsKnown : Plan → Bool
  | .scan _ _ => true
  | .scanIn _ _ i => outputsKnown i
  | .expand _ i => outputsKnown i
  | .filter _ i => outputsKnown i
  | .project _ _ => true
  | .ret _ _ _ => true
  | .agg _ _ _ _ => true
  | .join _ _ l r => outputsKnown l && outputsKnown r
  | .limit _ i => outputsKnown i
  | .skip _ i => outputsKnown i
  | .sort _ i => outputsKnown i
  | .distinct _ i => outputsKnown i
  | .other _ _ _ => false

def usesAny (vs : List String) (side : List String) : Bool := vs.any (fun v => side.contains v)

def allIn (vs : List String) (side : List String) : Bool := vs.all (fun v => side.contains v)

/-- `contains_subquery` -/
def containsSubquery : Expr → Bool
  | .subq _ _ => true
  | .bin _ l r => containsSubquery l || containsSubquery r
  | .un _ e => containsSubquery e
  | .call _ _ a => containsSubquery a
  | .argCons e r => containsSubquery e || containsSubquery r
  | _ => false

/-- `passes_through`: some item is the bare variable `v` (not renamed) or `*`, no other item is
named `v` by an alias, and no item is an unaliased computed expression (its generated column name
is not known to the optimizer) -/
def passesThrough (items : List Item) (v : String) : Bool :=
  let star := items.any (fun it => it.1 == .var "*")
  let handed := items.any (fun it => it.1 == .var v && (it.2 == none || it.2 == some v))
  let shadowed := items.any (fun it => it.2 == some v && it.1 != .var v)
  let unnamed := items.any (fun it => it.2 == none && !(match it.1 with | .var _ => true | _ => false))
  (handed || star) && !shadowed && !unnamed

/-- join types whose left input survives a filter on left columns / right input likewise
(`left_preserved`, `right_preserved`) -/
def leftPushTypes (ty : JoinType) : Bool :=
  match ty with
  | .inner | .cross | .left | .semi | .anti => true
  | _ => false

def rightPushTypes (ty : JoinType) : Bool :=
  match ty with
  | .inner | .cross => true
  | _ => false

def pushesLeft (pred : Expr) (ty : JoinType) (l r : Plan) : Bool :=
  usesAny pred.vars (outVars l) && !usesAny pred.vars (outVars r) && allIn pred.vars (outVars l)
    && (outputsKnown l && outputsKnown r && leftPushTypes ty)

def pushesRight (pred : Expr) (ty : JoinType) (l r : Plan) : Bool :=
  usesAny pred.vars (outVars r) && !usesAny pred.vars (outVars l) && allIn pred.vars (outVars r)
    && (outputsKnown l && outputsKnown r && rightPushTypes ty)

/-! ### filter push-down, as coded -/

/-- the `match op` of `try_push_filter_into` (entered only with a subquery-free predicate; the
recursive calls re-test the same predicate, so they land here again) -/
def tryPushGo (pred : Expr) : Plan → Plan
  | .project items i =>
    if pred.vars.all (passesThrough items) then .project items (tryPushGo pred i)
    else .filter pred (.project items i)
  | .ret d items i =>
    if pred.vars.all (passesThrough items) then .ret d items (tryPushGo pred i)
    else .filter pred (.ret d items i)
  | .expand s i =>
    if allIn pred.vars (outVars i) then .expand s (tryPushGo pred i)
    else .filter pred (.expand s i)
  | .join ty cs l r =>
    if pushesLeft pred ty l r then .join ty cs (tryPushGo pred l) r
    else if pushesRight pred ty l r then .join ty cs l (tryPushGo pred r)
    else .filter pred (.join ty cs l r)
  | .scan v lb => .filter pred (.scan v lb)
  | .scanIn v lb i => .filter pred (.scanIn v lb i)
  | .filter q i => .filter pred (.filter q i)
  | .limit n i => .filter pred (.limit n i)
  | .skip n i => .filter pred (.skip n i)
  | .sort k i => .filter pred (.sort k i)
  | .distinct c i => .filter pred (.distinct c i)
  | .agg g a h i => .filter pred (.agg g a h i)
  | .other n f c => .filter pred (.other n f c)

/-- `try_push_filter_into` -/
def tryPush (pred : Expr) (p : Plan) : Plan :=
  if containsSubquery pred then .filter pred p else tryPushGo pred p

/-- `push_filters_down` -/
def pushFilters : Plan → Plan
  | .filter pred i => tryPush pred (pushFilters i)
  | .ret d items i => .ret d items (pushFilters i)
  | .project items i => .project items (pushFilters i)
  | .limit n i => .limit n (pushFilters i)
  | .skip n i => .skip n (pushFilters i)
  | .sort k i => .sort k (pushFilters i)
  | .distinct c i => .distinct c (pushFilters i)
  | .expand s i => .expand s (pushFilters i)
  | .join ty cs l r => .join ty cs (pushFilters l) (pushFilters r)
  | .agg g a h i => .agg g a h (pushFilters i)
  | .scan v lb => .scan v lb
  | .scanIn v lb i => .scanIn v lb i          -- `other => other`: the chained input is not visited
  | .other n f c => .other n f c

/-! ### the guards before the repair (kept for the regression witnesses of Props/C09 only) -/

/-- `extract_projection_aliases` (deleted by the repair) -/
def aliases (items : List Item) : List String := items.filterMap (·.2)

/-- `collect_output_variables_recursive` before the repair: `NodeScan.input` was not visited -/
def outVarsOld : Plan → List String
  | .scan v _ => [v]
  | .scanIn v _ _ => [v]
  | .expand s i => s.dst :: (s.edge.toList ++ outVarsOld i)
  | .filter _ i => outVarsOld i
  | .project items i => aliases items ++ outVarsOld i
  | .ret _ _ i => outVarsOld i
  | .join _ _ l r => outVarsOld l ++ outVarsOld r
  | .limit _ i => outVarsOld i
  | .skip _ i => outVarsOld i
  | .sort _ i => outVarsOld i
  | .distinct _ i => outVarsOld i
  | .agg gb aggs _ _ => exprsVars gb ++ aggAliases aggs
  | .other _ _ _ => []

def introduced (s : ExpandSpec) : List String := s.dst :: (s.edge.toList ++ s.alias.toList)

/-- `try_push_filter_into` before the repair -/
def tryPushOld (pred : Expr) : Plan → Plan
  | .project items i =>
    if usesAny pred.vars (aliases items) then .filter pred (.project items i)
    else .project items (tryPushOld pred i)
  | .ret d items i => .ret d items (tryPushOld pred i)
  | .expand s i =>
    if usesAny pred.vars (introduced s) then .filter pred (.expand s i)
    else .expand s (tryPushOld pred i)
  | .join ty cs l r =>
    if usesAny pred.vars (outVarsOld l) && !usesAny pred.vars (outVarsOld r) then
      .join ty cs (tryPushOld pred l) r
    else if usesAny pred.vars (outVarsOld r) && !usesAny pred.vars (outVarsOld l) then
      .join ty cs l (tryPushOld pred r)
    else .filter pred (.join ty cs l r)
  | p => .filter pred p

def pushFiltersOld : Plan → Plan
  | .filter pred i => tryPushOld pred (pushFiltersOld i)
  | .ret d items i => .ret d items (pushFiltersOld i)
  | .project items i => .project items (pushFiltersOld i)
  | .limit n i => .limit n (pushFiltersOld i)
  | .skip n i => .skip n (pushFiltersOld i)
  | .sort k i => .sort k (pushFiltersOld i)
  | .distinct c i => .distinct c (pushFiltersOld i)
  | .expand s i => .expand s (pushFiltersOld i)
  | .join ty cs l r => .join ty cs (pushFiltersOld l) (pushFiltersOld r)
  | .agg g a h i => .agg g a h (pushFiltersOld i)
  | p => p

/-! ### projection push-down, as coded -/

inductive Req where
  | variable (v : String)
  | property (v k : String)
  deriving DecidableEq, Repr

/-- `collect_from_expression` (`Parameter`, subqueries and literals contribute nothing) -/
def reqOfExpr : Expr → List Req
  | .var x => [.variable x]
  | .prop x k => [.property x k, .variable x]
  | .bin _ l r => reqOfExpr l ++ reqOfExpr r
  | .un _ e => reqOfExpr e
  | .vf _ x => [.variable x]
  | .call _ _ a => reqOfExpr a
  | .argCons e r => reqOfExpr e ++ reqOfExpr r
  | _ => []

def reqOfExprs : List Expr → List Req
  | [] => []
  | e :: es => reqOfExpr e ++ reqOfExprs es

def reqOfAggs : List AggSpec → List Req
  | [] => []
  | a :: as => (match a.expr with | some e => reqOfExpr e | none => []) ++ reqOfAggs as

def reqOfConds : List (Expr × Expr) → List Req
  | [] => []
  | c :: cs => reqOfExpr c.1 ++ reqOfExpr c.2 ++ reqOfConds cs

/-- `collect_required_recursive` -/
def reqCols : Plan → List Req
  | .ret _ items i => reqOfExprs (items.map (·.1)) ++ reqCols i
  | .project items i => reqOfExprs (items.map (·.1)) ++ reqCols i
  | .filter p i => reqOfExpr p ++ reqCols i
  | .sort ks i => reqOfExprs (ks.map (·.1)) ++ reqCols i
  | .agg gb aggs h i =>
    reqOfExprs gb ++ reqOfAggs aggs ++ (match h with | some e => reqOfExpr e | none => []) ++ reqCols i
  | .join _ cs l r => reqOfConds cs ++ reqCols l ++ reqCols r
  | .expand s i =>
    .variable s.src :: .variable s.dst :: ((s.edge.toList.map Req.variable) ++ reqCols i)
  | .limit _ i => reqCols i
  | .skip _ i => reqCols i
  | .distinct _ i => reqCols i
  | .scan v _ => [.variable v]
  | .scanIn v _ _ => [.variable v]
  | .other _ _ _ => []

def Req.onSide (side : List String) : Req → Bool
  | .variable v => side.contains v
  | .property v _ => side.contains v

/-- `push_projections_recursive`: threads the required set through the tree, splitting it at joins —
and inserts nothing -/
def pushProj (req : List Req) : Plan → Plan
  | .ret d items i => .ret d items (pushProj req i)
  | .project items i => .project items (pushProj req i)
  | .filter p i => .filter p (pushProj req i)
  | .sort k i => .sort k (pushProj req i)
  | .agg g a h i => .agg g a h (pushProj req i)
  | .join ty cs l r =>
    .join ty cs (pushProj (req.filter (Req.onSide (outVars l))) l)
      (pushProj (req.filter (Req.onSide (outVars r))) r)
  | .expand s i => .expand s (pushProj req i)
  | .limit n i => .limit n (pushProj req i)
  | .skip n i => .skip n (pushProj req i)
  | .distinct c i => .distinct c (pushProj req i)
  | .scan v lb => .scan v lb
  | .scanIn v lb i => .scanIn v lb i
  | .other n f c => .other n f c

/-- `push_projections_down` -/
def pushProjections (p : Plan) : Plan := pushProj (reqCols p) p

/-! ## semantics -/

/-- output column name of a projection / return item (`planner.rs::expression_to_string`) -/
def itemName : Item → String
  | (_, some a) => a
  | (.var x, none) => x
  | (.prop x k, none) => x ++ "." ++ k
  | (.lit v, none) => "lit:" ++ v.tok
  | (.call _ m _, none) => m.headD "" ++ "(...)"
  | (_, none) => "expr"

def aggName (a : AggSpec) : String := a.alias.getD (a.func ++ "(...)")

def expandCols (s : ExpandSpec) : List String :=
  s.edge.toList ++ [s.dst] ++ (s.alias.toList.map (fun a => "_path_length_" ++ a))

/-- the column names of every row a plan produces, in order -/
def cols : Plan → List String
  | .scan v _ => [v]
  | .scanIn v _ i => cols i ++ [v]
  | .expand s i => cols i ++ expandCols s
  | .filter _ i => cols i
  | .project items _ => items.map itemName
  | .ret _ items _ => items.map itemName
  | .join ty _ l r =>
    match ty with
    | .semi => cols l
    | .anti => cols l
    | _ => cols l ++ cols r
  | .limit _ i => cols i
  | .skip _ i => cols i
  | .sort _ i => cols i
  | .distinct _ i => cols i
  | .agg gb aggs _ _ => gb.map (fun e => itemName (e, none)) ++ aggs.map aggName
  | .other _ _ c => c

def hasLabel (lb : Option String) (n : Node) : Bool :=
  match lb with | some l => n.labels.contains l | none => true

def scanRows (env : Env) (v : String) (lb : Option String) : List Row :=
  (env.nodes.filter (hasLabel lb)).map (fun n => [(v, Val.node n.id)])

def tyOk (ty : Option String) (e : Edge) : Bool :=
  match ty with | some t => e.ty == t | none => true

/-- one hop from node `a`: (edge id, neighbour id); `both` = forward adjacency then backward
adjacency without self-loops (as `LpgStore::edges_from(Direction::Both)`) -/
def hop (env : Env) (dir : String) (ty : Option String) (a : Nat) : List (Nat × Nat) :=
  let outs := (env.edges.filter (fun e => e.src == a && tyOk ty e)).map (fun e => (e.id, e.dst))
  let ins := (env.edges.filter (fun e => e.dst == a && tyOk ty e)).map (fun e => (e.id, e.src))
  let insNoLoop := (env.edges.filter (fun e => e.dst == a && e.src != a && tyOk ty e)).map (fun e => (e.id, e.src))
  if dir = "out" then outs else if dir = "in" then ins else outs ++ insNoLoop

/-- walks of exactly `k ≥ 1` hops from `a`: (last edge, end node) -/
def walks (env : Env) (dir : String) (ty : Option String) : Nat → Nat → List (Nat × Nat)
  | 0, _ => []
  | 1, a => hop env dir ty a
  | k + 2, a => (hop env dir ty a).flatMap (fun (_, b) => walks env dir ty (k + 1) b)

def hopCounts (lo hi : Nat) : List Nat := (List.range (hi + 1 - lo)).map (· + lo)

/-- the columns an `Expand` appends for a source value -/
def expandExt (env : Env) (s : ExpandSpec) (srcVal : Val) : List Row :=
  match srcVal with
  | .node a =>
    (hopCounts (max s.minHops 1) (s.maxHops.getD (s.minHops + 10))).flatMap (fun k =>
      (walks env s.dir s.ty k a).map (fun (eid, b) =>
        (s.edge.toList.map (fun e => (e, Val.edge eid))) ++ [(s.dst, Val.node b)]
          ++ (s.alias.toList.map (fun al => ("_path_length_" ++ al, Val.int k)))))
  | _ => []

def projRow (env : Env) (items : List Item) (ρ : Row) : Row :=
  items.map (fun it => (itemName it, evalE env ρ it.1))

def dedup : List Row → List Row
  | [] => []
  | r :: rs => r :: (dedup rs).filter (· != r)

def dedupOn (key : Row → List Val) : List Row → List Row
  | [] => []
  | r :: rs => r :: (dedupOn key rs).filter (fun x => key x != key r)

def condsHold (env : Env) (cs : List (Expr × Expr)) (ρ : Row) : Bool :=
  cs.all (fun c => cmpOp "eq" (evalE env ρ c.1) (evalE env ρ c.2) == .bool true)

def nullRow (cs : List String) : Row := cs.map (fun c => (c, Val.null))

def matchRows (env : Env) (cs : List (Expr × Expr)) (a : Row) (rs : List Row) : List Row :=
  (rs.filter (fun b => condsHold env cs (a ++ b))).map (fun b => a ++ b)

/-- rows a left row contributes, for the join types driven by the left input -/
def perLeft (env : Env) (ty : JoinType) (cs : List (Expr × Expr)) (rcols : List String)
    (rs : List Row) (a : Row) : List Row :=
  match ty with
  | .left => if (matchRows env cs a rs).isEmpty then [a ++ nullRow rcols] else matchRows env cs a rs
  | .semi => if (matchRows env cs a rs).isEmpty then [] else [a]
  | .anti => if (matchRows env cs a rs).isEmpty then [a] else []
  | _ => matchRows env cs a rs

def joinRows (env : Env) (ty : JoinType) (cs : List (Expr × Expr)) (lcols rcols : List String)
    (ls rs : List Row) : List Row :=
  match ty with
  | .right =>
    rs.flatMap (fun b =>
      let ms := (ls.filter (fun a => condsHold env cs (a ++ b))).map (fun a => a ++ b)
      if ms.isEmpty then [nullRow lcols ++ b] else ms)
  | .full =>
    ls.flatMap (perLeft env .left cs rcols rs) ++
      (rs.filter (fun b => !(ls.any (fun a => condsHold env cs (a ++ b))))).map (fun b => nullRow lcols ++ b)
  | ty => ls.flatMap (perLeft env ty cs rcols rs)

/-- a total preorder on values for ORDER BY (nulls last, then by kind) -/
def valLe (a b : Val) : Bool :=
  match a, b with
  | .int x, .int y => x ≤ y
  | .str x, .str y => x ≤ y
  | .bool x, .bool y => !x || y
  | _, .null => true
  | .null, _ => false
  | _, _ => true

def keyLe (env : Env) (keys : List (Expr × Bool)) (a b : Row) : Bool :=
  match keys with
  | [] => true
  | (e, asc) :: rest =>
    let x := evalE env a e
    let y := evalE env b e
    if x = y then keyLe env rest a b else if asc then valLe x y else valLe y x

def insertSorted (le : Row → Row → Bool) (x : Row) : List Row → List Row
  | [] => [x]
  | y :: ys => if le x y then x :: y :: ys else y :: insertSorted le x ys

def sortRows (le : Row → Row → Bool) (rows : List Row) : List Row :=
  rows.foldr (insertSorted le) []

def aggValue (env : Env) (a : AggSpec) (group : List Row) : Val :=
  let vals : List Val := match a.expr with
    | some e => group.map (fun ρ => evalE env ρ e)
    | none => group.map (fun _ => Val.int 1)
  let nn := vals.filter (· != .null)
  if a.func = "count" then .int group.length
  else if a.func = "countnn" then .int nn.length
  else if a.func = "sum" then .int (nn.foldl (fun s v => match v with | .int i => s + i | _ => s) 0)
  else if a.func = "min" then nn.foldl (fun m v => if m = .null ∨ (valLe v m && v != m) then v else m) .null
  else if a.func = "max" then nn.foldl (fun m v => if m = .null ∨ (valLe m v && v != m) then v else m) .null
  else .null

def groupKey (env : Env) (gb : List Expr) (ρ : Row) : List Val := gb.map (evalE env ρ)

def aggRows (env : Env) (gb : List Expr) (aggs : List AggSpec) (having : Option Expr)
    (rows : List Row) : List Row :=
  let keys := (dedupOn (groupKey env gb) rows).map (groupKey env gb)
  let keys := if gb.isEmpty then [[]] else keys
  let out := keys.map (fun k =>
    let grp := rows.filter (fun ρ => groupKey env gb ρ == k)
    (gb.map (fun e => itemName (e, none))).zip k ++ aggs.map (fun a => (aggName a, aggValue env a grp)))
  match having with
  | some h => out.filter (keep env h)
  | none => out

/-- restrict an uninterpreted operator's rows to its declared columns -/
def conform (cs : List String) (ρ : Row) : Row := cs.map (fun c => (c, ρ.get c))

/-- bag semantics, order-preserving: every operator maps the row *list* of its input(s) -/
def eval (env : Env) : Plan → List Row
  | .scan v lb => scanRows env v lb
  | .scanIn v lb i => (eval env i).flatMap (fun ρ => (scanRows env v lb).map (fun s => ρ ++ s))
  | .expand s i => (eval env i).flatMap (fun ρ => (expandExt env s (ρ.get s.src)).map (fun x => ρ ++ x))
  | .filter p i => (eval env i).filter (keep env p)
  | .project items i => (eval env i).map (projRow env items)
  | .ret d items i =>
    if d then dedup ((eval env i).map (projRow env items)) else (eval env i).map (projRow env items)
  | .join ty cs l r => joinRows env ty cs (cols l) (cols r) (eval env l) (eval env r)
  | .limit n i => (eval env i).take n
  | .skip n i => (eval env i).drop n
  | .sort ks i => sortRows (keyLe env ks) (eval env i)
  | .distinct c i =>
    match c with
    | none => dedup (eval env i)
    | some cs => dedupOn (fun ρ => cs.map ρ.get) (eval env i)
  | .agg gb aggs h i => aggRows env gb aggs h (eval env i)
  | .other n f c => (env.otherRows n f).map (conform c)

/-! ## what the repaired guards still do not establish

The guards now ask the right questions of `outVars`; `outVars` is not the column list. `pushOK pred p`
states, along the path `tryPushGo pred p` takes, the three facts about the *columns* each step needs
and the guards cannot see — all static and decidable. `wfScope` is a plan-wide sufficient condition. -/

/-- a projection / return list hands variable `v` through unchanged: the first item named `v` is
the bare variable `v`, or nothing is named `v` and `v` was not bound below either -/
def passThrough (items : List Item) (below : List String) (v : String) : Bool :=
  match items.find? (fun it => itemName it == v) with
  | some it => it.1 == .var v
  | none => !below.contains v

def pushOK (pred : Expr) : Plan → Bool
  | .project items i =>
    if pred.vars.all (passesThrough items) then
      pred.vars.all (passThrough items (cols i)) && pushOK pred i
    else true
  | .ret _ items i =>
    if pred.vars.all (passesThrough items) then
      pred.vars.all (passThrough items (cols i)) && pushOK pred i
    else true
  | .expand s i =>
    if allIn pred.vars (outVars i) then
      pred.vars.all (fun v => (cols i).contains v || !(expandCols s).contains v) && pushOK pred i
    else true
  | .join ty _ l r =>
    if pushesLeft pred ty l r then
      pred.vars.all (fun v => (cols l).contains v || !(cols r).contains v) && pushOK pred l
    else if pushesRight pred ty l r then
      pred.vars.all (fun v => !(cols l).contains v) && pushOK pred r
    else true
  | _ => true

/-- every push step `pushFilters` performs on `p` lands where the predicate's variables have the
values they had above -/
def wfPush : Plan → Bool
  | .filter pred i => wfPush i && (containsSubquery pred || pushOK pred (pushFilters i))
  | .ret _ _ i => wfPush i
  | .project _ i => wfPush i
  | .limit _ i => wfPush i
  | .skip _ i => wfPush i
  | .sort _ i => wfPush i
  | .distinct _ i => wfPush i
  | .expand _ i => wfPush i
  | .join _ _ l r => wfPush l && wfPush r
  | .agg _ _ _ i => wfPush i
  | _ => true

/-- `outVars` reports nothing that is not a column -/
def noOver (q : Plan) : Bool := (outVars q).all (fun v => (cols q).contains v)

/-- every column is reported by `outVars` -/
def noUnder (q : Plan) : Bool := (cols q).all (fun v => (outVars q).contains v)

/-- no `*` item (`passes_through` lets every variable through one; the binder rejects it) -/
def noStar (items : List Item) : Bool := items.all (fun it => it.1 != .var "*")

def disjointCols (xs ys : List String) : Bool := xs.all (fun v => !ys.contains v)

/-- plan-wide sufficient condition for `wfPush`, all that is left to assume: no `*` item in a
projection list, and at every join either the left input has no column that `outVars` does not
report (path-length column, generated name of an unaliased computed item or aggregate) or the two
inputs have no column name in common. Chained scans are not entered: neither is the rewrite. -/
def wfScope : Plan → Bool
  | .expand _ i => wfScope i
  | .join _ _ l r => (noUnder l || disjointCols (cols l) (cols r)) && wfScope l && wfScope r
  | .project items i => noStar items && wfScope i
  | .ret _ items i => noStar items && wfScope i
  | .agg _ _ _ i => wfScope i
  | .filter _ i => wfScope i
  | .limit _ i => wfScope i
  | .skip _ i => wfScope i
  | .sort _ i => wfScope i
  | .distinct _ i => wfScope i
  | _ => true

/-! ## join reordering: checker -/

/-- leaves of the maximal inner/cross join tree rooted at a plan (anything else is a leaf) -/
def joinLeaves : Plan → List Plan
  | .join .inner _ l r => joinLeaves l ++ joinLeaves r
  | .join .cross _ l r => joinLeaves l ++ joinLeaves r
  | p => [p]

def joinConds : Plan → List (Expr × Expr)
  | .join .inner cs l r => cs ++ joinConds l ++ joinConds r
  | .join .cross cs l r => cs ++ joinConds l ++ joinConds r
  | _ => []

def condVars (c : Expr × Expr) : List String := c.1.vars ++ c.2.vars

def condLocal (c : Expr × Expr) : Bool := c.1.local && c.2.local

/-- every condition of the join tree sits at a node whose subtree binds all its variables -/
def condsScoped : Plan → Bool
  | .join .inner cs l r =>
    cs.all (fun c => condLocal c && (condVars c).all (fun v => (cols l ++ cols r).contains v))
      && condsScoped l && condsScoped r
  | .join .cross cs l r =>
    cs.all (fun c => condLocal c && (condVars c).all (fun v => (cols l ++ cols r).contains v))
      && condsScoped l && condsScoped r
  | _ => true

def removeFirst {α} [DecidableEq α] (x : α) : List α → Option (List α)
  | [] => none
  | y :: ys => if x = y then some ys else (removeFirst x ys).map (y :: ·)

/-- multiset equality by repeated removal -/
def sameBag {α} [DecidableEq α] : List α → List α → Bool
  | [], ys => ys.isEmpty
  | x :: xs, ys => match removeFirst x ys with | some ys' => sameBag xs ys' | none => false

def nodupStr : List String → Bool
  | [] => true
  | x :: xs => !xs.contains x && nodupStr xs

def leafCols (ls : List Plan) : List String := ls.flatMap cols

/-- verdict on one join tree: same leaves, same conditions, conditions scoped, columns distinct -/
def joinTreeCheck (before after : Plan) : Option String :=
  if !sameBag (joinLeaves before) (joinLeaves after) then some "leaves"
  else if !sameBag (joinConds before) (joinConds after) then some "conds"
  else if !condsScoped before then some "scope-before"
  else if !condsScoped after then some "scope-after"
  else if !nodupStr (leafCols (joinLeaves before)) then some "dup-cols"
  else none

def isJoinRoot : Plan → Bool
  | .join .inner _ _ _ => true
  | .join .cross _ _ _ => true
  | _ => false

def itemsLocal (items : List Item) : Bool := items.all (fun it => it.1.local)

/-- Parallel walk below a changed root: the operators above the join tree must coincide and be
among those that read a row only through its variable bindings and keep no positional state
(`Return` without DISTINCT, `Project`, `Filter` without subquery, `Sort`); at the join root the two
trees are compared as bags of leaves and conditions. `none` = accepted. -/
def joinCheckCtx : Plan → Plan → Option String
  | .ret d items i, .ret d' items' i' =>
    if d = false ∧ d' = false ∧ items = items' ∧ itemsLocal items = true then joinCheckCtx i i'
    else some "above"
  | .project items i, .project items' i' =>
    if items = items' ∧ itemsLocal items = true then joinCheckCtx i i' else some "above"
  | .filter p i, .filter p' i' =>
    if p = p' ∧ p.local = true then joinCheckCtx i i' else some "above"
  | .sort k i, .sort k' i' =>
    if k = k' then joinCheckCtx i i' else some "above"
  | b, a =>
    if isJoinRoot b && isJoinRoot a then joinTreeCheck b a else some "shape"

/-- checker for `reorder_joins`: an unchanged plan is accepted; a changed one must pass
`joinCheckCtx` -/
def joinCheck (b a : Plan) : Option String := if b = a then none else joinCheckCtx b a

end Grafeo.Plan
