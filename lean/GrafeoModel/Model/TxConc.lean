import GrafeoModel.Model.TxMgr

/-!
# `TransactionManager` under thread interleavings (C20, transaction clause)

`crates/grafeo-engine/src/transaction/manager.rs`. One step of a thread = what the real code does
between two yield points; a critical section is a lock scope or one atomic access:

  begin_with_isolation   alloc     `next_tx_id.fetch_add(1)` (no lock)                 ↦ `Pc.idle → reg`
                         register  `transactions.write()` held: `current_epoch.load`,
                                   `txns.insert(id, TxInfo::new(epoch, iso))`           ↦ `Pc.reg`
  record_write / record_read / abort / gc
                         `transactions.write()` held from the lookup to the update      ↦ one step
  commit                 `transactions.write()` held over validation, the
                         `current_epoch.fetch_add`, the state change and the
                         `committed_epochs` insert (gc takes the same lock first)       ↦ one step
  advance_epoch          `current_epoch.fetch_add(1)` (no lock)                         ↦ one step

The hash map `transactions` (with `committed_epochs`, only ever written under the same lock) is
the sequential model's slot list in insertion order plus `keys`: `keys[p]` is the transaction id
stored in slot `p`. A call on id `x` looks `x` up in `keys` (`List.idxOf`; an id that is not a key
gives an out-of-range slot, i.e. "Transaction not found"). Inside a lock scope the code is the
sequential code, so the step applies `TxMgr.step` to the shared manager value.

`advance_epoch` can run while another thread is inside `commit` (it takes no lock); `commit` reads
`current_epoch` only through its own `fetch_add`, and `Props/C20Conc2.lean`
(`c20_tx_commit_validation_ignores_epoch`) shows that validation does not depend on the epoch,
so an advance inside the commit scope is an advance before it.

Threads share transaction ids through harness variables: `begin v iso` stores the id it got in
variable `v` once `begin_with_isolation` has returned (same scheduler step as the register
section); the other operations read the variable when they start (unset ↦ `TxId::INVALID`).

The ghost `log` records one event per completed call, in the order of the critical section at
which the call takes effect, with the sequential operation it amounts to (ids translated to
slots), the sequential answer and the answer the thread got.
-/
namespace Grafeo.TxConc
open Grafeo.TxMgr

inductive COp where
  | begin (v : Nat) (iso : Iso)
  | write (v e : Nat)
  | read (v e : Nat)
  | commit (v : Nat)
  | abort (v : Nat)
  | gc
  | advance
  deriving DecidableEq, Repr

inductive Pc where
  | idle
  | reg (id v : Nat) (iso : Iso)
  deriving DecidableEq, Repr

structure Thread where
  pc : Pc := .idle
  todo : List COp := []
  /-- answers in program order; a `begin` answers `.id x` with `x = tx id - firstTxId` -/
  results : List Out := []
  deriving Repr

/-- sequential operations: the manager's own plus `advance_epoch` -/
inductive SOp where
  | tx (op : Op)
  | advance
  deriving DecidableEq, Repr

/-- `advance_epoch`: `fetch_add(1) + 1` -/
def advance (m : Mgr) : Mgr × Out := ({ m with epoch := m.epoch + 1 }, .count (m.epoch + 1))

def sstep (m : Mgr) : SOp → Mgr × Out
  | .tx op => TxMgr.step m op
  | .advance => advance m

structure Ev where
  thread : Nat
  op : SOp
  sout : Out
  cout : Out
  deriving Repr

structure State where
  next : Nat := 0
  m : Mgr := TxMgr.init
  keys : List Nat := []
  vars : List (Nat × Nat) := []
  threads : List Thread := []
  log : List Ev := []
  deriving Repr

/-- slot of the transaction a variable names (out of range when unset / unknown) -/
def pos (st : State) (v : Nat) : Nat :=
  match st.vars.lookup v with
  | some id => st.keys.idxOf id
  | none => st.keys.length

/-- the sequential operation a single-section call amounts to -/
def seqOf (st : State) : COp → SOp
  | .begin _ iso => .tx (.begin iso)
  | .write v e => .tx (.write (pos st v) e)
  | .read v e => .tx (.read (pos st v) e)
  | .commit v => .tx (.commit (pos st v))
  | .abort v => .tx (.abort (pos st v))
  | .gc => .tx .gc
  | .advance => .advance

def step (st : State) (i : Nat) : State :=
  match st.threads[i]? with
  | none => st
  | some t =>
    match t.pc with
    | .reg id v iso =>
      let r := sstep st.m (.tx (.begin iso))
      { st with m := r.1, keys := st.keys ++ [id], vars := (v, id) :: st.vars,
                log := st.log ++ [⟨i, .tx (.begin iso), r.2, .id id⟩],
                threads := st.threads.set i { t with pc := .idle, results := t.results ++ [.id id] } }
    | .idle =>
      match t.todo with
      | [] => st
      | .begin v iso :: rest =>
        { st with next := st.next + 1,
                  threads := st.threads.set i { t with todo := rest, pc := .reg st.next v iso } }
      | op :: rest =>
        let r := sstep st.m (seqOf st op)
        { st with m := r.1, log := st.log ++ [⟨i, seqOf st op, r.2, r.2⟩],
                  threads := st.threads.set i { t with todo := rest, results := t.results ++ [r.2] } }

def Thread.finished (t : Thread) : Bool := t.pc == .idle && t.todo.isEmpty

def runSched (st : State) (sched : List Nat) : State := sched.foldl step st

def finishThread : Nat → State → Nat → State
  | 0, st, _ => st
  | fuel + 1, st, i =>
    match st.threads[i]? with
    | none => st
    | some t => if t.finished then st else finishThread fuel (step st i) i

def finishAll (fuel : Nat) (st : State) : State :=
  (List.range st.threads.length).foldl (finishThread fuel) st

def init (progs : List (List COp)) : State := { threads := progs.map (fun p => { todo := p }) }

/-! ### the sequential reference -/

def srun (ops : List SOp) : Mgr × List Out :=
  ops.foldl (fun (acc : Mgr × List Out) op => let r := sstep acc.1 op; (r.1, acc.2 ++ [r.2])) (TxMgr.init, [])

/-- the epoch a call handed out -/
def epochOut : SOp → Out → Option Nat
  | .advance, .count e => some e
  | .tx (.commit _), .commit (.ok e) => some e
  | _, _ => none

def evEpoch (ev : Ev) : Option Nat := epochOut ev.op ev.sout

/-- the transaction id a `begin` handed out -/
def beginOut : SOp → Out → Option Nat
  | .tx (.begin _), .id x => some x
  | _, _ => none

def evBeginId (ev : Ev) : Option Nat := beginOut ev.op ev.cout

/-- answer of the thread vs answer of the sequential run: equal, except that a `begin` names the
transaction by its id and the sequential manager by its slot -/
def outRel (keys : List Nat) (c s : Out) : Prop :=
  match c, s with
  | .id x, .id p => keys[p]? = some x
  | a, b => a = b

end Grafeo.TxConc
