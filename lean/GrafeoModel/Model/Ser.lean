import GrafeoModel.Model.F64
/-
Model of the places where a `Value` (crates/grafeo-common/src/types/value.rs) is serialised.

* `Spill`  – the hand-written binary format of crates/grafeo-core/src/execution/spill/serializer.rs
             (`serialize_value` / `deserialize_value` / `serialize_row` / `deserialize_row`),
             transliterated: tag byte, little-endian fixed-width integers, u64 length prefixes,
             recursion for lists and maps. The allocation behaviour of the decoder is a parameter
             (`AllocFn`): the code as it is now (after fix a3c259e: buffers grow while reading, the
             reservation is capped by PREALLOC_LIMIT) is `allocNow`; the code before the fix
             (`vec![0u8; len]`, `Vec::with_capacity(len)` with an unchecked length) is `allocAsIs`,
             kept in `Spill.Old` with its witnesses: `Res.panic` is the "capacity overflow" panic,
             `Res.abort` the allocation failure.
* `Bin`    – the bytes `bincode::serde::encode_to_vec(_, config::standard())` produces for the derived
             `Serialize` of `Value` (used by `Value::serialize`, WAL records, snapshots), and the
             matching decoder. The codec is third-party code: this part is a model of its *format*,
             tied to the real crate only by the byte-exact correspondence stream.
* `Json`   – crates/bindings/c/src/types.rs `value_to_json` / `json_to_value` on `serde_json::Value`
             trees. The text layer (`serde_json::to_string` / `from_str`) is third-party and not
             modelled: it is taken to be the identity on trees, which holds for floats only with the
             `float_roundtrip` feature of serde_json (the default parser is off by one ulp on ~30 % of all
             finite patterns, e.g. `3e-308`); the stream compares tree level and text level on every line.

Conventions: a byte is a `UInt8`; `i64`, `f64`, timestamps are their 64-bit patterns (`UInt64`), `f32`
is its 32-bit pattern, so "bit for bit" is literal equality. Strings are their UTF-8 bytes
(`validUtf8` is `core::str::from_utf8`'s acceptance condition). A map is the list of its entries in
iteration order (`BTreeMap`: strictly ascending keys, `keysOK`).

No library imports besides `Model/F64.lean` (core only): linked into `gdriver`.
-/
namespace Grafeo.Ser

/-! ## values -/

inductive SVal where
  | null
  | bool (b : Bool)
  | int (bits : UInt64)
  | float (bits : UInt64)
  | str (utf8 : List UInt8)
  | bytes (bs : List UInt8)
  | ts (micros : UInt64)
  | list (items : List SVal)
  | map (entries : List (List UInt8 × SVal))
  | vec (f32s : List UInt32)
  deriving Repr, Inhabited

/-! ## outcomes -/

inductive Err where
  | eof            -- io::ErrorKind::UnexpectedEof
  | utf8           -- InvalidData: String::from_utf8 failed
  | tag (t : UInt8) -- InvalidData: "Unknown value tag"
  | cols           -- InvalidData: "Column count mismatch"
  | inttype        -- bincode DecodeError::InvalidIntegerType (varint marker too wide / reserved)
  | variant        -- serde: variant index out of range (bincode DecodeError::OtherString)
  | badbool        -- bincode DecodeError::InvalidBooleanValue
  | version        -- import_snapshot: "unsupported snapshot version"
  | limit          -- bincode DecodeError::LimitExceeded (`with_limit::<N>()`: byte budget used up)
  deriving DecidableEq, Repr

/-- Outcome of running a decoder. `panic` = unwinding panic ("capacity overflow"), `abort` =
`handle_alloc_error` (process abort), `fuel` = the model's recursion budget ran out (proved
unreachable for `decode`, see `Props/C16Ser.lean`). -/
inductive Res (α : Type) where
  | ok (a : α)
  | err (e : Err)
  | panic
  | abort
  | fuel
  deriving Repr

def Res.bind {α β : Type} (r : Res α) (f : α → Res β) : Res β :=
  match r with
  | .ok a => f a
  | .err e => .err e
  | .panic => .panic
  | .abort => .abort
  | .fuel => .fuel

instance : Monad Res where
  pure := Res.ok
  bind := Res.bind

def Res.isOk {α : Type} : Res α → Bool
  | .ok _ => true
  | _ => false

/-- returned an `Ok` or an `Err` (did not panic, abort). -/
def Res.returned {α : Type} : Res α → Bool
  | .ok _ => true
  | .err _ => true
  | _ => false

/-! ## little-endian integers -/

/-- `k` little-endian bytes of `n`. -/
def le : Nat → Nat → List UInt8
  | 0, _ => []
  | k + 1, n => UInt8.ofNat (n % 256) :: le k (n / 256)

def ofLe : List UInt8 → Nat
  | [] => 0
  | b :: bs => b.toNat + 256 * ofLe bs

def u64le (x : UInt64) : List UInt8 := le 8 x.toNat
def u32le (x : UInt32) : List UInt8 := le 4 x.toNat

def W64 : Nat := 18446744073709551616

/-- `(len as u64).to_le_bytes()`; `usize` is 64 bit, the `%` only makes the model total. -/
def lenLe (n : Nat) : List UInt8 := le 8 (n % W64)

/-! ## the reader (`&[u8]` / `BufReader<File>` as `Read`): `read_exact` -/

def readN (n : Nat) (bs : List UInt8) : Res (List UInt8 × List UInt8) :=
  if n ≤ bs.length then .ok (bs.take n, bs.drop n) else .err .eof

def readU8 (bs : List UInt8) : Res (UInt8 × List UInt8) :=
  match bs with
  | [] => .err .eof
  | b :: r => .ok (b, r)

def readU64 (bs : List UInt8) : Res (UInt64 × List UInt8) :=
  (readN 8 bs).bind fun p => .ok (UInt64.ofNat (ofLe p.1), p.2)

def readU32 (bs : List UInt8) : Res (UInt32 × List UInt8) :=
  (readN 4 bs).bind fun p => .ok (UInt32.ofNat (ofLe p.1), p.2)

/-! ## allocation -/

/-- `isize::MAX` -/
def isizeMax : Nat := 9223372036854775807
/-- size of the user address space (x86-64, 47 bits): a request of this many bytes cannot succeed. -/
def addrSpace : Nat := 140737488355328
/-- `size_of::<Value>()` (checked against the implementation by `ser meta`). -/
def sizeofValue : Nat := 24

/-- `Vec::<T>::with_capacity(n)` / `vec![0; n]` for `size_of::<T>() = elem`: more than `isize::MAX`
bytes is the "capacity overflow" panic; a request that exceeds the address space makes the allocator
fail (`handle_alloc_error` aborts the process). Requests below that are assumed to succeed (whether
they do for sizes between the free memory and the address space depends on the machine). -/
def alloc (n elem : Nat) : Res Unit :=
  if n * elem > isizeMax then .panic
  else if n * elem ≥ addrSpace then .abort
  else .ok ()

/-! ## UTF-8 (`core::str::from_utf8`) -/

def isCont (b : UInt8) : Bool := 0x80 ≤ b && b ≤ 0xBF

def validUtf8 : List UInt8 → Bool
  | [] => true
  | b0 :: rest =>
    if b0 < 0x80 then validUtf8 rest
    else if 0xC2 ≤ b0 && b0 ≤ 0xDF then
      match rest with
      | b1 :: rest => isCont b1 && validUtf8 rest
      | _ => false
    else if 0xE0 ≤ b0 && b0 ≤ 0xEF then
      match rest with
      | b1 :: b2 :: rest =>
        ((b0 == 0xE0 && 0xA0 ≤ b1 && b1 ≤ 0xBF)
          || (0xE1 ≤ b0 && b0 ≤ 0xEC && isCont b1)
          || (b0 == 0xED && 0x80 ≤ b1 && b1 ≤ 0x9F)
          || (0xEE ≤ b0 && isCont b1))
        && isCont b2 && validUtf8 rest
      | _ => false
    else if 0xF0 ≤ b0 && b0 ≤ 0xF4 then
      match rest with
      | b1 :: b2 :: b3 :: rest =>
        ((b0 == 0xF0 && 0x90 ≤ b1 && b1 ≤ 0xBF)
          || (0xF1 ≤ b0 && b0 ≤ 0xF3 && isCont b1)
          || (b0 == 0xF4 && 0x80 ≤ b1 && b1 ≤ 0x8F))
        && isCont b2 && isCont b3 && validUtf8 rest
      | _ => false
    else false

/-! ## BTreeMap as a sorted association list -/

/-- `<[u8] as Ord>::cmp` (`str` / `ArcStr` / `PropertyKey` order is the byte order of the UTF-8). -/
def cmpBytes : List UInt8 → List UInt8 → Ordering
  | [], [] => .eq
  | [], _ :: _ => .lt
  | _ :: _, [] => .gt
  | a :: as, b :: bs => if a < b then .lt else if b < a then .gt else cmpBytes as bs

/-- `BTreeMap::insert`: a present key keeps its place and gets the new value. -/
def insertKV {α : Type} (k : List UInt8) (v : α) : List (List UInt8 × α) → List (List UInt8 × α)
  | [] => [(k, v)]
  | (k', v') :: rest =>
    match cmpBytes k k' with
    | .lt => (k, v) :: (k', v') :: rest
    | .eq => (k', v) :: rest
    | .gt => (k', v') :: insertKV k v rest

/-- a map built by inserting the entries one after the other. -/
def mkMap {α : Type} (es : List (List UInt8 × α)) : List (List UInt8 × α) :=
  es.foldl (fun m e => insertKV e.1 e.2 m) []

/-- strictly ascending keys (pairwise): the iteration order of a `BTreeMap`. -/
def keysOK : List (List UInt8) → Bool
  | [] => true
  | k :: ks => ks.all (fun k' => cmpBytes k k' == .lt) && keysOK ks

def lookupKV {α : Type} (k : List UInt8) : List (List UInt8 × α) → Option α
  | [] => none
  | (k', v) :: rest => if k' = k then some v else lookupKV k rest

/-! ## well-formed values: the invariants of the Rust types -/

mutual
/-- what the Rust types guarantee for every `Value` in memory: strings and keys are UTF-8, map keys
strictly ascending, and every length is a `usize`. -/
def wf : SVal → Bool
  | .str s => validUtf8 s && s.length < W64
  | .bytes b => b.length < W64
  | .list xs => xs.length < W64 && wfList xs
  | .map es => es.length < W64 && keysOK (es.map Prod.fst) && wfEntries es
  | .vec fs => fs.length < W64
  | _ => true
def wfList : List SVal → Bool
  | [] => true
  | x :: xs => wf x && wfList xs
def wfEntries : List (List UInt8 × SVal) → Bool
  | [] => true
  | (k, v) :: es => validUtf8 k && k.length < W64 && wf v && wfEntries es
end

mutual
/-- nesting depth (a scalar has depth 0). -/
def depth : SVal → Nat
  | .list xs => depthList xs + 1
  | .map es => depthEntries es + 1
  | _ => 0
def depthList : List SVal → Nat
  | [] => 0
  | x :: xs => max (depth x) (depthList xs)
def depthEntries : List (List UInt8 × SVal) → Nat
  | [] => 0
  | (_, v) :: es => max (depth v) (depthEntries es)
end

/-! ## spill format: encoder (`serialize_value`) -/
namespace Spill

mutual
def enc : SVal → List UInt8
  | .null => [0]
  | .bool b => [1, if b then 1 else 0]
  | .int x => 2 :: u64le x
  | .float x => 3 :: u64le x
  | .str s => 4 :: (lenLe s.length ++ s)
  | .bytes b => 5 :: (lenLe b.length ++ b)
  | .ts t => 6 :: u64le t
  | .list xs => 7 :: (lenLe xs.length ++ encList xs)
  | .map es => 8 :: (lenLe es.length ++ encEntries es)
  | .vec fs => 9 :: (lenLe fs.length ++ encF32s fs)
def encList : List SVal → List UInt8
  | [] => []
  | x :: xs => enc x ++ encList xs
def encEntries : List (List UInt8 × SVal) → List UInt8
  | [] => []
  | (k, v) :: es => lenLe k.length ++ (k ++ (enc v ++ encEntries es))
def encF32s : List UInt32 → List UInt8
  | [] => []
  | f :: fs => u32le f ++ encF32s fs
end

/-- `serialize_row`: `[num_columns: u64][value]*` -/
def encRow (row : List SVal) : List UInt8 := lenLe row.length ++ encList row

/-! ### decoder (`deserialize_value`) -/

abbrev Dec := List UInt8 → Res (SVal × List UInt8)

/-- `for _ in 0..n { items.push(deserialize_value(r)?) }` -/
def decItems (dec : Dec) : Nat → List UInt8 → Res (List SVal × List UInt8)
  | 0, bs => .ok ([], bs)
  | n + 1, bs =>
    (dec bs).bind fun p => (decItems dec n p.2).bind fun q => .ok (p.1 :: q.1, q.2)

/-- The allocation a decoder makes for a length field it has just read: element count, element size,
the bytes not yet read. -/
abbrev AllocFn := Nat → Nat → List UInt8 → Res Unit

/-- The code as it is now (serializer.rs after a3c259e): `read_exact_vec` reserves
`len.min(PREALLOC_LIMIT)` bytes and grows while `take(len).read_to_end` delivers; lists, vectors and rows
reserve `len.min(PREALLOC_LIMIT)` elements and `push`. Nothing is allocated for the announced count:
a count that is a lie ends in whatever error the reads end in. -/
def allocNow : AllocFn := fun _ _ _ => .ok ()

/-- The code before the fix: `vec![0u8; len]` / `Vec::with_capacity(len)` on the announced count. -/
def allocAsIs : AllocFn := fun n elem _ => alloc n elem

/-- A reference policy (NOT the code): refuse a count that exceeds the number of unread bytes — every
element occupies at least one byte — with the error the reads would end in anyway. `decodeChecked` is
the decoder under this policy; the theorems of Props/C16Ser.lean relate it to the code. -/
def allocChecked : AllocFn := fun n _ r => if n ≤ r.length then .ok () else .err .eof

/-- `[len u64][bytes]`: `read_exact_vec` (before the fix: a fresh `vec![0u8; len]`, then `read_exact`). -/
def decBlob (A : AllocFn) (bs : List UInt8) : Res (List UInt8 × List UInt8) :=
  (readU64 bs).bind fun p => (A p.1.toNat 1 p.2).bind fun _ => readN p.1.toNat p.2

/-- a blob that must be UTF-8 (`String::from_utf8`). -/
def decUtf8 (A : AllocFn) (bs : List UInt8) : Res (List UInt8 × List UInt8) :=
  (decBlob A bs).bind fun p => if validUtf8 p.1 then .ok p else .err .utf8

/-- the map loop: key, value, `map.insert`; entries are returned in reading order. -/
def decEntries (A : AllocFn) (dec : Dec) : Nat → List UInt8 → Res (List (List UInt8 × SVal) × List UInt8)
  | 0, bs => .ok ([], bs)
  | n + 1, bs =>
    (decUtf8 A bs).bind fun k => (dec k.2).bind fun v =>
      (decEntries A dec n v.2).bind fun q => .ok ((k.1, v.1) :: q.1, q.2)

def decF32s : Nat → List UInt8 → Res (List UInt32 × List UInt8)
  | 0, bs => .ok ([], bs)
  | n + 1, bs => (readU32 bs).bind fun p => (decF32s n p.2).bind fun q => .ok (p.1 :: q.1, q.2)

def decBool (r : List UInt8) : Res (SVal × List UInt8) :=
  (readU8 r).bind fun p => .ok (.bool (p.1 != 0), p.2)

def decList (A : AllocFn) (dec : Dec) (r : List UInt8) : Res (SVal × List UInt8) :=
  (readU64 r).bind fun p => (A p.1.toNat sizeofValue p.2).bind fun _ =>
    (decItems dec p.1.toNat p.2).bind fun q => .ok (.list q.1, q.2)

def decMap (A : AllocFn) (dec : Dec) (r : List UInt8) : Res (SVal × List UInt8) :=
  (readU64 r).bind fun p => (decEntries A dec p.1.toNat p.2).bind fun q => .ok (.map (mkMap q.1), q.2)

def decVec (A : AllocFn) (r : List UInt8) : Res (SVal × List UInt8) :=
  (readU64 r).bind fun p => (A p.1.toNat 4 p.2).bind fun _ =>
    (decF32s p.1.toNat p.2).bind fun q => .ok (.vec q.1, q.2)

/-- the `match tag[0]` of `deserialize_value`; `dec` is the recursive call. -/
def decBody (A : AllocFn) (dec : Dec) (tag : UInt8) (r : List UInt8) : Res (SVal × List UInt8) :=
  if tag = 0 then .ok (.null, r)
  else if tag = 1 then decBool r
  else if tag = 2 then (readU64 r).bind fun p => .ok (.int p.1, p.2)
  else if tag = 3 then (readU64 r).bind fun p => .ok (.float p.1, p.2)
  else if tag = 4 then (decUtf8 A r).bind fun p => .ok (.str p.1, p.2)
  else if tag = 5 then (decBlob A r).bind fun p => .ok (.bytes p.1, p.2)
  else if tag = 6 then (readU64 r).bind fun p => .ok (.ts p.1, p.2)
  else if tag = 7 then decList A dec r
  else if tag = 8 then decMap A dec r
  else if tag = 9 then decVec A r
  else .err (.tag tag)

/-- `deserialize_value` with a recursion budget (one unit per nesting level). -/
def decV (A : AllocFn) : Nat → Dec
  | 0, _ => .fuel
  | f + 1, bs =>
    match bs with
    | [] => .err .eof
    | tag :: r => decBody A (decV A f) tag r

/-- `deserialize_value` on a byte slice: value and unread rest. Every nesting level costs at least
one byte, so `length + 1` levels are enough (`c16ser_spill_decode_total`). -/
def decode (bs : List UInt8) : Res (SVal × List UInt8) := decV allocNow (bs.length + 1) bs

/-- the same decoder under the reference allocation policy. -/
def decodeChecked (bs : List UInt8) : Res (SVal × List UInt8) := decV allocChecked (bs.length + 1) bs

/-- `deserialize_row(r, expected)`; `expected = 0` skips the column check. -/
def decodeRowWith (A : AllocFn) (expected : Nat) (bs : List UInt8) : Res (List SVal × List UInt8) :=
  (readU64 bs).bind fun p =>
    if expected > 0 ∧ p.1.toNat ≠ expected then .err .cols
    else (A p.1.toNat sizeofValue p.2).bind fun _ => decItems (decV A (bs.length + 1)) p.1.toNat p.2

def decodeRow (expected : Nat) (bs : List UInt8) : Res (List SVal × List UInt8) := decodeRowWith allocNow expected bs
def decodeRowChecked (expected : Nat) (bs : List UInt8) : Res (List SVal × List UInt8) :=
  decodeRowWith allocChecked expected bs

/-! the decoder before fix a3c259e (regression witnesses in Props/C16Ser.lean) -/
namespace Old
def decode (bs : List UInt8) : Res (SVal × List UInt8) := decV allocAsIs (bs.length + 1) bs
def decodeRow (expected : Nat) (bs : List UInt8) : Res (List SVal × List UInt8) := decodeRowWith allocAsIs expected bs
end Old

end Spill

/-! ## bincode 2 (`config::standard()`: little endian, variable-length integers; no limit except in `import_snapshot`)

The format of the derived `Serialize`/`Deserialize` of `Value` through `bincode::serde`:
enum variant index as `u32` varint, `bool` one byte, `i64` zig-zag varint, `f64`/`f32` raw
little-endian, `str`/sequences/maps with a `usize` varint length, newtypes transparent.
`Err.eof` stands for `DecodeError::UnexpectedEnd`. -/
namespace Bin

/-- `varint_encode_u64` (also `u32`, `usize`): one byte below 251, else marker 251/252/253 and
2/4/8 little-endian bytes. -/
def varint (n : Nat) : List UInt8 :=
  if n < 251 then [UInt8.ofNat n]
  else if n < 65536 then 251 :: le 2 n
  else if n < 4294967296 then 252 :: le 4 n
  else 253 :: le 8 (n % W64)

/-- zig-zag of an `i64` given by its bit pattern: `n ≥ 0 ↦ 2n`, `n < 0 ↦ 2(-n) - 1`. -/
def zigzag (x : UInt64) : Nat :=
  if x.toNat < 9223372036854775808 then 2 * x.toNat else 2 * (W64 - x.toNat) - 1

/-- `if n % 2 == 0 { n / 2 } else { !(n / 2) }` -/
def unzigzag (n : Nat) : UInt64 :=
  if n % 2 = 0 then UInt64.ofNat (n / 2) else UInt64.ofNat (W64 - 1 - n / 2)

mutual
def enc : SVal → List UInt8
  | .null => [0]
  | .bool b => [1, if b then 1 else 0]
  | .int x => 2 :: varint (zigzag x)
  | .float x => 3 :: u64le x
  | .str s => 4 :: (varint s.length ++ s)
  | .bytes b => 5 :: (varint b.length ++ b)
  | .ts t => 6 :: varint (zigzag t)
  | .list xs => 7 :: (varint xs.length ++ encList xs)
  | .map es => 8 :: (varint es.length ++ encEntries es)
  | .vec fs => 9 :: (varint fs.length ++ Spill.encF32s fs)
def encList : List SVal → List UInt8
  | [] => []
  | x :: xs => enc x ++ encList xs
def encEntries : List (List UInt8 × SVal) → List UInt8
  | [] => []
  | (k, v) :: es => varint k.length ++ (k ++ (enc v ++ encEntries es))
end

/-- `String` / `&str` field: varint length and the bytes. -/
def encStr (s : List UInt8) : List UInt8 := varint s.length ++ s

/-- payload of `WalRecord::SetNodeProperty { id, key, value }` (variant 4). -/
def encSetNodeProp (id : Nat) (key : List UInt8) (v : SVal) : List UInt8 :=
  4 :: (varint id ++ (encStr key ++ enc v))

/-- `export_snapshot` of a database with one unlabelled node carrying one property. -/
def encSnapshot1 (id : Nat) (key : List UInt8) (v : SVal) : List UInt8 :=
  1 :: (varint 1 ++ (varint id ++ (varint 0 ++ (varint 1 ++ (encStr key ++ (enc v ++ varint 0))))))

/-! ### decoder -/

/-- varint of a type at most `maxBytes` wide (4 for `u32`, 8 for `u64`/`usize`); a wider or
reserved marker is `InvalidIntegerType`. -/
def readVarint (maxBytes : Nat) (bs : List UInt8) : Res (Nat × List UInt8) :=
  match bs with
  | [] => .err .eof
  | b :: r =>
    if b < 251 then .ok (b.toNat, r)
    else if b = 251 then (readN 2 r).bind fun p => .ok (ofLe p.1, p.2)
    else if b = 252 then (readN 4 r).bind fun p => .ok (ofLe p.1, p.2)
    else if b = 253 ∧ 8 ≤ maxBytes then (readN 8 r).bind fun p => .ok (ofLe p.1, p.2)
    else .err .inttype

/-- borrowed `&str` (`ArcStr`, `PropertyKey`): length, slice of the input, UTF-8 check. No allocation
before the length is checked against the input. -/
def decStr (bs : List UInt8) : Res (List UInt8 × List UInt8) :=
  (readVarint 8 bs).bind fun p => (readN p.1 p.2).bind fun q =>
    if validUtf8 q.1 then .ok q else .err .utf8

def decU8s : Nat → List UInt8 → Res (List UInt8 × List UInt8)
  | 0, bs => .ok ([], bs)
  | n + 1, bs => (readU8 bs).bind fun p => (decU8s n p.2).bind fun q => .ok (p.1 :: q.1, q.2)

def decEntries (dec : Spill.Dec) : Nat → List UInt8 → Res (List (List UInt8 × SVal) × List UInt8)
  | 0, bs => .ok ([], bs)
  | n + 1, bs =>
    (decStr bs).bind fun k => (dec k.2).bind fun v =>
      (decEntries dec n v.2).bind fun q => .ok ((k.1, v.1) :: q.1, q.2)

def decBool (r : List UInt8) : Res (SVal × List UInt8) :=
  (readU8 r).bind fun p =>
    if p.1 = 0 then .ok (.bool false, p.2) else if p.1 = 1 then .ok (.bool true, p.2) else .err .badbool

def decBody (dec : Spill.Dec) (idx : Nat) (r : List UInt8) : Res (SVal × List UInt8) :=
  if idx = 0 then .ok (.null, r)
  else if idx = 1 then decBool r
  else if idx = 2 then (readVarint 8 r).bind fun p => .ok (.int (unzigzag p.1), p.2)
  else if idx = 3 then (readU64 r).bind fun p => .ok (.float p.1, p.2)
  else if idx = 4 then (decStr r).bind fun p => .ok (.str p.1, p.2)
  else if idx = 5 then (readVarint 8 r).bind fun p => (decU8s p.1 p.2).bind fun q => .ok (.bytes q.1, q.2)
  else if idx = 6 then (readVarint 8 r).bind fun p => .ok (.ts (unzigzag p.1), p.2)
  else if idx = 7 then (readVarint 8 r).bind fun p => (Spill.decItems dec p.1 p.2).bind fun q => .ok (.list q.1, q.2)
  else if idx = 8 then (readVarint 8 r).bind fun p => (decEntries dec p.1 p.2).bind fun q => .ok (.map (mkMap q.1), q.2)
  else if idx = 9 then (readVarint 8 r).bind fun p => (Spill.decF32s p.1 p.2).bind fun q => .ok (.vec q.1, q.2)
  else .err .variant

def decV : Nat → Spill.Dec
  | 0, _ => .fuel
  | f + 1, bs => (readVarint 4 bs).bind fun p => decBody (decV f) p.1 p.2

/-- `bincode::serde::decode_from_slice::<Value>` / `Value::deserialize`: value and unread rest. -/
def decode (bs : List UInt8) : Res (SVal × List UInt8) := decV (bs.length + 1) bs

/-! ### snapshot (`import_snapshot`) at the level of "which outcome"

Since the repair (`decode_snapshot`, database.rs) the snapshot is decoded with
`config::standard().with_limit::<N>()`. bincode then keeps a byte counter: every primitive *claims*
its in-memory width before it is read (`claim_bytes_read`: 1 for `u8`/`bool`, 4 for the `u32` variant
index and an `f32`, 8 for every `u64`/`usize`/`i64` varint — also when the varint is one byte on the
wire — and for an `f64`), a borrowed `&str` claims its length, and an owned `String`
(`Vec<u8>::decode`) claims its announced length with `claim_container_read::<u8>` BEFORE
`vec![0u8; len]`. A claim that does not fit in what is left of `N` is `DecodeError::LimitExceeded`.
The model threads the *remaining* budget `b` (`N` minus the claimed bytes; nothing on this path
unclaims) through every decoder: results are `(value, unread bytes, remaining budget)`.
The values of properties are checked (tags, lengths, UTF-8, booleans) but not built: the outcome of
`import_snapshot` does not depend on them. -/

def usizeMax : Nat := 18446744073709551615

/-- `usize::saturating_mul` / `saturating_add` -/
def satMul (a b : Nat) : Nat := if a * b ≤ usizeMax then a * b else usizeMax
def satAdd (a b : Nat) : Nat := if a + b ≤ usizeMax then a + b else usizeMax

/-- the smallest size class that holds `need` (the limit is a const generic):
`2^16, 2^20, 2^24, 2^28, usize::MAX >> 28, usize::MAX >> 20, usize::MAX >> 1`; `usize` is 64 bit. -/
def sizeClass (need : Nat) : Nat :=
  if need ≤ 65536 then 65536
  else if need ≤ 1048576 then 1048576
  else if need ≤ 16777216 then 16777216
  else if need ≤ 268435456 then 268435456
  else if need ≤ 68719476735 then 68719476735
  else if need ≤ 17592186044415 then 17592186044415
  else 9223372036854775807

/-- `decode_snapshot`: `need = len.saturating_mul(8).saturating_add(64)` (a decoded item claims at
most 8 times the bytes it occupies), and the limit is the size class of `need`. -/
def budget (inputLen : Nat) : Nat := sizeClass (satAdd (satMul inputLen 8) 64)

/-- result of a metered decoder: value, unread bytes, remaining budget. -/
abbrev LR (α : Type) := Res (α × List UInt8 × Nat)

/-- `claim_bytes_read(n)` against the remaining budget `b` (the `checked_add` overflow of the counter is
the same error). -/
def claim (b n : Nat) : Res Nat := if n ≤ b then .ok (b - n) else .err .limit

/-- an integer of in-memory width `w` read as a varint: claim `w`, then read. -/
def rdVarint (w maxBytes b : Nat) (bs : List UInt8) : LR Nat :=
  (claim b w).bind fun b1 => (readVarint maxBytes bs).bind fun p => .ok (p.1, p.2, b1)

def rdU8 (b : Nat) (bs : List UInt8) : LR UInt8 :=
  (claim b 1).bind fun b1 => (readU8 bs).bind fun p => .ok (p.1, p.2, b1)

/-- `n` raw bytes claimed as `n` (`f64`: 8, `f32`: 4, the contents of a borrowed slice). -/
def rdN (n b : Nat) (bs : List UInt8) : LR (List UInt8) :=
  (claim b n).bind fun b1 => (readN n bs).bind fun p => .ok (p.1, p.2, b1)

/-- borrowed `&str` under a limit: length (claims 8), claim of the length, slice, UTF-8 check. -/
def mStr (b : Nat) (bs : List UInt8) : LR Unit :=
  (rdVarint 8 8 b bs).bind fun p => (rdN p.1 p.2.2 p.2.1).bind fun q =>
    if validUtf8 q.1 then .ok ((), q.2) else .err .utf8

/-- owned `String` (`Vec<u8>::decode`) under a limit: length, `claim_container_read::<u8>(len)`
(→ `LimitExceeded` if the announced length exceeds what is left of the budget), and only then
`vec![0u8; len]`, the read and the UTF-8 check. -/
def decString (b : Nat) (bs : List UInt8) : LR Unit :=
  (rdVarint 8 8 b bs).bind fun p => (claim p.2.2 p.1).bind fun b2 => (alloc p.1 1).bind fun _ =>
    (readN p.1 p.2.1).bind fun q => if validUtf8 q.1 then .ok ((), q.2, b2) else .err .utf8

/-- a metered decoder whose value is dropped: remaining budget → bytes → outcome. -/
abbrev Skip := Nat → List UInt8 → LR Unit

/-- `n` elements of a serde sequence, one after the other (serde's `Vec` visitor reserves at most
1 MiB for the announced count: no allocation to model). -/
def skipN (one : Skip) : Nat → Skip
  | 0, b, bs => .ok ((), bs, b)
  | n + 1, b, bs => (one b bs).bind fun p => skipN one n p.2.2 p.2.1

def mU8 : Skip := fun b bs => (rdU8 b bs).bind fun p => .ok ((), p.2)
def mF32 : Skip := fun b bs => (rdN 4 b bs).bind fun p => .ok ((), p.2)
def mEntry (dec : Skip) : Skip := fun b bs => (mStr b bs).bind fun k => dec k.2.2 k.2.1

def mBool (b : Nat) (r : List UInt8) : LR Unit :=
  (rdU8 b r).bind fun p => if p.1 = 0 ∨ p.1 = 1 then .ok ((), p.2) else .err .badbool

/-- `decBody` with the claims. -/
def mBody (dec : Skip) (idx b : Nat) (r : List UInt8) : LR Unit :=
  if idx = 0 then .ok ((), r, b)
  else if idx = 1 then mBool b r
  else if idx = 2 then (rdVarint 8 8 b r).bind fun p => .ok ((), p.2)
  else if idx = 3 then (rdN 8 b r).bind fun p => .ok ((), p.2)
  else if idx = 4 then mStr b r
  else if idx = 5 then (rdVarint 8 8 b r).bind fun p => skipN mU8 p.1 p.2.2 p.2.1
  else if idx = 6 then (rdVarint 8 8 b r).bind fun p => .ok ((), p.2)
  else if idx = 7 then (rdVarint 8 8 b r).bind fun p => skipN dec p.1 p.2.2 p.2.1
  else if idx = 8 then (rdVarint 8 8 b r).bind fun p => skipN (mEntry dec) p.1 p.2.2 p.2.1
  else if idx = 9 then (rdVarint 8 8 b r).bind fun p => skipN mF32 p.1 p.2.2 p.2.1
  else .err .variant

/-- `decV` with the claims (the variant index is a `u32`: claims 4); fuel as in `decV`. -/
def mV : Nat → Skip
  | 0, _, _ => .fuel
  | f + 1, b, bs => (rdVarint 4 4 b bs).bind fun p => mBody (mV f) p.1 p.2.2 p.2.1

/-- one `(String, Value)` property. -/
def mProp (f : Nat) : Skip := fun b bs => (decString b bs).bind fun p => mV f p.2.2 p.2.1

def decStrings : Nat → Skip := skipN decString

def decProps (f : Nat) : Nat → Skip := skipN (mProp f)

/-- `Vec<SnapshotNode>`: ids of the nodes read. -/
def decNodes (f : Nat) : Nat → Nat → List UInt8 → LR (List Nat)
  | 0, b, bs => .ok ([], bs, b)
  | n + 1, b, bs =>
    (rdVarint 8 8 b bs).bind fun id => (rdVarint 8 8 id.2.2 id.2.1).bind fun nl =>
      (decStrings nl.1 nl.2.2 nl.2.1).bind fun ls => (rdVarint 8 8 ls.2.2 ls.2.1).bind fun np =>
        (decProps f np.1 np.2.2 np.2.1).bind fun ps =>
          (decNodes f n ps.2.2 ps.2.1).bind fun q => .ok (id.1 :: q.1, q.2)

def decEdges (f : Nat) : Nat → Nat → List UInt8 → LR (List Nat)
  | 0, b, bs => .ok ([], bs, b)
  | n + 1, b, bs =>
    (rdVarint 8 8 b bs).bind fun id => (rdVarint 8 8 id.2.2 id.2.1).bind fun src =>
      (rdVarint 8 8 src.2.2 src.2.1).bind fun dst => (decString dst.2.2 dst.2.1).bind fun ty =>
        (rdVarint 8 8 ty.2.2 ty.2.1).bind fun np => (decProps f np.1 np.2.2 np.2.1).bind fun ps =>
          (decEdges f n ps.2.2 ps.2.1).bind fun q => .ok (id.1 :: q.1, q.2)

def dedupCount (xs : List Nat) : Nat := (xs.foldl (fun acc x => if acc.contains x then acc else x :: acc) []).length

/-- `import_snapshot`: decode within the budget, version check, rebuild. Result: (distinct node ids,
distinct edge ids). (The id counters are bumped with `saturating_add` since ce64762: an id of `u64::MAX`
is accepted.) -/
def importSnapshot (bs : List UInt8) : Res (Nat × Nat) :=
  let f := bs.length + 1
  (rdU8 (budget bs.length) bs).bind fun ver => (rdVarint 8 8 ver.2.2 ver.2.1).bind fun nn =>
    (decNodes f nn.1 nn.2.2 nn.2.1).bind fun ns => (rdVarint 8 8 ns.2.2 ns.2.1).bind fun ne =>
      (decEdges f ne.1 ne.2.2 ne.2.1).bind fun es =>
        if ver.1 ≠ 1 then .err .version
        else .ok (dedupCount ns.1, dedupCount es.1)

/-! the snapshot decoder before the repair: `config::standard()` without a limit, nothing is claimed,
the owned `String` allocates its announced length unchecked (regression witnesses in Props/C16Ser.lean) -/
namespace Old

/-- owned `String` (`Vec<u8>::decode`): `vec![0u8; len]` *before* the bytes are read. -/
def decString (bs : List UInt8) : Res (List UInt8 × List UInt8) :=
  (readVarint 8 bs).bind fun p => (alloc p.1 1).bind fun _ => (readN p.1 p.2).bind fun q =>
    if validUtf8 q.1 then .ok q else .err .utf8

def decStrings : Nat → List UInt8 → Res (Unit × List UInt8)
  | 0, bs => .ok ((), bs)
  | n + 1, bs => (decString bs).bind fun p => decStrings n p.2

def decProps (f : Nat) : Nat → List UInt8 → Res (Unit × List UInt8)
  | 0, bs => .ok ((), bs)
  | n + 1, bs => (decString bs).bind fun p => (decV f p.2).bind fun q => decProps f n q.2

def decNodes (f : Nat) : Nat → List UInt8 → Res (List Nat × List UInt8)
  | 0, bs => .ok ([], bs)
  | n + 1, bs =>
    (readVarint 8 bs).bind fun id => (readVarint 8 id.2).bind fun nl => (decStrings nl.1 nl.2).bind fun ls =>
      (readVarint 8 ls.2).bind fun np => (decProps f np.1 np.2).bind fun ps =>
        (decNodes f n ps.2).bind fun q => .ok (id.1 :: q.1, q.2)

def decEdges (f : Nat) : Nat → List UInt8 → Res (List Nat × List UInt8)
  | 0, bs => .ok ([], bs)
  | n + 1, bs =>
    (readVarint 8 bs).bind fun id => (readVarint 8 id.2).bind fun src => (readVarint 8 src.2).bind fun dst =>
      (decString dst.2).bind fun ty => (readVarint 8 ty.2).bind fun np => (decProps f np.1 np.2).bind fun ps =>
        (decEdges f n ps.2).bind fun q => .ok (id.1 :: q.1, q.2)

def importSnapshot (bs : List UInt8) : Res (Nat × Nat) :=
  let f := bs.length + 1
  (readU8 bs).bind fun ver => (readVarint 8 ver.2).bind fun nn => (decNodes f nn.1 nn.2).bind fun ns =>
    (readVarint 8 ns.2).bind fun ne => (decEdges f ne.1 ne.2).bind fun es =>
      if ver.1 ≠ 1 then .err .version
      else .ok (dedupCount ns.1, dedupCount es.1)

end Old

end Bin

/-! ## JSON of the C binding (crates/bindings/c/src/types.rs)

`serde_json::Value` trees; `Map` is a `BTreeMap<String, Value>` (no `preserve_order`). A number is
`PosInt(u64)`, `NegInt(i64 < 0)` or a finite `Float(f64)`. The text layer (`serde_json::to_string` /
`from_str` with the `float_roundtrip` feature) is not modelled: it is assumed to be the identity on
trees, which the stream checks on every line. -/
namespace Json

inductive Num where
  | pos (n : UInt64)
  | neg (bits : UInt64)     -- an `i64 < 0` by its bit pattern
  | flt (bits : UInt64)     -- finite
  deriving DecidableEq, Repr

inductive J where
  | null
  | bool (b : Bool)
  | num (n : Num)
  | str (s : List UInt8)
  | arr (xs : List J)
  | obj (es : List (List UInt8 × J))
  deriving Repr, Inhabited

/-- `f.is_finite()` on the bit pattern of an `f64`. -/
def finite64 (b : UInt64) : Bool := (b.toNat / 4503599627370496) % 2048 != 2047

/-- `Number::from(i: i64)` -/
def numOfI64 (x : UInt64) : Num := if x.toNat < 9223372036854775808 then .pos x else .neg x

/-- `json!(f)` for an `f64`: `Number::from_f64(f).map_or(Null, Number)`. -/
def ofF64 (b : UInt64) : J := if finite64 b then .num (.flt b) else .null

def highBit : Nat → Nat → Nat
  | 0, _ => 0
  | f + 1, n => if n ≤ 1 then 0 else highBit f (n / 2) + 1

/-- `f as f64` for a finite `f32` bit pattern (exact widening); `none` for ±inf / NaN. -/
def f32ToF64 (x : UInt32) : Option UInt64 :=
  let b := x.toNat
  let sign := (b / 2147483648) * 9223372036854775808
  let e := (b / 8388608) % 256
  let m := b % 8388608
  if e = 255 then none
  else if e = 0 then
    if m = 0 then some (UInt64.ofNat sign)
    else
      let p := highBit 32 m                       -- m ∈ [2^p, 2^(p+1)), value m · 2^-149
      some (UInt64.ofNat (sign + (p + 874) * 4503599627370496 + (m - 2 ^ p) * 2 ^ (52 - p)))
  else some (UInt64.ofNat (sign + (e + 896) * 4503599627370496 + m * 536870912))

/-- `json!(f)` for an `f32` (stored as the widened `f64`). -/
def ofF32 (x : UInt32) : J :=
  match f32ToF64 x with
  | some b => .num (.flt b)
  | none => .null

/-- the key `"$timestamp_us"` -/
def tsKey : List UInt8 := [36, 116, 105, 109, 101, 115, 116, 97, 109, 112, 95, 117, 115]

mutual
/-- `value_to_json` -/
def ofVal : SVal → J
  | .null => .null
  | .bool b => .bool b
  | .int x => .num (numOfI64 x)
  | .float x => ofF64 x
  | .str s => .str s
  | .bytes b => .arr (b.map fun y => .num (.pos y.toUInt64))
  | .ts t => .obj [(tsKey, .num (numOfI64 t))]
  | .list xs => .arr (ofList xs)
  | .map es => .obj (mkMap (ofEntries es))
  | .vec fs => .arr (fs.map ofF32)
def ofList : List SVal → List J
  | [] => []
  | x :: xs => ofVal x :: ofList xs
def ofEntries : List (List UInt8 × SVal) → List (List UInt8 × J)
  | [] => []
  | (k, v) :: es => (k, ofVal v) :: ofEntries es
end

/-- `Number::as_i64` -/
def asI64 : Num → Option UInt64
  | .pos n => if n.toNat < 9223372036854775808 then some n else none
  | .neg b => some b
  | .flt _ => none

/-- `Number::as_f64` (`u64 as f64` rounds to nearest even) -/
def asF64 : Num → UInt64
  | .pos n => UInt64.ofNat (F64.natToF64 n.toNat)
  | .neg b => UInt64.ofNat (F64.i64ToF64 (Int.ofNat b.toNat - 18446744073709551616))
  | .flt b => b

/-- `obj.get("$timestamp_us").and_then(Value::as_i64)` -/
def tsField (es : List (List UInt8 × J)) : Option UInt64 :=
  match lookupKV tsKey es with
  | some (.num n) => asI64 n
  | _ => none

mutual
/-- `json_to_value` -/
def toVal : J → SVal
  | .null => .null
  | .bool b => .bool b
  | .num n =>
    match asI64 n with
    | some i => .int i
    | none => .float (asF64 n)
  | .str s => .str s
  | .arr xs => .list (toList xs)
  | .obj es =>
    match tsField es with
    | some t => .ts t
    | none => .map (mkMap (toEntries es))
def toList : List J → List SVal
  | [] => []
  | x :: xs => toVal x :: toList xs
def toEntries : List (List UInt8 × J) → List (List UInt8 × SVal)
  | [] => []
  | (k, v) :: es => (k, toVal v) :: toEntries es
end

/-- what a value becomes after `json_to_value (value_to_json v)` (and, the text layer being
lossless, after `parse_value(to_string(value_to_json v))`). -/
def roundTrip (v : SVal) : SVal := toVal (ofVal v)

def isInt : SVal → Bool
  | .int _ => true
  | _ => false

mutual
/-- the values the JSON path of the binding preserves: no bytes, no vectors, finite floats, and no
map that has the key `"$timestamp_us"` bound to an integer. -/
def safe : SVal → Bool
  | .float x => finite64 x
  | .bytes _ => false
  | .vec _ => false
  | .list xs => safeList xs
  | .map es => keysOK (es.map Prod.fst) && safeEntries es
  | _ => true
def safeList : List SVal → Bool
  | [] => true
  | x :: xs => safe x && safeList xs
def safeEntries : List (List UInt8 × SVal) → Bool
  | [] => true
  | (k, v) :: es => !(k == tsKey && isInt v) && safe v && safeEntries es
end

end Json

end Grafeo.Ser
