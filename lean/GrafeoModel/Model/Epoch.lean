/-!
Model of `crates/grafeo-core/src/storage/epoch_store.rs` (feature `tiered-storage`): the
compressed epoch blocks of the tiered storage and the `EpochStore` that keeps them.

As the code is:
* `CompressedEpochBlock::from_records` sorts the `(id, record)` pairs by id
  (`sort_unstable_by_key`; for slices of at most 20 elements — and for already sorted ones — the
  standard library runs a stable insertion sort, which is what `sortRecs` models; with pairwise
  distinct ids every sort gives the same result), builds the zone map, serialises every record
  with bincode's `standard()` configuration (little endian, variable-length integers) into one
  byte vector and pushes one index entry `(id, offset as u32, length as u16)` per record.
* `get_node(offset, length)` slices the byte vector and decodes one record from the slice
  (trailing bytes ignored, short or ill-tagged input → `None`); `get_node_by_id` asks the zone
  map, then runs the standard library's branch-free binary search over the index.
* `EpochStore` is a hash map epoch → block plus two counters (`total_size`, `epoch_count`) that
  follow the map (since repair 086e8b7; before it they were bumped on *every* `freeze_epoch`, also
  when the epoch was already present — kept as `Old.freeze`); `gc(min)` drops the blocks below
  `min` and subtracts what it dropped.

A record is the list of its eight integer fields in declaration order; `nodeWs` / `edgeWs` give the
bit widths of the fields (the varint decoder rejects a tag wider than the field type).
No imports (linked into `gdriver`).
-/
namespace Grafeo.Epoch

/-! ### bincode `standard()` integers -/

/-- `k` little-endian bytes of `v`. -/
def leBytes : Nat → Nat → List Nat
  | 0, _ => []
  | k + 1, v => (v % 256) :: leBytes k (v / 256)

def fromLE : List Nat → Nat
  | [] => 0
  | b :: bs => b + 256 * fromLE bs

/-- `bincode::varint::varint_encode_u{16,32,64}`: the width is chosen by the value. -/
def encVar (v : Nat) : List Nat :=
  if v < 251 then [v]
  else if v < 65536 then 251 :: leBytes 2 v
  else if v < 4294967296 then 252 :: leBytes 4 v
  else 253 :: leBytes 8 v

def takeLE (k : Nat) (bs : List Nat) : Option (Nat × List Nat) :=
  if bs.length < k then none else some (fromLE (bs.take k), bs.drop k)

/-- `varint_decode_u{16,32,64}` for a field of `w` bits: tag 251 → u16, 252 → u32 (only for
fields of at least 32 bits), 253 → u64 (only 64-bit fields), 254/255 → error. -/
def decVar (w : Nat) : List Nat → Option (Nat × List Nat)
  | [] => none
  | b :: rest =>
    if b < 251 then some (b, rest)
    else if b = 251 then takeLE 2 rest
    else if b = 252 then (if w < 32 then none else takeLE 4 rest)
    else if b = 253 then (if w < 64 then none else takeLE 8 rest)
    else none

/-- field widths of `NodeRecord`: id, epoch, props_offset, label_count, _reserved, props_count,
flags, _padding. -/
def nodeWs : List Nat := [64, 64, 32, 16, 16, 16, 16, 32]
/-- field widths of `EdgeRecord`: id, src, dst, type_id, props_offset, props_count, flags, epoch. -/
def edgeWs : List Nat := [64, 64, 64, 32, 32, 16, 16, 64]

/-- serde struct serialisation: the fields in order, no framing. -/
def encRec : List Nat → List Nat
  | [] => []
  | v :: vs => encVar v ++ encRec vs

/-- `decode_from_slice`: the fields in order; what follows the last field is ignored. -/
def decRec : List Nat → List Nat → Option (List Nat)
  | [], _ => some []
  | w :: ws, bs =>
    match decVar w bs with
    | none => none
    | some (v, rest) =>
      match decRec ws rest with
      | none => none
      | some vs => some (v :: vs)

/-- a record value fits its field types. -/
def wfRec : List Nat → List Nat → Prop
  | [], [] => True
  | w :: ws, v :: vs => v < 2 ^ w ∧ wfRec ws vs
  | _, _ => False

instance : (ws vs : List Nat) → Decidable (wfRec ws vs)
  | [], [] => isTrue trivial
  | w :: ws, v :: vs =>
    have := instDecidableWfRec ws vs
    (inferInstance : Decidable (v < 2 ^ w ∧ wfRec ws vs))
  | [], _ :: _ => isFalse (fun h => h)
  | _ :: _, [] => isFalse (fun h => h)

/-! ### one half of a block (the node half and the edge half have the same shape) -/

/-- a keyed record: `(entity id, fields)`. -/
abbrev KRec := Nat × List Nat

structure Entry where
  id : Nat
  offset : Nat
  length : Nat
deriving DecidableEq, Repr

structure Side where
  minId : Nat
  maxId : Nat
  count : Nat
  index : List Entry
  data : List Nat
deriving DecidableEq, Repr

/-- `insert_tail` of the standard library's insertion sort: the new element moves left past
every element that is strictly greater, i.e. it lands after all elements `≤` it. -/
def insRec (x : KRec) : List KRec → List KRec
  | [] => [x]
  | y :: ys => if x.1 < y.1 then x :: y :: ys else y :: insRec x ys

def sortRecs (xs : List KRec) : List KRec := xs.foldl (fun acc x => insRec x acc) []

def minKey : List KRec → Nat
  | [] => 18446744073709551615
  | x :: xs => min x.1 (minKey xs)

def maxKey : List KRec → Nat
  | [] => 0
  | x :: xs => max x.1 (maxKey xs)

/-- the serialisation loop: `offset = data.len() as u32`, `length = serialized.len() as u16`. -/
def buildIdx (off : Nat) : List KRec → List Entry
  | [] => []
  | x :: rest =>
    ⟨x.1, off % 4294967296, (encRec x.2).length % 65536⟩ :: buildIdx (off + (encRec x.2).length) rest

def buildData : List KRec → List Nat
  | [] => []
  | x :: rest => encRec x.2 ++ buildData rest

/-- the half of `from_records` that concerns one record kind, on the already sorted list. -/
def buildSide (sorted : List KRec) : Side :=
  { minId := minKey sorted, maxId := maxKey sorted, count := sorted.length % 4294967296,
    index := buildIdx 0 sorted, data := buildData sorted }

/-- `ZoneMap::might_contain_node` / `_edge`. -/
def mightContain (s : Side) (id : Nat) : Bool :=
  decide (s.count > 0) && decide (s.minId ≤ id) && decide (id ≤ s.maxId)

/-- `get_node(offset, length)` / `get_edge`. -/
def getAt (ws : List Nat) (s : Side) (off len : Nat) : Option (List Nat) :=
  if off + len > s.data.length then none
  else decRec ws ((s.data.drop off).take len)

/-- the loop of `slice::binary_search_by` (Rust 1.95): no early exit, `base` moves to `mid`
unless the probed key is greater than the target. `fuel ≥ size`. -/
def bsLoop (keys : List Nat) (t : Nat) : Nat → Nat → Nat → Nat
  | 0, base, _ => base
  | fuel + 1, base, size =>
    if size > 1 then
      let half := size / 2
      let mid := base + half
      bsLoop keys t fuel (if keys.getD mid 0 > t then base else mid) (size - half)
    else base

def bsearch (keys : List Nat) (t : Nat) : Option Nat :=
  if keys.length = 0 then none
  else
    let base := bsLoop keys t keys.length 0 keys.length
    if keys.getD base 0 = t then some base else none

/-- `get_node_by_id` / `get_edge_by_id`. -/
def getById (ws : List Nat) (s : Side) (id : Nat) : Option (List Nat) :=
  if mightContain s id then
    match bsearch (s.index.map (·.id)) id with
    | none => none
    | some i =>
      match s.index[i]? with
      | none => none
      | some e => getAt ws s e.offset e.length
  else none

/-! ### the block -/

structure Block where
  epoch : Nat
  /-- `CompressionType`: 0 = None (the only one the code produces). -/
  compression : Nat
  zMinEpoch : Nat
  zMaxEpoch : Nat
  nodes : Side
  edges : Side
  nodeDataSize : Nat
  edgeDataSize : Nat
  nodeUncompressed : Nat
  edgeUncompressed : Nat
deriving DecidableEq, Repr

/-- `CompressedEpochBlock::from_records`: the block, the node index, the edge index. -/
def fromRecords (epoch : Nat) (ns es : List KRec) : Block × List Entry × List Entry :=
  let n := buildSide (sortRecs ns)
  let e := buildSide (sortRecs es)
  ({ epoch := epoch, compression := 0, zMinEpoch := epoch, zMaxEpoch := epoch,
     nodes := n, edges := e,
     nodeDataSize := n.data.length % 4294967296, edgeDataSize := e.data.length % 4294967296,
     nodeUncompressed := n.data.length % 4294967296, edgeUncompressed := e.data.length % 4294967296 },
   n.index, e.index)

def Block.getNode (b : Block) (off len : Nat) : Option (List Nat) := getAt nodeWs b.nodes off len
def Block.getEdge (b : Block) (off len : Nat) : Option (List Nat) := getAt edgeWs b.edges off len
def Block.getNodeById (b : Block) (id : Nat) : Option (List Nat) := getById nodeWs b.nodes id
def Block.getEdgeById (b : Block) (id : Nat) : Option (List Nat) := getById edgeWs b.edges id
def Block.nodeCount (b : Block) : Nat := b.nodes.index.length
def Block.edgeCount (b : Block) : Nat := b.edges.index.length
def Block.compressedSize (b : Block) : Nat := b.nodes.data.length + b.edges.data.length

/-! ### the store -/

structure Store where
  /-- the hash map, as an association list with unique keys (order irrelevant). -/
  blocks : List (Nat × Block)
  totalSize : Nat
  epochCount : Nat
deriving Repr

def Store.empty : Store := ⟨[], 0, 0⟩

def findBlock : List (Nat × Block) → Nat → Option Block
  | [], _ => none
  | (k, b) :: rest, e => if k = e then some b else findBlock rest e

/-- `HashMap::insert`: replaces the value of an existing key. -/
def insertBlock (bs : List (Nat × Block)) (e : Nat) (b : Block) : List (Nat × Block) :=
  (e, b) :: bs.filter (fun p => p.1 != e)

def sumSizes : List (Nat × Block) → Nat
  | [] => 0
  | (_, b) :: rest => b.compressedSize + sumSizes rest

/-- `EpochStore::freeze_epoch` (after repair 086e8b7): `HashMap::insert` replaces the block of an
already frozen epoch; then the old block's size is subtracted and `epoch_count` stays, otherwise
`epoch_count` is bumped; the new size is added in both cases. (`fetch_sub` / `fetch_add` wrap at
2^64; the subtraction never underflows — `c15_epoch_store_counters` — and the wrap-around of the
additions is out of reach and not modelled.) -/
def Store.freeze (s : Store) (epoch : Nat) (ns es : List KRec) : Store × List Entry × List Entry :=
  let r := fromRecords epoch ns es
  ({ blocks := insertBlock s.blocks epoch r.1,
     totalSize := (match findBlock s.blocks epoch with
                   | some old => s.totalSize - old.compressedSize
                   | none => s.totalSize) + r.1.compressedSize,
     epochCount := match findBlock s.blocks epoch with
                   | some _ => s.epochCount
                   | none => s.epochCount + 1 }, r.2.1, r.2.2)

/-- the code before the repair: both counters were bumped unconditionally. -/
def Old.freeze (s : Store) (epoch : Nat) (ns es : List KRec) : Store × List Entry × List Entry :=
  let r := fromRecords epoch ns es
  ({ blocks := insertBlock s.blocks epoch r.1,
     totalSize := s.totalSize + r.1.compressedSize,
     epochCount := s.epochCount + 1 }, r.2.1, r.2.2)

/-- `EpochStore::gc`: the number of removed epochs. `fetch_sub` never wraps: the counters always
equal what the map holds (`c15_epoch_store_counters`), so truncated subtraction is exact. -/
def Store.gc (s : Store) (minEpoch : Nat) : Store × Nat :=
  let gone := s.blocks.filter (fun p => decide (p.1 < minEpoch))
  let removed := gone.length
  if removed > 0 then
    ({ blocks := s.blocks.filter (fun p => !decide (p.1 < minEpoch)),
       totalSize := s.totalSize - sumSizes gone,
       epochCount := s.epochCount - removed },
     removed)
  else (s, 0)

def Store.getNode (s : Store) (e off len : Nat) : Option (List Nat) :=
  match findBlock s.blocks e with | none => none | some b => b.getNode off len
def Store.getEdge (s : Store) (e off len : Nat) : Option (List Nat) :=
  match findBlock s.blocks e with | none => none | some b => b.getEdge off len
def Store.getNodeById (s : Store) (e id : Nat) : Option (List Nat) :=
  match findBlock s.blocks e with | none => none | some b => b.getNodeById id
def Store.getEdgeById (s : Store) (e id : Nat) : Option (List Nat) :=
  match findBlock s.blocks e with | none => none | some b => b.getEdgeById id
def Store.containsEpoch (s : Store) (e : Nat) : Bool := (findBlock s.blocks e).isSome
def Store.getBlock (s : Store) (e : Nat) : Option Block := findBlock s.blocks e

/-- `stats()`: epoch_count (= `blocks.len()`), total_nodes, total_edges, compressed, uncompressed. -/
def Store.stats (s : Store) : Nat × Nat × Nat × Nat × Nat :=
  (s.blocks.length,
   (s.blocks.map (fun p => p.2.nodeCount)).foldl (· + ·) 0,
   (s.blocks.map (fun p => p.2.edgeCount)).foldl (· + ·) 0,
   sumSizes s.blocks,
   (s.blocks.map (fun p => (p.2.nodeUncompressed + p.2.edgeUncompressed) % 4294967296)).foldl (· + ·) 0)

/-! ### specification: the plain record lists -/

/-- the record stored under `id` — the last one if the id occurs several times (what a map built
by inserting the pairs in order would hold). -/
def lookupLast : List KRec → Nat → Option (List Nat)
  | [], _ => none
  | x :: rest, id =>
    match lookupLast rest id with
    | some r => some r
    | none => if x.1 = id then some x.2 else none

def hasKey (xs : List KRec) (id : Nat) : Bool := xs.any (fun x => x.1 == id)

/-- the specification of the store: a plain map epoch → (node records, edge records). -/
abbrev SpecStore := List (Nat × List KRec × List KRec)

def specFind : SpecStore → Nat → Option (List KRec × List KRec)
  | [], _ => none
  | (k, v) :: rest, e => if k = e then some v else specFind rest e

def specFreeze (sp : SpecStore) (e : Nat) (ns es : List KRec) : SpecStore :=
  (e, ns, es) :: sp.filter (fun p => p.1 != e)

def specGc (sp : SpecStore) (minEpoch : Nat) : SpecStore × Nat :=
  (sp.filter (fun p => !decide (p.1 < minEpoch)), (sp.filter (fun p => decide (p.1 < minEpoch))).length)

/-- one step of a store history. -/
inductive Op where
  | freeze (epoch : Nat) (ns es : List KRec)
  | gc (minEpoch : Nat)

def Store.step (s : Store) : Op → Store
  | .freeze e ns es => (s.freeze e ns es).1
  | .gc m => (s.gc m).1

def specStep (sp : SpecStore) : Op → SpecStore
  | .freeze e ns es => specFreeze sp e ns es
  | .gc m => (specGc sp m).1

def Store.run (s : Store) (ops : List Op) : Store := ops.foldl Store.step s

def Old.step (s : Store) : Op → Store
  | .freeze e ns es => (Old.freeze s e ns es).1
  | .gc m => (s.gc m).1
def Old.run (s : Store) (ops : List Op) : Store := ops.foldl Old.step s
def specRun (sp : SpecStore) (ops : List Op) : SpecStore := ops.foldl specStep sp

end Grafeo.Epoch
