/-
C12 — executable model of the GQL lexer's cursor automaton,
`crates/grafeo-adapters/src/query/gql/lexer.rs` (`Lexer::next_token` and everything it calls).

The Rust lexer keeps a byte offset `position` into a `&str` and slices the input with it
(`self.input[self.position..]`, `self.input[start..self.position]`).  Slicing a `&str` at an offset
that is not a character boundary panics, so "the lexer cannot crash" is a statement about this
offset.  The model keeps the two things the Rust code derives from `(input, position)`:

  `rest` – the characters of `input[position..]`      `pos` – the byte offset itself

and transcribes every cursor-moving function.  `Props/C12.lean` proves that the two stay in step
(`pos` is always the UTF-8 length of the consumed prefix), that every call of `nextToken` consumes
at least one character or reports end of input, and that tokenising therefore terminates.

What is NOT modelled: the keyword table of `scan_identifier` (keywords and identifiers are one
class, `word`), line/column bookkeeping, the token text (it is `input[start..stop]`).

Import-free on purpose (linked into the `gdriver` executable).
-/
namespace Grafeo.Lex

/-! ### characters -/

/-- `char::len_utf8` -/
def utf8Len (c : Char) : Nat :=
  if c.toNat < 0x80 then 1 else if c.toNat < 0x800 then 2 else if c.toNat < 0x10000 then 3 else 4

/-- byte length of a character sequence (`str::len`) -/
def utf8Bytes : List Char → Nat
  | [] => 0
  | c :: r => utf8Len c + utf8Bytes r

/-- `char::is_whitespace` = Unicode `White_Space` -/
def isWs (c : Char) : Bool :=
  let n := c.toNat
  (0x09 ≤ n && n ≤ 0x0D) || n == 0x20 || n == 0x85 || n == 0xA0 || n == 0x1680 ||
  (0x2000 ≤ n && n ≤ 0x200A) || n == 0x2028 || n == 0x2029 || n == 0x202F || n == 0x205F ||
  n == 0x3000

/-- `char::is_ascii_digit` -/
def isDigit (c : Char) : Bool := 0x30 ≤ c.toNat && c.toNat ≤ 0x39

/-- `char::is_ascii_alphabetic` -/
def isAlpha (c : Char) : Bool :=
  (0x41 ≤ c.toNat && c.toNat ≤ 0x5A) || (0x61 ≤ c.toNat && c.toNat ≤ 0x7A)

/-- `char::is_ascii_alphanumeric` -/
def isAlnum (c : Char) : Bool := isAlpha c || isDigit c

/-- first character of an identifier / parameter name: `ch.is_ascii_alphabetic() || ch == '_'` -/
def isIdentStart (c : Char) : Bool := isAlpha c || c == '_'

/-- later characters: `ch.is_ascii_alphanumeric() || ch == '_'` -/
def isIdentCont (c : Char) : Bool := isAlnum c || c == '_'

/-! ### cursor -/

/-- `rest` = the characters of `input[position..]`, `pos` = `position` -/
structure Cur where
  rest : List Char
  pos : Nat
  deriving Repr, DecidableEq

/-- `advance`: step over one whole character; nothing at end of input -/
def adv (c : Cur) : Cur :=
  match c.rest with
  | [] => c
  | ch :: r => ⟨r, c.pos + utf8Len ch⟩

/-- `current_char`: `'\0'` at end of input -/
def cur (c : Cur) : Char :=
  match c.rest with
  | [] => '\x00'
  | ch :: _ => ch

/-- `peek_char`: the character after the current one, `'\0'` if there is none -/
def peek (c : Cur) : Char :=
  match c.rest with
  | _ :: b :: _ => b
  | _ => '\x00'

/-- the loop `while position < len { if p(current_char) { advance } else { break } }`
(shared shape of `skip_whitespace`, the digit loops of `scan_number`, and the name loops of
`scan_identifier` / `scan_parameter`) -/
def skipWhile (p : Char → Bool) : List Char → Nat → Cur
  | [], n => ⟨[], n⟩
  | ch :: r, n => if p ch then skipWhile p r (n + utf8Len ch) else ⟨ch :: r, n⟩

/-- `skip_whitespace` -/
def skipWs (c : Cur) : Cur := skipWhile isWs c.rest c.pos

/-! ### tokens -/

/-- token classes: `word` = identifiers and keywords, `punct` = every operator / punctuation kind -/
inductive Cls where
  | eof | error | string | qident | param | int | float | word | punct
  deriving Repr, DecidableEq

structure Tok where
  cls : Cls
  start : Nat
  stop : Nat
  deriving Repr, DecidableEq

/-! ### scanners -/

/-- body of `scan_string` after the opening quote has been consumed -/
def scanStringBody (quote : Char) : List Char → Nat → Cls × Cur
  | [], n => (.error, ⟨[], n⟩)                                  -- unterminated
  | ch :: r, n =>
    if ch == quote then (.string, ⟨r, n + utf8Len ch⟩)          -- advance; return String
    else if ch == '\\' then
      match r with
      | [] => (.error, ⟨[], n + utf8Len ch⟩)                    -- advance; advance (no-op at end)
      | e :: r' => scanStringBody quote r' (n + utf8Len ch + utf8Len e)   -- advance; advance
    else scanStringBody quote r (n + utf8Len ch)                -- advance

/-- `scan_string`: `quote = current_char(); advance(); loop` -/
def scanString (c : Cur) : Cls × Cur :=
  let c1 := adv c
  scanStringBody (cur c) c1.rest c1.pos

/-- body of `scan_quoted_identifier` after the opening backtick -/
def scanQIdentBody : List Char → Nat → Cls × Cur
  | [], n => (.error, ⟨[], n⟩)                                  -- unterminated
  | ch :: r, n =>
    if ch == '`' then
      match r with
      | [] => (.qident, ⟨[], n + utf8Len ch⟩)                   -- peek = '\0': closing backtick
      | b :: r' =>
        if b == '`' then scanQIdentBody r' (n + utf8Len ch + utf8Len b)   -- doubled: advance twice
        else (.qident, ⟨b :: r', n + utf8Len ch⟩)               -- closing backtick
    else scanQIdentBody r (n + utf8Len ch)

/-- `scan_quoted_identifier` -/
def scanQuotedIdent (c : Cur) : Cls × Cur :=
  let c1 := adv c
  scanQIdentBody c1.rest c1.pos

/-- `scan_number` -/
def scanNumber (c : Cur) : Cls × Cur :=
  let c1 := skipWhile isDigit c.rest c.pos
  if cur c1 == '.' && isDigit (peek c1) then
    let c2 := adv c1
    (.float, skipWhile isDigit c2.rest c2.pos)
  else (.int, c1)

/-- `scan_parameter` -/
def scanParam (c : Cur) : Cls × Cur :=
  let c1 := adv c                                               -- skip the '$'
  match c1.rest with
  | [] => (.error, c1)
  | ch :: _ =>
    if !isIdentStart ch then (.error, c1)
    else (.param, skipWhile isIdentCont c1.rest c1.pos)

/-- `scan_identifier` (keyword lookup not modelled: every result is `word`) -/
def scanIdent (c : Cur) : Cls × Cur := (.word, skipWhile isIdentCont c.rest c.pos)

/-- the `'<'` arm of `next_token` -/
def scanLt (c : Cur) : Cls × Cur :=
  let c1 := adv c
  if cur c1 == '>' then (.punct, adv c1)              -- <>
  else if cur c1 == '=' then (.punct, adv c1)         -- <=
  else if cur c1 == '-' then (.punct, adv c1)         -- <-
  else (.punct, c1)                                   -- <

/-- the `'>'` arm -/
def scanGt (c : Cur) : Cls × Cur :=
  let c1 := adv c
  if cur c1 == '=' then (.punct, adv c1)              -- >=
  else (.punct, c1)                                   -- >

/-- the `'-'` arm -/
def scanMinus (c : Cur) : Cls × Cur :=
  let c1 := adv c
  if cur c1 == '>' then (.punct, adv c1)              -- ->
  else if cur c1 == '-' then (.punct, adv c1)         -- --
  else (.punct, c1)                                   -- -

/-- the `'|'` arm: a lone `|` is an error token -/
def scanBar (c : Cur) : Cls × Cur :=
  let c1 := adv c
  if cur c1 == '|' then (.punct, adv c1)              -- ||
  else (.error, c1)

/-- the `match ch { … }` of `next_token`, arm by arm, in source order -/
def scanTok (ch : Char) (c : Cur) : Cls × Cur :=
  if ch == '(' then (.punct, adv c)
  else if ch == ')' then (.punct, adv c)
  else if ch == '[' then (.punct, adv c)
  else if ch == ']' then (.punct, adv c)
  else if ch == '{' then (.punct, adv c)
  else if ch == '}' then (.punct, adv c)
  else if ch == ':' then (.punct, adv c)
  else if ch == ',' then (.punct, adv c)
  else if ch == '.' then (.punct, adv c)
  else if ch == '+' then (.punct, adv c)
  else if ch == '*' then (.punct, adv c)
  else if ch == '/' then (.punct, adv c)
  else if ch == '%' then (.punct, adv c)
  else if ch == '=' then (.punct, adv c)
  else if ch == '<' then scanLt c
  else if ch == '>' then scanGt c
  else if ch == '-' then scanMinus c
  else if ch == '|' then scanBar c
  else if ch == '\'' || ch == '"' then scanString c
  else if ch == '`' then scanQuotedIdent c
  else if ch == '$' then scanParam c
  else if isDigit ch then scanNumber c
  else if isIdentStart ch then scanIdent c
  else (.error, adv c)

/-- `next_token` -/
def nextToken (c0 : Cur) : Tok × Cur :=
  let c := skipWs c0
  match c.rest with
  | [] => (⟨.eof, c.pos, c.pos⟩, c)
  | ch :: _ =>
    let r := scanTok ch c
    (⟨r.1, c.pos, r.2.pos⟩, r.2)

/-- call `nextToken` until it reports end of input; `[]` would mean "fuel exhausted" -/
def tokenizeAux : Nat → Cur → List Tok
  | 0, _ => []
  | fuel + 1, c =>
    let r := nextToken c
    if r.1.cls = .eof then [r.1] else r.1 :: tokenizeAux fuel r.2

/-- the whole token list of an input, with fuel = number of characters + 1
(`c12_lexer_terminates`: the fuel is never exhausted) -/
def tokenize (input : List Char) : List Tok := tokenizeAux (input.length + 1) ⟨input, 0⟩

end Grafeo.Lex
