import GrafeoModel.Model.Lex2

/-
C12 — executable model of the Cypher lexer, `crates/grafeo-adapters/src/query/cypher/lexer.rs`
(`Lexer::next_token`, `skip_whitespace_and_comments`, `scan_string`, `scan_quoted_identifier`,
`scan_number`, `scan_identifier`, every operator arm).

Unlike the GQL lexer, `advance` is UNGUARDED here: `self.pos += self.current_char().len_utf8()`
with `current_char() = '\0'` at end of input, so an `advance` at the end would push `pos` one byte
past the input (and the next `self.source[self.pos..]` would panic).  `advC` models exactly that;
the theorems show that no call site reaches it (every result cursor still satisfies
`pos + bytes rest = len`, which a stray `advC` would break for good).

The token's `span` is `SourceSpan::new(self.start, self.pos - self.start, ..)`, i.e. its `end` field
holds the token LENGTH; the slice the lexer takes is `source[start..pos]`, and `Tok.stop` is that
`pos`.  (The span is only used to print carets under an error message.)
-/
namespace Grafeo.Lex2.Cypher
open Grafeo.Lex Grafeo.Lex2

/-- `advance` (unguarded): at end of input `current_char()` is `'\0'` and `pos` still grows by 1 -/
def advC (c : Cur) : Cur :=
  match c.rest with
  | [] => ⟨[], c.pos + 1⟩
  | ch :: r => ⟨r, c.pos + utf8Len ch⟩

/-- line comment: `while !is_at_end() && current_char() != '\n' { advance() }` -/
def skipLine : List Char → Nat → Cur
  | [], n => ⟨[], n⟩
  | ch :: r, n => if ch == '\n' then ⟨ch :: r, n⟩ else skipLine r (n + utf8Len ch)

/-- block comment body: `while !is_at_end() { if cur == '*' && peek == '/' { advance; advance;
break }  advance }` -/
def skipBlock : List Char → Nat → Cur
  | [], n => ⟨[], n⟩
  | ch :: r, n =>
    if ch == '*' && peek ⟨ch :: r, n⟩ == '/' then advC (advC ⟨ch :: r, n⟩)
    else skipBlock r (n + utf8Len ch)

/-- one iteration of the `loop { match current_char() { … } }` of `skip_whitespace_and_comments`;
`none` = the `_ => break` arm -/
def skipStep (c : Cur) : Option Cur :=
  if cur c == ' ' || cur c == '\t' || cur c == '\r' then some (advC c)
  else if cur c == '\n' then some (advC c)
  else if cur c == '/' && peek c == '/' then some (skipLine c.rest c.pos)
  else if cur c == '/' && peek c == '*' then
    let c2 := advC (advC c)
    some (skipBlock c2.rest c2.pos)
  else none

/-- `skip_whitespace_and_comments` -/
def skipWs (c : Cur) : Cur := iter skipStep (c.rest.length + 1) c

/-- `scan_string(quote)` (the opening quote is already consumed) -/
def scanStringBody (q : Char) : List Char → Nat → K × Cur
  | [], n => (.error, ⟨[], n⟩)                                  -- unterminated
  | ch :: r, n =>
    if ch == q then (.str, ⟨r, n + utf8Len ch⟩)
    else if ch == '\\' then
      match r with
      | [] => (.error, ⟨[], n + utf8Len ch⟩)                    -- advance; at end: no second advance
      | e :: r' => scanStringBody q r' (n + utf8Len ch + utf8Len e)
    else scanStringBody q r (n + utf8Len ch)

/-- `scan_quoted_identifier` (the opening backtick is already consumed) -/
def scanQuotedBody : List Char → Nat → K × Cur
  | [], n => (.error, ⟨[], n⟩)
  | ch :: r, n => if ch == '`' then (.qid, ⟨r, n + utf8Len ch⟩) else scanQuotedBody r (n + utf8Len ch)

/-- exponent part, entered with `current_char()` = `e` / `E`: advance; optional sign; digits -/
def scanExp (c : Cur) : Cur :=
  let c1 := advC c
  let c2 := if cur c1 == '+' || cur c1 == '-' then advC c1 else c1
  skipWhile isDigit c2.rest c2.pos

/-- `scan_number` (the first digit is already consumed) -/
def scanNumber (c : Cur) : K × Cur :=
  let c1 := skipWhile isDigit c.rest c.pos
  if cur c1 == '.' && isDigit (peek c1) then
    let c2 := advC c1
    let c3 := skipWhile isDigit c2.rest c2.pos
    if cur c3 == 'e' || cur c3 == 'E' then (.flt, scanExp c3) else (.flt, c3)
  else if cur c1 == 'e' || cur c1 == 'E' then (.flt, scanExp c1)
  else (.int, c1)

/-- `scan_identifier` (keyword lookup not modelled) -/
def scanIdent (c : Cur) : K × Cur := (.word, skipWhile isIdentCont c.rest c.pos)

/-- `if current_char() == x { advance(); A } else { B }` with `A`, `B` both `punct` -/
def opt1 (x : Char) (c : Cur) : K × Cur := if cur c == x then (.punct, advC c) else (.punct, c)

/-- the `match ch { … }` of `next_token`; `c` is the cursor AFTER `let ch = self.advance()` -/
def scanTok (ch : Char) (c : Cur) : K × Cur :=
  if ch == '(' || ch == ')' || ch == '[' || ch == ']' || ch == '{' || ch == '}' || ch == ':' ||
     ch == ';' || ch == ',' || ch == '|' || ch == '$' || ch == '^' || ch == '%' || ch == '*' ||
     ch == '/' then (.punct, c)
  else if ch == '.' then opt1 '.' c
  else if ch == '+' then opt1 '=' c
  else if ch == '=' then opt1 '~' c
  else if ch == '<' then
    if cur c == '>' then (.punct, advC c)
    else if cur c == '=' then (.punct, advC c)
    else if cur c == '-' then (.punct, advC c)
    else (.punct, c)
  else if ch == '>' then opt1 '=' c
  else if ch == '-' then
    if cur c == '>' then (.punct, advC c)
    else if cur c == '-' then (.punct, advC c)
    else (.punct, c)
  else if ch == '\'' || ch == '"' then scanStringBody ch c.rest c.pos
  else if ch == '`' then scanQuotedBody c.rest c.pos
  else if isDigit ch then scanNumber c
  else if isIdentStart ch then scanIdent c
  else (.error, c)

/-- `next_token` -/
def nextToken (c0 : Cur) : Tok × Cur :=
  let c := skipWs c0
  match c.rest with
  | [] => (⟨.eof, c.pos, c.pos⟩, c)
  | ch :: _ =>
    let r := scanTok ch (advC c)
    (⟨r.1, c.pos, r.2.pos⟩, r.2)

def tokenize (input : List Char) : List Tok := tokenizeWith nextToken input

end Grafeo.Lex2.Cypher
