import GrafeoModel.Model.Lex2

/-
C12 — executable model of the Gremlin lexer, `crates/grafeo-adapters/src/query/gremlin/lexer.rs`
(`Lexer::next_token`, `tokenize`, `skip_whitespace`, `read_string`, `read_number`,
`read_identifier`).

As the code is: `advance` does `self.position += 1` per CHARACTER, so `Span.start` / `Span.end` are
character indices, not byte offsets (the GraphQL lexer had the same line until it was repaired).
Nothing in the crate slices the source with these spans (`source` is `#[allow(dead_code)]`, the
parser only reads `kind`), so this cannot panic today; `Props/C12Lex2.lean` proves the spans are
legal CHARACTER offsets and gives the witness that they are not byte offsets.

`char::is_alphabetic` / `is_numeric` are parameters `al`, `nu`.  Characters that start no token
yield `Eof` and `tokenize` stops there (rest of the text dropped; not a crash).
-/
namespace Grafeo.Lex2.Gremlin
open Grafeo.Lex Grafeo.Lex2

/-- what `advance` adds to `position` -/
def w1 (_ : Char) : Nat := 1

/-- `read_string(quote)` (opening quote consumed) -/
def readStr (q : Char) : List Char → Nat → Cur
  | [], n => ⟨[], n⟩
  | ch :: r, n =>
    if ch == '\\' then
      match r with
      | [] => ⟨[], n + 1⟩
      | _ :: r' => readStr q r' (n + 1 + 1)
    else if ch == q then ⟨r, n + 1⟩
    else readStr q r (n + 1)

def alnum (al nu : Char → Bool) (c : Char) : Bool := al c || nu c

/-- `peek_is(f)` -/
def peekIs (f : Char → Bool) (c : Cur) : Bool :=
  match c.rest with
  | [] => false
  | ch :: _ => f ch

/-- the `match self.advance()` of `next_token` for `Some(ch)`; `c` = cursor AFTER `ch` -/
def scanTok (al nu : Char → Bool) (ch : Char) (c : Cur) : K × Cur :=
  if ch == '.' || ch == ',' || ch == '(' || ch == ')' || ch == '[' || ch == ']' then (.punct, c)
  else if ch == '_' && peekIs (fun x => !alnum al nu x) c then (.punct, c)      -- Underscore
  else if ch == '"' || ch == '\'' then (.str, readStr ch c.rest c.pos)
  else if isDigit ch || (ch == '-' && peekIs isDigit c) then
    let r := readNum w1 false false c.rest c.pos
    (if r.1 then .flt else .int, r.2)
  else if al ch || ch == '_' then
    (.word, skipWhileW w1 (fun x => alnum al nu x || x == '_') c.rest c.pos)
  else (.eof, c)

/-- `skip_whitespace` -/
def skipWs (c : Cur) : Cur := skipWhileW w1 isWs c.rest c.pos

/-- `next_token` -/
def nextToken (al nu : Char → Bool) (c0 : Cur) : Tok × Cur :=
  let c := skipWs c0
  match c.rest with
  | [] => (⟨.eof, c.pos, c.pos⟩, c)
  | ch :: r =>
    let x := scanTok al nu ch ⟨r, c.pos + 1⟩
    (⟨x.1, c.pos, x.2.pos⟩, x.2)

/-- `tokenize`: stops at the first `Eof` -/
def tokenize (al nu : Char → Bool) (input : List Char) : List Tok :=
  tokenizeWith (nextToken al nu) input

end Grafeo.Lex2.Gremlin
