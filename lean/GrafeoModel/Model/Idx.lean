import GrafeoModel.Model.F64
/-
Executable model of `crates/grafeo-core/src/index/{hash.rs, btree.rs, trie.rs}` and the
plain-map / scan / list-intersection specification they are compared with (property C14:
"every access path tells the same story").

* `HashIndex<K,V>`   – a `DashMap`; modelled as an association list without duplicate keys
                       (no order is observable through the API).
* `BTreeIndex<K,V>`  – `RwLock<BTreeMap<K,V>>`; modelled as the key-ordered entry list of the map,
                       searched the way a B-tree node is searched (left to right with `Ord::cmp`:
                       `Greater` → go on, `Equal` → found, `Less` → stop). For a lawful total order
                       (`i64`, and the repaired `OrderedFloat`: NaN = NaN > every number) this is the
                       whole behaviour of `BTreeMap`. `BTreeIndex::range` answers inverted /
                       empty-exclusive bounds with `[]` before it reaches `BTreeMap::range`.
                       The behaviour before the two repairs (range panicked once a root node was
                       allocated; `OrderedFloat::cmp` said `Equal` for any NaN) is kept as `Old.*`.
* `TrieIndex`        – a tree of hash maps; children as association lists, `children_sorted` as
                       a sort of the keys; `TrieIterator` = (node, sorted keys, position).
* `LeapfrogJoin`     – the `search` loop with fuel (`lfMeasure` suffices, see Props/C14Idx).
-/
namespace Grafeo.Idx

/-! ## the specification: a plain finite map as an unordered duplicate-free entry list -/
section Spec
variable {K V : Type} [DecidableEq K]

/-- lookup in the plain map -/
def sGet : List (K × V) → K → Option V
  | [], _ => none
  | (k', v) :: r, k => if k' = k then some v else sGet r k

def sErase (a : List (K × V)) (k : K) : List (K × V) := a.filter (fun e => decide (e.1 ≠ k))
def sInsert (a : List (K × V)) (k : K) (v : V) : List (K × V) := (k, v) :: sErase a k
def sLen (a : List (K × V)) : Nat := a.length
end Spec

/-- mutations of an index -/
inductive Op (K V : Type) where
  | ins (k : K) (v : V)
  | rem (k : K)
  | clear

def sStep {K V : Type} [DecidableEq K] (a : List (K × V)) : Op K V → List (K × V)
  | .ins k v => sInsert a k v
  | .rem k => sErase a k
  | .clear => []

/-- the plain map after a history -/
def sRun {K V : Type} [DecidableEq K] (ops : List (Op K V)) : List (K × V) := ops.foldl sStep []

/-! ## HashIndex -/
section Hash
variable {K V : Type} [DecidableEq K]

/-- `DashMap::get` -/
def hGet : List (K × V) → K → Option V
  | [], _ => none
  | (k', v) :: r, k => if k' = k then some v else hGet r k

/-- `DashMap::insert`: the slot of an existing key is overwritten, a new key gets a new slot -/
def hSet : List (K × V) → K → V → List (K × V)
  | [], k, v => [(k, v)]
  | (k', v') :: r, k, v => if k' = k then (k', v) :: r else (k', v') :: hSet r k v

/-- `DashMap::remove` -/
def hErase : List (K × V) → K → List (K × V)
  | [], _ => []
  | (k', v') :: r, k => if k' = k then r else (k', v') :: hErase r k

def hInsert (m : List (K × V)) (k : K) (v : V) : List (K × V) × Option V := (hSet m k v, hGet m k)
def hRemove (m : List (K × V)) (k : K) : List (K × V) × Option V := (hErase m k, hGet m k)
def hContains (m : List (K × V)) (k : K) : Bool := (hGet m k).isSome
def hLen (m : List (K × V)) : Nat := m.length

def hStep (m : List (K × V)) : Op K V → List (K × V)
  | .ins k v => (hInsert m k v).1
  | .rem k => (hRemove m k).1
  | .clear => []

def hRun (ops : List (Op K V)) : List (K × V) := ops.foldl hStep []
end Hash

/-! ## BTreeIndex -/

/-- one end of a `RangeBounds` -/
inductive Bound (K : Type) where
  | unb
  | inc (k : K)
  | exc (k : K)

structure BT (K V : Type) where
  /-- `BTreeMap.root.is_some()`: set by the first insert, kept by removals, reset by `clear` -/
  root : Bool
  /-- the entries in tree order -/
  ents : List (K × V)

section BTree
variable {K V : Type}

def BT.empty : BT K V := ⟨false, []⟩

/-- node search (`search_tree` / `find_key_index`): `get`, `contains_key` -/
def bFind (cmp : K → K → Ordering) : List (K × V) → K → Option V
  | [], _ => none
  | (k', v) :: r, k =>
    match cmp k k' with
    | .gt => bFind cmp r k
    | .eq => some v
    | .lt => none

/-- `BTreeMap::insert`: an `Equal` slot keeps its key and takes the new value -/
def bSet (cmp : K → K → Ordering) : List (K × V) → K → V → List (K × V)
  | [], k, v => [(k, v)]
  | (k', v') :: r, k, v =>
    match cmp k k' with
    | .gt => (k', v') :: bSet cmp r k v
    | .eq => (k', v) :: r
    | .lt => (k, v) :: (k', v') :: r

/-- `BTreeMap::remove` -/
def bErase (cmp : K → K → Ordering) : List (K × V) → K → List (K × V)
  | [], _ => []
  | (k', v') :: r, k =>
    match cmp k k' with
    | .gt => (k', v') :: bErase cmp r k
    | .eq => r
    | .lt => (k', v') :: r

def bGet (cmp : K → K → Ordering) (t : BT K V) (k : K) : Option V := bFind cmp t.ents k
def bContains (cmp : K → K → Ordering) (t : BT K V) (k : K) : Bool := (bFind cmp t.ents k).isSome
def bInsert (cmp : K → K → Ordering) (t : BT K V) (k : K) (v : V) : BT K V × Option V :=
  (⟨true, bSet cmp t.ents k v⟩, bFind cmp t.ents k)
def bRemove (cmp : K → K → Ordering) (t : BT K V) (k : K) : BT K V × Option V :=
  (⟨t.root, bErase cmp t.ents k⟩, bFind cmp t.ents k)
def bLen (t : BT K V) : Nat := t.ents.length
def bMin (t : BT K V) : Option (K × V) := t.ents.head?
def bMax (t : BT K V) : Option (K × V) := t.ents.getLast?
def bClear (_t : BT K V) : BT K V := BT.empty

/-- `find_lower_bound_index`: the suffix of the node that starts at the lower edge -/
def rangeLo (cmp : K → K → Ordering) : Bound K → List (K × V) → List (K × V)
  | .unb, m => m
  | .inc _, [] => []
  | .inc k, (k', v) :: r =>
    match cmp k k' with
    | .gt => rangeLo cmp (.inc k) r
    | .eq => (k', v) :: r
    | .lt => (k', v) :: r
  | .exc _, [] => []
  | .exc k, (k', v) :: r =>
    match cmp k k' with
    | .gt => rangeLo cmp (.exc k) r
    | .eq => r
    | .lt => (k', v) :: r

/-- `find_upper_bound_index(bound, lower_edge_idx)`: the search for the upper edge starts at the
lower edge; the result is the prefix of that suffix up to the upper edge -/
def rangeHi (cmp : K → K → Ordering) : Bound K → List (K × V) → List (K × V)
  | .unb, m => m
  | .inc _, [] => []
  | .inc k, (k', v) :: r =>
    match cmp k k' with
    | .gt => (k', v) :: rangeHi cmp (.inc k) r
    | .eq => [(k', v)]
    | .lt => []
  | .exc _, [] => []
  | .exc k, (k', v) :: r =>
    match cmp k k' with
    | .gt => (k', v) :: rangeHi cmp (.exc k) r
    | .eq => []
    | .lt => []

/-- the guard of `BTreeIndex::range`: `s >= e` for two excluded ends, `s > e` otherwise
(`PartialOrd` operators, i.e. `Ord::cmp`) -/
def rangeEmpty (cmp : K → K → Ordering) : Bound K → Bound K → Bool
  | .exc s, .exc e => cmp s e != .lt
  | .inc s, .inc e => cmp s e == .gt
  | .inc s, .exc e => cmp s e == .gt
  | .exc s, .inc e => cmp s e == .gt
  | _, _ => false

/-- `BTreeIndex::range` (after the guard `BTreeMap::range` cannot panic for a lawful order) -/
def bRange (cmp : K → K → Ordering) (t : BT K V) (lo hi : Bound K) : List (K × V) :=
  if rangeEmpty cmp lo hi then [] else rangeHi cmp hi (rangeLo cmp lo t.ents)

/-- before the repair: the two `panic!`s at the top of `search_tree_for_bifurcation`
("range start and end are equal and excluded", "range start is greater than range end");
`keq` is `PartialEq::eq` of the key type, `cmp` its `Ord::cmp` -/
def Old.rangePanics (cmp : K → K → Ordering) (keq : K → K → Bool) : Bound K → Bound K → Bool
  | .exc s, .exc e => keq s e || cmp s e == .gt
  | .inc s, .inc e => cmp s e == .gt
  | .inc s, .exc e => cmp s e == .gt
  | .exc s, .inc e => cmp s e == .gt
  | _, _ => false

/-- before the repair: `BTreeIndex::range` = `BTreeMap::range`; `none` = the call panics -/
def Old.bRange (cmp : K → K → Ordering) (keq : K → K → Bool) (t : BT K V) (lo hi : Bound K) :
    Option (List (K × V)) :=
  if !t.root then some []
  else if Old.rangePanics cmp keq lo hi then none
  else some (rangeHi cmp hi (rangeLo cmp lo t.ents))

def bStep (cmp : K → K → Ordering) (t : BT K V) : Op K V → BT K V
  | .ins k v => (bInsert cmp t k v).1
  | .rem k => (bRemove cmp t k).1
  | .clear => bClear t

def bRun (cmp : K → K → Ordering) (ops : List (Op K V)) : BT K V := ops.foldl (bStep cmp) BT.empty
end BTree

/-- `Ord for i64` -/
def icmp (a b : Int) : Ordering := if a < b then .lt else if a = b then .eq else .gt
def ieq (a b : Int) : Bool := decide (a = b)

/-- `Ord for OrderedFloat` on bit patterns: `partial_cmp(..).unwrap_or_else(|| a.is_nan().cmp(&b.is_nan()))`
— NaN equals NaN and is greater than every number -/
def fcmp (a b : Nat) : Ordering :=
  match F64.partialCmp a b with
  | some o => o
  | none => if F64.isNaN a then (if F64.isNaN b then .eq else .gt) else .lt

/-- the integer whose order is `fcmp`: `F64.key` for numbers (−0, +0 ↦ 0), `2^63` for every NaN -/
def fkeyI (b : Nat) : Int := if F64.isNaN b then (2 ^ 63 : Int) else F64.key b

/-- before the repair: `partial_cmp(..).unwrap_or(Equal)` -/
def Old.fcmp (a b : Nat) : Ordering := (F64.partialCmp a b).getD .eq
/-- before the repair: the derived `PartialEq for OrderedFloat` = `f64 ==` -/
def Old.fkeq (a b : Nat) : Bool := F64.feq a b

/-! ### the scan specification of `range`, `min`, `max` -/
section RangeSpec
variable {V : Type}

def inLo : Bound Int → Int → Bool
  | .unb, _ => true
  | .inc a, k => decide (a ≤ k)
  | .exc a, k => decide (a < k)

def inHi : Bound Int → Int → Bool
  | .unb, _ => true
  | .inc a, k => decide (k ≤ a)
  | .exc a, k => decide (k < a)

def insByKey (e : Int × V) : List (Int × V) → List (Int × V)
  | [] => [e]
  | y :: r => if e.1 ≤ y.1 then e :: y :: r else y :: insByKey e r

/-- sort entries by key -/
def sortByKey : List (Int × V) → List (Int × V)
  | [] => []
  | e :: r => insByKey e (sortByKey r)

/-- scan the plain map, keep the entries within the bounds, order by key -/
def sRange (a : List (Int × V)) (lo hi : Bound Int) : List (Int × V) :=
  sortByKey (a.filter (fun e => inLo lo e.1 && inHi hi e.1))

/-- least / greatest entry of a scan -/
def sMin (a : List (Int × V)) : Option (Int × V) := (sortByKey a).head?
def sMax (a : List (Int × V)) : Option (Int × V) := (sortByKey a).getLast?
end RangeSpec

/-! ## TrieIndex -/

mutual
inductive TNode where
  | mk (edges : List Nat) (kids : TKids)
inductive TKids where
  | nil
  | cons (k : Nat) (n : TNode) (rest : TKids)
end

def TNode.edges : TNode → List Nat
  | .mk es _ => es
def TNode.kids : TNode → TKids
  | .mk _ ks => ks

/-- `children.get(&key)` -/
def TKids.get : TKids → Nat → Option TNode
  | .nil, _ => none
  | .cons k' n r, k => if k' = k then some n else TKids.get r k

/-- `children.keys()` (in some order) -/
def TKids.keys : TKids → List Nat
  | .nil => []
  | .cons k _ r => k :: TKids.keys r

/-- `TrieNode::new()` followed by `insert(path, e)` -/
def TNode.single : List Nat → Nat → TNode
  | [], e => .mk [e] .nil
  | k :: p, e => .mk [] (.cons k (TNode.single p e) .nil)

mutual
/-- `TrieNode::insert` -/
def TNode.insert : TNode → List Nat → Nat → TNode
  | .mk es ks, [], e => .mk (es ++ [e]) ks
  | .mk es ks, k :: p, e => .mk es (TKids.insert ks k p e)
/-- `children.entry(k).or_insert_with(TrieNode::new).insert(p, e)` -/
def TKids.insert : TKids → Nat → List Nat → Nat → TKids
  | .nil, k, p, e => .cons k (TNode.single p e) .nil
  | .cons k' n r, k, p, e =>
    if k' = k then .cons k' (TNode.insert n p e) r else .cons k' n (TKids.insert r k p e)
end

/-- follow `get_child` along a path (`iter_at`, `get`) -/
def TNode.walk : TNode → List Nat → Option TNode
  | n, [] => some n
  | n, k :: p =>
    match n.kids.get k with
    | none => none
    | some c => TNode.walk c p

structure Trie where
  root : TNode
  size : Nat

def Trie.empty : Trie := ⟨.mk [] .nil, 0⟩
def Trie.insert (t : Trie) (p : List Nat) (e : Nat) : Trie := ⟨t.root.insert p e, t.size + 1⟩
def Trie.len (t : Trie) : Nat := t.size
/-- `TrieIndex::get`: `None` when the node is missing or holds no edge -/
def Trie.get (t : Trie) (p : List Nat) : Option (List Nat) :=
  match t.root.walk p with
  | none => none
  | some n => if n.edges.isEmpty then none else some n.edges

def Trie.build (h : List (List Nat × Nat)) : Trie := h.foldl (fun t pe => t.insert pe.1 pe.2) Trie.empty

def insSorted (x : Nat) : List Nat → List Nat
  | [] => [x]
  | y :: r => if x ≤ y then x :: y :: r else y :: insSorted x r

/-- `keys.sort()` -/
def isort : List Nat → List Nat
  | [] => []
  | x :: r => insSorted x (isort r)

/-- `children_sorted` -/
def TNode.childrenSorted (n : TNode) : List Nat := isort n.kids.keys

structure TIter where
  node : TNode
  keys : List Nat
  pos : Nat

def TIter.new (n : TNode) : TIter := ⟨n, n.childrenSorted, 0⟩
def TIter.key (it : TIter) : Option Nat := it.keys[it.pos]?
def TIter.isValid (it : TIter) : Bool := decide (it.pos < it.keys.length)
def TIter.next (it : TIter) : TIter × Bool :=
  if it.pos < it.keys.length then
    ({ it with pos := it.pos + 1 }, decide (it.pos + 1 < it.keys.length))
  else (it, false)

/-- offset of the first key `≥ t` in a slice (what `binary_search` returns, `Ok` or `Err`, on a
sorted duplicate-free slice) -/
def seekOff (t : Nat) : List Nat → Nat
  | [] => 0
  | k :: r => if k < t then seekOff t r + 1 else 0

def TIter.seek (it : TIter) (t : Nat) : TIter × Bool :=
  let p := it.pos + seekOff t (it.keys.drop it.pos)
  ({ it with pos := p }, decide (p < it.keys.length))

def TIter.open (it : TIter) : Option TIter :=
  match it.key with
  | none => none
  | some k =>
    match it.node.kids.get k with
    | none => none
    | some c => some (TIter.new c)

def Trie.iter (t : Trie) : TIter := TIter.new t.root
def Trie.iterAt (t : Trie) (p : List Nat) : Option TIter := (t.root.walk p).map TIter.new

/-- the remaining keys of an iterator -/
def TIter.rem (it : TIter) : List Nat := it.keys.drop it.pos

/-! ### the scan specification of the trie: the list of inserted (path, edge) pairs -/

def sTrieGet (h : List (List Nat × Nat)) (p : List Nat) : Option (List Nat) :=
  let es := (h.filter (fun pe => decide (pe.1 = p))).map (·.2)
  if es.isEmpty then none else some es

def dedupNat : List Nat → List Nat
  | [] => []
  | x :: r => if x ∈ r then dedupNat r else x :: dedupNat r

/-- the key following prefix `p` in path `q`, if `p` is a proper prefix of `q` -/
def nextKey : List Nat → List Nat → Option Nat
  | [], [] => none
  | [], k :: _ => some k
  | _ :: _, [] => none
  | a :: p, b :: q => if a = b then nextKey p q else none

def isPrefix : List Nat → List Nat → Bool
  | [], _ => true
  | _ :: _, [] => false
  | a :: p, b :: q => a == b && isPrefix p q

/-- children keys below `p`: ascending, each once; `none` when no inserted path passes through `p` -/
def sTrieKeys (h : List (List Nat × Nat)) (p : List Nat) : Option (List Nat) :=
  if p.isEmpty || h.any (fun pe => isPrefix p pe.1) then
    some (isort (dedupNat (h.filterMap (fun pe => nextKey p pe.1))))
  else none

/-! ## LeapfrogJoin -/

structure LF where
  iters : List TIter
  cur : Option Nat

/-- `Option<NodeId>` order used by `sort_by_key(|it| it.key())`: `None` first -/
def optLe : Option Nat → Option Nat → Bool
  | none, _ => true
  | some _, none => false
  | some a, some b => decide (a ≤ b)

def insIter (x : TIter) : List TIter → List TIter
  | [] => [x]
  | y :: r => if optLe x.key y.key then x :: y :: r else y :: insIter x r

/-- the stable `sort_by_key` -/
def sortIters : List TIter → List TIter
  | [] => []
  | x :: r => insIter x (sortIters r)

def lfMeasure : List TIter → Nat
  | [] => 0
  | it :: r => (it.keys.length - it.pos) + lfMeasure r

/-- the `loop` of `search`; the fuel is never exhausted when it starts at `lfMeasure + 1` -/
def searchLoop : Nat → List TIter → List TIter × Option Nat
  | 0, its => (its, none)
  | f + 1, its =>
    match its with
    | [] => (its, none)
    | i0 :: rest =>
      match i0.key, ((i0 :: rest).getLast?).bind TIter.key with
      | some mn, some mx =>
        if mn = mx then (its, some mn)
        else
          let r := i0.seek mx
          if !r.2 then (r.1 :: rest, none)
          else searchLoop f (sortIters (r.1 :: rest))
      | _, _ => (its, none)

def LF.search (its : List TIter) : LF :=
  match its with
  | [] => ⟨its, none⟩
  | i0 :: _ =>
    if !i0.isValid then ⟨its, none⟩
    else
      let r := searchLoop (lfMeasure its + 1) its
      ⟨r.1, r.2⟩

/-- `LeapfrogJoin::new` -/
def LF.new (its : List TIter) : LF :=
  if its.isEmpty then ⟨its, none⟩ else LF.search (sortIters its)

def LF.key (j : LF) : Option Nat := j.cur

def LF.next (j : LF) : LF × Bool :=
  match j.cur, j.iters with
  | none, _ => (j, false)
  | some _, [] => (j, false)
  | some _, i0 :: rest =>
    let j' := LF.search (sortIters ((i0.next).1 :: rest))
    (j', j'.cur.isSome)

def LF.open (j : LF) : Option (List TIter) :=
  match j.cur with
  | none => none
  | some _ => j.iters.mapM TIter.open

/-- `loop { key → push; if !next {break} }` -/
def lfEnum : Nat → LF → List Nat
  | 0, _ => []
  | f + 1, j =>
    match j.key with
    | none => []
    | some k =>
      let r := j.next
      if r.2 then k :: lfEnum f r.1 else [k]

/-- enough fuel for `lfEnum` -/
def lfEnumFuel (j : LF) : Nat := lfMeasure j.iters + 1

/-- the same loop for one iterator -/
def itEnum : Nat → TIter → List Nat
  | 0, _ => []
  | f + 1, it =>
    match it.key with
    | none => []
    | some k =>
      let r := it.next
      if r.2 then k :: itEnum f r.1 else [k]

/-- specification: the keys of the first list that occur in every other list -/
def sInter : List (List Nat) → List Nat
  | [] => []
  | l :: ls => l.filter (fun k => ls.all (fun l' => l'.contains k))

end Grafeo.Idx
