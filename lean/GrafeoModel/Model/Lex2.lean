import GrafeoModel.Model.Lex

/-
C12 — shared part of the executable models of the four non-GQL lexers
(`crates/grafeo-adapters/src/query/{cypher,sparql,graphql,gremlin}/lexer.rs`).

Same representation as `Model/Lex.lean` (whose character classes, `Cur`, `cur`, `peek`, `adv`,
`skipWhile` are reused): a cursor is the pair

  `rest` – the characters of `source[position..]`      `pos` – the offset the Rust code keeps

and every cursor-moving function of the Rust lexers is transcribed branch by branch in
`Model/Lex2Cypher.lean`, `Model/Lex2Sparql.lean`, `Model/Lex2Graphql.lean`, `Model/Lex2Gremlin.lean`.
`Props/C12Lex2.lean` proves, for every input, that the offsets stay in step with the characters
(boundary), that every non-`eof` token consumes a character (progress), that tokenising ends with
exactly one `eof` (termination) and that the token spans are ordered and disjoint.

Abstractions (all four): the keyword tables (keywords and names are one kind, `word`), line/column
bookkeeping, the token text / the decoded literal values (they are functions of the consumed slice
and cannot move the cursor).  `is_at_end` / `position >= len` is modelled as `rest = []`, which is
the same thing while `pos + bytes rest = len` (the proved invariant).

Import-free apart from `Model/Lex.lean` (linked into the `gdriver` executable).
-/
namespace Grafeo.Lex2
open Grafeo.Lex

/-- token kinds of the four lexers, merged (`word` = names, identifiers and keywords; `punct` =
every operator / punctuation kind) -/
inductive K where
  | eof | error | str | lstr | qid | int | dec | flt | word | punct | var | iri | pname | bnode
  deriving Repr, DecidableEq

structure Tok where
  k : K
  start : Nat
  stop : Nat
  deriving Repr, DecidableEq

/-- `loop { match step(cursor) { None => break, Some(c) => cursor = c } }` with fuel; the theorems
show that fuel = number of remaining characters + 1 is never exhausted (`iter_done`) -/
def iter (step : Cur → Option Cur) : Nat → Cur → Cur
  | 0, c => c
  | fuel + 1, c =>
    match step c with
    | none => c
    | some c' => iter step fuel c'

/-- call `next` until it reports `eof`; `[]` would mean "fuel exhausted" -/
def tokenizeAux (next : Cur → Tok × Cur) : Nat → Cur → List Tok
  | 0, _ => []
  | fuel + 1, c =>
    let r := next c
    if r.1.k = .eof then [r.1] else r.1 :: tokenizeAux next fuel r.2

/-- the whole token list of an input, fuel = number of characters + 1 -/
def tokenizeWith (next : Cur → Tok × Cur) (input : List Char) : List Tok :=
  tokenizeAux next (input.length + 1) ⟨input, 0⟩

/-! ### shared by the GraphQL and Gremlin lexers (`Peekable<Chars>`; `w` = what `advance` adds to
`position` per character: `len_utf8` in GraphQL, `1` in Gremlin) -/

/-- `while let Some(c) = peek() { if p(c) { advance() } else { break } }` -/
def skipWhileW (w : Char → Nat) (p : Char → Bool) : List Char → Nat → Cur
  | [], n => ⟨[], n⟩
  | ch :: r, n => if p ch then skipWhileW w p r (n + w ch) else ⟨ch :: r, n⟩

/-- the loop of `read_number` (identical in both lexers); `isF` = `is_float`, `hasE` = `value`
already contains `e`/`E`; result = (`is_float`, cursor) -/
def readNum (w : Char → Nat) (isF hasE : Bool) : List Char → Nat → Bool × Cur
  | [], n => (isF, ⟨[], n⟩)
  | ch :: r, n =>
    if isDigit ch then readNum w isF hasE r (n + w ch)
    else if ch == '.' && !isF then readNum w true hasE r (n + w ch)
    else if (ch == 'e' || ch == 'E') && !hasE then
      match r with
      | [] => (true, ⟨[], n + w ch⟩)
      | s :: r' =>
        if s == '+' || s == '-' then readNum w true true r' (n + w ch + w s)
        else readNum w true true (s :: r') (n + w ch)
    else (isF, ⟨ch :: r, n⟩)

/-- `advance()` of a `Peekable<Chars>` lexer: nothing at end of input -/
def advW (w : Char → Nat) (c : Cur) : Cur :=
  match c.rest with
  | [] => c
  | ch :: r => ⟨r, c.pos + w ch⟩

/-! ### the verdict printed by the `lex2 <lang>.ok` lines: a decidable check of the four statements
on one concrete token list (`bounds` = the list of legal offsets of the input) -/

/-- all character boundaries of an input, as byte offsets (`w = utf8Len`) or character indices
(`w = 1`, Gremlin) -/
def boundaries (w : Char → Nat) : List Char → Nat → List Nat
  | [], n => [n]
  | ch :: r, n => n :: boundaries w r (n + w ch)

/-- spans in order, each on legal offsets, non-`eof` tokens non-empty, `eof` exactly at the end -/
def checkToks (bounds : List Nat) : Nat → List Tok → Bool
  | _, [] => false
  | lo, [t] => t.k == .eof && lo ≤ t.start && t.start ≤ t.stop && bounds.contains t.start &&
      bounds.contains t.stop
  | lo, t :: ts => t.k != .eof && lo ≤ t.start && t.start < t.stop && bounds.contains t.start &&
      bounds.contains t.stop && checkToks bounds t.stop ts

def verdict (w : Char → Nat) (input : List Char) (ts : List Tok) : String :=
  if ts.length > input.length + 1 then "bad:count"
  else if checkToks (boundaries w input 0) 0 ts then "ok" else "bad:span"

end Grafeo.Lex2
