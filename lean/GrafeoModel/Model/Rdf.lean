/-
Model of `crates/grafeo-core/src/graph/rdf/store.rs` (`RdfStore`).

Terms are natural-number codes (the harness maps each structurally distinct `Term` of its pool
to one code; the pool contains look-alikes so that `Term`'s equality is exercised).
The primary hash set is an insertion-ordered list without duplicates; each index is an
association list `key ↦ Vec<triple>` whose key disappears when its vector becomes empty, as in
the source. All query results are compared as sorted lists, so the order chosen here is
unobservable; multiplicities are observable.
-/
namespace Grafeo.Rdf

structure Triple where
  s : Nat
  p : Nat
  o : Nat
  deriving DecidableEq, Repr

abbrev Index := List (Nat × List Triple)

def idxGet (idx : Index) (k : Nat) : List Triple :=
  match idx with
  | [] => []
  | (k', v) :: rest => if k' = k then v else idxGet rest k

/-- `entry(k).or_default().push(t)` -/
def idxPush (idx : Index) (k : Nat) (t : Triple) : Index :=
  match idx with
  | [] => [(k, [t])]
  | (k', v) :: rest => if k' = k then (k', v ++ [t]) :: rest else (k', v) :: idxPush rest k t

/-- `vec.retain(|x| x != t); if vec.is_empty() { remove(k) }` -/
def idxRemove (idx : Index) (k : Nat) (t : Triple) : Index :=
  match idx with
  | [] => []
  | (k', v) :: rest =>
    if k' = k then
      let v' := v.filter (fun x => x != t)
      if v'.isEmpty then rest else (k', v') :: rest
    else (k', v) :: idxRemove rest k t

structure Store where
  indexObjects : Bool
  triples : List Triple
  sIdx : Index
  pIdx : Index
  oIdx : Index          -- unused (empty) when `indexObjects = false`
  deriving Repr

def Store.new (indexObjects : Bool) : Store := ⟨indexObjects, [], [], [], []⟩

def Store.insert (st : Store) (t : Triple) : Store × Bool :=
  if t ∈ st.triples then (st, false)
  else ({ st with
      triples := st.triples ++ [t]
      sIdx := idxPush st.sIdx t.s t
      pIdx := idxPush st.pIdx t.p t
      oIdx := if st.indexObjects then idxPush st.oIdx t.o t else st.oIdx }, true)

def Store.remove (st : Store) (t : Triple) : Store × Bool :=
  if t ∉ st.triples then (st, false)
  else ({ st with
      triples := st.triples.filter (fun x => x != t)
      sIdx := idxRemove st.sIdx t.s t
      pIdx := idxRemove st.pIdx t.p t
      oIdx := if st.indexObjects then idxRemove st.oIdx t.o t else st.oIdx }, true)

def Store.clear (st : Store) : Store := { st with triples := [], sIdx := [], pIdx := [], oIdx := [] }

structure Pattern where
  s : Option Nat
  p : Option Nat
  o : Option Nat
  deriving DecidableEq, Repr

def Pattern.matches (pat : Pattern) (t : Triple) : Bool :=
  (match pat.s with | some s => s == t.s | none => true) &&
  (match pat.p with | some p => p == t.p | none => true) &&
  (match pat.o with | some o => o == t.o | none => true)

/-- `find`: index selection exactly as the `match` in the source. -/
def Store.find (st : Store) (pat : Pattern) : List Triple :=
  match pat.s, pat.p, pat.o with
  | some s, _, _ => (idxGet st.sIdx s).filter pat.matches
  | none, some p, _ => (idxGet st.pIdx p).filter pat.matches
  | none, none, some o =>
    if st.indexObjects then (idxGet st.oIdx o).filter pat.matches
    else st.triples.filter pat.matches
  | none, none, none => st.triples.filter pat.matches

def Store.withSubject (st : Store) (k : Nat) : List Triple := idxGet st.sIdx k
def Store.withPredicate (st : Store) (k : Nat) : List Triple := idxGet st.pIdx k
def Store.withObject (st : Store) (k : Nat) : List Triple :=
  if st.indexObjects then idxGet st.oIdx k else st.triples.filter (fun t => t.o == k)

/-- `stats()`: (triple_count, subject_count, predicate_count, object_count) -/
def Store.stats (st : Store) : Nat × Nat × Nat × Nat :=
  (st.triples.length, st.sIdx.length, st.pIdx.length, if st.indexObjects then st.oIdx.length else 0)

inductive Op where
  | insert (t : Triple)
  | remove (t : Triple)
  | clear
  deriving Repr

def step (st : Store) : Op → Store
  | .insert t => (st.insert t).1
  | .remove t => (st.remove t).1
  | .clear => st.clear

def run (indexObjects : Bool) (ops : List Op) : Store := ops.foldl step (Store.new indexObjects)

/-! ### per-transaction buffers (`insert_in_tx`, `remove_in_tx`, `commit_tx`, `rollback_tx`,
`find_with_pending`) -/

inductive Pending where
  | ins (t : Triple)
  | del (t : Triple)
  deriving Repr

abbrev Buffers := List (Nat × List Pending)

def bufGet (b : Buffers) (tx : Nat) : Option (List Pending) :=
  match b with
  | [] => none
  | (k, v) :: rest => if k = tx then some v else bufGet rest tx

def bufPush (b : Buffers) (tx : Nat) (op : Pending) : Buffers :=
  match b with
  | [] => [(tx, [op])]
  | (k, v) :: rest => if k = tx then (k, v ++ [op]) :: rest else (k, v) :: bufPush rest tx op

def bufDrop (b : Buffers) (tx : Nat) : Buffers := b.filter (fun kv => kv.1 != tx)

def applyPending (st : Store) : List Pending → Store
  | [] => st
  | .ins t :: rest => applyPending (st.insert t).1 rest
  | .del t :: rest => applyPending (st.remove t).1 rest

/-- the replay loop of `find_with_pending`: buffered operations applied in order to the list
of committed matches, with set semantics. -/
def replayPending (pat : Pattern) (results : List Triple) : List Pending → List Triple
  | [] => results
  | .ins x :: rest =>
    replayPending pat (if pat.matches x && !results.contains x then results ++ [x] else results) rest
  | .del x :: rest => replayPending pat (results.filter (fun t => t != x)) rest

/-- `find_with_pending` (repaired code). -/
def findWithPending (st : Store) (b : Buffers) (pat : Pattern) (tx : Option Nat) : List Triple :=
  let base := st.find pat
  match tx with
  | none => base
  | some t =>
    match bufGet b t with
    | none => base
    | some ops => replayPending pat base ops

end Grafeo.Rdf
