import GrafeoModel.Model.Lpg
import GrafeoModel.Model.TxMgr
/-
Model of the session layer `crates/grafeo-engine/src/session.rs` over the LPG store and the
transaction manager: which epoch and transaction id each call passes down
(`get_transaction_context`), what `commit` / `rollback` do, and what the scan operator filters
(`operators/scan.rs::load_batch`). Database-level calls (`GrafeoDB::create_node`, …) go to the
store's non-transactional entry points (store epoch, SYSTEM).
-/
namespace Grafeo.Sess
open Grafeo.Lpg Grafeo.TxMgr

structure World where
  store : Store := {}
  mgr : Mgr := TxMgr.init
  cur : AList (Option Nat) := []      -- session ↦ slot index of its open transaction

def txIdOf (slot : Nat) : Nat := slot + TxMgr.firstTxId

def World.curOf (w : World) (k : Nat) : Option Nat := (aget w.cur k).getD none

/-- `get_transaction_context`: (viewing / stamping epoch, transaction id or SYSTEM) -/
def World.ctx (w : World) (k : Nat) : Nat × Nat :=
  match w.curOf k with
  | some slot =>
    let ep := match w.mgr.get slot with | some t => t.start | none => w.mgr.epoch
    (ep, txIdOf slot)
  | none => (w.mgr.epoch, systemTx)

inductive R where
  | ok
  | err (kind : String)
  deriving DecidableEq, Repr

def World.begin (w : World) (k : Nat) (iso : Iso) : World × R :=
  match w.curOf k with
  | some _ => (w, .err "invalid")
  | none =>
    let (m', slot) := w.mgr.begin iso
    ({ w with mgr := m', cur := aset w.cur k (some slot) }, .ok)

/-- `Session::commit`: the session forgets its transaction whatever the manager answers. -/
def World.commit (w : World) (k : Nat) : World × R :=
  match w.curOf k with
  | none => (w, .err "invalid")
  | some slot =>
    let (m', r) := w.mgr.commit slot
    ({ w with mgr := m', cur := aset w.cur k none },
     match r with
     | .ok _ => .ok
     | .invalid => .err "invalid"
     | .writeConflict => .err "conflict"
     | .serFail => .err "serialization")

/-- `Session::rollback`: drop the version chains this transaction created, abort. -/
def World.rollback (w : World) (k : Nat) : World × R :=
  match w.curOf k with
  | none => (w, .err "invalid")
  | some slot =>
    let (m', b) := w.mgr.abort slot
    ({ w with store := w.store.discard (txIdOf slot), mgr := m', cur := aset w.cur k none },
     if b then .ok else .err "invalid")

def World.createNode (w : World) (k : Nat) (labels : List Nat) : World × Nat :=
  let (ep, tx) := w.ctx k
  let (s', id) := w.store.createNode labels ep tx
  ({ w with store := s' }, id)

def World.createEdge (w : World) (k src dst ty : Nat) : World × Nat :=
  let (ep, tx) := w.ctx k
  let (s', id) := w.store.createEdge src dst ty ep tx
  ({ w with store := s' }, id)

def World.getNode (w : World) (k id : Nat) : Option (List Nat × AList String) :=
  let (ep, tx) := w.ctx k
  w.store.getNodeTo id ep tx

def World.getEdge (w : World) (k id : Nat) : Option (EdgeRec × AList String) :=
  let (ep, tx) := w.ctx k
  w.store.getEdgeTo id ep tx

/-- `get_neighbors_outgoing`: straight from the adjacency list, no visibility filter. -/
def World.outgoing (w : World) (_k n : Nat) : List (Nat × Nat) := w.store.outEdges n

/-- `MATCH (n:L)`: label index, filtered by `get_node_versioned` at the session's context. -/
def World.scanLabel (w : World) (k l : Nat) : List Nat :=
  let (ep, tx) := w.ctx k
  (w.store.nodesByLabel l).filter (fun id => (w.store.getNodeTo id ep tx).isSome)

/-- `MATCH (n)`: `node_ids()` (enumerated at the **store** epoch), same filter. -/
def World.scanAll (w : World) (k : Nat) : List Nat :=
  let (ep, tx) := w.ctx k
  w.store.nodeIds.filter (fun id => (w.store.getNodeTo id ep tx).isSome)

end Grafeo.Sess
