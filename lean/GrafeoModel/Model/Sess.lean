import GrafeoModel.Model.Lpg
import GrafeoModel.Model.TxMgr
/-
Model of the session layer `crates/grafeo-engine/src/session.rs` over the LPG store and the
transaction manager: which epoch and transaction id each call passes down
(`get_transaction_context`), what `commit` / `rollback` do, and what the scan operator filters
(`operators/scan.rs::load_batch`). Database-level calls (`GrafeoDB::create_node`, …) go to the
store's non-transactional entry points (store epoch, SYSTEM).
-/
namespace Grafeo.Sess
open Grafeo.Lpg Grafeo.TxMgr

structure World where
  store : Store := {}
  mgr : Mgr := TxMgr.init
  cur : AList (Option Nat) := []      -- session ↦ slot index of its open transaction

def txIdOf (slot : Nat) : Nat := slot + TxMgr.firstTxId

def World.curOf (w : World) (k : Nat) : Option Nat := (aget w.cur k).getD none

/-- `get_transaction_context`: (viewing / stamping epoch, transaction id or SYSTEM) -/
def World.ctx (w : World) (k : Nat) : Nat × Nat :=
  match w.curOf k with
  | some slot =>
    let ep := match w.mgr.get slot with | some t => t.start | none => w.mgr.epoch
    (ep, txIdOf slot)
  | none => (w.mgr.epoch, systemTx)

inductive R where
  | ok
  | err (kind : String)
  deriving DecidableEq, Repr

def World.begin (w : World) (k : Nat) (iso : Iso) : World × R :=
  match w.curOf k with
  | some _ => (w, .err "invalid")
  | none =>
    let (m', slot) := w.mgr.begin iso
    ({ w with mgr := m', cur := aset w.cur k (some slot) }, .ok)

/-- `Session::commit`: the session forgets its transaction whatever the manager answers; an
accepted commit publishes the transaction's pending versions at the commit epoch, a refused one
discards them. -/
def World.commit (w : World) (k : Nat) : World × R :=
  match w.curOf k with
  | none => (w, .err "invalid")
  | some slot =>
    let (m', r) := w.mgr.commit slot
    let store' := match r with
      | .ok e => w.store.finalize (txIdOf slot) e
      | _ => w.store.discard (txIdOf slot)
    ({ w with store := store', mgr := m', cur := aset w.cur k none },
     match r with
     | .ok _ => .ok
     | .invalid => .err "invalid"
     | .writeConflict => .err "conflict"
     | .serFail => .err "serialization")

/-- `Session::rollback`: drop the version chains this transaction created, abort. -/
def World.rollback (w : World) (k : Nat) : World × R :=
  match w.curOf k with
  | none => (w, .err "invalid")
  | some slot =>
    let (m', b) := w.mgr.abort slot
    ({ w with store := w.store.discard (txIdOf slot), mgr := m', cur := aset w.cur k none },
     if b then .ok else .err "invalid")

/-- `TransactionManager::advance_epoch` + `LpgStore::sync_epoch`: an auto-commit write takes a
fresh epoch. -/
def World.freshEpoch (w : World) : World × Nat :=
  let e := w.mgr.epoch + 1
  ({ w with mgr := { w.mgr with epoch := e }, store := w.store.syncEpoch e }, e)

/-- `get_write_context` / `Planner::write_epoch`: the stamp of what a statement creates — pending
inside a transaction, one fresh epoch per statement outside. -/
def World.writeCtx (w : World) (k : Nat) : World × Nat × Nat :=
  match w.curOf k with
  | some slot => (w, pendingEpoch, txIdOf slot)
  | none => let (w', e) := w.freshEpoch; (w', e, systemTx)

def World.createNode (w : World) (k : Nat) (labels : List Nat) : World × Nat :=
  let (w1, ep, tx) := w.writeCtx k
  let (s', id) := w1.store.createNode labels ep tx
  ({ w1 with store := s' }, id)

def World.createEdge (w : World) (k src dst ty : Nat) : World × Nat :=
  let (w1, ep, tx) := w.writeCtx k
  let (s', id) := w1.store.createEdge src dst ty ep tx
  ({ w1 with store := s' }, id)

/-- one statement `MATCH (a) … CREATE (a)-[e:T]->(b:L)`: node and edge share the statement's stamp -/
def World.createNodeAndEdge (w : World) (k src l ty : Nat) : World × Nat × Nat :=
  let (w1, ep, tx) := w.writeCtx k
  let (s1, b) := w1.store.createNode [l] ep tx
  let (s2, e) := s1.createEdge src b ty ep tx
  ({ w1 with store := s2 }, b, e)

/-- `GrafeoDB::create_node`: a fresh epoch, then the store's non-transactional entry point -/
def World.dbCreateNode (w : World) (labels : List Nat) : World × Nat :=
  let (w1, e) := w.freshEpoch
  let (s', id) := w1.store.createNode labels e systemTx
  ({ w1 with store := s' }, id)

def World.getNode (w : World) (k id : Nat) : Option (List Nat × AList String) :=
  let (ep, tx) := w.ctx k
  w.store.getNodeTo id ep tx

def World.getEdge (w : World) (k id : Nat) : Option (EdgeRec × AList String) :=
  let (ep, tx) := w.ctx k
  w.store.getEdgeTo id ep tx

/-- `get_neighbors_outgoing`: adjacency entries whose edge and far endpoint the session can see. -/
def World.outgoing (w : World) (k n : Nat) : List (Nat × Nat) :=
  let (ep, tx) := w.ctx k
  (w.store.outEdges n).filter (fun p => (w.store.getEdgeTo p.2 ep tx).isSome && (w.store.getNodeTo p.1 ep tx).isSome)

/-- `get_neighbors_incoming`: the backward adjacency list, same filter. -/
def World.incoming (w : World) (k n : Nat) : List (Nat × Nat) :=
  let (ep, tx) := w.ctx k
  (w.store.inEdges n).filter (fun p => (w.store.getEdgeTo p.2 ep tx).isSome && (w.store.getNodeTo p.1 ep tx).isSome)

/-- `MATCH (n:L)`: label index, filtered by `get_node_versioned` at the session's context. -/
def World.scanLabel (w : World) (k l : Nat) : List Nat :=
  let (ep, tx) := w.ctx k
  (w.store.nodesByLabel l).filter (fun id => (w.store.getNodeTo id ep tx).isSome)

/-- `MATCH (n)`: `all_node_ids()`, same filter. -/
def World.scanAll (w : World) (k : Nat) : List Nat :=
  let (ep, tx) := w.ctx k
  w.store.allNodeIds.filter (fun id => (w.store.getNodeTo id ep tx).isSome)

/-- `MATCH (a)-[e]->(b) WHERE id(a) = n` (`out = true`) / `MATCH (a)<-[e]-(b)` (`out = false`), with
an optional type: `a` from the scan, entries of the adjacency list of `a` whose edge — with that
type — and far endpoint the session sees (`operators/expand.rs`). -/
def World.expandFrom (w : World) (k n : Nat) (out : Bool) (ty : Option Nat) : List (Nat × Nat) :=
  let (ep, tx) := w.ctx k
  if !(w.scanAll k).contains n then []
  else
    ((if out then w.store.outEdges n else w.store.inEdges n)).filter (fun p =>
      match w.store.getEdgeTo p.2 ep tx with
      | some (r, _) => (match ty with | some t => r.ty == t | none => true) && (w.store.getNodeTo p.1 ep tx).isSome
      | none => false)

/-- breadth-first search over a successor function: the length of a shortest path, if any.
`fuel` bounds the number of levels (the number of nodes suffices). -/
def bfsLen (succ : Nat → List Nat) (target : Nat) : Nat → List Nat → List Nat → Nat → Option Nat
  | 0, _, _, _ => none
  | fuel + 1, frontier, seen, d =>
    if frontier.isEmpty then none
    else if frontier.contains target then some d
    else
      let next := (frontier.flatMap succ).foldl (fun acc x => if acc.contains x || seen.contains x then acc else acc ++ [x]) []
      bfsLen succ target fuel next (seen ++ next) (d + 1)

/-- `MATCH p = shortestPath((a:X)-[*]->(b:Y)) RETURN length(p)`: one row per pair of visible nodes
with the labels; the search walks adjacency entries whose edge and far endpoint the session sees
(`operators/shortest_path.rs` with its transaction context). `none` = no path (a null row). -/
def World.shortestPaths (w : World) (k x y : Nat) : List (Option Nat) :=
  let (ep, tx) := w.ctx k
  let succ := fun n => ((w.store.outEdges n).filter (fun p =>
      (w.store.getEdgeTo p.2 ep tx).isSome && (w.store.getNodeTo p.1 ep tx).isSome)).map (·.1)
  let fuel := w.store.nodes.length + 1
  (w.scanLabel k x).flatMap (fun a => (w.scanLabel k y).map (fun b => bfsLen succ b fuel [a] [a] 0))

/-! ### mutations issued as query text inside a session

`MATCH (n) WHERE id(n) = x <clause>`: the scan enumerates and filters as `scanAll`; the mutation
operators (`operators/mutation.rs`) then write **in place**: `set_node_property`, `add_label`,
`remove_label` carry no epoch or transaction, `delete_node_at_epoch` / `delete_edge_at_epoch` stamp
the chain with the viewing epoch and no owner. `Session::rollback` undoes none of them. -/

def World.matches (w : World) (k id : Nat) : Bool := (w.scanAll k).contains id

def World.qSetProp (w : World) (k id key : Nat) (v : String) : World × Bool :=
  if w.matches k id then ({ w with store := w.store.setNodeProp id key v }, true) else (w, false)

def World.qAddLabel (w : World) (k id l : Nat) : World × Bool :=
  if w.matches k id then ({ w with store := (w.store.addLabel id l).1 }, true) else (w, false)

def World.qRemoveLabel (w : World) (k id l : Nat) : World × Bool :=
  if w.matches k id then ({ w with store := (w.store.removeLabel id l).1 }, true) else (w, false)

/-- `DETACH DELETE n`: `delete_node_edges` (store epoch), then `delete_node_at_epoch(viewing epoch)` -/
def World.qDetachDelete (w : World) (k id : Nat) : World × Bool :=
  if w.matches k id then
    let (ep, _) := w.ctx k
    let s1 := w.store.deleteNodeEdges id
    ({ w with store := (s1.deleteNodeAt id ep).1 }, true)
  else (w, false)

/-- `MATCH (a)-[e]->(b) WHERE id(e) = x`: `a` from the scan, `e` from the forward adjacency of `a`,
edge and target checked with `get_edge_versioned` / `get_node_versioned` (operators/expand.rs). -/
def World.edgeMatches (w : World) (k e : Nat) : Bool :=
  let (ep, tx) := w.ctx k
  (w.scanAll k).any (fun a => (w.store.outEdges a).any (fun p =>
    p.2 == e && (w.store.getEdgeTo e ep tx).isSome && (w.store.getNodeTo p.1 ep tx).isSome))

/-- `… DELETE e`: `delete_edge_at_epoch(viewing epoch)` -/
def World.qDeleteEdge (w : World) (k e : Nat) : World × Bool :=
  if w.edgeMatches k e then
    let (ep, _) := w.ctx k
    ({ w with store := (w.store.deleteEdgeAt e ep).1 }, true)
  else (w, false)

/-- `MERGE (n:L)`: the match sees the session's snapshot (`get_node_versioned` over the label index);
a node the merge creates carries the statement's write stamp. The write epoch is taken while
planning, whether or not the merge ends up creating. Result: `none` = matched. -/
def World.qMerge (w : World) (k l : Nat) : World × Option Nat :=
  let (ep0, tx0) := w.ctx k
  let (w1, wep, wtx) := w.writeCtx k
  let cands := (w1.store.nodesByLabel l).filter (fun id => (w1.store.getNodeTo id ep0 tx0).isSome)
  if cands.isEmpty then
    let (s', id) := w1.store.createNode [l] wep wtx
    ({ w1 with store := s' }, some id)
  else (w1, none)

end Grafeo.Sess
