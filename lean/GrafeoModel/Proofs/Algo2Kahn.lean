import GrafeoModel.Proofs.Algo2Lemmas
/-! Kahn `topological_sort`: loop invariant lemmas -/
namespace Grafeo.Algo2
open Grafeo.Graph

def get0 (d : List Nat) (v : Nat) : Nat := d.getD v 0

theorem get0_set {d : List Nat} {i j x : Nat} (hi : i < d.length) :
    get0 (d.set i x) j = if j = i then x else get0 d j := by
  unfold get0
  simp only [List.getD_eq_getElem?_getD, List.getElem?_set]
  by_cases h : i = j
  · subst h; simp [hi]
  · have : ¬ j = i := fun e => h e.symm
    simp [h, this]

theorem idxOf_snoc_mem {l : List Nat} {a u : Nat} (h : a ∈ l) :
    (l ++ [u]).idxOf a = l.idxOf a := by
  induction l with
  | nil => cases h
  | cons x t ih =>
    simp only [List.cons_append, List.idxOf_cons]
    by_cases e : x = a
    · simp [e]
    · have : a ∈ t := by
        rcases List.mem_cons.mp h with h | h
        · exact absurd h.symm e
        · exact h
      simp [e, ih this]

theorem idxOf_snoc_self {l : List Nat} {u : Nat} (h : u ∉ l) :
    (l ++ [u]).idxOf u = l.length := by
  induction l with
  | nil => simp [List.idxOf_cons]
  | cons x t ih =>
    simp only [List.cons_append, List.idxOf_cons, List.length_cons]
    have e : ¬ x = u := fun e => h (e ▸ List.mem_cons_self)
    have : u ∉ t := fun h' => h (List.mem_cons_of_mem _ h')
    have eb : (x == u) = false := by simpa using e
    simp [eb, ih this]

/-- the neighbour loop of Kahn: every degree drops by the multiplicity of the node among the
neighbours; a node is pushed once, when its degree reaches 0 -/
theorem kahnScan_spec : ∀ (nb d q : List Nat), (∀ v, List.count v nb ≤ get0 d v) →
    (∀ v ∈ nb, v < d.length) →
    ∃ pushed, (kahnScan d q nb).2 = pushed ++ q ∧ pushed.Nodup ∧
      (∀ v ∈ pushed, v ∈ nb ∧ get0 (kahnScan d q nb).1 v = 0) ∧
      (kahnScan d q nb).1.length = d.length ∧
      ∀ v, get0 (kahnScan d q nb).1 v = get0 d v - List.count v nb := by
  intro nb
  induction nb with
  | nil => intro d q _ _; exact ⟨[], by simp [kahnScan], by simp, by simp, by simp [kahnScan], by simp [kahnScan]⟩
  | cons x vs ih =>
    intro d q hpre hlen
    have hx : x < d.length := hlen x (by simp)
    have hcx := hpre x
    simp only [List.count_cons, beq_self_eq_true, if_true] at hcx
    have hpre1 : ∀ v, List.count v vs ≤ get0 (d.set x (d.getD x 0 - 1)) v := by
      intro v
      rw [get0_set hx]
      have := hpre v
      simp only [List.count_cons] at this
      by_cases e : v = x
      · subst e; simp only [if_true]; unfold get0 at hcx; omega
      · have e' : ¬ x = v := fun h => e h.symm
        simp only [e, if_false]
        simp only [beq_iff_eq, e', if_false] at this
        omega
    have hlen1 : ∀ v ∈ vs, v < (d.set x (d.getD x 0 - 1)).length := by
      intro v hv; simp only [List.length_set]; exact hlen v (List.mem_cons_of_mem _ hv)
    have hform : ∀ (d' : List Nat), (∀ v, get0 d' v = get0 (d.set x (d.getD x 0 - 1)) v - List.count v vs) →
        ∀ v, get0 d' v = get0 d v - List.count v (x :: vs) := by
      intro d' h v
      rw [h v, get0_set hx, List.count_cons]
      by_cases e : v = x
      · subst e; simp only [if_true, beq_self_eq_true]; unfold get0; omega
      · have e' : ¬ x = v := fun h => e h.symm
        simp [e, e']
    by_cases hz : (d.getD x 0 - 1 == 0) = true
    · obtain ⟨pushed, h1, h2, h3, h4, h5⟩ := ih (d.set x (d.getD x 0 - 1)) (x :: q) hpre1 hlen1
      have hk : kahnScan d q (x :: vs) = kahnScan (d.set x (d.getD x 0 - 1)) (x :: q) vs := by
        simp only [kahnScan, hz, if_true]
      rw [hk]
      have hxvs : x ∉ vs := by
        intro hmem
        have h0 := hpre1 x
        rw [get0_set hx] at h0
        simp only [if_true] at h0
        have hz' : d.getD x 0 - 1 = 0 := by simpa using hz
        have := List.count_pos_iff.mpr hmem
        omega
      refine ⟨pushed ++ [x], by rw [h1]; simp, ?_, ?_, by rw [h4]; simp, hform _ h5⟩
      · rw [List.nodup_append]
        refine ⟨h2, by simp, ?_⟩
        intro a ha b hb
        have : b = x := by simpa using hb
        subst this
        intro e; subst e
        exact hxvs (h3 a ha).1
      · intro v hv
        rcases List.mem_append.mp hv with h | h
        · exact ⟨List.mem_cons_of_mem _ (h3 v h).1, (h3 v h).2⟩
        · have : v = x := by simpa using h
          subst this
          refine ⟨List.mem_cons_self, ?_⟩
          rw [h5 v, get0_set hx]
          simp only [if_true]
          have hz' : d.getD v 0 - 1 = 0 := by simpa using hz
          omega
    · obtain ⟨pushed, h1, h2, h3, h4, h5⟩ := ih (d.set x (d.getD x 0 - 1)) q hpre1 hlen1
      have hk : kahnScan d q (x :: vs) = kahnScan (d.set x (d.getD x 0 - 1)) q vs := by
        simp only [kahnScan, hz]; simp
      rw [hk]
      refine ⟨pushed, h1, h2, ?_, by rw [h4]; simp, hform _ h5⟩
      intro v hv
      exact ⟨List.mem_cons_of_mem _ (h3 v hv).1, (h3 v hv).2⟩

/-- pending in-degree: in-edges of `v` whose source is not yet in `res` -/
def inE (es : List Edge) (res : List Nat) (v : Nat) : Nat :=
  es.countP fun e => e.2.1 == v && !res.contains e.1

theorem inE_snoc (es : List Edge) (res : List Nat) (u v : Nat) (hu : u ∉ res) :
    inE es (res ++ [u]) v + List.count v (adj es u) = inE es res v := by
  induction es with
  | nil => simp [inE, adj]
  | cons e t ih =>
    unfold inE adj at ih ⊢
    simp only [List.countP_cons, List.filter_cons]
    by_cases h1 : e.1 = u
    · have hc : res.contains e.1 = false := by simpa [h1] using hu
      have hc' : (res ++ [u]).contains e.1 = true := by simp [h1]
      simp only [h1, beq_self_eq_true, if_true, List.map_cons, List.count_cons] at ih ⊢
      rw [← h1] at ih ⊢
      simp only [hc, hc'] at ih ⊢
      by_cases h2 : e.2.1 = v
      · simp [h2] at ih ⊢; omega
      · simp [h2] at ih ⊢; omega
    · have hb : (e.1 == u) = false := by simpa using h1
      have hc' : (res ++ [u]).contains e.1 = res.contains e.1 := by
        simp [h1]
      simp only [hb, hc'] at ih ⊢
      simp at ih ⊢
      omega

theorem inE_zero {es : List Edge} {res : List Nat} {v : Nat} (h : inE es res v = 0)
    {e : Edge} (he : e ∈ es) (hv : e.2.1 = v) : e.1 ∈ res := by
  unfold inE at h
  rw [List.countP_eq_zero] at h
  have := h e he
  simp only [hv, beq_self_eq_true, Bool.true_and, Bool.not_eq_true', Bool.not_eq_false] at this
  simpa using this

theorem inE_pos {es : List Edge} {res : List Nat} {e : Edge} (he : e ∈ es) (hs : e.1 ∉ res) :
    0 < inE es res e.2.1 := by
  unfold inE
  rw [List.countP_pos_iff]
  exact ⟨e, he, by simpa using hs⟩

/-- loop invariant of Kahn: `d` holds the pending in-degrees, the stack holds nodes of pending
in-degree 0, `res` is duplicate-free and every in-edge of a placed node comes from an earlier one -/
structure KInv (es : List Edge) (n : Nat) (d q res : List Nat) : Prop where
  len : d.length = n
  ex : ∀ v, v < n → get0 d v = inE es res v
  nd : (res ++ q).Nodup
  qz : ∀ v ∈ q, v < n ∧ get0 d v = 0
  rb : ∀ v ∈ res, v < n
  ord : ∀ e ∈ es, e.2.1 ∈ res → e.1 ∈ res ∧ res.idxOf e.1 < res.idxOf e.2.1

def KOut (es : List Edge) (n : Nat) (res : List Nat) : Prop :=
  res.Nodup ∧ (∀ v ∈ res, v < n) ∧
    ∀ e ∈ es, e.2.1 ∈ res → e.1 ∈ res ∧ res.idxOf e.1 < res.idxOf e.2.1

theorem KInv.out {es : List Edge} {n : Nat} {d q res : List Nat} (inv : KInv es n d q res) :
    KOut es n res := ⟨(List.nodup_append.mp inv.nd).1, inv.rb, inv.ord⟩

def KComp (n : Nat) (d q res : List Nat) : Prop :=
  ∀ v, v < n → v ∉ res → get0 d v = 0 → v ∈ q

theorem kahnScan_complete : ∀ (nb d q : List Nat), (∀ v, List.count v nb ≤ get0 d v) →
    (∀ v ∈ nb, v < d.length) →
    ∀ v, v ∈ nb → get0 (kahnScan d q nb).1 v = 0 → v ∈ (kahnScan d q nb).2 := by
  intro nb
  induction nb with
  | nil => intro d q _ _ v hv; cases hv
  | cons x vs ih =>
    intro d q hpre hlen v hv hz0
    have hx : x < d.length := hlen x (by simp)
    have hcx := hpre x
    simp only [List.count_cons, beq_self_eq_true, if_true] at hcx
    have hpre1 : ∀ v, List.count v vs ≤ get0 (d.set x (d.getD x 0 - 1)) v := by
      intro v
      rw [get0_set hx]
      have := hpre v
      simp only [List.count_cons] at this
      by_cases e : v = x
      · subst e; simp only [if_true]; unfold get0 at hcx; omega
      · have e' : ¬ x = v := fun h => e h.symm
        simp only [e, if_false]
        simp only [beq_iff_eq, e', if_false] at this
        omega
    have hlen1 : ∀ v ∈ vs, v < (d.set x (d.getD x 0 - 1)).length := by
      intro v hv; simp only [List.length_set]; exact hlen v (List.mem_cons_of_mem _ hv)
    by_cases hz : (d.getD x 0 - 1 == 0) = true
    · have hk : kahnScan d q (x :: vs) = kahnScan (d.set x (d.getD x 0 - 1)) (x :: q) vs := by
        simp only [kahnScan, hz, if_true]
      rw [hk] at hz0 ⊢
      by_cases hvs : v ∈ vs
      · exact ih _ _ hpre1 hlen1 v hvs hz0
      · have hvx : v = x := by
          rcases List.mem_cons.mp hv with h | h
          · exact h
          · exact absurd h hvs
        obtain ⟨pushed, h1, _⟩ := kahnScan_spec vs (d.set x (d.getD x 0 - 1)) (x :: q) hpre1 hlen1
        rw [h1, hvx]; simp
    · have hk : kahnScan d q (x :: vs) = kahnScan (d.set x (d.getD x 0 - 1)) q vs := by
        simp only [kahnScan, hz]; simp
      rw [hk] at hz0 ⊢
      by_cases hvs : v ∈ vs
      · exact ih _ _ hpre1 hlen1 v hvs hz0
      · have hvx : v = x := by
          rcases List.mem_cons.mp hv with h | h
          · exact h
          · exact absurd h hvs
        obtain ⟨pushed, _, _, _, _, h5⟩ := kahnScan_spec vs (d.set x (d.getD x 0 - 1)) q hpre1 hlen1
        rw [h5 v, hvx, get0_set hx, List.count_eq_zero.mpr (hvx ▸ hvs)] at hz0
        simp only [if_true] at hz0
        have hz' : ¬ (d.getD x 0 - 1 = 0) := by simpa using hz
        omega

/-- one iteration of the `while` loop keeps the invariant (and the completeness of the stack) -/
theorem kahn_step (es : List Edge) (n : Nat) (wf : ∀ e ∈ es, e.1 < n ∧ e.2.1 < n)
    {d q' res : List Nat} {u : Nat} (inv : KInv es n d (u :: q') res) :
    KInv es n (kahnScan d q' (adj es u)).1 (kahnScan d q' (adj es u)).2 (res ++ [u]) ∧
    (KComp n d (u :: q') res →
      KComp n (kahnScan d q' (adj es u)).1 (kahnScan d q' (adj es u)).2 (res ++ [u])) := by
    have hnd' : ((res ++ [u]) ++ q').Nodup := by simpa using inv.nd
    obtain ⟨hA, hq', hC⟩ := List.nodup_append.mp hnd'
    have hures : u ∉ res := by
      intro h
      have := (List.nodup_append.mp hA).2.2 u h u (by simp)
      exact this rfl
    have hun : u < n := (inv.qz u (by simp)).1
    have hdu : get0 d u = 0 := (inv.qz u (by simp)).2
    have hinu : inE es res u = 0 := by rw [← inv.ex u hun]; exact hdu
    have hnbn : ∀ v ∈ adj es u, v < n := by
      intro v hv
      obtain ⟨w, hw⟩ := mem_adj.mp hv
      exact (wf _ hw).2
    have hpre : ∀ v, List.count v (adj es u) ≤ get0 d v := by
      intro v
      by_cases hv : v < n
      · rw [inv.ex v hv]
        have := inE_snoc es res u v hures
        omega
      · have : v ∉ adj es u := fun h => hv (hnbn v h)
        rw [List.count_eq_zero.mpr this]
        omega
    obtain ⟨pushed, h1, h2, h3, h4, h5⟩ := kahnScan_spec (adj es u) d q' hpre
      (by intro v hv; rw [inv.len]; exact hnbn v hv)
    have hpd : ∀ v ∈ pushed, v ∉ res ∧ v ≠ u ∧ v ∉ q' ∧ v < n := by
      intro v hv
      obtain ⟨w, hw⟩ := mem_adj.mp (h3 v hv).1
      have hvn : v < n := (wf _ hw).2
      have hpos : 0 < get0 d v := by
        rw [inv.ex v hvn]
        exact inE_pos (e := (u, v, w)) hw hures
      refine ⟨?_, ?_, ?_, hvn⟩
      · intro hvr
        exact hures (inv.ord _ hw hvr).1
      · intro e; subst e; omega
      · intro hq
        have := (inv.qz v (List.mem_cons_of_mem _ hq)).2
        omega
    refine ⟨⟨by rw [h4]; exact inv.len, ?_, ?_, ?_, ?_, ?_⟩, ?_⟩
    · intro v hv
      rw [h5 v, inv.ex v hv]
      have := inE_snoc es res u v hures
      omega
    · rw [h1, List.nodup_append]
      refine ⟨hA, ?_, ?_⟩
      · rw [List.nodup_append]
        refine ⟨h2, hq', ?_⟩
        intro a ha b hb e
        subst e
        exact (hpd a ha).2.2.1 hb
      · intro a ha b hb e
        subst e
        rcases List.mem_append.mp hb with hb | hb
        · rcases List.mem_append.mp ha with ha | ha
          · exact (hpd a hb).1 ha
          · exact (hpd a hb).2.1 (by simpa using ha)
        · exact hC a ha a hb rfl
    · intro v hv
      rw [h1] at hv
      rcases List.mem_append.mp hv with hv | hv
      · exact ⟨(hpd v hv).2.2.2, (h3 v hv).2⟩
      · have := inv.qz v (List.mem_cons_of_mem _ hv)
        refine ⟨this.1, ?_⟩
        rw [h5 v]; omega
    · intro v hv
      rcases List.mem_append.mp hv with hv | hv
      · exact inv.rb v hv
      · have : v = u := by simpa using hv
        exact this ▸ hun
    · intro e he het
      rcases List.mem_append.mp het with h | h
      · obtain ⟨o1, o2⟩ := inv.ord e he h
        exact ⟨List.mem_append_left _ o1, by rw [idxOf_snoc_mem o1, idxOf_snoc_mem h]; exact o2⟩
      · have hte : e.2.1 = u := by simpa using h
        have hs : e.1 ∈ res := inE_zero hinu he hte
        refine ⟨List.mem_append_left _ hs, ?_⟩
        rw [hte, idxOf_snoc_mem hs, idxOf_snoc_self hures]
        exact List.idxOf_lt_length_iff.mpr hs
    · intro hcomp v hvn hvr hz0
      have hvres : v ∉ res := fun h => hvr (List.mem_append_left _ h)
      have hvu : v ≠ u := fun h => hvr (by simp [h])
      by_cases hnb : v ∈ adj es u
      · exact kahnScan_complete (adj es u) d q' hpre
          (by intro y hy; rw [inv.len]; exact hnbn y hy) v hnb hz0
      · rw [h5 v, List.count_eq_zero.mpr hnb] at hz0
        have := hcomp v hvn hvres (by omega)
        rw [h1]
        rcases List.mem_cons.mp this with h | h
        · exact absurd h hvu
        · exact List.mem_append_right _ h

theorem kahnLoop_spec (es : List Edge) (n : Nat) (wf : ∀ e ∈ es, e.1 < n ∧ e.2.1 < n) :
    ∀ (fuel : Nat) (d q res : List Nat), KInv es n d q res → KOut es n (kahnLoop es fuel d q res) := by
  intro fuel
  induction fuel with
  | zero => intro d q res inv; simpa [kahnLoop] using inv.out
  | succ f ih =>
    intro d q res inv
    cases q with
    | nil => simpa [kahnLoop] using inv.out
    | cons u q' =>
      have := ih _ _ _ (kahn_step es n wf inv).1
      simpa [kahnLoop] using this

theorem foldl_bump_length : ∀ (l d : List Nat), (l.foldl bump d).length = d.length := by
  intro l
  induction l with
  | nil => intro d; rfl
  | cons x t ih => intro d; simp only [List.foldl_cons]; rw [ih]; simp [bump]

/-- a duplicate-free list of `n` numbers below `n` contains every number below `n` -/
theorem nodup_full {l : List Nat} {n : Nat} (hn : l.Nodup) (hb : ∀ v ∈ l, v < n)
    (hl : l.length = n) {v : Nat} (hv : v < n) : v ∈ l := by
  apply Classical.byContradiction
  intro hnot
  have hmem : v ∈ List.range n := List.mem_range.mpr hv
  have h1 := nodup_length_le l ((List.range n).erase v) hn (by
    intro x hx
    have hne : x ≠ v := fun e => hnot (e ▸ hx)
    exact (List.mem_erase_of_ne hne).mpr (List.mem_range.mpr (hb x hx)))
  have h2 := List.length_erase_of_mem hmem
  simp only [List.length_range] at h2
  omega

theorem foldl_bump_get0 : ∀ (l d : List Nat), (∀ x ∈ l, x < d.length) →
    ∀ v, get0 (l.foldl bump d) v = get0 d v + List.count v l := by
  intro l
  induction l with
  | nil => intro d _ v; simp
  | cons x t ih =>
    intro d hl v
    have hx : x < d.length := hl x (by simp)
    simp only [List.foldl_cons]
    rw [ih (bump d x) (by intro y hy; simp only [bump, List.length_set]; exact hl y (List.mem_cons_of_mem _ hy)) v]
    unfold bump
    rw [get0_set hx, List.count_cons]
    by_cases e : v = x
    · subst e; simp only [if_true, beq_self_eq_true]; unfold get0; omega
    · have e' : ¬ x = v := fun h => e h.symm
      simp [e, e']

theorem adj_cons (e : Edge) (t : List Edge) (x : Nat) :
    adj (e :: t) x = if e.1 == x then e.2.1 :: adj t x else adj t x := by
  unfold adj
  simp only [List.filter_cons]
  split <;> simp

theorem count_flatMap_adj_cons (e : Edge) (t : List Edge) (v : Nat) : ∀ (l : List Nat), l.Nodup →
    List.count v (l.flatMap (adj (e :: t))) =
      List.count v (l.flatMap (adj t)) + if (e.2.1 == v && l.contains e.1) = true then 1 else 0 := by
  intro l
  induction l with
  | nil => intro _; simp
  | cons x l' ih =>
    intro hn
    obtain ⟨hx, hn'⟩ := List.nodup_cons.mp hn
    simp only [List.flatMap_cons, List.count_append]
    rw [ih hn', adj_cons]
    by_cases h1 : e.1 = x
    · have hc : l'.contains e.1 = false := by simpa [h1] using hx
      simp only [h1, beq_self_eq_true, if_true, List.count_cons] at hc ⊢
      simp only [hc]
      simp
      omega
    · have hb : (e.1 == x) = false := by simpa using h1
      have hb' : (x == e.1) = false := by simpa using fun h : x = e.1 => h1 h.symm
      simp only [hb, Bool.false_eq_true, if_false, List.contains_cons, hb', Bool.false_or]
      omega

theorem count_flatMap_adj (es : List Edge) (v : Nat) (l : List Nat) (hn : l.Nodup) :
    List.count v (l.flatMap (adj es)) = es.countP fun e => e.2.1 == v && l.contains e.1 := by
  induction es with
  | nil =>
    have : ∀ (l : List Nat), List.count v (l.flatMap (adj [])) = 0 := by
      intro l; induction l with
      | nil => simp
      | cons x t ih => simp [List.flatMap_cons, adj, ih]
    simp [this]
  | cons e t ih =>
    rw [count_flatMap_adj_cons e t v l hn, ih, List.countP_cons]

/-- the in-degree vector computed by `topological_sort` holds, for every node, the number of its
in-edges -/
theorem inDegrees_spec (n : Nat) (es : List Edge) (wf : ∀ e ∈ es, e.1 < n ∧ e.2.1 < n) :
    (inDegrees n es).length = n ∧ ∀ v, v < n → get0 (inDegrees n es) v = inE es [] v := by
  unfold inDegrees
  refine ⟨by rw [foldl_bump_length]; simp, ?_⟩
  intro v _
  rw [foldl_bump_get0 _ _ (by
    intro x hx
    simp only [List.length_replicate]
    obtain ⟨u, _, hxu⟩ := List.mem_flatMap.mp hx
    obtain ⟨w, hw⟩ := mem_adj.mp hxu
    exact (wf _ hw).2) v]
  have h0 : get0 (List.replicate n 0) v = 0 := by
    unfold get0; simp [List.getD_eq_getElem?_getD, List.getElem?_replicate]; split <;> simp
  rw [h0, count_flatMap_adj es v _ List.nodup_range]
  unfold inE
  simp only [Nat.zero_add]
  apply List.countP_congr
  intro e he
  have : e.1 < n := (wf e he).1
  simp [this]

/-- with the fuel `n + 1` the loop ends on an empty stack; then every node that was not placed
still has an in-edge from a node that was not placed -/
theorem kahnLoop_stuck (es : List Edge) (n : Nat) (wf : ∀ e ∈ es, e.1 < n ∧ e.2.1 < n) :
    ∀ (fuel : Nat) (d q res : List Nat), KInv es n d q res → KComp n d q res →
    res.length + fuel = n + 1 →
    ∀ v, v < n → v ∉ kahnLoop es fuel d q res → 0 < inE es (kahnLoop es fuel d q res) v := by
  intro fuel
  induction fuel with
  | zero =>
    intro d q res inv _ hl
    have := nodup_length_le res (List.range n) inv.out.1
      (fun x hx => List.mem_range.mpr (inv.rb x hx))
    simp only [List.length_range] at this
    omega
  | succ f ih =>
    intro d q res inv hcomp hl v hvn hv
    cases q with
    | nil =>
      simp only [kahnLoop] at hv ⊢
      rw [← inv.ex v hvn]
      apply Nat.pos_of_ne_zero
      intro h0
      exact absurd (hcomp v hvn hv h0) (by simp)
    | cons u q' =>
      obtain ⟨inv', hc'⟩ := kahn_step es n wf inv
      simp only [kahnLoop] at hv ⊢
      exact ih _ _ _ inv' (hc' hcomp) (by simp only [List.length_append, List.length_cons, List.length_nil]; omega) v hvn hv

end Grafeo.Algo2
