import GrafeoModel.Model.Algo2
import GrafeoModel.Props.C19
/-!
Helper lemmas for `Props/C19Algo.lean`: adjacency, a pigeonhole bound for duplicate-free lists,
the BFS loop invariant.
-/
namespace Grafeo.Algo2
open Grafeo.Graph

theorem mem_adj {es : List Edge} {u v : Nat} : v ∈ adj es u ↔ ∃ w, (u, v, w) ∈ es := by
  unfold adj
  constructor
  · intro h
    obtain ⟨e, he, hv⟩ := List.mem_map.mp h
    obtain ⟨he1, he2⟩ := List.mem_filter.mp he
    obtain ⟨a, b, c⟩ := e
    simp only [beq_iff_eq] at he2
    simp only at hv
    subst he2; subst hv
    exact ⟨c, he1⟩
  · rintro ⟨w, hw⟩
    exact List.mem_map.mpr ⟨(u, v, w), List.mem_filter.mpr ⟨hw, by simp⟩, rfl⟩

/-- a duplicate-free list inside `m` is no longer than `m` -/
theorem nodup_length_le : ∀ (l m : List Nat), l.Nodup → (∀ x ∈ l, x ∈ m) → l.length ≤ m.length := by
  intro l
  induction l with
  | nil => intros; simp
  | cons a t ih =>
    intro m hn hs
    have ha : a ∈ m := hs a (by simp)
    have hn' := List.nodup_cons.mp hn
    have h1 := ih (m.erase a) hn'.2 (by
      intro x hx
      have hne : x ≠ a := by intro h; subst h; exact hn'.1 hx
      exact (List.mem_erase_of_ne hne).mpr (hs x (by simp [hx])))
    have hl := List.length_erase_of_mem ha
    have hp : m.length > 0 := List.length_pos_of_mem ha
    simp only [List.length_cons]
    omega

/-! ### BFS -/

theorem bfsScan_spec : ∀ (nb vis q : List Nat), vis.Nodup →
    ∃ new, bfsScan vis q nb = (vis ++ new, q ++ new) ∧ (vis ++ new).Nodup ∧
      (∀ y ∈ new, y ∈ nb) ∧ (∀ y ∈ nb, y ∈ vis ++ new) := by
  intro nb
  induction nb with
  | nil => intro vis q hn; exact ⟨[], by simp [bfsScan], by simpa using hn, by simp, by simp⟩
  | cons v vs ih =>
    intro vis q hn
    by_cases hv : vis.contains v = true
    · obtain ⟨new, h1, h2, h3, h4⟩ := ih vis q hn
      refine ⟨new, by simp only [bfsScan, hv, if_true]; exact h1, h2, ?_, ?_⟩
      · intro y hy; exact List.mem_cons_of_mem _ (h3 y hy)
      · intro y hy
        rcases List.mem_cons.mp hy with h | h
        · subst h
          have : y ∈ vis := by simpa using hv
          exact List.mem_append_left _ this
        · exact h4 y h
    · have hv' : v ∉ vis := by simpa using hv
      have hn1 : (vis ++ [v]).Nodup := by
        rw [List.nodup_append]
        refine ⟨hn, by simp, ?_⟩
        intro a ha b hb
        have : b = v := by simpa using hb
        subst this
        intro h; subst h; exact hv' ha
      obtain ⟨new, h1, h2, h3, h4⟩ := ih (vis ++ [v]) (q ++ [v]) hn1
      refine ⟨v :: new, ?_, ?_, ?_, ?_⟩
      · simp only [bfsScan, hv]
        simpa using h1
      · simpa using h2
      · intro y hy
        rcases List.mem_cons.mp hy with h | h
        · subst h; exact List.mem_cons_self
        · exact List.mem_cons_of_mem _ (h3 y h)
      · intro y hy
        rcases List.mem_cons.mp hy with h | h
        · subst h; simp
        · have := h4 y h
          simpa using this

/-- loop invariant of `bfs`: `done` are the dequeued nodes, `q` the queue, `done ++ q` the
discovery order -/
structure BInv (es : List Edge) (s : Nat) (done q : List Nat) : Prop where
  nd : (done ++ q).Nodup
  reach : ∀ x ∈ done ++ q, Reach es s x
  src : s ∈ done ++ q
  closed : ∀ x ∈ done, ∀ y ∈ adj es x, y ∈ done ++ q
  tgt : ∀ x ∈ done ++ q, x ∈ s :: es.map (fun e => e.2.1)

theorem bfsLoop_spec (es : List Edge) (s : Nat) : ∀ (fuel : Nat) (done q : List Nat),
    BInv es s done q → done.length + fuel = es.length + 1 →
    (bfsLoop es fuel (done ++ q) q).Nodup ∧ (∀ x ∈ bfsLoop es fuel (done ++ q) q, Reach es s x) ∧
    s ∈ bfsLoop es fuel (done ++ q) q ∧
    (∀ x ∈ bfsLoop es fuel (done ++ q) q, ∀ y ∈ adj es x, y ∈ bfsLoop es fuel (done ++ q) q) := by
  intro fuel
  induction fuel with
  | zero =>
    intro done q inv hlen
    have h1 := nodup_length_le _ _ inv.nd inv.tgt
    simp only [List.length_append, List.length_cons, List.length_map] at h1
    have hq : q = [] := List.eq_nil_of_length_eq_zero (by omega)
    subst hq
    simp only [bfsLoop]
    refine ⟨inv.nd, inv.reach, inv.src, ?_⟩
    intro x hx y hy
    exact inv.closed x (by simpa using hx) y hy
  | succ f ih =>
    intro done q inv hlen
    cases q with
    | nil =>
      simp only [bfsLoop]
      refine ⟨inv.nd, inv.reach, inv.src, ?_⟩
      intro x hx y hy
      exact inv.closed x (by simpa using hx) y hy
    | cons u q' =>
      obtain ⟨new, h1, h2, h3, h4⟩ := bfsScan_spec (adj es u) (done ++ u :: q') q' inv.nd
      have hre : done ++ u :: q' ++ new = (done ++ [u]) ++ (q' ++ new) := by simp
      have hu : Reach es s u := inv.reach u (by simp)
      have inv' : BInv es s (done ++ [u]) (q' ++ new) := by
        refine ⟨hre ▸ h2, ?_, ?_, ?_, ?_⟩
        · intro x hx
          rw [← hre] at hx
          rcases List.mem_append.mp hx with h | h
          · exact inv.reach x h
          · obtain ⟨w, hw⟩ := mem_adj.mp (h3 x h)
            exact hu.step hw
        · rw [← hre]; exact List.mem_append_left _ inv.src
        · intro x hx y hy
          rw [← hre]
          rcases List.mem_append.mp hx with h | h
          · exact List.mem_append_left _ (inv.closed x h y hy)
          · have : x = u := by simpa using h
            subst this
            exact h4 y hy
        · intro x hx
          rw [← hre] at hx
          rcases List.mem_append.mp hx with h | h
          · exact inv.tgt x h
          · obtain ⟨w, hw⟩ := mem_adj.mp (h3 x h)
            exact List.mem_cons_of_mem _ (List.mem_map.mpr ⟨(u, x, w), hw, rfl⟩)
      have := ih (done ++ [u]) (q' ++ new) inv' (by simp only [List.length_append, List.length_cons, List.length_nil]; omega)
      simp only [bfsLoop, h1]
      rw [hre]
      exact this

/-! ### union-find -/

theorem get_set {p : List Nat} {i j v : Nat} (hi : i < p.length) :
    get (p.set i v) j = if j = i then v else get p j := by
  unfold get
  simp only [List.getD_eq_getElem?_getD, List.getElem?_set]
  by_cases h : i = j
  · subst h; simp [hi]
  · have : ¬ j = i := fun e => h e.symm
    simp [h, this]

theorem get_ge {p : List Nat} {x : Nat} (h : p.length ≤ x) : get p x = x := by
  unfold get
  simp [List.getD_eq_getElem?_getD, List.getElem?_eq_none h]

/-- `Rep p x r`: following parent pointers from `x` ends in the root `r` -/
inductive Rep (p : List Nat) : Nat → Nat → Prop
  | root {x : Nat} : get p x = x → Rep p x x
  | step {x r : Nat} : get p x ≠ x → Rep p (get p x) r → Rep p x r

theorem Rep.isRoot {p : List Nat} {x r : Nat} (h : Rep p x r) : get p r = r := by
  induction h with
  | root h => exact h
  | step _ _ ih => exact ih

theorem Rep.func {p : List Nat} {x r r' : Nat} (h : Rep p x r) (h' : Rep p x r') : r = r' := by
  induction h with
  | root h =>
    cases h' with
    | root _ => rfl
    | step hne _ => exact absurd h hne
  | step hne _ ih =>
    cases h' with
    | root h => exact absurd h hne
    | step _ h2 => exact ih h2

def rk (k : List Nat) (x : Nat) : Nat := k.getD x 0

/-- compressing `z` onto its root keeps every representative -/
theorem rep_set {p : List Nat} {z r : Nat} (hz : Rep p z r) (hl : z < p.length) {y q : Nat}
    (h : Rep p y q) : Rep (p.set z r) y q := by
  induction h with
  | @root y hy =>
    by_cases hyz : y = z
    · subst hyz
      have : r = y := hz.func (Rep.root hy)
      subst this
      exact Rep.root (by rw [get_set hl]; simp)
    · exact Rep.root (by rw [get_set hl]; simp [hyz, hy])
  | @step y q hne hq ih =>
    by_cases hyz : y = z
    · subst hyz
      have hqr : q = r := (Rep.step hne hq).func hz
      subst hqr
      have hroot := hz.isRoot
      have hqy : q ≠ y := by intro e; subst e; exact hne hroot
      refine Rep.step (by rw [get_set hl]; simpa using hqy) ?_
      have : get (p.set y q) y = q := by rw [get_set hl]; simp
      rw [this]
      exact Rep.root (by rw [get_set hl]; simp [hqy, hroot])
    · have hg : get (p.set z r) y = get p y := by rw [get_set hl]; simp [hyz]
      exact Rep.step (by rw [hg]; exact hne) (by rw [hg]; exact ih)

/-- linking the root `a` below the root `b` -/
theorem rep_link {p : List Nat} {a b : Nat} (ha : get p a = a) (hb : get p b = b) (hab : a ≠ b)
    (hl : a < p.length) {y q : Nat} (h : Rep p y q) :
    Rep (p.set a b) y (if q = a then b else q) := by
  induction h with
  | @root y hy =>
    by_cases hya : y = a
    · subst hya
      simp only [if_true]
      have h1 : get (p.set y b) y = b := by rw [get_set hl]; simp
      refine Rep.step (by rw [h1]; exact fun e => hab e.symm) ?_
      rw [h1]
      exact Rep.root (by rw [get_set hl]; simp [hb])
    · simp only [hya, if_false]
      exact Rep.root (by rw [get_set hl]; simp [hya, hy])
  | @step y q hne _ ih =>
    have hya : y ≠ a := by intro e; subst e; exact hne ha
    have hg : get (p.set a b) y = get p y := by rw [get_set hl]; simp [hya]
    exact Rep.step (by rw [hg]; exact hne) (by rw [hg]; exact ih)

/-- the union-find invariant: both vectors have length `n`, parents stay in range, ranks strictly
increase along parent pointers (so the forest is acyclic) -/
structure UFInv (n : Nat) (u : UF) : Prop where
  lenP : u.parent.length = n
  lenR : u.rank.length = n
  bound : ∀ x, x < n → get u.parent x < n
  mono : ∀ x, get u.parent x ≠ x → rk u.rank x < rk u.rank (get u.parent x)

theorem rk_le_sum : ∀ (k : List Nat) (x : Nat), rk k x ≤ k.sum := by
  intro k
  induction k with
  | nil => intro x; simp [rk]
  | cons a t ih =>
    intro x
    cases x with
    | zero => simp [rk]
    | succ x =>
      have := ih x
      simp only [rk, List.getD_cons_succ, List.sum_cons] at this ⊢
      omega

theorem rep_rank_lt {p k : List Nat} (hm : ∀ x, get p x ≠ x → rk k x < rk k (get p x))
    {y r : Nat} (h : Rep p y r) : y ≠ r → rk k y < rk k r := by
  induction h with
  | root _ => intro h; exact absurd rfl h
  | @step y r hne hq ih =>
    intro _
    have h1 := hm y hne
    by_cases e : get p y = r
    · rw [e] at h1; exact h1
    · have := ih e; omega

theorem rep_bound {p : List Nat} {n : Nat} (hb : ∀ x, x < n → get p x < n) {y r : Nat}
    (h : Rep p y r) : y < n → r < n := by
  induction h with
  | root _ => exact id
  | step _ _ ih => intro hy; exact ih (hb _ hy)

/-- `find` with the fuel `B + 1 - rank x` or more: returns the root, keeps every representative,
and every new parent pointer is the old one or the node's root -/
theorem findF_spec {p k : List Nat} (hm : ∀ x, get p x ≠ x → rk k x < rk k (get p x))
    (B : Nat) (hB : ∀ x, rk k x ≤ B) : ∀ (fuel x : Nat), B - rk k x < fuel →
    ∃ r, Rep p x r ∧ (findF fuel p x).2 = r ∧ (findF fuel p x).1.length = p.length ∧
      (∀ y, get (findF fuel p x).1 y = get p y ∨ Rep p y (get (findF fuel p x).1 y)) ∧
      (∀ y q, Rep p y q → Rep (findF fuel p x).1 y q) := by
  intro fuel
  induction fuel with
  | zero => intro x h; omega
  | succ f ih =>
    intro x hx
    by_cases hroot : get p x = x
    · refine ⟨x, Rep.root hroot, ?_, ?_, ?_, ?_⟩ <;> simp [findF, hroot]
    · have h1 := hm x hroot
      have h2 := hB (get p x)
      obtain ⟨r, hr, e2, e3, e4, e5⟩ := ih (get p x) (by omega)
      have hxl : x < p.length := by
        apply Classical.byContradiction
        intro hge
        exact hroot (get_ge (by omega))
      have hne : (get p x != x) = true := by simpa using hroot
      have hxr : Rep p x r := Rep.step hroot hr
      refine ⟨r, hxr, ?_, ?_, ?_, ?_⟩
      · simp only [findF, hne, if_true]; exact e2
      · simp only [findF, hne, if_true, List.length_set]; exact e3
      · intro y
        simp only [findF, hne, if_true]
        rw [get_set (by rw [e3]; exact hxl), e2]
        by_cases hyx : y = x
        · subst hyx; simp only [if_true]; exact Or.inr hxr
        · simp only [hyx, if_false]; exact e4 y
      · intro y q hq
        simp only [findF, hne, if_true]
        rw [e2]
        exact rep_set (e5 x r hxr) (by rw [e3]; exact hxl) (e5 y q hq)

/-- `a` and `b` have the same representative -/
def Same (p : List Nat) (a b : Nat) : Prop := ∃ r, Rep p a r ∧ Rep p b r

theorem rep_total {n : Nat} {u : UF} (inv : UFInv n u) (y : Nat) : ∃ r, Rep u.parent y r := by
  obtain ⟨r, hr, _⟩ := findF_spec inv.mono u.rank.sum (fun x => rk_le_sum _ x) (u.rank.sum + 1) y
    (by omega)
  exact ⟨r, hr⟩

theorem find_spec {n : Nat} {u : UF} (inv : UFInv n u) (x : Nat) :
    ∃ r, Rep u.parent x r ∧ (u.find x).2 = r ∧ UFInv n (u.find x).1 ∧
      (∀ y q, Rep u.parent y q ↔ Rep (u.find x).1.parent y q) := by
  obtain ⟨r, hr, e2, e3, e4, e5⟩ := findF_spec inv.mono u.rank.sum (fun x => rk_le_sum _ x)
    u.fuel x (by unfold UF.fuel; omega)
  have inv' : UFInv n (u.find x).1 := by
    refine ⟨?_, inv.lenR, ?_, ?_⟩
    · show (findF u.fuel u.parent x).1.length = n
      rw [← inv.lenP]; exact e3
    · intro y hy
      show get (findF u.fuel u.parent x).1 y < n
      rcases e4 y with h | h
      · rw [h]; exact inv.bound y hy
      · exact rep_bound inv.bound h hy
    · intro y hy
      show rk u.rank y < rk u.rank (get (findF u.fuel u.parent x).1 y)
      have hy' : get (findF u.fuel u.parent x).1 y ≠ y := hy
      rcases e4 y with h | h
      · rw [h] at hy' ⊢; exact inv.mono y hy'
      · exact rep_rank_lt inv.mono h (fun e => hy' e.symm)
  refine ⟨r, hr, e2, inv', ?_⟩
  intro y q
  constructor
  · exact e5 y q
  · intro h
    obtain ⟨q', hq'⟩ := rep_total inv y
    have := (e5 y q' hq').func h
    exact this ▸ hq'

theorem rk_set {k : List Nat} {i j v : Nat} (hi : i < k.length) :
    rk (k.set i v) j = if j = i then v else rk k j := by
  unfold rk
  simp only [List.getD_eq_getElem?_getD, List.getElem?_set]
  by_cases h : i = j
  · subst h; simp [hi]
  · have : ¬ j = i := fun e => h e.symm
    simp [h, this]

/-- hanging the root `a0` below the root `b0` keeps the invariant when the (new) ranks allow it -/
theorem inv_link {n : Nat} {v : UF} (inv : UFInv n v) {a0 b0 : Nat} (k' : List Nat)
    (hb : get v.parent b0 = b0) (ha0 : a0 < n) (hb0 : b0 < n)
    (hlen : k'.length = n) (hsame : ∀ z, z ≠ b0 → rk k' z = rk v.rank z)
    (hge : rk v.rank b0 ≤ rk k' b0) (hlt : rk k' a0 < rk k' b0) :
    UFInv n ⟨v.parent.set a0 b0, k'⟩ := by
  have hl : a0 < v.parent.length := by rw [inv.lenP]; exact ha0
  refine ⟨by simp [inv.lenP], hlen, ?_, ?_⟩
  · intro x hx
    show get (v.parent.set a0 b0) x < n
    rw [get_set hl]
    by_cases h : x = a0
    · simp [h, hb0]
    · simp only [h, if_false]; exact inv.bound x hx
  · intro x hx
    show rk k' x < rk k' (get (v.parent.set a0 b0) x)
    have hx' : get (v.parent.set a0 b0) x ≠ x := hx
    rw [get_set hl] at hx' ⊢
    by_cases h : x = a0
    · simp only [h, if_true]; exact hlt
    · simp only [h, if_false] at hx' ⊢
      have hxb : x ≠ b0 := by intro e; subst e; exact hx' hb
      have h1 := inv.mono x hx'
      rw [hsame x hxb]
      by_cases h2 : get v.parent x = b0
      · rw [h2] at h1 ⊢; omega
      · rw [hsame _ h2]; exact h1

theorem link_same {p : List Nat} {a0 b0 : Nat} (ha : get p a0 = a0) (hb : get p b0 = b0)
    (hab : a0 ≠ b0) (hl : a0 < p.length) (tot : ∀ y, ∃ q, Rep p y q) (a b : Nat) :
    Same (p.set a0 b0) a b ↔ ∃ qa qb, Rep p a qa ∧ Rep p b qb ∧
      (qa = qb ∨ (qa = a0 ∧ qb = b0) ∨ (qa = b0 ∧ qb = a0)) := by
  obtain ⟨qa, hqa⟩ := tot a
  obtain ⟨qb, hqb⟩ := tot b
  have la := rep_link ha hb hab hl hqa
  have lb := rep_link ha hb hab hl hqb
  constructor
  · rintro ⟨r, h1, h2⟩
    have e1 := la.func h1
    have e2 := lb.func h2
    refine ⟨qa, qb, hqa, hqb, ?_⟩
    by_cases c1 : qa = a0 <;> by_cases c2 : qb = a0 <;> simp only [c1, c2, if_true, if_false] at e1 e2
    · left; rw [c1, c2]
    · right; left; exact ⟨c1, by omega⟩
    · right; right; exact ⟨by omega, c2⟩
    · left; omega
  · rintro ⟨qa', qb', h1, h2, h⟩
    have e1 := hqa.func h1
    have e2 := hqb.func h2
    subst e1; subst e2
    have key : (if qa = a0 then b0 else qa) = (if qb = a0 then b0 else qb) := by
      rcases h with h | ⟨h1, h2⟩ | ⟨h1, h2⟩
      · rw [h]
      · subst h1; subst h2; simp [fun e : qb = qa => hab e.symm]
      · subst h1; subst h2; simp
    exact ⟨_, la, key ▸ lb⟩

theorem same_symm {p : List Nat} {a b : Nat} (h : Same p a b) : Same p b a := by
  obtain ⟨r, h1, h2⟩ := h; exact ⟨r, h2, h1⟩

theorem same_trans {p : List Nat} {a b c : Nat} (h : Same p a b) (h' : Same p b c) : Same p a c := by
  obtain ⟨r, h1, h2⟩ := h
  obtain ⟨r', h3, h4⟩ := h'
  have := h2.func h3
  subst this
  exact ⟨r, h1, h4⟩

/-- `union`: the invariant is kept and exactly the classes of `x` and `y` are merged -/
theorem union_spec {n : Nat} {u : UF} (inv : UFInv n u) (x y : Nat) (hx : x < n) (hy : y < n) :
    UFInv n (u.union x y).1 ∧ ∀ a b, Same (u.union x y).1.parent a b ↔
      (Same u.parent a b ∨ (Same u.parent a x ∧ Same u.parent y b) ∨
        (Same u.parent a y ∧ Same u.parent x b)) := by
  obtain ⟨rx, hrx, ex, inv1, eq1⟩ := find_spec inv x
  obtain ⟨ry, hry, ey, inv2, eq2⟩ := find_spec inv1 y
  -- everything in terms of the forest after the two finds
  have hrx2 : Rep ((u.find x).1.find y).1.parent x rx := (eq2 x rx).mp ((eq1 x rx).mp hrx)
  have same0 : ∀ a b, Same u.parent a b ↔ Same ((u.find x).1.find y).1.parent a b := by
    intro a b
    constructor
    · rintro ⟨r, h1, h2⟩
      exact ⟨r, (eq2 a r).mp ((eq1 a r).mp h1), (eq2 b r).mp ((eq1 b r).mp h2)⟩
    · rintro ⟨r, h1, h2⟩
      exact ⟨r, (eq1 a r).mpr ((eq2 a r).mpr h1), (eq1 b r).mpr ((eq2 b r).mpr h2)⟩
  generalize hv : ((u.find x).1.find y).1 = v at hrx2 hry inv2 same0
  have hry2 : Rep v.parent y ry := by
    have := (eq2 y ry).mp hry
    rw [hv] at this; exact this
  have tot := rep_total inv2
  have rootx := hrx2.isRoot
  have rooty := hry2.isRoot
  have rxn : rx < n := rep_bound inv2.bound hrx2 hx
  have ryn : ry < n := rep_bound inv2.bound hry2 hy
  -- the classes after linking one root below the other
  have merged : ∀ (a0 b0 : Nat), (a0 = rx ∧ b0 = ry) ∨ (a0 = ry ∧ b0 = rx) → a0 ≠ b0 →
      ∀ a b, Same (v.parent.set a0 b0) a b ↔
        (Same u.parent a b ∨ (Same u.parent a x ∧ Same u.parent y b) ∨
          (Same u.parent a y ∧ Same u.parent x b)) := by
    intro a0 b0 hab0 hne a b
    have ha0 : get v.parent a0 = a0 := by rcases hab0 with ⟨h, _⟩ | ⟨h, _⟩ <;> rw [h] <;> assumption
    have hb0 : get v.parent b0 = b0 := by rcases hab0 with ⟨_, h⟩ | ⟨_, h⟩ <;> rw [h] <;> assumption
    have hl0 : a0 < v.parent.length := by
      rw [inv2.lenP]; rcases hab0 with ⟨h, _⟩ | ⟨h, _⟩ <;> rw [h] <;> assumption
    rw [link_same ha0 hb0 hne hl0 tot a b]
    simp only [same0]
    constructor
    · rintro ⟨qa, qb, h1, h2, h⟩
      rcases h with h | ⟨h3, h4⟩ | ⟨h3, h4⟩
      · subst h; exact Or.inl ⟨qa, h1, h2⟩
      · rcases hab0 with ⟨e1, e2⟩ | ⟨e1, e2⟩
        · right; left; exact ⟨⟨rx, by rw [← e1, ← h3]; exact h1, hrx2⟩, ⟨ry, hry2, by rw [← e2, ← h4]; exact h2⟩⟩
        · right; right; exact ⟨⟨ry, by rw [← e1, ← h3]; exact h1, hry2⟩, ⟨rx, hrx2, by rw [← e2, ← h4]; exact h2⟩⟩
      · rcases hab0 with ⟨e1, e2⟩ | ⟨e1, e2⟩
        · right; right; exact ⟨⟨ry, by rw [← e2, ← h3]; exact h1, hry2⟩, ⟨rx, hrx2, by rw [← e1, ← h4]; exact h2⟩⟩
        · right; left; exact ⟨⟨rx, by rw [← e2, ← h3]; exact h1, hrx2⟩, ⟨ry, hry2, by rw [← e1, ← h4]; exact h2⟩⟩
    · rintro (⟨r, h1, h2⟩ | ⟨⟨r1, h1, h1'⟩, ⟨r2, h2, h2'⟩⟩ | ⟨⟨r1, h1, h1'⟩, ⟨r2, h2, h2'⟩⟩)
      · exact ⟨r, r, h1, h2, Or.inl rfl⟩
      · have e1 := h1'.func hrx2
        have e2 := h2.func hry2
        subst e1; subst e2
        refine ⟨r1, r2, h1, h2', ?_⟩
        rcases hab0 with ⟨e1, e2⟩ | ⟨e1, e2⟩
        · right; left; exact ⟨e1.symm, e2.symm⟩
        · right; right; exact ⟨e2.symm, e1.symm⟩
      · have e1 := h1'.func hry2
        have e2 := h2.func hrx2
        subst e1; subst e2
        refine ⟨r1, r2, h1, h2', ?_⟩
        rcases hab0 with ⟨e1, e2⟩ | ⟨e1, e2⟩
        · right; right; exact ⟨e2.symm, e1.symm⟩
        · right; left; exact ⟨e1.symm, e2.symm⟩
  -- now the code of `union`
  have hun : u.union x y =
      (if rx == ry then (v, false)
       else if v.rank.getD rx 0 < v.rank.getD ry 0 then (⟨v.parent.set rx ry, v.rank⟩, true)
       else if v.rank.getD ry 0 < v.rank.getD rx 0 then (⟨v.parent.set ry rx, v.rank⟩, true)
       else (⟨v.parent.set ry rx, v.rank.set rx (v.rank.getD rx 0 + 1)⟩, true)) := by
    simp only [UF.union, ex, ey, hv]
  rw [hun]
  by_cases hxy : rx = ry
  · subst hxy
    simp only [beq_self_eq_true, if_true]
    refine ⟨inv2, fun a b => ?_⟩
    show Same v.parent a b ↔ _
    have sxy : Same v.parent x y := ⟨rx, hrx2, hry2⟩
    constructor
    · intro h; exact Or.inl ((same0 a b).mpr h)
    · rintro (h | ⟨h1, h2⟩ | ⟨h1, h2⟩)
      · exact (same0 a b).mp h
      · exact same_trans (same_trans ((same0 _ _).mp h1) sxy) ((same0 _ _).mp h2)
      · exact same_trans (same_trans ((same0 _ _).mp h1) (same_symm sxy)) ((same0 _ _).mp h2)
  · have hbeq : (rx == ry) = false := by simpa using hxy
    simp only [hbeq, Bool.false_eq_true, if_false]
    by_cases h1 : v.rank.getD rx 0 < v.rank.getD ry 0
    · simp only [h1, if_true]
      exact ⟨inv_link inv2 v.rank rooty rxn ryn inv2.lenR (fun _ _ => rfl) (Nat.le_refl _) h1,
        merged rx ry (Or.inl ⟨rfl, rfl⟩) hxy⟩
    · simp only [h1, if_false]
      by_cases h2 : v.rank.getD ry 0 < v.rank.getD rx 0
      · simp only [h2, if_true]
        exact ⟨inv_link inv2 v.rank rootx ryn rxn inv2.lenR (fun _ _ => rfl) (Nat.le_refl _) h2,
          merged ry rx (Or.inr ⟨rfl, rfl⟩) (Ne.symm hxy)⟩
      · simp only [h2, if_false]
        have hrl : rx < v.rank.length := by rw [inv2.lenR]; exact rxn
        refine ⟨inv_link inv2 _ rootx ryn rxn (by simp [inv2.lenR]) ?_ ?_ ?_,
          merged ry rx (Or.inr ⟨rfl, rfl⟩) (Ne.symm hxy)⟩
        · intro z hz; rw [rk_set hrl]; simp [hz]
        · rw [rk_set hrl]; simp [rk]
        · rw [rk_set hrl, rk_set hrl, if_neg (Ne.symm hxy), if_pos rfl]; unfold rk; omega

end Grafeo.Algo2
