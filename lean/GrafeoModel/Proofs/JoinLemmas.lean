import GrafeoModel.Model.Join
/-! Lemmas for `Props/C08Join.lean`: the consumer loop, the hash table, the probe loop. -/
namespace Grafeo.Join

/-! ### the consumer loop -/

theorem drain_spec {σ : Type} (next : σ → Option Chunk × σ) (rem : σ → List Row) (Inv : σ → Prop)
    (h : ∀ s, Inv s → match next s with
      | (none, _) => rem s = []
      | (some c, s') => c ≠ [] ∧ rem s = c ++ rem s' ∧ Inv s') :
    ∀ fuel s, Inv s → (rem s).length < fuel →
      (drain next fuel s).2 = true ∧ (drain next fuel s).1.flatten = rem s ∧
        ∀ c ∈ (drain next fuel s).1, c ≠ [] := by
  intro fuel
  induction fuel with
  | zero => intro s _ hl; omega
  | succ f ih =>
    intro s hi hl
    have hs := h s hi
    unfold drain
    rcases hn : next s with ⟨o, s'⟩
    rw [hn] at hs
    cases o with
    | none => simp at hs; simp [hs]
    | some c =>
      simp only at hs
      obtain ⟨hc, hr, hi'⟩ := hs
      have hlen : (rem s').length < f := by
        have : c.length > 0 := List.length_pos_iff.mpr hc
        rw [hr, List.length_append] at hl; omega
      obtain ⟨a, b, d⟩ := ih s' hi' hlen
      refine ⟨a, ?_, ?_⟩
      · simp [b, hr]
      · intro c' hc'
        simp at hc'
        rcases hc' with rfl | hc'
        · exact hc
        · exact d c' hc'

/-! ### the hash table -/

theorem get_push (t : Table) (k k' : HKey) (id : Id) :
    (t.push k id).get k' = if k = k' then t.get k' ++ [id] else t.get k' := by
  induction t with
  | nil => simp [Table.push, Table.get]
  | cons e t ih =>
    obtain ⟨k0, ids⟩ := e
    simp only [Table.push]
    by_cases h0 : k0 = k
    · subst h0; by_cases h1 : k0 = k' <;> simp [Table.get, h1]
    · by_cases h1 : k0 = k'
      · subst h1
        have : ¬ k = k0 := fun e => h0 e.symm
        simp [Table.get, h0, this]
      · simp [Table.get, h0, h1, ih]

theorem has_push (t : Table) (k k' : HKey) (id : Id) :
    (t.push k id).has k' = (decide (k = k') || t.has k') := by
  induction t with
  | nil => simp [Table.push, Table.has]
  | cons e t ih =>
    obtain ⟨k0, ids⟩ := e
    simp only [Table.push]
    by_cases h0 : k0 = k
    · subst h0; by_cases h1 : k0 = k' <;> simp [Table.has, h1]
    · by_cases h1 : k0 = k'
      · subst h1
        simp [Table.has, h0]
      · simp [Table.has, h0, h1, ih]

/-- a build row enters the table under key `k` -/
def enters (jt : JT) (bkeys : List Nat) (k : HKey) (r : Row) : Bool :=
  decide (extractKey bkeys r = k) && !(decide (extractKey bkeys r = .one .null) && !jt.keepsNull)

theorem get_fold (jt : JT) (bkeys : List Nat) (k : HKey) (es : List (Id × Row)) :
    ∀ t : Table, (es.foldl (buildStep jt bkeys) t).get k =
      t.get k ++ (es.filter fun e => enters jt bkeys k e.2).map (·.1) := by
  induction es with
  | nil => simp
  | cons e es ih =>
    intro t
    simp only [List.foldl_cons, ih, List.filter_cons]
    unfold buildStep enters
    by_cases hn : extractKey bkeys e.2 = .one .null ∧ jt.keepsNull = false
    · simp [hn]
    · by_cases hk : extractKey bkeys e.2 = k
      · subst hk
        have h3 : ¬extractKey bkeys e.2 = HKey.one HK.null ∨ jt.keepsNull = true := by
          by_cases h : extractKey bkeys e.2 = HKey.one HK.null
          · right; cases hj : jt.keepsNull <;> simp_all
          · left; exact h
        simp [if_neg hn, get_push, h3]
      · simp [if_neg hn, get_push, hk]

theorem has_fold (jt : JT) (bkeys : List Nat) (k : HKey) (es : List (Id × Row)) :
    ∀ t : Table, (es.foldl (buildStep jt bkeys) t).has k =
      (t.has k || es.any fun e => enters jt bkeys k e.2) := by
  induction es with
  | nil => simp
  | cons e es ih =>
    intro t
    simp only [List.foldl_cons, ih, List.any_cons]
    unfold buildStep enters
    by_cases hn : extractKey bkeys e.2 = .one .null ∧ jt.keepsNull = false
    · simp [hn]
    · by_cases hk : extractKey bkeys e.2 = k
      · subst hk
        have h3 : ¬extractKey bkeys e.2 = HKey.one HK.null ∨ jt.keepsNull = true := by
          by_cases h : extractKey bkeys e.2 = HKey.one HK.null
          · right; cases hj : jt.keepsNull <;> simp_all
          · left; exact h
        simp [if_neg hn, has_push, h3]
      · simp [if_neg hn, has_push, hk]

/-! ### row ids -/

theorem rowsFrom_snd (ci : Nat) (c : Chunk) : ∀ ri, (rowsFrom ci ri c).map (·.2) = c := by
  induction c with
  | nil => intro ri; simp [rowsFrom]
  | cons r rs ih => intro ri; simp [rowsFrom, ih]

theorem indexedFrom_snd (cs : List Chunk) : ∀ ci, (indexedFrom ci cs).map (·.2) = cs.flatten := by
  induction cs with
  | nil => intro ci; simp [indexedFrom]
  | cons c cs ih => intro ci; simp [indexedFrom, rowsFrom_snd, ih]

theorem rowsFrom_mem (ci : Nat) (c : Chunk) : ∀ ri e, e ∈ rowsFrom ci ri c →
    e.1.1 = ci ∧ ri ≤ e.1.2 ∧ c[e.1.2 - ri]? = some e.2 := by
  induction c with
  | nil => intro ri e h; simp [rowsFrom] at h
  | cons r rs ih =>
    intro ri e h
    simp only [rowsFrom, List.mem_cons] at h
    rcases h with rfl | h
    · simp
    · obtain ⟨a, b, c'⟩ := ih (ri + 1) e h
      refine ⟨a, by omega, ?_⟩
      have : e.1.2 - ri = (e.1.2 - (ri + 1)) + 1 := by omega
      rw [this]; simpa using c'

theorem indexedFrom_mem (cs : List Chunk) : ∀ ci e, e ∈ indexedFrom ci cs →
    ci ≤ e.1.1 ∧ (cs[e.1.1 - ci]?.bind fun c => c[e.1.2]?) = some e.2 := by
  induction cs with
  | nil => intro ci e h; simp [indexedFrom] at h
  | cons c cs ih =>
    intro ci e h
    simp only [indexedFrom, List.mem_append] at h
    rcases h with h | h
    · obtain ⟨a, b, c'⟩ := rowsFrom_mem ci c 0 e h
      refine ⟨by omega, ?_⟩
      simp [a]; simpa using c'
    · obtain ⟨a, b⟩ := ih (ci + 1) e h
      refine ⟨by omega, ?_⟩
      have : e.1.1 - ci = (e.1.1 - (ci + 1)) + 1 := by omega
      rw [this]; simpa using b

theorem deref_indexed (cs : List Chunk) (e : Id × Row) (h : e ∈ indexedFrom 0 cs) :
    deref cs e.1 = e.2 := by
  have b : (cs[e.1.1]?.bind fun c => c[e.1.2]?) = some e.2 := by
    simpa using (indexedFrom_mem cs 0 e h).2
  unfold deref
  cases hc : cs[e.1.1]? with
  | none => simp [hc] at b
  | some c =>
    simp [hc] at b
    simp [List.getD, hc, b]

/-- the matches of a key, dereferenced: the build rows entering under that key, in build order -/
theorem get_buildTable (jt : JT) (bkeys : List Nat) (cs : List Chunk) (k : HKey) :
    ((buildTable jt bkeys cs).get k).map (deref cs) = cs.flatten.filter (enters jt bkeys k) := by
  unfold buildTable
  rw [get_fold]
  simp only [Table.get, List.nil_append, List.map_map]
  rw [← indexedFrom_snd cs 0, List.filter_map]
  apply List.map_congr_left
  intro e he
  exact deref_indexed cs e (List.mem_filter.mp he).1

theorem has_buildTable (jt : JT) (bkeys : List Nat) (cs : List Chunk) (k : HKey) :
    (buildTable jt bkeys cs).has k = cs.flatten.any (enters jt bkeys k) := by
  unfold buildTable
  rw [has_fold, ← indexedFrom_snd cs 0]
  simp [Table.has, List.any_map, Function.comp_def]

/-! ### the probe loop -/

theorem emitMatches_spec (cap : Nat) (mk : Id → Row) (ms : List Id) : ∀ b,
    (emitMatches cap mk ms b).1 ++ (emitMatches cap mk ms b).2.1.map mk = b ++ ms.map mk ∧
    ((emitMatches cap mk ms b).2.2 = false → (emitMatches cap mk ms b).2.1 = []) ∧
    ((emitMatches cap mk ms b).2.2 = true → cap ≤ (emitMatches cap mk ms b).1.length) := by
  induction ms with
  | nil => intro b; simp [emitMatches]
  | cons m ms ih =>
    intro b
    unfold emitMatches
    by_cases h : (b ++ [mk m]).length ≥ cap
    · simp only [if_pos h]; simp; simpa using h
    · simp only [if_neg h]
      obtain ⟨a, b', c⟩ := ih (b ++ [mk m])
      exact ⟨by simp [a], b', c⟩

/-- what one probe row contributes -/
def rowOut (E : Env) (l : Row) : List Row :=
  if E.jt = .semi then (if E.ht.has (extractKey E.pkeys l) then [l] else [])
  else if E.jt = .anti then (if E.ht.has (extractKey E.pkeys l) then [] else [l])
  else if E.ht.get (extractKey E.pkeys l) = [] then (if E.jt.padsLeft then [l ++ E.pad] else [])
  else (E.ht.get (extractKey E.pkeys l)).map fun m => l ++ deref E.bchunks m

/-- what the unfinished part of the current probe chunk still has to contribute -/
def remRows (E : Env) : List Row → Option (List Id) → List Row
  | [], _ => []
  | l :: ls, some ms => ms.map (fun m => l ++ deref E.bchunks m) ++ ls.flatMap (rowOut E)
  | l :: ls, none => (l :: ls).flatMap (rowOut E)

theorem probeLoop_spec (E : Env) (hcap : 1 ≤ E.cap) (rows : List Row) :
    ∀ pend b bm,
      (probeLoop E rows pend b bm).b ++ remRows E (probeLoop E rows pend b bm).rest (probeLoop E rows pend b bm).pend
        = b ++ remRows E rows pend ∧
      ((probeLoop E rows pend b bm).full = false →
        (probeLoop E rows pend b bm).rest = [] ∧ (probeLoop E rows pend b bm).pend = none) ∧
      ((probeLoop E rows pend b bm).full = true → (probeLoop E rows pend b bm).b ≠ []) := by
  induction rows with
  | nil => intro pend b bm; simp [probeLoop, remRows]
  | cons l ls ih =>
    intro pend b bm
    unfold probeLoop
    simp only
    by_cases hs : E.jt = .semi ∧ pend = none
    · simp only [if_pos hs]
      obtain ⟨a, b', c⟩ := ih none (if E.ht.has (extractKey E.pkeys l) then b ++ [l] else b) bm
      refine ⟨?_, b', c⟩
      rw [a]; obtain ⟨h1, h2⟩ := hs; subst h2
      cases ls <;> by_cases hh : E.ht.has (extractKey E.pkeys l) = true <;>
        simp [remRows, rowOut, h1, hh]
    · simp only [if_neg hs]
      by_cases ha : E.jt = .anti ∧ pend = none
      · simp only [if_pos ha]
        obtain ⟨a, b', c⟩ := ih none (if E.ht.has (extractKey E.pkeys l) then b else b ++ [l]) bm
        refine ⟨?_, b', c⟩
        rw [a]; obtain ⟨h1, h2⟩ := ha; subst h2
        cases ls <;> by_cases hh : E.ht.has (extractKey E.pkeys l) = true <;>
          simp [remRows, rowOut, h1, hh]
      · simp only [if_neg ha]
        cases pend with
        | none =>
          have hns : E.jt ≠ .semi := fun h => hs ⟨h, rfl⟩
          have hna : E.jt ≠ .anti := fun h => ha ⟨h, rfl⟩
          by_cases hm : E.ht.get (extractKey E.pkeys l) = []
          · simp only [hm, and_self, if_true]
            by_cases hf : (if E.jt.padsLeft = true then b ++ [l ++ E.pad] else b).length ≥ E.cap
            · simp only [if_pos hf]
              refine ⟨?_, by simp, ?_⟩
              · cases ls <;> by_cases hp : E.jt.padsLeft = true <;>
                  simp [remRows, rowOut, hns, hna, hm, hp]
              · intro _ h0; rw [h0] at hf; simp at hf; omega
            · simp only [if_neg hf]
              obtain ⟨a, b', c⟩ := ih none (if E.jt.padsLeft = true then b ++ [l ++ E.pad] else b) bm
              refine ⟨?_, b', c⟩
              rw [a]
              cases ls <;> by_cases hp : E.jt.padsLeft = true <;>
                simp [remRows, rowOut, hns, hna, hm, hp]
          · simp only [hm, and_false, if_false]
            obtain ⟨e1, e2, e3⟩ := emitMatches_spec E.cap (fun m => l ++ deref E.bchunks m)
              (E.ht.get (extractKey E.pkeys l)) b
            generalize emitMatches E.cap (fun m => l ++ deref E.bchunks m)
              (E.ht.get (extractKey E.pkeys l)) b = r at e1 e2 e3
            obtain ⟨rb, rms, rf⟩ := r
            simp only at e1 e2 e3 ⊢
            have hrow : remRows E (l :: ls) none =
                (E.ht.get (extractKey E.pkeys l)).map (fun m => l ++ deref E.bchunks m) ++ ls.flatMap (rowOut E) := by
              simp [remRows, rowOut, hns, hna, hm]
            cases rf with
            | true =>
              simp only [if_true]
              refine ⟨?_, by simp, ?_⟩
              · rw [hrow]; simp only [remRows]; rw [← List.append_assoc, e1, List.append_assoc]
              · intro _ h0; have := e3 rfl; rw [h0] at this; simp at this; omega
            | false =>
              have hnil := e2 rfl
              subst hnil
              simp only [Bool.false_eq_true, if_false]
              simp only [List.map_nil, List.append_nil] at e1
              by_cases hf : rb.length ≥ E.cap
              · simp only [if_pos hf]
                refine ⟨?_, by simp, ?_⟩
                · rw [hrow, e1]; cases ls <;> simp [remRows]
                · intro _ h0; rw [h0] at hf; simp at hf; omega
              · simp only [if_neg hf]
                obtain ⟨a, b', c⟩ := ih none rb
                  (if E.jt.tracksBuild = true then
                    (List.take ((E.ht.get (extractKey E.pkeys l)).length - ([] : List Id).length)
                      (E.ht.get (extractKey E.pkeys l))).foldl mark bm else bm)
                refine ⟨?_, b', c⟩
                rw [a, hrow, e1]; cases ls <;> simp [remRows]
        | some ms =>
          simp only [reduceCtorEq, false_and, if_false]
          obtain ⟨e1, e2, e3⟩ := emitMatches_spec E.cap (fun m => l ++ deref E.bchunks m) ms b
          generalize emitMatches E.cap (fun m => l ++ deref E.bchunks m) ms b = r at e1 e2 e3
          obtain ⟨rb, rms, rf⟩ := r
          simp only at e1 e2 e3 ⊢
          cases rf with
          | true =>
            simp only [if_true]
            refine ⟨?_, by simp, ?_⟩
            · simp only [remRows]; rw [← List.append_assoc, e1, List.append_assoc]
            · intro _ h0; have := e3 rfl; rw [h0] at this; simp at this; omega
          | false =>
            have hnil := e2 rfl
            subst hnil
            simp only [Bool.false_eq_true, if_false]
            simp only [List.map_nil, List.append_nil] at e1
            by_cases hf : rb.length ≥ E.cap
            · simp only [if_pos hf]
              refine ⟨?_, by simp, ?_⟩
              · rw [e1]; cases ls <;> simp [remRows]
              · intro _ h0; rw [h0] at hf; simp at hf; omega
            · simp only [if_neg hf]
              obtain ⟨a, b', c⟩ := ih none rb
                (if E.jt.tracksBuild = true then
                  (List.take (ms.length - ([] : List Id).length) ms).foldl mark bm else bm)
              refine ⟨?_, b', c⟩
              rw [a, e1]; cases ls <;> simp [remRows]

end Grafeo.Join
